#!/usr/bin/env python3
"""opmut.py — systematic operator mutants (a sensitivity sweep, not a registered check).

  opmut.py run <file> [<file> ...] [--out opmut/results.jsonl] [--jobs N]

For every relational / equality / logical operator of the given /repo source files (comparisons
with nil excepted) one mutant is made in a scratch copy outside /repo and /verif:
    <  <-> <=     >  <-> >=     == <-> !=     && <-> ||
A mutant that does not build, or that the repository's own tests of the package catch, is
uninteresting ("suite"). The others are "realistic changes that still pass the existing tests": the
quick checks of the properties that own the file are run against them; every mutant none of them
catches is a SURVIVOR to be looked at by hand (equivalent mutant, outside every statement, or a gap).
One JSON line per mutant."""
import json, os, shutil, subprocess, sys, tempfile, time, concurrent.futures as cf
V = os.path.dirname(os.path.abspath(__file__))
REPO = "/repo"
ENV = dict(os.environ, GOFLAGS="-mod=mod", GOPROXY="off", GOSUMDB="off", GOTOOLCHAIN="local")
OWN = {
    "json.go": ["C01", "C02"], "signing.go": ["C02"], "eventauth.go": ["C07", "C08", "C09"],
    "eventcontent.go": ["C07", "C08"], "stateresolution.go": ["C10", "C11", "C18"], "stateresolutionv2.go": ["C10", "C11", "C18"],
    "keyring.go": ["C12", "C06"], "event.go": ["C03", "C04", "C17", "C07"], "eventV1.go": ["C03", "C04", "C05", "C17"],
    "eventV2.go": ["C03", "C04", "C05", "C17"], "eventV3.go": ["C03", "C04", "C17"], "redactevent.go": ["C05"],
    "eventcrypto.go": ["C06", "C04", "C03"], "authstate.go": ["C14", "C18"], "authchain.go": ["C14"],
    "fclient/request.go": ["C13"], "fclient/resolve.go": ["C16"], "fclient/well_known.go": ["C16"],
    "spec/servername.go": ["C17"], "spec/userid.go": ["C17"], "spec/roomid.go": ["C17"], "spec/senderid.go": ["C17"],
    "spec/base64.go": ["C17"], "tokens/tokens.go": ["C20"], "handleinvite.go": ["C15"], "handlejoin.go": ["C15"],
    "handleleave.go": ["C15"], "performjoin.go": ["C15"], "eventversion.go": ["C17"], "backfill.go": ["C14", "C11"],
    "load.go": ["C14"], "fclient/client.go": ["C16", "C19"], "fclient/federationclient.go": ["C16"],
}
SWAP = {"<": "<=", "<=": "<", ">": ">=", ">=": ">", "==": "!=", "!=": "==", "&&": "||", "||": "&&"}


def sites(path):
    tool = os.path.join(tempfile.gettempdir(), "vf-opmut-tool")
    if not os.path.exists(tool):
        subprocess.run(["go", "build", "-o", tool, os.path.join(V, "opmut", "main.go")], cwd=V, env=dict(ENV, GOFLAGS=""), check=True)
    out = subprocess.run([tool, path], capture_output=True, text=True, check=True).stdout
    return [(int(a), b, int(c)) for a, b, c in (l.split() for l in out.splitlines())]


def one(file, off, tok, line):
    rec = {"file": file, "line": line, "op": tok, "to": SWAP[tok]}
    d = tempfile.mkdtemp(prefix="vf-opmut-")
    try:
        subprocess.run(["rsync", "-a", "--exclude", ".git", REPO + "/", d + "/"], check=True)
        p = os.path.join(d, file)
        src = open(p, "rb").read()
        assert src[off:off + len(tok)].decode() == tok
        open(p, "wb").write(src[:off] + SWAP[tok].encode() + src[off + len(tok):])
        rec["text"] = src.splitlines()[line - 1].decode(errors="replace").strip()[:160]
        pkg = "./" + os.path.dirname(file) if os.path.dirname(file) else "."
        b = subprocess.run(["go", "vet", pkg], cwd=d, env=ENV, capture_output=True, text=True)
        if b.returncode != 0:
            rec["verdict"] = "does-not-build"
            return rec
        t = subprocess.run(["go", "test", "-count=1", "./..."], cwd=d, env=ENV, capture_output=True, text=True, timeout=900)
        if t.returncode != 0:
            rec["verdict"] = "suite"
            return rec
        rec["checks"] = {}
        for pid in OWN[file]:
            t0 = time.time()
            r = subprocess.run([sys.executable, os.path.join(V, "vf.py"), "check", pid, "--tier", "quick"],
                               env=dict(os.environ, VF_REPO=d, VF_NO_EVIDENCE="1", VERIF_SEED="1"), capture_output=True, text=True)
            sigs = [l.strip()[:100] for l in r.stderr.splitlines() + r.stdout.splitlines() if l.strip().startswith("sig=")]
            rec["checks"][pid] = {"rc": r.returncode, "s": round(time.time() - t0), "sig": sigs[:1]}
            if r.returncode == 1:
                rec["verdict"] = "caught"
                return rec
        rec["verdict"] = "SURVIVOR"
        return rec
    except Exception as e:  # noqa
        rec["verdict"] = "error: %r" % (e,)
        return rec
    finally:
        shutil.rmtree(d, ignore_errors=True)


def main():
    args = sys.argv[2:]
    out, jobs = os.path.join(V, "opmut", "results.jsonl"), 2
    if "--out" in args:
        i = args.index("--out"); out = args[i + 1]; del args[i:i + 2]
    if "--jobs" in args:
        i = args.index("--jobs"); jobs = int(args[i + 1]); del args[i:i + 2]
    done = set()
    if os.path.exists(out):
        for l in open(out):
            r = json.loads(l)
            done.add((r["file"], r["line"], r["op"], r.get("off")))
    work = []
    for f in args:
        for off, tok, line in sites(os.path.join(REPO, f)):
            if (f, line, tok, off) not in done:
                work.append((f, off, tok, line))
    print("%d mutants" % len(work), flush=True)
    with cf.ThreadPoolExecutor(jobs) as ex, open(out, "a") as fh:
        futs = {ex.submit(one, *w): w for w in work}
        for fu in cf.as_completed(futs):
            r = fu.result()
            r["off"] = futs[fu][1]
            fh.write(json.dumps(r) + "\n"); fh.flush()
            print("%-26s %5d %-3s %-14s %s" % (r["file"], r["line"], r["op"], r["verdict"], r.get("text", "")[:90]), flush=True)


if __name__ == "__main__":
    main()
