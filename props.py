# Property table for vf.py: which overlay files each check needs (kept minimal per property so that a
# change to an unrelated internal function cannot break an unrelated check's build).
# One file per property under props.d/ (so properties can be added independently).
import glob as _glob
J = ["vf_json_test.go"]
EV = ["vf_evgen_test.go"]
AUTH = ["vf_rauth_test.go", "vf_c07_test.go", "vf_c08_test.go"]
RES = ["vf_room_test.go", "vf_rres_test.go"]
for _f in sorted(_glob.glob(os.path.join(VERIF, "props.d", "*.py"))):
    exec(open(_f).read())
