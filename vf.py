#!/usr/bin/env python3
"""vf.py — driver for the property-based / fuzzing checks of gomatrixserverlib (see DESIGN.md §2).

  vf.py setup                          warm the Go build cache, verify the toolchain works offline
  vf.py check <ID> [--tier quick|thorough] [--keep] [--repo DIR]
  vf.py replay <ID> <path>             re-run one saved Case (or fuzz input) against /repo's tree
  vf.py list <ID>                      show the registered sub-properties

Exit codes of `check`: 0 held (known findings allowed), 1 unlisted violation, 2 inconclusive
(infrastructure trouble: build failure, worker death, timeout) — never reported as a violation.
"""
import argparse, array, concurrent.futures as cf, glob, hashlib, json, os, re, shutil, subprocess, sys, tempfile, time

VERIF = os.path.dirname(os.path.abspath(__file__))
REPO = os.environ.get("VF_REPO", "/repo")
KNOWN_MAIN = os.path.join(VERIF, "KNOWN_FINDINGS.txt")
KNOWN = os.path.join(tempfile.gettempdir(), "vf-known-%d.txt" % os.getpid())

def collect_known():
    """KNOWN_FINDINGS.txt plus known.d/*.txt (per-property staging files), concatenated."""
    parts = []
    for f in [KNOWN_MAIN] + sorted(glob.glob(os.path.join(VERIF, "known.d", "*.txt"))):
        if os.path.exists(f):
            parts.append(open(f).read())
    open(KNOWN, "w").write("\n".join(parts))
NCPU = os.cpu_count() or 4

GOENV = dict(os.environ, GOFLAGS="-mod=mod", GOPROXY="off", GOSUMDB="off", GOTOOLCHAIN="local",
             GONOSUMDB="*", GONOSUMCHECK="1", GOFLAGS_EXTRA="")

PKGDIR = {"root": ".", "fclient": "fclient", "spec": "spec", "tokens": "tokens"}
PKGNAME = {"root": "gomatrixserverlib", "fclient": "fclient", "spec": "spec", "tokens": "tokens"}

# Per property: overlay files per package (from overlay/<pkg>/), shared templates per package (from
# overlay/shared/), fuzz targets (pkg, target, seconds) for the thorough tier, race build, assumptions.
KIT = ["vf_kit_test.go"]
PROPS = {}

def prop(pid, files, shared=None, fuzz=(), race=False, assumptions=(), timeout_quick=600, timeout_thorough=3600, rapidfuzz=(), fatalwatch=False, quick_shards=4):
    PROPS[pid] = dict(files=files, shared=shared or {}, fuzz=list(fuzz), race=race, rapidfuzz=list(rapidfuzz), fatalwatch=fatalwatch, quick_shards=quick_shards,
                      assumptions=list(assumptions), tq=timeout_quick, tt=timeout_thorough)

exec(open(os.path.join(VERIF, "props.py")).read())

# ------------------------------------------------------------------------------------------------

def log(*a):
    print(*a, file=sys.stderr, flush=True)

def run(cmd, cwd=None, env=None, timeout=None, capture=True):
    return subprocess.run(cmd, cwd=cwd, env=env or GOENV, timeout=timeout,
                          stdout=subprocess.PIPE if capture else None,
                          stderr=subprocess.STDOUT if capture else None, text=True, errors="replace")

class Infra(Exception):
    pass

def make_scratch(pid, pkgs_needed):
    """Copy /repo's working tree, drop its own tests, lay the overlay on top."""
    base = tempfile.mkdtemp(prefix="vf-%s-" % pid, dir=os.environ.get("VF_TMP", tempfile.gettempdir()))
    tree = os.path.join(base, "repo")
    r = run(["rsync", "-a", "--exclude", ".git", "--exclude", "testdata/rapid", REPO.rstrip("/") + "/", tree + "/"])
    if r.returncode != 0:
        raise Infra("rsync failed: " + r.stdout)
    for root, _dirs, files in os.walk(tree):
        for f in files:
            if f.endswith("_test.go"):
                os.unlink(os.path.join(root, f))
    cfg = PROPS[pid]
    for pkg in pkgs_needed:
        dst = os.path.join(tree, PKGDIR[pkg])
        for f in KIT + cfg["shared"].get(pkg, []):
            src = open(os.path.join(VERIF, "overlay", "shared", f)).read()
            src = src.replace("package VFPKG", "package " + PKGNAME[pkg], 1)
            open(os.path.join(dst, f), "w").write(src)
        for f in cfg["files"].get(pkg, []):
            shutil.copy(os.path.join(VERIF, "overlay", pkg, f), os.path.join(dst, f))
    r = run(["go", "mod", "edit", "-require", "pgregory.net/rapid@v1.3.0"], cwd=tree)
    if r.returncode != 0:
        raise Infra("go mod edit failed: " + r.stdout)
    extra = os.path.join(VERIF, "overlay", "go.sum.extra")
    if os.path.exists(extra):
        have = open(os.path.join(tree, "go.sum")).read()
        with open(os.path.join(tree, "go.sum"), "a") as fh:
            for line in open(extra):
                if line.strip() and line not in have:
                    fh.write(line)
    return base, tree

def build(tree, base, pkg, race):
    out = os.path.join(base, "bin", pkg + ".test")
    os.makedirs(os.path.dirname(out), exist_ok=True)
    cmd = ["go", "test", "-c", "-tags", "verif", "-trimpath", "-o", out]
    if race:
        cmd.append("-race")
    if os.environ.get("VF_COVER"):
        # development aid (not used by the registered commands): statement coverage of the library
        # by a check; every job writes a profile into $VF_COVER/
        cmd += ["-cover", "-coverpkg", "github.com/matrix-org/gomatrixserverlib/..."]
    cmd.append("./" + PKGDIR[pkg])
    t0 = time.time()
    r = run(cmd, cwd=tree, timeout=900)
    if r.returncode != 0:
        raise Infra("build of package %s failed:\n%s" % (pkg, r.stdout[-6000:]))
    log("  built %s in %.1fs" % (pkg, time.time() - t0))
    return out

def list_props(binary, tree, pkg, base):
    lst = os.path.join(base, "list-%s.json" % pkg)
    env = dict(GOENV, VF_MODE="list", VF_LIST=lst)
    r = run([binary, "-test.run", "^TestVFList$"], cwd=os.path.join(tree, PKGDIR[pkg]), env=env, timeout=120)
    if r.returncode != 0 or not os.path.exists(lst):
        raise Infra("listing properties failed for %s:\n%s" % (pkg, r.stdout[-3000:]))
    return json.load(open(lst))

def seed_value(seed, shard):
    s = (seed * 1000003 + shard) & 0x7FFFFFFFFFFFFFFF
    return s or 0x5EED

def read_hashes(path, into):
    if not os.path.exists(path):
        return
    data = open(path, "rb").read()
    pos = 0
    while pos < len(data):
        nl = data.index(b"\n", pos)
        name = data[pos:nl].decode()
        pos = nl + 1
        n = int.from_bytes(data[pos:pos + 8], "little")
        pos += 8
        a = array.array("Q")
        a.frombytes(data[pos:pos + 8 * n])
        pos += 8 * n
        into.setdefault(name, []).append(a)

def count_distinct(arrays):
    if len(arrays) == 1:
        return len(arrays[0])
    total = sum(len(a) for a in arrays)
    if total > 6_000_000:
        # too many to merge cheaply: shards use disjoint seeds/partitions; report the largest
        # provable lower bound (max over shards) — conservative.
        return max(len(a) for a in arrays)
    s = set()
    for a in arrays:
        s.update(a)
    return len(s)

def slug(s):
    return re.sub(r"[^A-Za-z0-9_.-]+", "_", s).strip("_")[:80]

def known_lines(pid):
    out = []
    if not os.path.exists(KNOWN):
        return out
    for line in open(KNOWN):
        line = line.strip()
        if not line.startswith("known:"):
            continue
        m = re.search(r"\bproperty=(\S+)", line)
        s = re.search(r"\bsig=(\S+)", line)
        if m and s and m.group(1) == pid:
            desc = line.split("sig=" + s.group(1), 1)[1].strip()
            out.append((s.group(1), desc))
    return out

def limit_memory():
    # no memory limit in the sandbox: a runaway case must kill its own worker, not the machine
    import resource
    resource.setrlimit(resource.RLIMIT_AS, (24 << 30, 24 << 30))

def run_job(job):
    t0 = time.time()
    try:
        r = subprocess.run(job["cmd"], cwd=job["cwd"], env=job["env"], timeout=job["timeout"], stdout=subprocess.PIPE,
                           stderr=subprocess.STDOUT, text=True, errors="replace", preexec_fn=job.get("limit"))
        job["rc"], job["out"] = r.returncode, r.stdout
    except subprocess.TimeoutExpired as e:
        job["rc"], job["out"] = -9, "TIMEOUT after %ss\n%s" % (job["timeout"], (e.stdout or "")[-3000:] if isinstance(e.stdout, str) else "")
    job["wall"] = time.time() - t0
    return job

FATAL_RE = re.compile(r"^(fatal error: .*|runtime: goroutine stack exceeds .*)$", re.M)
FRAME_RE = re.compile(r"^github\.com/matrix-org/gomatrixserverlib(?:/(\w+))?\.([^\s(]+(?:\([^)]*\))?[^\s(]*)\(", re.M)

def fatal_violation(pid, job):
    """A runtime fatal error (stack overflow, concurrent map access, ...) killed the worker: recover()
    can not see it.  With the fatal-crash watch on, the case that was being evaluated is on disk."""
    cur = job["env"].get("VF_CURCASE")
    out = job.get("out") or ""
    m = FATAL_RE.search(out)
    if not (cur and m and os.path.exists(cur)):
        return None
    try:
        rec = json.load(open(cur))
    except Exception:
        return None
    kind = "stack-overflow" if "stack" in m.group(1) else slug(m.group(1).replace("fatal error: ", ""))[:40]
    func = "unknown"
    for fm in FRAME_RE.finditer(out):
        name = fm.group(2)
        if "vf" in name.lower() and ("vf_" in name or name.startswith("vf") or name.startswith("c1")):
            continue
        name = re.sub(r"\.func\d+(\.\d+)*$", "", name.replace("(*", "").replace(")", ""))
        if re.match(r"^(Test|Fuzz|vf|c\d\d)", name):
            continue
        func = name
        break
    return dict(prop=rec.get("prop", job["name"]), sig="%s/fatal/%s/%s" % (pid, kind, func),
                msg="the process died with a runtime fatal error while this case was evaluated: %s\n%s" % (m.group(1), out[m.start():m.start() + 1500]),
                case=rec.get("case"))

def check(pid, tier, seed, keep=False):
    t0 = time.time()
    cfg = PROPS[pid]
    pkgs = sorted(set(cfg["files"]) | set(cfg["shared"]))
    os.makedirs(os.path.join(VERIF, "evidence"), exist_ok=True)
    evidence_path = os.path.join(VERIF, "evidence", pid + ".json")
    base = None
    infra = []
    merged = dict(props={}, samples={}, excluded={}, known_seen={}, violations={}, exhaustive={}, notes={}, unjudged={})
    hashes = {}
    fuzzinfo = {}
    rules = {}
    try:
        base, tree = make_scratch(pid, pkgs)
        jobs = []
        statsdir = os.path.join(base, "stats")
        os.makedirs(statsdir)
        timeout = cfg["tq"] if tier == "quick" else cfg["tt"]
        for pkg in pkgs:
            binary = build(tree, base, pkg, cfg["race"])
            cwd = os.path.join(tree, PKGDIR[pkg])
            for p in list_props(binary, tree, pkg, base):
                if not p["name"].startswith(pid + "/"):
                    continue
                rules[p["name"]] = p["rule"]
                # quick tier: rapid sub-properties run quick_shards processes of the full quick count each
                # (different seeds); enumerators run once, unpartitioned
                qs = min(cfg["quick_shards"], max(1, p["shards"])) if p["kind"] == "rapid" else 1
                nshards = qs if tier == "quick" else max(1, p["shards"])
                amount = p["quick"] if tier == "quick" else p["thorough"]
                for sh in range(nshards):
                    sp = os.path.join(statsdir, "%s-%d.json" % (slug(p["name"]), sh))
                    env = dict(GOENV, VF_MODE="run", VF_PROP=p["name"], VF_STATS=sp, VF_KNOWN=KNOWN,
                               VF_TIER=tier, VF_SHARD=str(sh), VF_NSHARDS=str(nshards), VF_SIZE=str(amount))
                    cmd = [binary, "-test.run", "^TestVF$", "-test.timeout", "%ds" % timeout,
                           "-rapid.nofailfile", "-rapid.seed", str(seed_value(seed, sh)),
                           "-rapid.shrinktime", "20s" if tier == "quick" else "60s"]
                    if p["kind"] == "rapid":
                        n = amount if tier == "quick" else max(1, amount // nshards)
                        cmd += ["-rapid.checks", str(n)]
                    if cfg.get("fatalwatch"):
                        env["VF_CURCASE"] = sp + ".cur"
                    if os.environ.get("VF_COVER"):
                        os.makedirs(os.environ["VF_COVER"], exist_ok=True)
                        cmd += ["-test.coverprofile", os.path.join(os.environ["VF_COVER"], "%s-%s-%d.cov" % (pid, slug(p["name"]), sh))]
                    jobs.append(dict(name=p["name"], shard=sh, cmd=cmd, cwd=cwd, env=env, stats=sp, timeout=timeout + 30,
                                     limit=None if cfg["race"] else limit_memory))
            # replay tier: committed witnesses for this property
            files = sorted(glob.glob(os.path.join(VERIF, "replays", pid, "*.json")))
            if files:
                sp = os.path.join(statsdir, "replay-%s.json" % pkg)
                env = dict(GOENV, VF_MODE="replay", VF_REPLAY=",".join(files), VF_STATS=sp, VF_KNOWN=KNOWN, VF_TIER=tier)
                if cfg.get("fatalwatch"):
                    env["VF_CURCASE"] = sp + ".cur"
                jobs.append(dict(name="replay/" + pkg, shard=0, cmd=[binary, "-test.run", "^TestVF$", "-test.timeout", "300s"],
                                 cwd=cwd, env=env, stats=sp, timeout=330))
        log("  %d jobs" % len(jobs))
        with cf.ThreadPoolExecutor(max_workers=NCPU) as ex:
            done = list(ex.map(run_job, jobs))
        for j in done:
            st = None
            if os.path.exists(j["stats"]):
                try:
                    st = json.load(open(j["stats"]))
                except Exception:
                    st = None
            fatal = fatal_violation(pid, j) if (st is None or j["rc"] != 0) else None
            if fatal:
                merged["violations"][fatal["prop"] + "|" + fatal["sig"]] = fatal
                if st is None:
                    continue
            if st is None:
                infra.append("job %s shard %d produced no stats (rc=%s):\n%s" % (j["name"], j["shard"], j["rc"], j["out"][-2500:]))
                continue
            read_hashes(j["stats"] + ".hashes", hashes)
            for name, ps in st["props"].items():
                m = merged["props"].setdefault(name, dict(evaluations=0, nontrivial=0, classes={}, unjudged={}))
                m["evaluations"] += ps["evaluations"]
                m["nontrivial"] += ps["nontrivial"]
                for k, v in ps["classes"].items():
                    m["classes"][k] = m["classes"].get(k, 0) + v
                for k, v in (ps.get("unjudged") or {}).items():
                    m["unjudged"][k] = m["unjudged"].get(k, 0) + v
            for k, v in st["samples"].items():
                merged["samples"].setdefault(k, v)
            for k, v in st["excluded_known"].items():
                merged["excluded"][k] = merged["excluded"].get(k, 0) + v
            for k, v in st["known_seen"].items():
                old = merged["known_seen"].get(k)
                if old is None or len(json.dumps(old["case"])) > len(json.dumps(v["case"])):
                    merged["known_seen"][k] = v
            for k, v in st["violations"].items():
                key = v["prop"] + "|" + v["sig"]
                old = merged["violations"].get(key)
                if old is None or len(json.dumps(old["case"])) > len(json.dumps(v["case"])):
                    merged["violations"][key] = v
            for k, v in st["exhaustive"].items():
                merged["exhaustive"][k] = v
            for k, v in st["notes"].items():
                merged["notes"][k] = merged["notes"].get(k, 0) + v
            viol_here = [v for v in st["violations"].values()]
            if j["rc"] != 0 and not viol_here and not fatal:
                infra.append("job %s shard %d failed without a recorded violation (rc=%s):\n%s" % (j["name"], j["shard"], j["rc"], j["out"][-2500:]))
            if j["rc"] == 0 and j["name"] in rules and "-rapid.checks" in j["cmd"]:
                m = re.search(r"OK, passed (\d+) tests", j["out"])
                # (only printed with -test.v; nothing to compare otherwise)
        if tier == "thorough":
            for (pkg, target, secs) in cfg["fuzz"]:
                fuzzinfo[target] = run_fuzz(pid, tree, pkg, target, secs, merged, infra)
            for (pkg, propname, secs) in cfg["rapidfuzz"]:
                fuzzinfo["FuzzVF_Rapid[%s]" % propname] = run_fuzz(pid, tree, pkg, "FuzzVF_Rapid", secs, merged, infra, vf_prop=propname)
    except Infra as e:
        infra.append(str(e))
    finally:
        if base and not keep:
            shutil.rmtree(base, ignore_errors=True)
        elif base:
            log("  scratch kept at", base)

    # ---- verdict -------------------------------------------------------------------------
    evaluations = sum(p["evaluations"] for p in merged["props"].values())
    distinct = sum(count_distinct(a) for a in hashes.values())
    viols = list(merged["violations"].values())
    newdir = os.path.join(VERIF, "replays", pid, "new")
    if os.environ.get("VF_NO_EVIDENCE"):
        newdir = os.path.join(tempfile.gettempdir(), "vf-mutant-replays", pid)
    lines = []
    for v in viols:
        os.makedirs(newdir, exist_ok=True)
        body = json.dumps(dict(prop=v["prop"], sig=v["sig"], msg=v["msg"], case=v["case"]), indent=1, ensure_ascii=False)
        h = hashlib.sha1(body.encode()).hexdigest()[:8]
        path = v.get("path") or os.path.join(newdir, "%s-%s.json" % (slug(v["sig"]), h))
        if not v.get("path"):
            open(path, "w").write(body + "\n")
        lines.append("VIOLATION property=%s replay=%s" % (pid, path))
        log("    sig=%s  %s" % (v["sig"], v["msg"][:600]))
    for sig, desc in known_lines(pid):
        if sig in merged["known_seen"] or merged["excluded"].get(sig):
            lines.append("KNOWN-FINDING: property=%s sig=%s %s" % (pid, sig, desc))
        else:
            log("  note: listed known finding sig=%s was not reproduced in this run" % sig)
    samples = []
    for k in sorted(merged["samples"]):
        if len(samples) >= 10:
            break
        samples.append({"class": k, "case": merged["samples"][k]})
    rule_text = " | ".join(sorted(set(rules.values()))) or "n/a"
    cov = dict(evaluations=evaluations, distinct_nontrivial=distinct, rule=rule_text, samples=samples,
               sub_checks={k: dict(evaluations=v["evaluations"], nontrivial_evaluations=v["nontrivial"],
                                   distinct_nontrivial=count_distinct(hashes.get(k, [array.array("Q")])),
                                   classes=v["classes"], unjudged=v["unjudged"]) for k, v in sorted(merged["props"].items())},
               excluded_known=merged["excluded"], notes=merged["notes"], fuzz=fuzzinfo,
               exhaustive_parts=sorted(k for k, v in merged["exhaustive"].items() if v),
               violation_signatures=sorted(v["sig"] for v in viols), infrastructure=infra[:5])
    ev = dict(property_id=pid, tier=tier, seed=seed, level="exploration", coverage=cov,
              assumptions=cfg["assumptions"], wall_s=round(time.time() - t0, 2), violations=len(viols))
    if not os.environ.get("VF_NO_EVIDENCE"):
        open(evidence_path, "w").write(json.dumps(ev, indent=1, ensure_ascii=False) + "\n")
    for l in lines:
        print(l, flush=True)
    print("%s tier=%s seed=%d evaluations=%d distinct_nontrivial=%d violations=%d known=%d wall=%.1fs" % (
        pid, tier, seed, evaluations, distinct, len(viols), len([l for l in lines if l.startswith("KNOWN")]), time.time() - t0), flush=True)
    if viols:
        return 1
    if infra:
        for i in infra:
            log("INCONCLUSIVE:", i)
        return 2
    return 0

def run_fuzz(pid, tree, pkg, target, secs, merged, infra, vf_prop=None):
    """Native coverage-guided campaign; the semantic oracle is inside the target."""
    pkgdir = os.path.join(tree, PKGDIR[pkg])
    corpus_src = os.path.join(VERIF, "corpus", target)
    corpus_dst = os.path.join(pkgdir, "testdata", "fuzz", target)
    os.makedirs(corpus_dst, exist_ok=True)
    for f in glob.glob(os.path.join(corpus_src, "*")):
        shutil.copy(f, corpus_dst)
    before = set(os.listdir(corpus_dst))
    env = dict(GOENV, VF_KNOWN=KNOWN, VF_MODE="fuzz")
    if vf_prop:
        env["VF_PROP"] = vf_prop
        shutil.rmtree(corpus_dst, ignore_errors=True)  # entropy corpora are per property: start empty
        os.makedirs(corpus_dst, exist_ok=True)
        before = set()
    cmd = ["go", "test", "-tags", "verif", "-trimpath", "-run", "^$", "-fuzz", "^%s$" % target,
           "-fuzztime", "%ds" % secs, "-test.timeout", "%ds" % (secs + 600), "./" + PKGDIR[pkg]]
    t0 = time.time()
    try:
        r = run(cmd, cwd=tree, env=env, timeout=secs + 900)
        out, rc = r.stdout, r.returncode
    except subprocess.TimeoutExpired:
        infra.append("fuzz target %s timed out" % target)
        return dict(status="timeout")
    info = dict(seconds=round(time.time() - t0, 1), execs=0, new_interesting=0, status="ok")
    for m in re.finditer(r"execs: (\d+) .*?new interesting: (\d+)", out):
        info["execs"], info["new_interesting"] = int(m.group(1)), int(m.group(2))
    if rc != 0:
        after = set(os.listdir(corpus_dst)) - before
        m = re.search(r"VFVIOLATION prop=(\S+) sig=(\S+): (.*)", out)
        if after or m or "panic:" in out:
            sig = m.group(2).rstrip(":") if m else "fuzz-crash/" + target
            msg = m.group(3) if m else out[-1500:]
            path = None
            for f in after:
                d = os.path.join(VERIF, "replays", pid, "new")
                os.makedirs(d, exist_ok=True)
                path = os.path.join(d, "fuzz-%s-%s" % (target, f))
                shutil.copy(os.path.join(corpus_dst, f), path)
            case = None
            mc = re.search(r"VFCASE (.*)", out)
            if mc:
                try:
                    case = json.loads(mc.group(1))
                except Exception:
                    case = None
            rec = dict(prop=(m.group(1) if m else pid + "/fuzz"), sig=sig, msg=msg, case=case)
            if case is None and path:
                rec["path"] = path
            merged["violations"][rec["prop"] + "|" + sig] = rec
            info["status"] = "violation"
        else:
            infra.append("fuzz target %s failed to run:\n%s" % (target, out[-2500:]))
            info["status"] = "error"
    return info

def replay(pid, path):
    cfg = PROPS[pid]
    path = os.path.abspath(path)
    head = open(path, "rb").read(64)
    pkgs = sorted(set(cfg["files"]) | set(cfg["shared"]))
    base, tree = make_scratch(pid, pkgs)
    rc = 0
    try:
        if head.startswith(b"go test fuzz"):
            m = re.match(r"fuzz-(FuzzVF_[A-Za-z0-9_]+?)-(.+)$", os.path.basename(path))
            target = m.group(1)
            pkg = [p for (p, t, _s) in cfg["fuzz"] if t == target][0]
            d = os.path.join(tree, PKGDIR[pkg], "testdata", "fuzz", target)
            os.makedirs(d, exist_ok=True)
            shutil.copy(path, os.path.join(d, "replay"))
            r = run(["go", "test", "-tags", "verif", "-trimpath", "-run", "^%s$/^replay$" % target, "./" + PKGDIR[pkg]],
                    cwd=tree, env=dict(GOENV, VF_KNOWN=KNOWN))
            print(r.stdout[-4000:])
            if r.returncode != 0:
                print("VIOLATION property=%s replay=%s" % (pid, path))
                rc = 1
        else:
            for pkg in pkgs:
                binary = build(tree, base, pkg, cfg["race"])
                sp = os.path.join(base, "replay-stats.json")
                env = dict(GOENV, VF_MODE="replay", VF_REPLAY=path, VF_STATS=sp, VF_KNOWN=os.environ.get("VF_KNOWN_OVERRIDE", KNOWN))
                r = run([binary, "-test.run", "^TestVF$", "-test.v"], cwd=os.path.join(tree, PKGDIR[pkg]), env=env, timeout=600)
                for line in r.stdout.splitlines():
                    if "VFREPLAY" in line or "VFVIOLATION" in line or "VFHARNESS" in line:
                        print(line.strip())
                if "VFREPLAY violation" in r.stdout:
                    print("VIOLATION property=%s replay=%s" % (pid, path))
                    rc = 1
                elif r.returncode != 0 and "VFREPLAY" not in r.stdout:
                    print(r.stdout[-3000:])
                    rc = max(rc, 2)
    finally:
        shutil.rmtree(base, ignore_errors=True)
    return rc

def setup():
    r = run(["go", "version"])
    print(r.stdout.strip())
    # warm the build cache with the cheapest property of each package
    rc = 0
    for pid in sorted(PROPS):
        cfg = PROPS[pid]
        pkgs = sorted(set(cfg["files"]) | set(cfg["shared"]))
        base = None
        try:
            base, tree = make_scratch(pid, pkgs)
            for pkg in pkgs:
                build(tree, base, pkg, cfg["race"])
            print("setup: %s builds" % pid)
        except Infra as e:
            print("setup: %s FAILED: %s" % (pid, e))
            rc = 1
        finally:
            if base:
                shutil.rmtree(base, ignore_errors=True)
    return rc

def main():
    import atexit
    collect_known()
    atexit.register(lambda: os.path.exists(KNOWN) and os.unlink(KNOWN))
    ap = argparse.ArgumentParser()
    sub = ap.add_subparsers(dest="cmd", required=True)
    sub.add_parser("setup")
    c = sub.add_parser("check")
    c.add_argument("id")
    c.add_argument("--tier", default=os.environ.get("VERIF_TIER", "quick"), choices=["quick", "thorough"])
    c.add_argument("--keep", action="store_true")
    r = sub.add_parser("replay")
    r.add_argument("id")
    r.add_argument("path")
    l = sub.add_parser("list")
    l.add_argument("id")
    a = ap.parse_args()
    if a.cmd == "setup":
        sys.exit(setup())
    if a.cmd == "check":
        try:
            seed = int(os.environ.get("VERIF_SEED", "1"))
        except ValueError:
            seed = 1
        log("check %s tier=%s seed=%d repo=%s" % (a.id, a.tier, seed, REPO))
        sys.exit(check(a.id, a.tier, seed, a.keep))
    if a.cmd == "replay":
        sys.exit(replay(a.id, a.path))
    if a.cmd == "list":
        cfg = PROPS[a.id]
        pkgs = sorted(set(cfg["files"]) | set(cfg["shared"]))
        base, tree = make_scratch(a.id, pkgs)
        try:
            for pkg in pkgs:
                b = build(tree, base, pkg, cfg["race"])
                for p in list_props(b, tree, pkg, base):
                    if p["name"].startswith(a.id + "/"):
                        print(json.dumps(p))
        finally:
            shutil.rmtree(base, ignore_errors=True)

if __name__ == "__main__":
    main()
