#!/usr/bin/env python3
"""recheck.py [--seed N] [--jobs K] [--only PREFIX] [--match SUBSTRING] — development aid: re-run the quick check of every stored seeded
change (seeded/<name>/patch.diff) against the CURRENT machinery, without re-confirming the change itself
(seedtest.py does that when a change is first stored).

For each change: scratch copy of /repo HEAD, apply the patch, run `vf.py check <ID>` for the property that
owns it and then for the other checks that caught it when it was stored (meta.json confirmed.checks), stop at
the first exit 1. One line per change: <name> caught-by=<ID>|MISSED|obsolete|does-not-apply."""
import concurrent.futures as cf, json, os, shutil, subprocess, sys, tempfile
V = os.path.dirname(os.path.abspath(__file__))
seed = sys.argv[sys.argv.index("--seed") + 1] if "--seed" in sys.argv else "1"
jobs = int(sys.argv[sys.argv.index("--jobs") + 1]) if "--jobs" in sys.argv else 4
only = sys.argv[sys.argv.index("--only") + 1] if "--only" in sys.argv else ""
match = sys.argv[sys.argv.index("--match") + 1] if "--match" in sys.argv else ""

def one(name):
    d = os.path.join(V, "seeded", name)
    try:
        meta = json.load(open(os.path.join(d, "meta.json")))
    except Exception:
        return name, "no-meta"
    if meta.get("obsolete"):
        return name, "obsolete"
    pid = name.split("-")[0]
    checks = [pid]
    for k, v in (meta.get("confirmed", {}).get("checks") or {}).items():
        if k != pid and v.get("verdict") == "caught":
            checks.append(k)
    for k in meta.get("also_caught_by", []):
        if k not in checks:
            checks.append(k)
    s = tempfile.mkdtemp(prefix="vf-recheck-")
    try:
        subprocess.run("git -C /repo archive HEAD | tar -x -C %s" % s, shell=True, check=True)
        r = subprocess.run(["git", "apply", "--whitespace=nowarn", os.path.join(d, "patch.diff")], cwd=s, capture_output=True, text=True)
        if r.returncode != 0:
            r = subprocess.run(["patch", "-p1", "-s", "-i", os.path.join(d, "patch.diff")], cwd=s, capture_output=True, text=True)
            if r.returncode != 0:
                return name, "does-not-apply"
        for cid in checks:
            r = subprocess.run([sys.executable, os.path.join(V, "vf.py"), "check", cid, "--tier", "quick"],
                               env=dict(os.environ, VF_REPO=s, VF_NO_EVIDENCE="1", VERIF_SEED=seed), capture_output=True, text=True)
            if r.returncode == 1:
                return name, "caught-by=" + cid
            if r.returncode == 2:
                return name, "INCONCLUSIVE(%s): %s" % (cid, r.stderr[-300:].replace("\n", " "))
        return name, "MISSED (ran %s)" % ",".join(checks)
    finally:
        shutil.rmtree(s, ignore_errors=True)

names = sorted(n for n in os.listdir(os.path.join(V, "seeded")) if n.startswith(only) and match in n and os.path.exists(os.path.join(V, "seeded", n, "patch.diff")))
with cf.ThreadPoolExecutor(max_workers=jobs) as ex:
    for name, verdict in ex.map(one, names):
        print(name, verdict, flush=True)
