#!/usr/bin/env python3
"""mut.py — sensitivity mutants (DESIGN.md section 7).
  mut.py new <ID> <name> <file> <old> <new>   create mutants/<ID>-<name>.patch (one textual replacement in /repo/<file>)
  mut.py run [<ID> ...] [--tier quick]         apply each mutant to a scratch copy of /repo, run the check, expect exit 1
Mutants are applied only to scratch copies (never to /repo)."""
import difflib, glob, os, shutil, subprocess, sys, tempfile, json, time
V = os.path.dirname(os.path.abspath(__file__))
REPO = "/repo"

def new(pid, name, file, old, new_):
    src = open(os.path.join(REPO, file)).read()
    if src.count(old) != 1:
        sys.exit("pattern occurs %d times in %s" % (src.count(old), file))
    dst = src.replace(old, new_)
    diff = "".join(difflib.unified_diff(src.splitlines(True), dst.splitlines(True), "a/" + file, "b/" + file))
    os.makedirs(os.path.join(V, "mutants"), exist_ok=True)
    path = os.path.join(V, "mutants", "%s-%s.patch" % (pid, name))
    open(path, "w").write(diff)
    print("wrote", path)

def run(ids, tier):
    results = {}
    patches = sorted(glob.glob(os.path.join(V, "mutants", "*.patch")))
    for p in patches:
        base = os.path.basename(p)[:-6]
        pid = base.split("-", 1)[0]
        if ids and pid not in ids:
            continue
        d = tempfile.mkdtemp(prefix="vf-mut-")
        try:
            subprocess.run(["rsync", "-a", "--exclude", ".git", REPO + "/", d + "/"], check=True)
            r = subprocess.run(["patch", "-p1", "-s", "-i", p], cwd=d, capture_output=True, text=True)
            if r.returncode != 0:
                results[base] = "PATCH-FAILED " + r.stdout[-200:]
                print(base, results[base]); continue
            env = dict(os.environ, GOFLAGS="-mod=mod", GOPROXY="off", GOSUMDB="off", GOTOOLCHAIN="local")
            b = subprocess.run(["go", "build", "./..."], cwd=d, env=env, capture_output=True, text=True)
            if b.returncode != 0:
                results[base] = "DOES-NOT-COMPILE"
                print(base, results[base], b.stderr[-300:]); continue
            t0 = time.time()
            r = subprocess.run([sys.executable, os.path.join(V, "vf.py"), "check", pid, "--tier", tier],
                               env=dict(os.environ, VF_REPO=d, VF_NO_EVIDENCE="1"), capture_output=True, text=True)
            sigs = [l for l in r.stderr.splitlines() if l.strip().startswith("sig=")]
            results[base] = {0: "MISSED", 1: "caught", 2: "INCONCLUSIVE"}.get(r.returncode, "rc=%d" % r.returncode)
            print("%-40s %-12s %.0fs %s" % (base, results[base], time.time() - t0, (sigs[0].strip()[:110] if sigs else "")))
            if r.returncode == 2:
                print(r.stderr[-800:])
        finally:
            shutil.rmtree(d, ignore_errors=True)
    json.dump(results, open(os.path.join(V, "mutants", "last_run.json"), "w"), indent=1)

if __name__ == "__main__":
    if sys.argv[1] == "new":
        new(*sys.argv[2:7])
    elif sys.argv[1] == "run":
        args = sys.argv[2:]
        tier = "quick"
        if "--tier" in args:
            i = args.index("--tier"); tier = args[i + 1]; del args[i:i + 2]
        run(args, tier)
