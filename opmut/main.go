// opmut lists the positions of relational / equality / logical operators in a Go source file
// (outside comments and string literals), one "offset token" per line. Used by opmut.py.
package main

import (
	"fmt"
	"go/scanner"
	"go/token"
	"os"
)

func main() {
	src, err := os.ReadFile(os.Args[1])
	if err != nil {
		panic(err)
	}
	fset := token.NewFileSet()
	f := fset.AddFile(os.Args[1], fset.Base(), len(src))
	var s scanner.Scanner
	s.Init(f, src, nil, 0)
	type tk struct {
		off int
		tok token.Token
		lit string
	}
	var toks []tk
	for {
		pos, tok, lit := s.Scan()
		if tok == token.EOF {
			break
		}
		toks = append(toks, tk{f.Offset(pos), tok, lit})
	}
	for i, t := range toks {
		switch t.tok {
		case token.LSS, token.LEQ, token.GTR, token.GEQ, token.EQL, token.NEQ, token.LAND, token.LOR:
			// comparisons with nil are left alone (error plumbing)
			if (t.tok == token.EQL || t.tok == token.NEQ) && i+1 < len(toks) && toks[i+1].tok == token.IDENT && toks[i+1].lit == "nil" {
				continue
			}
			fmt.Printf("%d %s %d\n", t.off, t.tok, f.Line(f.Pos(t.off)))
		}
	}
}
