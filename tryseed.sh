#!/bin/bash
# tryseed.sh <seeded name> <check id>... — development aid: apply one stored seeded change to a scratch copy of /repo HEAD
# and run the quick tier of the named checks against it (no evidence written). Prints the exit code and VIOLATION lines.
name=$1; shift
s=$(mktemp -d /tmp/vf-try-XXXXXX)
trap 'rm -rf "$s"' EXIT
git -C /repo archive HEAD | tar -x -C "$s"
(cd "$s" && git apply --whitespace=nowarn /verif/seeded/$name/patch.diff) || { echo "$name does-not-apply"; exit 3; }
for c in "$@"; do
  out=$(VF_REPO=$s VF_NO_EVIDENCE=1 VERIF_SEED=${VERIF_SEED:-1} python3 /verif/vf.py check $c --tier ${TIER:-quick} 2>&1); rc=$?
  echo "$name $c rc=$rc $(echo "$out" | grep -c VIOLATION) violations: $(echo "$out" | grep VIOLATION | sed 's/.*replay=//' | xargs -n1 basename 2>/dev/null | cut -c1-90 | head -4 | tr '\n' ' ')"
done
