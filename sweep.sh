#!/bin/bash
# sweep.sh [tier] [seeds...] — run every claimed check at several seeds; print one line per run. Exit non-zero if any run is not 0.
TIER=${1:-quick}; shift
SEEDS=${@:-1 2 3 7 12345}
cd "$(dirname "$0")"
bad=0
for id in $(cat claimed.txt); do
  for s in $SEEDS; do
    out=$(VERIF_SEED=$s VF_NO_EVIDENCE=1 python3 vf.py check $id --tier $TIER 2>&1); rc=$?
    line=$(echo "$out" | grep "^$id tier" | tail -1)
    echo "rc=$rc $line"
    if [ $rc -ne 0 ]; then bad=1; echo "$out" | grep -E "sig=|INCONCLUSIVE" | cut -c1-300 | head -5; fi
  done
done
exit $bad
