#!/usr/bin/env python3
"""seedtest.py — confirm a seeded change produced by an independent sub-agent and run our checks on it.

  seedtest.py <property id> <src dir with patch.diff, demo_test.go, meta.json> [--keep-as <name>] [--checks C01,C02]

Steps (all in scratch copies of /repo's HEAD, never in /repo):
  1. the patch applies, `go build ./... && go vet ./...` pass, the existing test suite passes;
  2. the demonstration fails with the patch and passes without it;
  3. `vf.py check <id>` (quick tier, VF_REPO=scratch) — exit 1 means our check catches it.
With --keep-as the change is stored under /verif/seeded/<name>/ with meta.json extended by what was run."""
import json, os, shutil, subprocess, sys, tempfile, time

V = os.path.dirname(os.path.abspath(__file__))
ENV = dict(os.environ, GOFLAGS="-mod=mod", GOPROXY="off", GOSUMDB="off", GOTOOLCHAIN="local")

def sh(cmd, cwd, timeout=1800):
    r = subprocess.run(cmd, cwd=cwd, env=ENV, shell=isinstance(cmd, str), capture_output=True, text=True, timeout=timeout)
    return r.returncode, (r.stdout + r.stderr)

def scratch():
    d = tempfile.mkdtemp(prefix="vf-seed-")
    subprocess.run("git -C /repo archive HEAD | tar -x -C %s" % d, shell=True, check=True)
    return d

def main():
    pid, src = sys.argv[1], os.path.abspath(sys.argv[2])
    keep = sys.argv[sys.argv.index("--keep-as") + 1] if "--keep-as" in sys.argv else None
    checks = sys.argv[sys.argv.index("--checks") + 1].split(",") if "--checks" in sys.argv else [pid]
    tier = sys.argv[sys.argv.index("--tier") + 1] if "--tier" in sys.argv else "quick"
    meta = json.load(open(os.path.join(src, "meta.json")))
    demo = [f for f in os.listdir(src) if f.endswith("_test.go") or f.endswith(".go")]
    loc = meta.get("demo_location", "")
    result = dict(ran=[], head=subprocess.run("git -C /repo rev-parse --short HEAD", shell=True, capture_output=True, text=True).stdout.strip())
    clean, patched = scratch(), scratch()
    try:
        rc, out = sh(["git", "apply", "--whitespace=nowarn", os.path.join(src, "patch.diff")], patched)
        if rc != 0:
            rc, out = sh(["patch", "-p1", "-i", os.path.join(src, "patch.diff")], patched)
        result["applies"] = rc == 0
        if rc != 0:
            print("PATCH DOES NOT APPLY:\n" + out[-1500:]); return finish(result, keep, src, meta)
        rc, out = sh("go build ./... && go vet ./...", patched)
        result["builds"] = rc == 0
        if rc != 0:
            print("DOES NOT BUILD/VET:\n" + out[-1500:]); return finish(result, keep, src, meta)
        rc, out = sh("go test -count=1 ./...", patched)
        result["existing_tests_pass"] = rc == 0
        result["ran"].append("go build ./... && go vet ./... && go test -count=1 ./... (patched): rc=%d" % rc)
        if rc != 0:
            print("EXISTING TESTS FAIL WITH THE PATCH:\n" + out[-2500:]); return finish(result, keep, src, meta)
        # demo: place *_test.go in the package dir named in demo_location (default repo root)
        pkgdir = "."
        for cand in ("fclient", "spec", "tokens"):
            if ("package " + cand) in open(os.path.join(src, demo[0])).read():
                pkgdir = cand
        for d in (clean, patched):
            for f in demo:
                shutil.copy(os.path.join(src, f), os.path.join(d, pkgdir, f))
        pat = "|".join(sorted(set(l.split("(")[0].split()[1] for f in demo for l in open(os.path.join(src, f)) if l.startswith("func Test"))))
        race = ["-race"] if "-race" in json.dumps(meta) else []
        rc_p, out_p = sh(["go", "test"] + race + ["-count=1", "-run", pat or ".", "./" + pkgdir], patched)
        rc_c, out_c = sh(["go", "test"] + race + ["-count=1", "-run", pat or ".", "./" + pkgdir], clean)
        result["demo_fails_with_patch"], result["demo_passes_without"] = rc_p != 0, rc_c == 0
        result["ran"].append("go test -run '%s' ./%s: patched rc=%d, clean rc=%d" % (pat, pkgdir, rc_p, rc_c))
        if rc_c != 0:
            print("DEMO FAILS ON THE CLEAN TREE:\n" + out_c[-2000:])
        if rc_p == 0:
            print("DEMO PASSES WITH THE PATCH (not a demonstration)")
        for f in demo:
            os.unlink(os.path.join(patched, pkgdir, f))
        result["checks"] = {}
        for cid in checks:
            t0 = time.time()
            r = subprocess.run([sys.executable, os.path.join(V, "vf.py"), "check", cid, "--tier", tier],
                               env=dict(os.environ, VF_REPO=patched, VF_NO_EVIDENCE="1"), capture_output=True, text=True)
            sigs = sorted(set(l.strip().split()[0] for l in r.stderr.splitlines() if l.strip().startswith("sig=")))
            verdict = {0: "MISSED", 1: "caught", 2: "INCONCLUSIVE"}.get(r.returncode, str(r.returncode))
            result["checks"][cid] = dict(verdict=verdict, tier=tier, seconds=round(time.time() - t0, 1), signatures=sigs[:6])
            result["ran"].append("VF_REPO=<patched copy> python3 vf.py check %s --tier %s: exit %d" % (cid, tier, r.returncode))
            print("%s on %s: %s %s" % (cid, os.path.basename(src), verdict, sigs[:3]))
            if r.returncode == 2:
                print(r.stderr[-1200:])
    finally:
        shutil.rmtree(clean, ignore_errors=True)
        shutil.rmtree(patched, ignore_errors=True)
    finish(result, keep, src, meta)

def finish(result, keep, src, meta):
    print(json.dumps({k: v for k, v in result.items() if k != "ran"}, indent=1))
    ok = result.get("existing_tests_pass") and result.get("demo_fails_with_patch") and result.get("demo_passes_without")
    if keep and ok:
        dst = os.path.join(V, "seeded", keep)
        os.makedirs(dst, exist_ok=True)
        for f in os.listdir(src):
            shutil.copy(os.path.join(src, f), dst)
        meta["confirmed"] = result
        json.dump(meta, open(os.path.join(dst, "meta.json"), "w"), indent=1)
        print("kept as", dst)
    elif keep:
        print("NOT kept (not confirmed)")

if __name__ == "__main__":
    main()
