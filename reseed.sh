#!/bin/bash
# reseed.sh — re-run every stored seeded change against the current machinery and /repo HEAD.
# One line per seeded change: <name> <verdict of the property's own check> [other checks...]
cd "$(dirname "$0")"
for d in seeded/*/; do
  n=$(basename $d); id=${n%%-*}
  out=$(python3 seedtest.py $id $d 2>&1)
  if echo "$out" | grep -q "PATCH DOES NOT APPLY"; then echo "$n patch-does-not-apply-to-HEAD"; continue; fi
  if echo "$out" | grep -q "EXISTING TESTS FAIL\|DOES NOT BUILD"; then echo "$n no-longer-builds-or-passes"; continue; fi
  echo "$n $(echo "$out" | grep -E " on [^ ]+: " | sed 's/ on [^:]*:/:/' | cut -c1-90 | tr '\n' ' ')"
done
