prop("C09", files={"root": ["vf_c09_test.go", "vf_c11_test.go", "vf_c10_test.go"] + RES + AUTH + EV}, shared={"root": J + ["vf_ids_test.go"]},
     assumptions=["in-package access to newAllowerContext / update / allowed through an overlay test file (no change to the repository)",
                  "the shared checker is driven exactly as authAndApplyEvents drives it: one AuthEvents provider that is cleared and refilled, update(provider), allowed(event)",
                  "auth states containing events that could not themselves have been accepted (unparseable contents) are outside the judged domain"],
     rapidfuzz=[('root', 'C09/verdict-is-a-function-of-needed-state', 60)])
