prop("C15", files={"root": ["vf_c15_common_test.go", "vf_c15_make_test.go", "vf_c15_sendjoin_test.go", "vf_c15_invite_test.go", "vf_c15_performjoin_test.go",
                            "vf_rauth_test.go", "vf_evgen_test.go"]},
     shared={"root": J + ["vf_ids_test.go"]},
     assumptions=["TODO"])
