prop("C07", files={"root": AUTH + EV}, shared={"root": J + ["vf_ids_test.go"]},
     assumptions=["R-auth (vf_rauth_test.go) transcribes the authorisation rules of room versions 1-12 with the documented departures D1-D13 of DESIGN.md 5.1",
                  "auth-state events whose own content could not have been accepted (unparseable power levels / join rule / membership / create content) are outside the judged domain (no-panic only)",
                  "duplicate/superfluous auth_events entries and signature checks are the caller's side (D9)"],
     rapidfuzz=[('root', 'C07/random', 60), ('root', 'C07/power-levels', 45)])
prop("C08", files={"root": AUTH + EV}, shared={"root": J + ["vf_ids_test.go"]},
     assumptions=["the no-escalation invariant is computed from the old and new contents with effective values (defaults filled in, D3) and the sender's effective level (D2: creator 2^53-1 without a power-levels event; v12 creators infinite)"],
     rapidfuzz=[('root', 'C08/pairs', 45), ('root', 'C08/histories', 45)])
