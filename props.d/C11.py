prop("C11", files={"root": ["vf_c11_test.go", "vf_c11_cycles_test.go", "vf_c11_order_test.go", "vf_c18_ops_test.go", "vf_c18_events_test.go", "vf_c18_bytes_test.go", "vf_c18_resp_test.go", "vf_c18_fuzz_test.go", "vf_c18_cycles_test.go", "vf_c10_test.go", "vf_c14_common_test.go", "vf_c14_state_test.go", "vf_c14_chain_test.go", "vf_c14_load_test.go"] + RES + AUTH + EV}, shared={"root": J + ["vf_ids_test.go"]},
     assumptions=["results are compared as sets of event IDs; Go randomises map iteration per range statement, so repeated runs in one process exercise different iteration orders",
                  "for the version-1 resolver auth events are supplied as it documents them (the unconflicted auth events, one per state key)",
                  "duplicate events in an ordering input are a separate class: the output must be a permutation of the DISTINCT inputs"],
     rapidfuzz=[('root', 'C11/order-independence', 60)])
