_C18_ROOT = ["vf_c18_ops_test.go", "vf_c18_events_test.go", "vf_c18_bytes_test.go", "vf_c18_resp_test.go", "vf_c18_fuzz_test.go",
             "vf_rauth_test.go", "vf_c07_test.go", "vf_c08_test.go", "vf_evgen_test.go"]
prop("C18", files={"root": _C18_ROOT, "fclient": ["vf_c18_fclient_test.go"], "spec": ["vf_c18_spec_test.go"]},
     shared={"root": J + ["vf_ids_test.go"], "fclient": J + ["vf_ids_test.go"], "spec": J},
     fuzz=[("root", "FuzzVF_C18_event_fields", 75), ("root", "FuzzVF_C18_event_bytes", 60), ("root", "FuzzVF_C18_resp", 75), ("root", "FuzzVF_C18_join", 60),
           ("root", "FuzzVF_C18_json", 45), ("root", "FuzzVF_C18_sign", 45), ("root", "FuzzVF_C18_keys", 45),
           ("fclient", "FuzzVF_C18_fc_request", 45), ("fclient", "FuzzVF_C18_fc_types", 45), ("spec", "FuzzVF_C18_spec_ids", 45)],
     assumptions=["a panic is observed with recover() around each library call; its signature is C18/panic/<top library function on the stack> (C18/after-<operation>/panic/<function> when an accessor that worked on an accepted event panics on the result of Redact / SetUnsigned / Sign / the headered round trip); one function is reported once per case, the entry points that reach it are recorded as classes",
                  "accepted = NewEventFromUntrustedJSON returned no error or a persistable validation error (what EventJSONs.UntrustedEvents keeps); events only NewEventFromTrustedJSON lets through are observed but not judged (its contract is previously validated JSON)",
                  "caller contracts are respected and never provoked: non-nil verifier / querier / context / providers, two state sets for the v2 resolvers, no MustGetRoomVersion / NewUserIDOrPanic on remote values, SetRoomVersion never called; CompactJSON / SortJSON / CanonicalJSONAssumeValid only behind gjson.Valid as the library itself does",
                  "the sender querier of pseudo-ID rooms may answer (nil, nil) for a sender it does not know (the library tests for that result in commonChecks, NewCreateContentFromAuthEvents and VerifyEventSignatures); that mode is used for org.matrix.msc4014 only",
                  "auth_events cycles between sender-chosen event IDs (room versions 1-2) are kept away from the state resolvers and topological sorters: their recursive walks overflow the stack, which kills the process and cannot be recovered or attributed in-process (reported separately in the build report)",
                  "stack exhaustion / memory exhaustion / non-termination are outside what recover() can see; fuzz inputs are capped at 128 KiB",
                  "absence cannot be shown: the verdict is 'no unlisted panic in the explored cases over the listed entry points'"])
