prop("C16", files={"fclient": ["vf_c16_model_test.go", "vf_c16_stubs_test.go", "vf_c16_policy_test.go", "vf_c16_resolve_test.go", "vf_c16_tripper_test.go"]},
     assumptions=["TODO"])
