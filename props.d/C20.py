prop("C20", files={"tokens": ["vf_c20_test.go"]},
     assumptions=["gopkg.in/macaroon.v2 (New / AddFirstPartyCaveat / MarshalBinary / UnmarshalBinary / VerifySignature) is trusted as the reference macaroon implementation; the check mints, attenuates and decodes tokens with it directly, never through the package under test",
                  "the expiry caveat's number is a Unix time in seconds (the documented unit) or milliseconds; the unit is read off the issued token, seconds are assumed when neither fits",
                  "expiry verdicts use a 2 s margin around the wall clock (no clock hook): expiry <= now-2 s must be refused, >= now+2 s accepted, in between unjudged; duration 1 is not judged for immediate acceptance",
                  "an altered token text that decodes to the same identifier, caveat list and signature (base64 trailing bits, CR/LF, trailing bytes, V1 re-encoding, changed location hint) is the same token in another presentation and is not judged",
                  "TokenOptions with an empty server name or user ID, a three-caveat token in another caveat order, and numeric-but-unusual expiry literals are outside the statement: no-panic only"])
