prop("C10", files={"root": ["vf_c10_test.go"] + RES + AUTH + EV}, shared={"root": J + ["vf_ids_test.go"]},
     assumptions=["R-res (vf_rres_test.go) transcribes state resolution v1 / v2 / v2.1 with the refinements R1-R5 of DESIGN.md 5.2; the public Allowed (fresh checker per event) is the auth oracle",
                  "histories are trees by prev_events (forks, no merges) so the state at every tip is known without resolution; the rejected-event oracle is R-auth's verdict on each event against its own auth events",
                  "the library prints 'found conflicted subgraph' lines on stdout in v2.1: ignored"],
     rapidfuzz=[('root', 'C10/v1', 40), ('root', 'C10/v2', 60), ('root', 'C10/v2.1', 60)])
