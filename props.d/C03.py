prop("C03", files={"root": ["vf_c03_test.go"] + EV}, shared={"root": J + ["vf_ids_test.go"]},
     assumptions=["reference redaction tables / event-ID computation (vf_evgen_test.go) transcribe the specification correctly",
                  "room-version-1/2 event IDs are random (util.RandomString); no check depends on their value"],
     rapidfuzz=[('root', 'C03/roundtrip', 45)])
