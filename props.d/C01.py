prop("C01", files={"root": ["vf_c01_test.go"]}, shared={"root": J},
     fuzz=[("root", "FuzzVF_C01", 150)],
     assumptions=["reference parser/encoder (vf_json_test.go) is a faithful transcription of RFC 8259 + the Matrix canonical JSON appendix",
                  "number tokens other than -0 are part of a value's identity (1, 1.0, 1e0 are not treated as presentations of one value)",
                  "texts with duplicate keys, lone surrogate escapes or invalid UTF-8 are outside the statement's domain: only no-panic is required"])
