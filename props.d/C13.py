prop("C13", files={"fclient": ["vf_c13_test.go"]}, shared={"fclient": J},
     fuzz=[("fclient", "FuzzVF_C13", 120)],
     assumptions=["net/http (Request.Write, ReadRequest, url parsing) is trusted transport: a request it cannot write or read back never reaches the library and is not judged",
                  "the reference canonical encoder (vf_json_test.go) and crypto/ed25519 decide what 'signed by its origin' means in the table verifier; the KeyRing variant uses the library's own verification over a scripted key database",
                  "timestamps are fixed in 2023, far from the wall clock, so the now+7d cap inside StrictValiditySignatureCheck never decides a case; exact validity boundaries (valid_until == now, expired_ts == now) belong to C12 and are not generated",
                  "where the statement is silent only soundness is judged: header syntax outside a strict X-Matrix grammar, several X-Matrix headers, omitted destination (legal for pre-v1.3 senders), scheme case, Content-Type parameters / case, Content-Type without body, chunked transfer, key IDs and URIs outside their grammars, URI edits that net/http itself normalises away before the library sees them"])
