prop("C02", files={"root": ["vf_c02_test.go"]}, shared={"root": J + ["vf_ids_test.go"]},
     assumptions=["reference canonical encoder (vf_json_test.go) and crypto/ed25519 are trusted",
                  "mutations are single-member edits of the signed object outside signatures/unsigned that change the value under C01's equality"],
     rapidfuzz=[('root', 'C02/sign-verify', 40)])
