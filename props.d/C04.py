prop("C04", files={"root": ["vf_c04_test.go", "vf_c05_test.go", "vf_c03_test.go", "vf_c02_test.go"] + EV}, shared={"root": J + ["vf_ids_test.go"]},
     assumptions=["reference content hash / redaction / event-ID computations transcribe the specification",
                  "tampered events that the parser rejects outright are outside the property (clean rejection)"],
     rapidfuzz=[('root', 'C04/content-hash', 45)])
