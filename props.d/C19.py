prop("C19", files={"root": ["vf_c19_sched_test.go", "vf_c19_access_test.go", "vf_c19_keys_test.go"],
                   "fclient": ["vf_c19_sched_test.go", "vf_c19_dns_test.go", "vf_c19_transport_test.go"]},
     race=True,
     assumptions=["TODO"])
