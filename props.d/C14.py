prop("C14", files={"root": ["vf_c14_common_test.go", "vf_c14_state_test.go", "vf_c14_chain_test.go", "vf_c14_load_test.go",
                            "vf_room_test.go", "vf_rauth_test.go", "vf_evgen_test.go"]},
     shared={"root": J + ["vf_ids_test.go"]},
     assumptions=["TODO"])
