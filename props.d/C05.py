prop("C05", files={"root": ["vf_c05_test.go", "vf_c03_test.go", "vf_c02_test.go"] + EV}, shared={"root": J + ["vf_ids_test.go"]},
     assumptions=["keep-lists in vf_evgen_test.go (rredact) transcribe the specification's redaction sections v1/v6/v8/v9/v11 and the version->algorithm assignment",
                  "events are hashed and signed by the reference signer (ed25519 over R-canon(R-redact(event))), so a library redaction that differs from the reference also fails signature verification",
                  "content numbers are integers within +/-(2^53-1); floats (legal below v6) are judged for value equality only"],
     rapidfuzz=[('root', 'C05/redact', 45)])
