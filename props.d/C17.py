prop("C17", files={"spec": ["vf_c17_ids_test.go"], "root": ["vf_c17_limits_test.go"]},
     fuzz=[("spec", "FuzzVF_C17_ids", 120)],
     assumptions=[])
