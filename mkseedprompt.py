#!/usr/bin/env python3
"""mkseedprompt.py <ID> <worktree> <outdir> — the brief given to an independent sub-agent that proposes
seeded changes for one property.  The brief contains ONLY the property text (title, statement,
quantifier) and one-line summaries of changes already proposed, nothing else from /verif."""
import glob, json, os, sys
V = os.path.dirname(os.path.abspath(__file__))
pid, wt, out = sys.argv[1:4]
# optional 4th argument: a file with one paragraph of extra guidance for this round ("focus")
focus = open(sys.argv[4]).read().strip() + "\n\n" if len(sys.argv) > 4 else ""
prop = [json.loads(l) for l in open(os.path.join(V, "properties.jsonl")) if l.strip()]
p = [x for x in prop if x["id"] == pid][0]
prev = []
for d in sorted(glob.glob(os.path.join(V, "seeded", pid + "-*"))):
    m = json.load(open(os.path.join(d, "meta.json")))
    s = (m.get("summary") or m.get("description") or "")[:260]
    prev.append("- %s  (files: %s)" % (s, ", ".join(m.get("files_changed", []))))
tmpl = open(os.path.join(V, "seedprompt.tmpl")).read()
print(tmpl.replace("@FOCUS@", focus).replace("@WT@", wt).replace("@OUT@", out).replace("@ID@", pid).replace("@TITLE@", p["title"])
      .replace("@STATEMENT@", p["statement"]).replace("@QUANT@", p["quantifier"]["text"]).replace("@PREV@", "\n".join(prev)))
