#!/usr/bin/env python3
"""Regenerates MANIFEST.json from claims.json (per-property level text) — keeps the manifest valid
and in step with what is actually built. Run after adding a property to props.py."""
import json, os
V = os.path.dirname(os.path.abspath(__file__))
import glob
claims = {os.path.basename(f)[:-5]: json.load(open(f)) for f in glob.glob(os.path.join(V, "claims.d", "*.json"))}
ids = [json.loads(l)["id"] for l in open(os.path.join(V, "properties.jsonl"))]
checks, na = [], []
for pid in ids:
    c = claims.get(pid)
    ready = set(open(os.path.join(V, "claimed.txt")).read().split())
    if not c or not c.get("claimed") or pid not in ready:
        na.append(dict(property_id=pid, reason=(c or {}).get("reason", "check not built yet in this session; planned in DESIGN.md section 4")))
        continue
    checks.append(dict(
        property_id=pid,
        quick_cmd="python3 vf.py check %s --tier quick" % pid,
        thorough_cmd="python3 vf.py check %s --tier thorough" % pid,
        evidence_file="/verif/evidence/%s.json" % pid,
        replay_cmd_template="python3 vf.py replay %s {path}" % pid,
        engine="vf",
        level_claimed=dict(category="exploration", text=c["text"], design_ref="DESIGN.md section 4, " + pid),
        level_note=c["note"],
        technique=c["technique"],
    ))
m = dict(
    version=1,
    setup_cmd="python3 vf.py setup",
    hooks=dict(
        guard="verif",
        enable="checks copy /repo's working tree to a scratch directory, add build-tagged in-package *_test.go overlay files from /verif/overlay and build with `go test -c -tags verif`; /repo itself carries no hook code",
        baseline_off_cmd="cd /repo && GOPROXY=off GOSUMDB=off GOTOOLCHAIN=local go test -json -vet=off -count=1 -timeout 25m ./...",
        source_commits=[],
        add_only=True,
    ),
    engines=[dict(name="vf", path="/verif/vf.py", serves_properties=[c["property_id"] for c in checks],
                  kind_free_text="property-based testing (pgregory.net/rapid v1.3.0), bounded-exhaustive enumerators and native Go coverage-guided fuzzing, each with an explicit oracle (reference model / round trip / metamorphic relation / history invariant); Python driver builds a scratch copy of /repo with overlay test files")],
    checks=checks,
    notes="Exit 0 = held on everything explored (KNOWN-FINDING lines allowed), 1 = unlisted violation, 2 = inconclusive infrastructure trouble. Known findings and fixed defects: /verif/KNOWN_FINDINGS.txt. Design: /verif/DESIGN.md.",
    not_applicable=na,
)
open(os.path.join(V, "MANIFEST.json"), "w").write(json.dumps(m, indent=1) + "\n")
print("claimed:", [c["property_id"] for c in checks])
print("not claimed:", [n["property_id"] for n in na])
