#!/usr/bin/env python3
"""covreport.py <dir with *.cov> — development aid: merge Go cover profiles written by `VF_COVER=<dir> vf.py check …`
and list, per library source file, the statement blocks no check executed (overlay *_test.go files excluded)."""
import glob, os, re, sys, collections
d = sys.argv[1]
blocks = {}
for f in glob.glob(os.path.join(d, "*.cov")):
    for line in open(f):
        if line.startswith("mode:"):
            continue
        m = re.match(r"(.+):(\d+)\.(\d+),(\d+)\.(\d+) (\d+) (\d+)$", line.strip())
        if not m:
            continue
        key = (m.group(1), int(m.group(2)), int(m.group(3)), int(m.group(4)), int(m.group(5)), int(m.group(6)))
        blocks[key] = blocks.get(key, 0) + int(m.group(7))
per = collections.defaultdict(lambda: [0, 0, []])
for (file, l1, c1, l2, c2, n), cnt in blocks.items():
    if file.endswith("_test.go"):
        continue
    short = file.replace("github.com/matrix-org/gomatrixserverlib/", "")
    per[short][0] += n
    if cnt:
        per[short][1] += n
    else:
        per[short][2].append((l1, l2))
tot = sum(v[0] for v in per.values()); cov = sum(v[1] for v in per.values())
print("total statements %d covered %d (%.1f%%)" % (tot, cov, 100.0 * cov / max(1, tot)))
for f in sorted(per):
    t, c, unc = per[f]
    print("%-32s %5d/%5d %5.1f%%  uncovered: %s" % (f, c, t, 100.0 * c / max(1, t), " ".join("%d-%d" % u for u in sorted(unc))[:600]))
