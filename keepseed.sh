#!/bin/bash
# keepseed.sh <ID> <round>  — confirm the three changes a seeding agent left under /tmp/seed-<ID>-r<round>-out/{1,2,3} (seedtest.py),
# store them as seeded/<ID>-r<round>-<k>, remove the agent's worktree and output directory, print one line per change.
id=$1; r=$2
for k in 1 2 3; do
  python3 /verif/seedtest.py $id /tmp/seed-$id-r$r-out/$k --keep-as $id-r$r-$k > /tmp/seedtest-$id-r$r-$k.log 2>&1 &
done
wait
git -C /repo worktree remove --force /tmp/seed-$id-r$r 2>/dev/null
for k in 1 2 3; do
  python3 - "$id-r$r-$k" <<'PY'
import json,sys
n=sys.argv[1]
try:
    m=json.load(open('/verif/seeded/%s/meta.json'%n)); c=m['confirmed']
    print(n, 'applies=%s builds=%s tests=%s demoFails=%s demoPasses=%s'%(c.get('applies'),c.get('builds'),c.get('existing_tests_pass'),c.get('demo_fails_with_patch'),c.get('demo_passes_without')), {k:(v['verdict'],[s[4:] for s in v.get('signatures',[])][:2]) for k,v in c.get('checks',{}).items()})
except Exception as e:
    print(n,'NOT STORED',e)
PY
done
