//go:build verif

package tokens

import (
	"bytes"
	"crypto/hmac"
	"crypto/sha256"
	"encoding/base64"
	"encoding/binary"
	"encoding/hex"
	"encoding/json"
	"fmt"
	"regexp"
	"strconv"
	"strings"
	"sync"
	"sync/atomic"
	"time"

	macaroon "gopkg.in/macaroon.v2"
	"pgregory.net/rapid"
)

// C20 — login tokens authenticate the issuing key and user, and expire.
//
// Oracles (none of them calls the code under test to decide what is right):
//   - round trip: issue -> validate / GetUserFromToken;
//   - structure: the issued token, decoded with gopkg.in/macaroon.v2 directly, carries exactly the
//     caveats "gen = 1", "user_id = <user>", "time < T" with T = issue instant + duration, measured
//     against the wall clock with a window (before/after the call), in Unix seconds (the unit the
//     code documents) or Unix milliseconds (tolerated: the statement does not fix the encoding);
//   - alterations: every altered token whose authenticated content (identifier, caveat list,
//     signature) differs from the original's, or that no longer decodes, must be refused;
//   - caveat discipline: tokens minted here with the macaroon library (with the key) or attenuated
//     (without the key, as any holder can) that lack a required caveat, or carry an additional or
//     unknown one, must be refused for every user;
//   - expiry: tokens minted here with "time < now+delta" must be refused for delta <= -2 s and
//     accepted for delta >= +2 s (margins, no clock hook); one real-time sub-check sleeps;
//   - exact expiry boundary: ValidateToken polled with the wall clock read before and after each
//     call (C20/boundary, see below) — no tolerance, verdicts only from non-straddling brackets.
//
// The strings below are transcribed from the property / DESIGN text, not taken from the package's
// constants, so that a change of the constants is seen.
const (
	c20GenCaveat  = "gen = 1"
	c20UserPrefix = "user_id = "
	c20TimePrefix = "time < "
	c20DefaultDur = 120
)

const c20Rule = "the token under judgement is well-formed and its MAC verifies under one of the keys of the case (the verdict is decided by caveats or by the choice of key, not by a parse failure)"

type c20Case struct {
	Secret    vfBytes `json:"secret"`
	Server    string  `json:"server"`
	User      string  `json:"user"`
	Duration  int     `json:"duration"`
	Duration2 int     `json:"duration2"` // second issue, for the duration-difference relation
	Secret2   vfBytes `json:"secret2"`   // another key
	User2     string  `json:"user2"`     // another user
	Op        string  `json:"op"`        // alteration / minting recipe
	A         int     `json:"a"`         // op parameter (position, index, mask, delta seconds)
	B         int     `json:"b"`         // op parameter
	Text      string  `json:"text"`      // op parameter (caveat text, expiry literal, inserted characters)
}

// ---------------------------------------------------------------------------------------------
// Independent helpers: base64, V2 binary encoder, decoding through the macaroon library.

type c20Cav struct {
	id  []byte
	vid []byte
	loc string
}

func c20Enc(bin []byte) string { return base64.RawURLEncoding.EncodeToString(bin) }

// c20EncV2 writes the macaroon V2 binary format (libmacaroons format.txt) with an arbitrary
// signature, which the library's API does not allow.
func c20EncV2(loc string, id []byte, cavs []c20Cav, sig []byte) []byte {
	b := []byte{2}
	pkt := func(ft uint64, d []byte) {
		b = binary.AppendUvarint(b, ft)
		b = binary.AppendUvarint(b, uint64(len(d)))
		b = append(b, d...)
	}
	if loc != "" {
		pkt(1, []byte(loc))
	}
	pkt(2, id)
	b = append(b, 0)
	for _, c := range cavs {
		if c.loc != "" {
			pkt(1, []byte(c.loc))
		}
		pkt(2, c.id)
		if len(c.vid) > 0 {
			pkt(4, c.vid)
		}
		b = append(b, 0)
	}
	b = append(b, 0)
	pkt(6, sig)
	return b
}

func c20Decode(tok string) (*macaroon.Macaroon, []byte, error) {
	bin, err := base64.RawURLEncoding.DecodeString(tok)
	if err != nil {
		return nil, nil, err
	}
	var m macaroon.Macaroon
	if err := m.UnmarshalBinary(bin); err != nil {
		return nil, bin, err
	}
	return &m, bin, nil
}

func c20Cavs(m *macaroon.Macaroon) []c20Cav {
	var out []c20Cav
	for _, c := range m.Caveats() {
		out = append(out, c20Cav{id: append([]byte{}, c.Id...), vid: append([]byte{}, c.VerificationId...), loc: c.Location})
	}
	return out
}

// c20SameAuth: same identifier, same caveat list, same signature (everything the MAC chain covers
// plus the MAC itself). Location hints and the presentation are not part of it.
func c20SameAuth(a, b *macaroon.Macaroon) bool {
	if !bytes.Equal(a.Id(), b.Id()) || !bytes.Equal(a.Signature(), b.Signature()) {
		return false
	}
	ca, cb := a.Caveats(), b.Caveats()
	if len(ca) != len(cb) {
		return false
	}
	for i := range ca {
		if !bytes.Equal(ca[i].Id, cb[i].Id) || !bytes.Equal(ca[i].VerificationId, cb[i].VerificationId) {
			return false
		}
	}
	return true
}

// c20Mint mints a V2 macaroon with the library (not with the code under test).
func c20Mint(key []byte, loc, id string, cavs []string) (string, error) {
	m, err := macaroon.New(key, []byte(id), loc, macaroon.V2)
	if err != nil {
		return "", err
	}
	for _, c := range cavs {
		if err := m.AddFirstPartyCaveat([]byte(c)); err != nil {
			return "", err
		}
	}
	bin, err := m.MarshalBinary()
	if err != nil {
		return "", err
	}
	return c20Enc(bin), nil
}

// c20Attenuate appends a first-party caveat the way any holder of the token can (no key).
func c20Attenuate(tok string, caveat string) (string, error) {
	m, _, err := c20Decode(tok)
	if err != nil {
		return "", err
	}
	if err := m.AddFirstPartyCaveat([]byte(caveat)); err != nil {
		return "", err
	}
	bin, err := m.MarshalBinary()
	if err != nil {
		return "", err
	}
	return c20Enc(bin), nil
}

func c20HMAC(key, data []byte) []byte {
	h := hmac.New(sha256.New, key)
	h.Write(data)
	return h.Sum(nil)
}

func c20VerifiesUnder(m *macaroon.Macaroon, keys ...[]byte) bool {
	for _, k := range keys {
		if _, err := m.VerifySignature(k, nil); err == nil {
			return true
		}
	}
	return false
}

// c20Validate calls the code under test. ok = accepted.
func c20Validate(ctx *vfCtx, key []byte, server, user, tok string) (ok, panicked bool) {
	var err error
	panicked = vfCatch(ctx, "C20", func() {
		err = ValidateToken(TokenOptions{ServerPrivateKey: key, ServerName: server, UserID: user}, tok)
	})
	return err == nil && !panicked, panicked
}

func c20EffDur(d int) int64 {
	if d == 0 {
		return c20DefaultDur
	}
	return int64(d)
}

// ---------------------------------------------------------------------------------------------
// Issue + structure

type c20Issued struct {
	tok   string
	mac   *macaroon.Macaroon
	bin   []byte
	cavs  []c20Cav
	t     int64 // value of the expiry caveat
	tOK   bool  // expiry caveat present and numeric
	scale int64 // 1 = Unix seconds, 1000 = Unix milliseconds
	unit  string
	t0    time.Time // wall clock before / after the issue call
	t1    time.Time
}

var c20IntRe = regexp.MustCompile(`^-?[0-9]+$`)

// c20Issue issues a token with the code under test and checks its structure. nil = nothing to go on.
func c20Issue(ctx *vfCtx, key []byte, server, user string, dur int, judge bool) *c20Issued {
	is := &c20Issued{scale: 1, unit: "unknown"}
	var err error
	is.t0 = time.Now()
	if vfCatch(ctx, "C20", func() {
		is.tok, err = GenerateLoginToken(TokenOptions{ServerPrivateKey: key, ServerName: server, UserID: user, Duration: dur})
	}) {
		return nil
	}
	is.t1 = time.Now()
	if err != nil {
		if judge {
			ctx.Fail("C20/issue/refused-valid-options", "GenerateLoginToken refused valid options (key %d bytes, server %q, user %q, duration %d): %v", len(key), server, user, dur, err)
		}
		return nil
	}
	m, bin, derr := c20Decode(is.tok)
	if derr != nil {
		if judge {
			ctx.Fail("C20/structure/undecodable", "issued token is not an unpadded URL-safe base64 macaroon: %v (token %q)", derr, is.tok)
		}
		return nil
	}
	is.mac, is.bin, is.cavs = m, bin, c20Cavs(m)
	if !judge {
		// still need the expiry value
		for _, cv := range is.cavs {
			if s := string(cv.id); strings.HasPrefix(s, c20TimePrefix) && c20IntRe.MatchString(s[len(c20TimePrefix):]) {
				if v, e := strconv.ParseInt(s[len(c20TimePrefix):], 10, 64); e == nil {
					is.t, is.tOK = v, true
				}
			}
		}
		return is
	}
	if string(m.Id()) != user {
		ctx.Fail("C20/structure/identifier", "issued token's identifier is %q, issued for user %q", m.Id(), user)
	}
	// exactly the three caveats, each once (order is not demanded by the statement)
	var nGen, nUser, nTime, nOther int
	for _, cv := range is.cavs {
		s := string(cv.id)
		switch {
		case len(cv.vid) > 0:
			nOther++
		case s == c20GenCaveat:
			nGen++
		case s == c20UserPrefix+user:
			nUser++
		case strings.HasPrefix(s, c20TimePrefix) && c20IntRe.MatchString(s[len(c20TimePrefix):]):
			v, e := strconv.ParseInt(s[len(c20TimePrefix):], 10, 64)
			if e != nil {
				nOther++
				break
			}
			nTime++
			is.t, is.tOK = v, true
		default:
			nOther++
		}
	}
	if nGen != 1 || nUser != 1 || nTime != 1 || nOther != 0 {
		var all []string
		for _, cv := range is.cavs {
			all = append(all, string(cv.id))
		}
		ctx.Fail("C20/structure/caveats", "issued token's caveats are %q; want exactly %q, %q and %q<integer>", all, c20GenCaveat, c20UserPrefix+user, c20TimePrefix)
		is.tOK = is.tOK && nTime == 1
	}
	if is.tOK {
		d := c20EffDur(dur)
		lo, hi := is.t0.Unix()+d, is.t1.Unix()+d
		loMs, hiMs := is.t0.UnixMilli()+d*1000, is.t1.UnixMilli()+d*1000
		switch {
		case is.t >= lo && is.t <= hi:
			is.scale, is.unit = 1, "s"
		case is.t >= loMs && is.t <= hiMs:
			is.scale, is.unit = 1000, "ms"
		default:
			ctx.Fail("C20/issue/expiry-not-unix-time", "token issued at Unix time %d..%d for %d s carries expiry %q%d; want a value in [%d, %d] (Unix seconds; or [%d, %d] in milliseconds)",
				is.t0.Unix(), is.t1.Unix(), d, c20TimePrefix, is.t, lo, hi, loMs, hiMs)
		}
	}
	ctx.Class("unit:" + is.unit)
	return is
}

func c20DurClass(d int) string {
	switch d {
	case 0, 1, 2, 59, 60, 61, 120, 3600:
		return "dur:" + strconv.Itoa(d)
	}
	if d > 9223372036 {
		return "dur:over-292-years"
	}
	if d > 1000000 {
		return "dur:centuries"
	}
	return "dur:other"
}

// ---------------------------------------------------------------------------------------------
// The check

func c20Check(ctx *vfCtx, c c20Case) {
	key := append([]byte{}, c.Secret...) // never nil
	key2 := append([]byte{}, c.Secret2...)
	ctx.Class("op:" + c.Op)
	ctx.Class(c20DurClass(c.Duration))

	if c.Server == "" || c.User == "" {
		ctx.Class("issue:invalid-options")
		var tok string
		var err error
		if vfCatch(ctx, "C20", func() {
			tok, err = GenerateLoginToken(TokenOptions{ServerPrivateKey: key, ServerName: c.Server, UserID: c.User, Duration: c.Duration})
		}) {
			return
		}
		if err == nil {
			ctx.Class("issue:invalid-options-issued")
			_ = tok
		}
		ctx.Unjudged("TokenOptions with empty server name or user ID: the statement is silent")
		return
	}
	sameKey := bytes.Equal(key, key2)
	sameUser := c.User == c.User2

	is := c20Issue(ctx, key, c.Server, c.User, c.Duration, true)
	if is == nil {
		return
	}
	ctx.NonTrivial()

	// ---- round trip -----------------------------------------------------------------------
	var got string
	var gerr error
	if !vfCatch(ctx, "C20", func() { got, gerr = GetUserFromToken(is.tok) }) {
		if gerr != nil || got != c.User {
			ctx.Fail("C20/getuser/mismatch", "GetUserFromToken gives (%q, %v) for a token issued for %q", got, gerr, c.User)
		}
	}
	ok, _ := c20Validate(ctx, key, c.Server, c.User, is.tok)
	if c20EffDur(c.Duration) >= 2 {
		if !ok {
			ctx.Fail("C20/valid-refused/issued", "token issued for %d s is refused immediately for the issuing key and user", c20EffDur(c.Duration))
		}
	} else {
		ctx.Unjudged("duration 1: immediate validation may legitimately fall on either side of the second boundary")
	}
	// what decides is the key and the user: the validating side need not repeat the server name the token
	// was issued under (validation parameters with that field left out, or carrying another of its names)
	if ok && c20EffDur(c.Duration) >= 3 {
		for _, sn := range []string{"", c.Server + ".", "other.example"} {
			if okN, _ := c20Validate(ctx, key, sn, c.User, is.tok); !okN {
				if again, _ := c20Validate(ctx, key, c.Server, c.User, is.tok); !again {
					ctx.Unjudged("the token expired while it was being validated (stalled process)")
					break
				}
				cl := "other"
				if sn == "" {
					cl = "empty"
				}
				ctx.Fail("C20/valid-refused/issued/validator-server-name-"+cl, "token issued for %d s under server name %q validates for the issuing key and user with ServerName %q but is refused with ServerName %q", c20EffDur(c.Duration), c.Server, c.Server, sn)
			}
		}
	}
	if !sameKey {
		if ok2, _ := c20Validate(ctx, key2, c.Server, c.User, is.tok); ok2 {
			ctx.Fail("C20/wrong-key-accepted/issued", "token issued under key %x validates under key %x", key, key2)
		}
	}
	if !sameUser {
		if ok3, _ := c20Validate(ctx, key, c.Server, c.User2, is.tok); ok3 {
			ctx.Fail("C20/wrong-user-accepted/issued", "token issued for %q validates for %q", c.User, c.User2)
		}
	}
	if !sameKey && !sameUser {
		if ok4, _ := c20Validate(ctx, key2, c.Server, c.User2, is.tok); ok4 {
			ctx.Fail("C20/wrong-key-accepted/issued", "token issued under key %x for %q validates under key %x for %q", key, c.User, key2, c.User2)
		}
	}

	switch {
	case c.Op == "none":
		c20CheckDurationDelta(ctx, c, key, is)
	case strings.HasPrefix(c.Op, "alt-") || strings.HasPrefix(c.Op, "ks-"):
		c20CheckAlter(ctx, c, key, key2, is)
	case strings.HasPrefix(c.Op, "att-") || strings.HasPrefix(c.Op, "mint") || c.Op == "remint":
		c20CheckCaveats(ctx, c, key, key2, is)
	case strings.HasPrefix(c.Op, "exp-"):
		c20CheckExpiry(ctx, c, key, key2, is)
	default:
		ctx.Unjudged("unknown op " + c.Op)
	}
}

// Two tokens issued back to back with durations d1, d2 must expire d2-d1 seconds apart (plus the
// time between the two calls).
func c20CheckDurationDelta(ctx *vfCtx, c c20Case, key []byte, is *c20Issued) {
	if !is.tOK {
		return
	}
	is2 := c20Issue(ctx, key, c.Server, c.User, c.Duration2, false)
	if is2 == nil || !is2.tOK {
		ctx.Unjudged("second issue unusable")
		return
	}
	// Guard: the pair must not straddle a minute boundary. Irrelevant for a correct implementation
	// (it skips ~1e-6 of the cases); it keeps the documented clock defect (known finding
	// C20/issue/expiry-not-unix-time) from surfacing under this unrelated signature once in a blue moon.
	if is.t0.Unix()/60 != is2.t1.Unix()/60 {
		ctx.Unjudged("issue pair straddles a minute boundary")
		return
	}
	dd := (c20EffDur(c.Duration2) - c20EffDur(c.Duration)) * is.scale
	slack := (is2.t1.Unix() - is.t0.Unix() + 1) * is.scale
	diff := is2.t - is.t
	if diff < dd || diff > dd+slack {
		ctx.Fail("C20/issue/duration-not-honoured", "tokens issued back to back for %d s and %d s carry expiries %d and %d: difference %d, want %d..%d",
			c20EffDur(c.Duration), c20EffDur(c.Duration2), is.t, is2.t, diff, dd, dd+slack)
	}
	ctx.Class(c20DurClass(c.Duration2) + "(second)")
}

// ---- byte-, string- and structure-level alterations that keep the original signature ----------

const c20Alphabet = "ABCDEFGHIJKLMNOPQRSTUVWXYZabcdefghijklmnopqrstuvwxyz0123456789-_"

func c20Mod(a, n int) int {
	if n <= 0 {
		return 0
	}
	a %= n
	if a < 0 {
		a += n
	}
	return a
}

func c20CheckAlter(ctx *vfCtx, c c20Case, key, key2 []byte, is *c20Issued) {
	tok, bin := is.tok, is.bin
	cavs := is.cavs
	n := len(cavs)
	loc, id, sig := is.mac.Location(), is.mac.Id(), is.mac.Signature()
	// self-check of the independent encoder
	if !bytes.Equal(c20EncV2(loc, id, cavs, sig), bin) {
		ctx.Class("encoder:differs-from-issued-bytes")
	}
	copyCavs := func() []c20Cav { return append([]c20Cav{}, cavs...) }
	var alt string
	switch c.Op {
	case "alt-flip":
		b := append([]byte{}, bin...)
		b[c20Mod(c.A, len(b))] ^= 1 << uint(c20Mod(c.B, 8))
		alt = c20Enc(b)
	case "alt-trunc":
		alt = tok[:c20Mod(c.A, len(tok))]
	case "alt-truncbin":
		alt = c20Enc(bin[:c20Mod(c.A, len(bin))])
	case "alt-b64std":
		alt = strings.NewReplacer("-", "+", "_", "/").Replace(tok)
		if alt == tok {
			p := c20Mod(c.A, len(tok))
			alt = tok[:p] + string("+/"[c20Mod(c.B, 2)]) + tok[p+1:]
		}
	case "alt-b64pad":
		pad := (4 - len(tok)%4) % 4
		if pad == 0 || c.B%2 == 1 {
			pad = 1 + c20Mod(c.B, 2)
		}
		alt = tok + strings.Repeat("=", pad)
	case "alt-b64char":
		p := c20Mod(c.A, len(tok))
		ch := c20Alphabet[c20Mod(c.B, 64)]
		if ch == tok[p] {
			ch = c20Alphabet[c20Mod(c.B+1, 64)]
		}
		alt = tok[:p] + string(ch) + tok[p+1:]
	case "alt-insert":
		p := c20Mod(c.A, len(tok)+1)
		alt = tok[:p] + c.Text + tok[p:]
	case "alt-appendbin":
		alt = c20Enc(append(append([]byte{}, bin...), []byte(c.Text)...))
	case "alt-garbage":
		alt = c.Text
	case "ks-drop":
		if n == 0 {
			return
		}
		cs := copyCavs()
		i := c20Mod(c.A, n)
		cs = append(cs[:i], cs[i+1:]...)
		alt = c20Enc(c20EncV2(loc, id, cs, sig))
	case "ks-dup":
		if n == 0 {
			return
		}
		i, p := c20Mod(c.A, n), c20Mod(c.B, n+1)
		cs := append([]c20Cav{}, cavs[:p]...)
		cs = append(cs, cavs[i])
		cs = append(cs, cavs[p:]...)
		alt = c20Enc(c20EncV2(loc, id, cs, sig))
	case "ks-swap":
		if n < 2 {
			return
		}
		cs := copyCavs()
		i := c20Mod(c.A, n)
		j := c20Mod(i+1+c20Mod(c.B, n-1), n)
		cs[i], cs[j] = cs[j], cs[i]
		alt = c20Enc(c20EncV2(loc, id, cs, sig))
	case "ks-setuser":
		cs := copyCavs()
		for i := range cs {
			if strings.HasPrefix(string(cs[i].id), c20UserPrefix) {
				cs[i].id = []byte(c20UserPrefix + c.User2)
			}
		}
		alt = c20Enc(c20EncV2(loc, id, cs, sig))
	case "ks-setid":
		alt = c20Enc(c20EncV2(loc, []byte(c.User2), cavs, sig))
	case "ks-setboth":
		cs := copyCavs()
		for i := range cs {
			if strings.HasPrefix(string(cs[i].id), c20UserPrefix) {
				cs[i].id = []byte(c20UserPrefix + c.User2)
			}
		}
		alt = c20Enc(c20EncV2(loc, []byte(c.User2), cs, sig))
	case "ks-settime":
		cs := copyCavs()
		for i := range cs {
			if strings.HasPrefix(string(cs[i].id), c20TimePrefix) {
				cs[i].id = []byte(c20TimePrefix + strconv.FormatInt(is.t+1+int64(c20Mod(c.A, 1<<30)), 10))
			}
		}
		alt = c20Enc(c20EncV2(loc, id, cs, sig))
	case "ks-addunknown":
		cs := append(copyCavs(), c20Cav{id: []byte(c.Text)})
		alt = c20Enc(c20EncV2(loc, id, cs, sig))
	case "ks-zerosig":
		alt = c20Enc(c20EncV2(loc, id, cavs, make([]byte, 32)))
	case "ks-idsig":
		// the MAC of the bare identifier (what the signature was before any caveat was added) is
		// not derivable without the key; use the MAC of the identifier under the *other* key
		alt = c20Enc(c20EncV2(loc, id, nil, c20HMAC(c20HMAC([]byte("macaroons-key-generator"), key2), id)))
	case "ks-loc":
		alt = c20Enc(c20EncV2(c.Text, id, cavs, sig))
	case "ks-v1":
		alt = c20AsV1(is)
		if alt == "" {
			ctx.Unjudged("cannot re-encode as V1")
			return
		}
	default:
		ctx.Unjudged("unknown op " + c.Op)
		return
	}
	if alt == tok {
		ctx.Class("alter:no-op")
		return
	}
	// Is it the same macaroon in another presentation?
	alias := ""
	am, abin, aerr := c20Decode(alt)
	if aerr == nil && c20SameAuth(am, is.mac) {
		switch {
		case bytes.Equal(abin, bin):
			alias = "same-bytes-other-text" // base64 trailing bits, CR/LF skipped by the decoder
		case am.Location() != is.mac.Location():
			alias = "location-hint-only"
		case am.Version() != is.mac.Version():
			alias = "other-format-version"
		default:
			alias = "same-content-other-bytes" // trailing bytes, non-minimal varints
		}
	}
	if aerr == nil && c20VerifiesUnder(am, key, key2) {
		ctx.NonTrivial()
	}
	users := []string{c.User}
	if c.User2 != c.User {
		users = append(users, c.User2)
	}
	accepted := false
	for _, u := range users {
		for ki, k := range [][]byte{key, key2} {
			if ki == 1 && bytes.Equal(key, key2) {
				continue
			}
			ok, _ := c20Validate(ctx, k, c.Server, u, alt)
			if !ok {
				continue
			}
			accepted = true
			if alias != "" && ki == 0 && u == c.User {
				continue // the original macaroon, presented differently: see below
			}
			ctx.Fail("C20/altered-accepted/"+c.Op, "altered token (%s) validates for user %q under key #%d; original issued for %q under key #0\n original %s\n altered  %q", c.Op, u, ki, c.User, tok, alt)
		}
	}
	if alias != "" {
		if accepted {
			ctx.Class("alias-accepted:" + alias)
		} else {
			ctx.Class("alias-refused:" + alias)
		}
		ctx.Unjudged("altered text decodes to the same identifier, caveats and signature (" + alias + "): not an alteration of the token's authenticated content")
		return
	}
	if aerr != nil {
		ctx.Class("alter:undecodable")
	} else {
		ctx.Class("alter:decodable-content-changed")
	}
	// GetUserFromToken must not panic on it
	vfCatch(ctx, "C20", func() { _, _ = GetUserFromToken(alt) })
}

// c20AsV1 re-encodes the issued macaroon in the V1 binary format with the same signature.
func c20AsV1(is *c20Issued) string {
	type cav struct {
		CID string `json:"cid"`
	}
	doc := struct {
		Caveats    []cav  `json:"caveats"`
		Location   string `json:"location"`
		Identifier string `json:"identifier"`
		Signature  string `json:"signature"`
	}{Location: is.mac.Location(), Identifier: string(is.mac.Id()), Signature: hex.EncodeToString(is.mac.Signature())}
	for _, cv := range is.cavs {
		doc.Caveats = append(doc.Caveats, cav{CID: string(cv.id)})
	}
	raw, err := json.Marshal(doc)
	if err != nil {
		return ""
	}
	var m macaroon.Macaroon
	if err := m.UnmarshalJSON(raw); err != nil {
		return ""
	}
	bin, err := m.MarshalBinary()
	if err != nil {
		return ""
	}
	return c20Enc(bin)
}

// ---- caveat discipline: attenuation by a holder, minting with the key ---------------------------

// c20ExtraClass names the class of an additional caveat by its text.
func c20ExtraClass(caveat string, existing []c20Cav) string {
	for _, cv := range existing {
		if string(cv.id) == caveat {
			return "duplicate"
		}
	}
	switch {
	case caveat == c20GenCaveat:
		return "duplicate"
	case strings.HasPrefix(caveat, c20UserPrefix):
		return "second-user"
	case strings.HasPrefix(caveat, c20TimePrefix):
		return "second-time"
	}
	return "unknown"
}

func c20CheckCaveats(ctx *vfCtx, c c20Case, key, key2 []byte, is *c20Issued) {
	now := time.Now()
	future := c20TimePrefix + strconv.FormatInt((now.Unix()+3600)*is.scale, 10)
	userCav := c20UserPrefix + c.User
	judgeAll := func(tok, class, what string) {
		// an additional caveat: refused for the issued user and for every other user
		if ok, _ := c20Validate(ctx, key, c.Server, c.User, tok); ok {
			ctx.Fail("C20/extra-caveat-accepted/"+class, "%s still validates for the issued user %q\n token %s", what, c.User, tok)
		}
		if c.User2 != c.User {
			if ok, _ := c20Validate(ctx, key, c.Server, c.User2, tok); ok {
				ctx.Fail("C20/wrong-user-accepted/"+class, "%s validates for %q although the token was issued for %q\n token %s", what, c.User2, c.User, tok)
			}
		}
		if !bytes.Equal(key, key2) {
			if ok, _ := c20Validate(ctx, key2, c.Server, c.User, tok); ok {
				ctx.Fail("C20/wrong-key-accepted/"+class, "%s validates under another key\n token %s", what, tok)
			}
		}
	}
	switch c.Op {
	case "att-dup", "att-user2", "att-time", "att-unknown":
		if !is.tOK || len(is.cavs) == 0 {
			ctx.Unjudged("issued token has no usable caveats")
			return
		}
		var extra string
		switch c.Op {
		case "att-dup":
			extra = string(is.cavs[c20Mod(c.A, len(is.cavs))].id)
		case "att-user2":
			extra = c20UserPrefix + c.User2
		case "att-time":
			extra = c20TimePrefix + strconv.FormatInt((now.Unix()+int64(c.A))*is.scale, 10)
		default:
			extra = c.Text
		}
		alt, err := c20Attenuate(is.tok, extra)
		times := 1
		if c.Op == "att-dup" {
			// a copy may be appended once or several times (an even number of copies, too)
			times = 1 + c20Mod(c.B, 4)
			for i := 1; i < times && err == nil; i++ {
				alt, err = c20Attenuate(alt, extra)
			}
		}
		if err != nil {
			ctx.Unjudged("attenuation failed: " + err.Error())
			return
		}
		class := c20ExtraClass(extra, is.cavs)
		ctx.Class("extra:" + class)
		ctx.Class(fmt.Sprintf("extra-copies/%d", times))
		judgeAll(alt, class, fmt.Sprintf("issued token with the caveat %q appended %d time(s) by its holder (no key needed)", extra, times))
		if g, e := GetUserFromToken(alt); e != nil || g != c.User {
			ctx.Class("getuser-after-attenuation:differs")
		}
	case "att-third":
		// a third-party caveat built by hand: verification id = arbitrary bytes, signature chained as
		// the library does (HMAC(sig, HMAC(sig, vid) || HMAC(sig, cid)))
		cid := []byte(c.Text)
		vid := bytes.Repeat([]byte{byte(c.A)}, 72)
		sig := is.mac.Signature()
		nsig := c20HMAC(sig, append(c20HMAC(sig, vid), c20HMAC(sig, cid)...))
		cs := append(append([]c20Cav{}, is.cavs...), c20Cav{id: cid, vid: vid, loc: "third.example"})
		alt := c20Enc(c20EncV2(is.mac.Location(), is.mac.Id(), cs, nsig))
		ctx.Class("extra:third-party")
		judgeAll(alt, "third-party", "issued token with a third-party caveat appended")
	case "att-third-discharged":
		// the holder appends a third-party caveat under a root key of their own choosing, mints the
		// matching discharge, binds it and presents both (macaroon.Slice encoding; built with the
		// macaroon library, not with the code under test). B odd: the discharge carries a caveat too.
		holderKey := bytes.Repeat([]byte{byte(c.A) | 1}, 24)
		cid := []byte("discharge:" + c.Text)
		m := is.mac.Clone()
		if err := m.AddThirdPartyCaveat(holderKey, cid, "third.example"); err != nil {
			ctx.Unjudged("third-party caveat could not be added: " + err.Error())
			return
		}
		d, err := macaroon.New(holderKey, cid, "third.example", macaroon.V2)
		if err != nil {
			ctx.Unjudged("discharge could not be minted: " + err.Error())
			return
		}
		if c.B%2 == 1 {
			_ = d.AddFirstPartyCaveat([]byte(future))
		}
		d.Bind(m.Signature())
		bin, err := macaroon.Slice{m, d}.MarshalBinary()
		if err != nil {
			ctx.Unjudged("slice could not be encoded: " + err.Error())
			return
		}
		ctx.Class("extra:third-party-with-discharge")
		judgeAll(c20Enc(bin), "third-party-discharged", "issued token with a holder-made third-party caveat and its discharge bundled behind it")
	case "mint":
		// minted with the right key; A = mask of required caveats present, B = extra caveat recipe
		mask := c20Mod(c.A, 8)
		var cavs []string
		if mask&1 != 0 {
			cavs = append(cavs, c20GenCaveat)
		}
		if mask&2 != 0 {
			cavs = append(cavs, userCav)
		}
		if mask&4 != 0 {
			cavs = append(cavs, future)
		}
		extraClass := ""
		switch c20Mod(c.B, 6) {
		case 1:
			cavs = append(cavs, c.Text)
			extraClass = c20ExtraClass(c.Text, nil)
			if c.Text == userCav || c.Text == future {
				extraClass = "duplicate"
			}
		case 2:
			cavs = append([]string{c.Text}, cavs...)
			extraClass = c20ExtraClass(c.Text, nil)
			if c.Text == userCav || c.Text == future {
				extraClass = "duplicate"
			}
		case 3:
			if len(cavs) > 0 {
				cavs = append(cavs, cavs[c20Mod(c.A/8, len(cavs))])
				extraClass = "duplicate"
			}
		case 4:
			cavs = append(cavs, c20UserPrefix+c.User2)
			extraClass = "second-user"
			if c.User2 == c.User && mask&2 != 0 {
				extraClass = "duplicate"
			}
		}
		// an "extra" that happens to supply a missing required caveat is not an extra
		have := map[string]int{}
		otherTime := 0
		for _, s := range cavs {
			have[s]++
			if strings.HasPrefix(s, c20TimePrefix) && s != future {
				otherTime++
			}
		}
		if otherTime > 0 && have[future] == 0 {
			ctx.Class("mint:other-time-caveat-in-place-of-required")
			ctx.Unjudged("a time caveat of uncertain standing stands in for the required one")
			return
		}
		complete := have[c20GenCaveat] >= 1 && have[userCav] >= 1 && have[future] >= 1
		exact := complete && len(cavs) == 3
		canonical := exact && cavs[0] == c20GenCaveat && cavs[1] == userCav && cavs[2] == future
		tok, err := c20Mint(key, c.Server, c.User, cavs)
		if err != nil {
			ctx.Unjudged("mint failed: " + err.Error())
			return
		}
		ok, _ := c20Validate(ctx, key, c.Server, c.User, tok)
		switch {
		case !complete:
			ctx.Class("mint:missing-required")
			if ok {
				ctx.Fail("C20/missing-caveat-accepted/minted", "token minted under the right key with caveats %q (a required caveat is missing) validates for %q", cavs, c.User)
			}
		case !exact:
			ctx.Class("mint:complete-plus-extra:" + extraClass)
			if ok {
				ctx.Fail("C20/extra-caveat-accepted/"+extraClass, "token minted under the right key with caveats %q (one more than the three required) validates for %q", cavs, c.User)
			}
		case canonical:
			ctx.Class("mint:exact")
			if !ok {
				ctx.Fail("C20/valid-refused/minted", "token minted under the right key with exactly %q is refused for %q", cavs, c.User)
			}
		default:
			ctx.Class("mint:exact-other-order")
			ctx.Unjudged("three required caveats in another order: the statement is silent")
		}
		if c.User2 != c.User && have[c20UserPrefix+c.User2] == 0 {
			if ok2, _ := c20Validate(ctx, key, c.Server, c.User2, tok); ok2 {
				ctx.Fail("C20/wrong-user-accepted/minted", "token minted with caveats %q validates for %q", cavs, c.User2)
			}
		} else if c.User2 != c.User && exact == false && complete {
			// complete for User plus "user_id = User2": must not validate for User2 either
			if ok2, _ := c20Validate(ctx, key, c.Server, c.User2, tok); ok2 {
				ctx.Fail("C20/wrong-user-accepted/second-user", "token minted for %q with caveats %q validates for %q", c.User, cavs, c.User2)
			}
		}
	case "mint-user2":
		// identifier says User, the user caveat says User2: lacks the caveat required for User
		if c.User2 == c.User {
			return
		}
		tok, err := c20Mint(key, c.Server, c.User, []string{c20GenCaveat, c20UserPrefix + c.User2, future})
		if err != nil {
			ctx.Unjudged("mint failed: " + err.Error())
			return
		}
		if ok, _ := c20Validate(ctx, key, c.Server, c.User, tok); ok {
			ctx.Fail("C20/missing-caveat-accepted/user-caveat-differs", "token whose user caveat names %q validates for %q", c.User2, c.User)
		}
		ctx.Unjudged("validation for the user named by the caveat of a key-holder-minted inconsistent token: the statement is silent")
	case "remint":
		if bytes.Equal(key, key2) {
			return
		}
		cavs := []string{c20GenCaveat, userCav, future}
		tok, err := c20Mint(key2, c.Server, c.User, cavs)
		if err != nil {
			ctx.Unjudged("mint failed: " + err.Error())
			return
		}
		if ok, _ := c20Validate(ctx, key, c.Server, c.User, tok); ok {
			ctx.Fail("C20/wrong-key-accepted/reminted", "token with the right caveats minted under key %x validates under key %x", key2, key)
		}
		if ok, _ := c20Validate(ctx, key2, c.Server, c.User, tok); !ok {
			ctx.Fail("C20/valid-refused/minted", "token minted under key %x with exactly %q is refused under that key", key2, cavs)
		}
		// signature of the re-minted token grafted onto the issued one and vice versa is covered by ks-* ops
	default:
		ctx.Unjudged("unknown op " + c.Op)
	}
}

// ---- expiry with margins ----------------------------------------------------------------------

func c20CheckExpiry(ctx *vfCtx, c c20Case, key, key2 []byte, is *c20Issued) {
	now := time.Now()
	userCav := c20UserPrefix + c.User
	mint := func(expiry string) string {
		tok, err := c20Mint(key, c.Server, c.User, []string{c20GenCaveat, userCav, c20TimePrefix + expiry})
		if err != nil {
			ctx.Unjudged("mint failed: " + err.Error())
			return ""
		}
		return tok
	}
	switch c.Op {
	case "exp-rel":
		e := (now.Unix() + int64(c.A)) * is.scale
		tok := mint(strconv.FormatInt(e, 10))
		if tok == "" {
			return
		}
		ok, _ := c20Validate(ctx, key, c.Server, c.User, tok)
		switch {
		case c.A <= -2:
			ctx.Class("expiry:past")
			if ok {
				ctx.Fail("C20/expired-accepted/crafted", "token with expiry caveat %q%d (%d s before the validation instant, Unix %d) validates", c20TimePrefix, e, -c.A, now.Unix())
			}
		case c.A >= 2:
			ctx.Class("expiry:future")
			if !ok {
				ctx.Fail("C20/valid-refused/crafted-future", "token with expiry caveat %q%d (%d s after the validation instant, Unix %d) is refused", c20TimePrefix, e, c.A, now.Unix())
			}
			if c.User2 != c.User {
				if ok2, _ := c20Validate(ctx, key, c.Server, c.User2, tok); ok2 {
					ctx.Fail("C20/wrong-user-accepted/minted", "token minted for %q validates for %q", c.User, c.User2)
				}
			}
			if !bytes.Equal(key, key2) {
				if ok2, _ := c20Validate(ctx, key2, c.Server, c.User, tok); ok2 {
					ctx.Fail("C20/wrong-key-accepted/reminted", "token minted under key %x validates under key %x", key, key2)
				}
			}
		default:
			ctx.Class("expiry:within-margin")
			ctx.Unjudged("expiry within 2 s of the validation instant")
		}
	case "exp-abs":
		// small and negative absolute values: 1970 or before, in the past in any unit
		v, err := strconv.ParseInt(c.Text, 10, 64)
		if err != nil || v > 1000000 {
			ctx.Unjudged("exp-abs literal not a small integer")
			return
		}
		tok := mint(c.Text)
		if tok == "" {
			return
		}
		ctx.Class("expiry:past-absolute")
		if ok, _ := c20Validate(ctx, key, c.Server, c.User, tok); ok {
			ctx.Fail("C20/expired-accepted/crafted", "token with expiry caveat %q%s (1970) validates at Unix time %d (second %d of the minute)", c20TimePrefix, c.Text, now.Unix(), now.Second())
		}
	case "exp-junk":
		tok := mint(c.Text)
		if tok == "" {
			return
		}
		ok, _ := c20Validate(ctx, key, c.Server, c.User, tok)
		trimmed := strings.TrimSpace(c.Text)
		_, ferr := strconv.ParseFloat(trimmed, 64)
		_, ierr := strconv.ParseInt(trimmed, 0, 64)
		if ferr == nil || ierr == nil || regexp.MustCompile(`^[+-]?[0-9]+$`).MatchString(trimmed) {
			ctx.Class("expiry:numeric-unusual")
			ctx.Unjudged("expiry literal that some number syntax reads (sign, padding, overflow, float, hex): the statement is silent")
			return
		}
		ctx.Class("expiry:not-a-number")
		if ok {
			ctx.Fail("C20/missing-caveat-accepted/unparseable-expiry", "token whose expiry caveat is %q (no expiry can be read from it) validates", c20TimePrefix+c.Text)
		}
	case "exp-revive":
		// a token that is refused because of its expiry, then attenuated by its holder with a later expiry
		var base string
		if c.B%2 == 0 {
			base = mint(strconv.FormatInt(-int64(c20Mod(c.A, 100000)), 10)) // <= 0: refused by any reading
		} else {
			base = mint(strconv.FormatInt((now.Unix()-2-int64(c20Mod(c.A, 3600)))*is.scale, 10))
		}
		if base == "" {
			return
		}
		if ok, _ := c20Validate(ctx, key, c.Server, c.User, base); ok {
			ctx.Class("revive:base-accepted")
			if c.B%2 == 0 {
				ctx.Fail("C20/expired-accepted/crafted", "token with a non-positive expiry validates\n token %s", base)
			} else {
				ctx.Fail("C20/expired-accepted/crafted", "token with expiry >= 2 s before the validation instant (Unix %d) validates\n token %s", now.Unix(), base)
			}
			return
		}
		later := c20TimePrefix + strconv.FormatInt((now.Unix()+3600)*is.scale, 10)
		alt, err := c20Attenuate(base, later)
		if err != nil {
			ctx.Unjudged("attenuation failed: " + err.Error())
			return
		}
		ctx.Class("revive:base-refused")
		if ok, _ := c20Validate(ctx, key, c.Server, c.User, alt); ok {
			ctx.Fail("C20/expired-accepted/second-time", "expired token (refused as such) validates again after its holder appended %q without the key\n base  %s\n later %s", later, base, alt)
		}
	default:
		ctx.Unjudged("unknown op " + c.Op)
	}
}

// ---------------------------------------------------------------------------------------------
// Generators

var c20Durations = []int{0, 1, 2, 59, 60, 61, 120, 3600}

// around and beyond 2^63 nanoseconds (292.27 years): 100, 292, 293, 300, 584, 1000 years and the boundary itself
var c20HugeDurations = []int{100 * 365 * 86400, 9223372036, 9223372037, 293 * 365 * 86400, 300 * 365 * 86400, 18446744073, 18446744074, 1000 * 365 * 86400}

var c20Servers = []string{"localhost", "example.org", "matrix.example.com:8448", "[::1]:8448", "xn--bcher-kva.example", "a"}

var c20TrickyUsers = []string{"gen = 1", "user_id = @a:b", "time < 99999999999", "@a:b\nuser_id = @c:d", "@üser:ex.org", " ", "@a:b ", "0", "@a:b\x00", "@A:B"}

var c20NearMiss = []string{"gen = 2", "gen = 1 ", " gen = 1", "gen=1", "Gen = 1", "gen = 10", "user_id =", "user_id=x", "User_id = x", "time <", "time > 5", "time <= 99999999999",
	"time<99999999999", "guest = true", "type = login", "nonce = abc", "", "\x00", "gen = 1\n", "gen", "time < 99999999999", "user_id = @evil:example.org"}

var c20Inserts = []string{"\n", "\r\n", "\r", " ", "\t", "=", "A", ".", "%0A", "+", "/", "\x00"}

var c20Garbage = []string{"", "A", "AA", "AAAA", "Ag", "AgA", "AgAA", "AgIAAAAAAA", "MDAxY2xvY2F0aW9uIA", "====", "\x00", "{}", "AgJ4AAAGIA"}

// the last entries sit at the negative edge of int64: "expiry minus now" wraps around there
var c20AbsExpiry = []string{"-9223372036854775808", "-9223372036854775807", "-9223372036854775000", "-9223372035000000000", "-4611686018427387904", "0", "1", "29", "30", "58", "59", "60", "61", "119", "120", "179", "180", "3600", "86400", "-1", "-60", "1000000"}

var c20JunkExpiry = []string{"", "abc", " ", "1e12", "99999999999999999999999", " 99999999999", "99999999999 ", "+99999999999", "0x7fffffffffff", "9999999999.5", "NaN", "∞", "-", "١٢٣٤٥٦٧٨٩٠١٢",
	"0099999999999", "-0", "99999999999\n", "99999999999;", "now"}

var c20OpsIssue = []string{"none"}
var c20OpsAlter = []string{"alt-flip", "alt-flip", "alt-flip", "alt-trunc", "alt-truncbin", "alt-b64std", "alt-b64pad", "alt-b64char", "alt-b64char", "alt-insert", "alt-appendbin", "alt-garbage",
	"ks-drop", "ks-dup", "ks-swap", "ks-setuser", "ks-setid", "ks-setboth", "ks-settime", "ks-addunknown", "ks-zerosig", "ks-idsig", "ks-loc", "ks-v1"}
var c20OpsCaveats = []string{"att-dup", "att-user2", "att-time", "att-unknown", "att-unknown", "att-third", "att-third-discharged", "mint", "mint", "mint", "mint", "mint-user2", "remint"}
var c20OpsExpiry = []string{"exp-rel", "exp-rel", "exp-rel", "exp-abs", "exp-junk", "exp-revive"}

func c20GenSecret(t *rapid.T, label string) []byte {
	switch rapid.IntRange(0, 4).Draw(t, label+"-kind") {
	case 0:
		return rapid.SliceOfN(rapid.Byte(), 32, 32).Draw(t, label)
	case 1:
		return rapid.SliceOfN(rapid.Byte(), 0, 4).Draw(t, label)
	case 2:
		return []byte(rapid.SampledFrom([]string{"secret", "macaroon-secret-key", "0", "\x00", ""}).Draw(t, label))
	}
	return rapid.SliceOfN(rapid.Byte(), 1, 80).Draw(t, label)
}

func c20GenUser(t *rapid.T, label string) string {
	switch rapid.IntRange(0, 9).Draw(t, label+"-kind") {
	case 0:
		return rapid.SampledFrom(c20TrickyUsers).Draw(t, label)
	case 1:
		return rapid.StringN(1, 40, -1).Draw(t, label)
	case 2:
		return "@" + rapid.StringMatching(`[a-z0-9._=/-]{200,300}`).Draw(t, label) + ":example.org"
	}
	return "@" + rapid.StringMatching(`[a-z0-9._=/-]{1,12}`).Draw(t, label+"-local") + ":" + rapid.SampledFrom(c20Servers).Draw(t, label+"-host")
}

func c20GenCase(ops []string) func(t *rapid.T) c20Case {
	return func(t *rapid.T) c20Case {
		var c c20Case
		c.Secret = c20GenSecret(t, "secret")
		if c.Secret == nil {
			c.Secret = vfBytes{}
		}
		switch rapid.IntRange(0, 29).Draw(t, "server-kind") {
		case 17:
			c.Server = "" // invalid options
		case 1, 2, 3:
			c.Server = rapid.StringN(1, 30, -1).Draw(t, "server")
		default:
			c.Server = rapid.SampledFrom(c20Servers).Draw(t, "server")
		}
		if rapid.IntRange(0, 39).Draw(t, "user-empty") == 23 {
			c.User = ""
		} else {
			c.User = c20GenUser(t, "user")
		}
		if k := rapid.IntRange(0, 9).Draw(t, "dur-kind"); k <= 1 {
			c.Duration = rapid.IntRange(2, 1000000).Draw(t, "duration")
		} else if k == 2 {
			// lifetimes of centuries ("never expires"): seconds still fit easily, nanoseconds do not
			c.Duration = rapid.SampledFrom(c20HugeDurations).Draw(t, "duration")
		} else {
			c.Duration = rapid.SampledFrom(c20Durations).Draw(t, "duration")
		}
		if k := rapid.IntRange(0, 9).Draw(t, "dur2-kind"); k <= 1 {
			c.Duration2 = rapid.IntRange(1, 1000000).Draw(t, "duration2")
		} else if k == 2 {
			c.Duration2 = rapid.SampledFrom(c20HugeDurations).Draw(t, "duration2")
		} else {
			c.Duration2 = rapid.SampledFrom(c20Durations).Draw(t, "duration2")
		}
		// another key: mostly a near neighbour of the first
		s := []byte(c.Secret)
		var s2 []byte
		switch rapid.IntRange(0, 5).Draw(t, "secret2-kind") {
		case 0:
			s2 = append(append([]byte{}, s...), 0)
		case 1:
			if len(s) > 0 {
				s2 = append([]byte{}, s[:len(s)-1]...)
			}
		case 2:
			if len(s) > 0 {
				s2 = append([]byte{}, s...)
				s2[rapid.IntRange(0, len(s)-1).Draw(t, "secret2-pos")] ^= 1 << uint(rapid.IntRange(0, 7).Draw(t, "secret2-bit"))
			}
		case 3:
			s2 = append([]byte{0}, s...)
		default:
			s2 = c20GenSecret(t, "secret2")
		}
		if bytes.Equal(s, s2) {
			s2 = append(append([]byte{}, s...), 1)
		}
		c.Secret2 = append(vfBytes{}, s2...)
		// another user: mostly a near neighbour
		u := c.User
		switch rapid.IntRange(0, 7).Draw(t, "user2-kind") {
		case 0:
			c.User2 = u + " "
		case 1:
			r := []rune(u)
			if len(r) > 0 {
				c.User2 = string(r[:len(r)-1])
			}
		case 2:
			c.User2 = strings.ToUpper(u)
		case 3:
			c.User2 = "@" + u
		case 4:
			c.User2 = ""
		case 5:
			c.User2 = u + "x"
		default:
			c.User2 = c20GenUser(t, "user2")
		}
		if c.User2 == c.User {
			c.User2 = c.User + "2"
		}
		c.Op = rapid.SampledFrom(ops).Draw(t, "op")
		c.A = rapid.IntRange(0, 4095).Draw(t, "a")
		c.B = rapid.IntRange(0, 4095).Draw(t, "b")
		switch c.Op {
		case "alt-insert":
			c.Text = rapid.SampledFrom(c20Inserts).Draw(t, "text")
		case "alt-garbage":
			if rapid.Bool().Draw(t, "garbage-random") {
				c.Text = rapid.StringMatching(`[A-Za-z0-9_-]{0,60}`).Draw(t, "text")
			} else {
				c.Text = rapid.SampledFrom(c20Garbage).Draw(t, "text")
			}
		case "alt-appendbin":
			c.Text = rapid.StringN(1, 8, -1).Draw(t, "text")
		case "ks-loc":
			c.Text = rapid.SampledFrom(append([]string{"", "evil.example"}, c20Servers...)).Draw(t, "text")
		case "ks-addunknown", "att-unknown", "att-third", "att-third-discharged", "mint":
			if rapid.IntRange(0, 3).Draw(t, "text-random") == 0 {
				c.Text = rapid.StringN(0, 20, -1).Draw(t, "text")
			} else {
				c.Text = rapid.SampledFrom(c20NearMiss).Draw(t, "text")
			}
			if c.Op == "mint" {
				mask := 7
				if rapid.Bool().Draw(t, "mint-incomplete") {
					mask = rapid.IntRange(0, 6).Draw(t, "mint-mask")
				}
				c.A = mask + 8*rapid.IntRange(0, 3).Draw(t, "mint-dup-index")
				c.B = rapid.IntRange(0, 5).Draw(t, "mint-extra")
			}
		case "att-time":
			c.A = rapid.IntRange(-3600, 3600).Draw(t, "delta")
		case "exp-rel":
			switch rapid.IntRange(0, 3).Draw(t, "delta-kind") {
			case 0:
				c.A = rapid.IntRange(-5, 5).Draw(t, "delta")
			case 1:
				c.A = rapid.SampledFrom([]int{-3600, -120, -61, -60, -59, -2, 2, 59, 60, 61, 120, 3600}).Draw(t, "delta")
			default:
				c.A = rapid.IntRange(-3600, 3600).Draw(t, "delta")
			}
		case "exp-abs":
			c.Text = rapid.SampledFrom(c20AbsExpiry).Draw(t, "text")
		case "exp-junk":
			c.Text = rapid.SampledFrom(c20JunkExpiry).Draw(t, "text")
		}
		return c
	}
}

// ---------------------------------------------------------------------------------------------
// Real-time sub-check: a token issued for d seconds must be refused d+1.2 s later.

type c20RTCase struct {
	Duration int `json:"duration"`
	SleepMs  int `json:"sleep_ms"`
}

func c20RTEnum(size, shard, nshards int, emit func(c20RTCase)) {
	all := []c20RTCase{{1, 2200}, {2, 3200}, {3, 4200}, {1, 2200}}
	for i, c := range all {
		if i >= size {
			break
		}
		if nshards > 1 && i%nshards != shard {
			continue
		}
		emit(c)
	}
}

func c20RTCheck(ctx *vfCtx, c c20RTCase) {
	key, server, user := []byte("c20-realtime-secret"), "example.org", "@rt:example.org"
	ctx.Class("realtime:dur:" + strconv.Itoa(c.Duration))
	if c.Duration < 1 || c.SleepMs < c.Duration*1000+1100 || c.SleepMs > 10000 {
		ctx.Unjudged("sleep does not exceed the duration by a 1.1 s margin (or is too long)")
		return
	}
	is := c20Issue(ctx, key, server, user, c.Duration, true)
	if is == nil {
		return
	}
	ctx.NonTrivial()
	ok, _ := c20Validate(ctx, key, server, user, is.tok)
	if c.Duration >= 2 && !ok {
		ctx.Fail("C20/valid-refused/issued", "token issued for %d s is refused immediately", c.Duration)
	}
	time.Sleep(time.Duration(c.SleepMs) * time.Millisecond)
	if ok, _ := c20Validate(ctx, key, server, user, is.tok); ok {
		ctx.Fail("C20/expired-accepted/issued-realtime", "token issued for %d s (expiry caveat %d) still validates %d ms after issue (Unix %d, second %d of the minute)",
			c.Duration, is.t, c.SleepMs, time.Now().Unix(), time.Now().Second())
	} else {
		ctx.Class("realtime:refused-after-sleep")
	}
}

// ---------------------------------------------------------------------------------------------
// Exact expiry boundary, without tolerance: the library's clock read is BRACKETED. A token issued
// for d seconds carries "time < T". ValidateToken is polled; around each call the wall clock is
// read (before, after). The library's own time.Now() lies between the two readings, so
//   before >= T and accepted  => the token validated at or after its expiry instant   (violation)
//   after  <  T and refused   => a pristine token was refused before its expiry        (violation)
// and a call whose bracket straddles a second boundary gives no verdict. Load on the machine only
// widens brackets (fewer judged calls), it never produces a verdict.

const c20BoundaryRule = "at least one ValidateToken call on the issued token had its clock bracket wholly inside the expiry second T (and one wholly before T)"

type c20BDCase struct {
	Duration int `json:"duration"`
}

func c20BDEnum(size, shard, nshards int, emit func(c20BDCase)) {
	all := []c20BDCase{{1}, {2}, {3}, {1}}
	for i, c := range all {
		if i >= size {
			break
		}
		if nshards > 1 && i%nshards != shard {
			continue
		}
		emit(c)
	}
}

func c20BDCheck(ctx *vfCtx, c c20BDCase) {
	key, server, user := []byte("c20-boundary-secret"), "example.org", "@bd:example.org"
	ctx.Class("boundary:dur:" + strconv.Itoa(c.Duration))
	if c.Duration < 1 || c.Duration > 5 {
		ctx.Unjudged("boundary polling is meant for durations 1..5")
		return
	}
	is := c20Issue(ctx, key, server, user, c.Duration, true)
	if is == nil || !is.tOK {
		return
	}
	if is.unit == "unknown" {
		ctx.Unjudged("expiry caveat is not a Unix time: no boundary to bracket")
		return
	}
	clock := func(t time.Time) int64 {
		if is.scale == 1000 {
			return t.UnixMilli()
		}
		return t.Unix()
	}
	T := is.t
	op := TokenOptions{ServerPrivateKey: key, ServerName: server, UserID: user}
	deadline := is.t0.Add(time.Duration(c.Duration)*time.Second + 1500*time.Millisecond)
	var calls, straddle, preOK, atOK, postOK int64
	var failAt, failPre bool
	vfCatch(ctx, "C20", func() {
		for {
			before := time.Now()
			err := ValidateToken(op, is.tok)
			after := time.Now()
			calls++
			b, a := clock(before), clock(after)
			switch {
			case a < b:
				straddle++ // wall clock stepped backwards: no verdict
			case b >= T:
				// the library read its clock at or after T
				if err == nil {
					if !failAt {
						failAt = true
						ctx.Fail("C20/expired-accepted/at-expiry-second", "token issued for %d s with caveat %q%d validates in a call bracketed by clock readings %d (%s) and %d: its expiry instant had been reached",
							c.Duration, c20TimePrefix, T, b, before.Format("15:04:05.000000"), a)
					}
				} else if b == T && a == T {
					atOK++
				} else {
					postOK++
				}
			case a < T:
				// the library read its clock before T
				if err != nil {
					if !failPre {
						failPre = true
						ctx.Fail("C20/refused-before-expiry", "pristine token issued for %d s with caveat %q%d is refused (%v) in a call bracketed by clock readings %d and %d (%s): its expiry had not been reached",
							c.Duration, c20TimePrefix, T, err, b, a, after.Format("15:04:05.000000"))
					}
				} else {
					preOK++
				}
			default:
				straddle++ // before < T <= after: the library may have read either side
			}
			if after.After(deadline) || (is.scale == 1 && b > T && postOK > 100) {
				break
			}
			// poll densely near second boundaries, lightly elsewhere
			if ns := after.Nanosecond(); is.scale == 1 && ns > 30e6 && ns < 970e6 {
				time.Sleep(500 * time.Microsecond)
			}
		}
	})
	vfNote("C20/boundary:calls", calls)
	vfNote("C20/boundary:straddling-brackets", straddle)
	vfNote("C20/boundary:judged-before-expiry", preOK)
	vfNote("C20/boundary:judged-in-expiry-second", atOK)
	vfNote("C20/boundary:judged-after-expiry-second", postOK)
	if atOK > 0 || failAt {
		ctx.Class("boundary:expiry-second-observed")
	} else {
		ctx.Class("boundary:expiry-second-not-observed")
		ctx.Unjudged("no call with its bracket wholly inside the expiry second (machine too loaded)")
	}
	if preOK > 0 || failPre {
		ctx.Class("boundary:before-expiry-observed")
	}
	if (atOK > 0 || failAt) && (preOK > 0 || failPre) {
		ctx.NonTrivial()
	}
}

func init() {
	vfRapid("C20/issue", c20Rule, 1500, 10000, 2, c20GenCase(c20OpsIssue), c20Check)
	vfRapid("C20/alter", c20Rule, 2500, 20000, 4, c20GenCase(c20OpsAlter), c20Check)
	vfRapid("C20/caveats", c20Rule, 3000, 24000, 4, c20GenCase(c20OpsCaveats), c20Check)
	vfRapid("C20/expiry", c20Rule, 1000, 8000, 2, c20GenCase(c20OpsExpiry), c20Check)
	vfEnum("C20/realtime", c20Rule, 2, 4, 1, c20RTEnum, c20RTCheck)
	vfEnum("C20/boundary", c20BoundaryRule, 2, 4, 1, c20BDEnum, c20BDCheck)
}

// ---------------------------------------------------------------------------------------------
// C20/concurrent-issue — several goroutines issue tokens at the same time (a login endpoint under
// load), each for its own user and its own duration. Every token is then examined on its own:
// it validates under the key for the user it was issued for, for nobody else of the batch, names
// that user, and its expiry caveat is the issue instant plus ITS requested duration (the issue
// instant bracketed by two clock reads around the whole batch).

type c20ConcCase struct {
	Secret    vfBytes `json:"secret"`
	Server    string  `json:"server"`
	Routines  int     `json:"routines"`
	PerG      int     `json:"per_goroutine"`
	Durations []int   `json:"durations"` // one per goroutine (0 = default)
}

func c20ConcGen(t *rapid.T) c20ConcCase {
	c := c20ConcCase{Secret: c20GenSecret(t, "secret"), Server: rapid.SampledFrom(c20Servers).Draw(t, "server"),
		Routines: rapid.IntRange(2, 8).Draw(t, "routines"), PerG: rapid.IntRange(1, 12).Draw(t, "perG")}
	for i := 0; i < c.Routines; i++ {
		c.Durations = append(c.Durations, rapid.SampledFrom([]int{0, 1, 60, 120, 3600, 1000100, 3000100, 86400 * 365}).Draw(t, "duration"))
	}
	return c
}

func c20ConcCheck(ctx *vfCtx, c c20ConcCase) {
	if len(c.Secret) == 0 || c.Routines < 2 {
		ctx.Unjudged("generator: empty secret (issue refuses it)")
		return
	}
	type issued struct {
		g    int
		user string
		tok  string
		err  error
	}
	out := make([][]issued, c.Routines)
	var wg sync.WaitGroup
	start := make(chan struct{})
	var panicked atomic.Value
	t0 := time.Now().Unix()
	for g := 0; g < c.Routines; g++ {
		wg.Add(1)
		go func(g int) {
			defer wg.Done()
			defer func() {
				if r := recover(); r != nil {
					panicked.Store(fmt.Sprint(r))
				}
			}()
			<-start
			for i := 0; i < c.PerG; i++ {
				user := fmt.Sprintf("@user%d_%d:%s", g, i, c.Server)
				tok, err := GenerateLoginToken(TokenOptions{ServerPrivateKey: c.Secret, ServerName: c.Server, UserID: user, Duration: c.Durations[g]})
				out[g] = append(out[g], issued{g: g, user: user, tok: tok, err: err})
			}
		}(g)
	}
	close(start)
	wg.Wait()
	t1 := time.Now().Unix()
	if p := panicked.Load(); p != nil {
		ctx.Fail("C20/concurrent-issue/panic", "GenerateLoginToken panicked under concurrent use: %v", p)
		return
	}
	ctx.NonTrivial()
	ctx.Class(fmt.Sprintf("routines=%d", c.Routines))
	for g := range out {
		for i, is := range out[g] {
			if is.err != nil {
				ctx.Fail("C20/concurrent-issue/issue-error", "goroutine %d token %d: %v", g, i, is.err)
				return
			}
			if ok, _ := c20Validate(ctx, c.Secret, c.Server, is.user, is.tok); !ok && c20EffDur(c.Durations[g]) > 5 {
				ctx.Fail("C20/concurrent-issue/valid-refused", "a token issued while %d goroutines were issuing does not validate for the user it was issued for (%s, duration %d)", c.Routines, is.user, c.Durations[g])
				return
			}
			other := out[(g+1)%len(out)][0].user
			if ok, _ := c20Validate(ctx, c.Secret, c.Server, other, is.tok); ok {
				ctx.Fail("C20/concurrent-issue/wrong-user-accepted", "a token issued for %s validates for %s", is.user, other)
				return
			}
			if u, err := GetUserFromToken(is.tok); err != nil || u != is.user {
				ctx.Fail("C20/concurrent-issue/user-differs", "GetUserFromToken = %q (%v), issued for %q", u, err, is.user)
				return
			}
			m, _, err := c20Decode(is.tok)
			if err != nil {
				ctx.Fail("C20/concurrent-issue/undecodable", "issued token does not decode: %v", err)
				return
			}
			if !c20VerifiesUnder(m, c.Secret) {
				ctx.Fail("C20/concurrent-issue/signature", "the token's caveats are not what its signature covers (issued for %s while %d goroutines were issuing)", is.user, c.Routines)
				return
			}
			for _, cv := range c20Cavs(m) {
				if !strings.HasPrefix(string(cv.id), c20TimePrefix) {
					continue
				}
				v, perr := strconv.ParseInt(strings.TrimPrefix(string(cv.id), c20TimePrefix), 10, 64)
				if perr != nil {
					ctx.Fail("C20/concurrent-issue/expiry-unreadable", "expiry caveat %q", cv.id)
					return
				}
				d := c20EffDur(c.Durations[g])
				if v < t0+d || v > t1+d {
					ctx.Fail("C20/concurrent-issue/expiry-of-another-request", "goroutine %d asked for %d s between %d and %d; its token expires at %d (+%d s)", g, d, t0, t1, v, v-t0)
					return
				}
			}
		}
	}
}

func init() {
	vfRapid("C20/concurrent-issue", "every case: 2..8 goroutines issue 1..12 tokens each at the same time, for distinct users and durations; distinct = distinct Case JSON", 150, 4000, 2, c20ConcGen, c20ConcCheck)
}
