//go:build verif

package fclient

import (
	"bufio"
	"bytes"
	"context"
	"crypto/ed25519"
	"crypto/sha256"
	"encoding/base64"
	"encoding/json"
	"fmt"
	"io"
	"net/http"
	"sort"
	"strings"
	"testing"
	"time"
	"unicode/utf8"

	"github.com/matrix-org/gomatrixserverlib"
	"github.com/matrix-org/gomatrixserverlib/spec"
	"github.com/matrix-org/util"
	"github.com/sirupsen/logrus"
	"pgregory.net/rapid"
)

// C13 — federation request authentication binds method, URI, origin, destination, body.
//
// A request is built with NewFederationRequest + SetContent + Sign + HTTPRequest, written to the
// wire with http.Request.Write, optionally tampered in exactly one place ON THE WIRE TEXT, read
// back with http.ReadRequest and handed to VerifyHTTPRequest together with a JSONVerifier that
// really verifies ed25519 against a scripted key table (an independent one built on the reference
// canonical encoder, or the library's KeyRing over a scripted KeyDatabase).
//
// The expectation is computed from the Case alone: a list of "hard" reasons (each one obliges a
// refusal by the property statement) and "soft" reasons (inputs on which the statement is silent:
// only soundness is judged). No reason at all => the request must be accepted with exactly the
// signed fields. Whenever a request is accepted, the reported fields must equal the signed ones.

// ---------------------------------------------------------------------------------------------
// Case

type c13Tamper struct {
	// Kind: none | method | uri | body | ctype | ctype2 | chunked | headers
	Kind   string  `json:"kind"`
	Method string  `json:"method,omitempty"` // method token put on the wire
	URI    string  `json:"uri,omitempty"`    // request-target put on the wire
	Body   vfBytes `json:"body,omitempty"`   // body bytes put on the wire (empty = body removed)
	CType  string  `json:"ctype,omitempty"`  // Content-Type value ("" = header dropped)
	// Headers are templates for the Authorization header values that replace the emitted ones.
	// Placeholders: $C emitted header (first key), $O origin, $K key id, $S signature, $D destination,
	// $F signature with bit SigBit flipped, $E another server that has a key in the table,
	// $L another name (the receiver's second local name if it has one), $2K / $2S second signature.
	Headers  []string `json:"headers,omitempty"`
	SigBit   int      `json:"sig_bit,omitempty"`
	PostWire bool     `json:"post_wire,omitempty"` // set the header values on the parsed request (fuzzing: arbitrary bytes)
	// Chunked (with Kind body): the altered body travels with Transfer-Encoding: chunked, i.e. without a
	// Content-Length (a streaming client, a re-streaming proxy): it is the request's body all the same
	Chunked bool `json:"chunked,omitempty"`
}

type c13Case struct {
	Method    string    `json:"method"`
	URI       string    `json:"uri"`
	HasBody   bool      `json:"has_body"`
	Body      vfBytes   `json:"body,omitempty"` // JSON text handed to SetContent
	Origin    string    `json:"origin"`
	Dest      string    `json:"dest"`
	KeyID     string    `json:"key_id"`
	KeyState  string    `json:"key_state"` // valid | expired-future | stale | novalidity | expired-past | unknown | wrong-material
	Key2ID    string    `json:"key2_id,omitempty"`
	Key2State string    `json:"key2_state,omitempty"`
	Local     []string  `json:"local"`    // names the receiver owns; Local[0] is the `destination` argument
	UseFunc   bool      `json:"use_func"` // pass isLocalServerName (all of Local) instead of nil
	Verifier  string    `json:"verifier"` // table | keyring
	NowMS     int64     `json:"now_ms"`
	Skew      int64     `json:"skew"` // distance (ms, >= 1) of the key's validity edge from now
	T         c13Tamper `json:"tamper"`
}

const (
	c13Evil    = "evil.example.net"
	c13EvilKey = "ed25519:e"
)

func c13Key(server, keyID string) ed25519.PrivateKey {
	h := sha256.Sum256([]byte("c13|" + server + "|" + keyID))
	return ed25519.NewKeyFromSeed(h[:])
}

// ---------------------------------------------------------------------------------------------
// Independent recognisers (written from the Matrix appendices / RFC 3986 / RFC 7235)

func c13Digits(s string, min, max int) bool {
	if len(s) < min || len(s) > max {
		return false
	}
	for i := 0; i < len(s); i++ {
		if s[i] < '0' || s[i] > '9' {
			return false
		}
	}
	return true
}

// c13ValidServerName: server_name = hostname [ ":" 1*5DIGIT ]; hostname = IPv4 / "[" 2*45IPv6char "]" /
// 1*255(ALPHA / DIGIT / "-" / ".").
func c13ValidServerName(s string) bool {
	if strings.HasPrefix(s, "[") {
		end := strings.IndexByte(s, ']')
		if end < 0 {
			return false
		}
		inner, rest := s[1:end], s[end+1:]
		if rest != "" && (rest[0] != ':' || !c13Digits(rest[1:], 1, 5)) {
			return false
		}
		if len(inner) < 2 || len(inner) > 45 {
			return false
		}
		for i := 0; i < len(inner); i++ {
			c := inner[i]
			if !(c >= '0' && c <= '9' || c >= 'a' && c <= 'f' || c >= 'A' && c <= 'F' || c == ':' || c == '.') {
				return false
			}
		}
		return true
	}
	host := s
	if i := strings.LastIndexByte(s, ':'); i >= 0 {
		if !c13Digits(s[i+1:], 1, 5) {
			return false
		}
		host = s[:i]
	}
	if len(host) < 1 || len(host) > 255 {
		return false
	}
	for i := 0; i < len(host); i++ {
		c := host[i]
		if !(c >= '0' && c <= '9' || c >= 'a' && c <= 'z' || c >= 'A' && c <= 'Z' || c == '-' || c == '.') {
			return false
		}
	}
	return true
}

func c13ValidKeyID(s string) bool {
	if !strings.HasPrefix(s, "ed25519:") || len(s) == len("ed25519:") {
		return false
	}
	for _, c := range s[len("ed25519:"):] {
		if !(c >= '0' && c <= '9' || c >= 'a' && c <= 'z' || c >= 'A' && c <= 'Z' || c == '_') {
			return false
		}
	}
	return true
}

func c13IsToken(s string) bool {
	if s == "" {
		return false
	}
	for i := 0; i < len(s); i++ {
		c := s[i]
		if c >= '0' && c <= '9' || c >= 'a' && c <= 'z' || c >= 'A' && c <= 'Z' {
			continue
		}
		if strings.IndexByte("!#$%&'*+-.^_`|~", c) >= 0 {
			continue
		}
		return false
	}
	return true
}

// c13ValidURI: origin-form request-target per RFC 3986/7230: path-abempty (non-empty) [ "?" query ].
func c13ValidURI(s string) bool {
	if !strings.HasPrefix(s, "/") {
		return false
	}
	inQuery := false
	for i := 0; i < len(s); i++ {
		c := s[i]
		switch {
		case c >= '0' && c <= '9' || c >= 'a' && c <= 'z' || c >= 'A' && c <= 'Z':
		case strings.IndexByte("-._~!$&'()*+,;=:@/", c) >= 0:
		case c == '?':
			if !inQuery {
				inQuery = true
			}
		case c == '%':
			if i+2 >= len(s) || !c13IsHex(s[i+1]) || !c13IsHex(s[i+2]) {
				return false
			}
			i += 2
		default:
			return false
		}
	}
	return true
}

func c13IsHex(c byte) bool {
	return c >= '0' && c <= '9' || c >= 'a' && c <= 'f' || c >= 'A' && c <= 'F'
}

// c13Auth is the reading of one Authorization header value by a STRICT grammar:
//
//	"X-Matrix" [ 1*SP param *( OWS "," OWS param ) ]    param = token "=" ( DQUOTE *qdtext DQUOTE / 1*valuechar )
//
// with the four known names in lower case, each at most once. Anything else that starts with the
// scheme X-Matrix is "not strict": the statement gives no grammar, so such values are judged for
// soundness only.
type c13Auth struct {
	IsXMatrix bool
	FoldX     bool // scheme equals X-Matrix only case-insensitively
	Strict    bool
	P         map[string]string
}

func c13ParseAuth(v string) c13Auth {
	scheme, rest := v, ""
	if i := strings.IndexByte(v, ' '); i >= 0 {
		scheme, rest = v[:i], v[i+1:]
	}
	if scheme != "X-Matrix" {
		return c13Auth{FoldX: strings.EqualFold(scheme, "X-Matrix")}
	}
	a := c13Auth{IsXMatrix: true, P: map[string]string{}}
	rest = strings.TrimLeft(rest, " ")
	if rest == "" {
		a.Strict = true
		return a
	}
	var parts []string
	inq, start := false, 0
	for i := 0; i < len(rest); i++ {
		switch {
		case rest[i] == '"':
			inq = !inq
		case rest[i] == ',' && !inq:
			parts = append(parts, rest[start:i])
			start = i + 1
		}
	}
	if inq {
		return a
	}
	parts = append(parts, rest[start:])
	known := map[string]bool{"origin": true, "key": true, "sig": true, "destination": true}
	for _, p := range parts {
		p = strings.Trim(p, " \t")
		eq := strings.IndexByte(p, '=')
		if eq < 0 {
			return a
		}
		name, val := p[:eq], p[eq+1:]
		if !c13IsToken(name) {
			return a
		}
		if ln := strings.ToLower(name); known[ln] && ln != name {
			return a
		}
		if _, dup := a.P[name]; dup {
			return a
		}
		if strings.HasPrefix(val, `"`) {
			if len(val) < 2 || !strings.HasSuffix(val, `"`) {
				return a
			}
			val = val[1 : len(val)-1]
			for i := 0; i < len(val); i++ {
				// a comma inside a quoted string is legal in RFC 7235 but read differently by
				// comma-splitting parsers; the statement gives no grammar, so such values are
				// "not strict" (soundness only) rather than decided by one reading or the other
				if c := val[i]; c == '"' || c == '\\' || c == ',' || c == 0x7f || (c < 0x20 && c != '\t') {
					return a
				}
			}
		} else {
			if val == "" {
				return a
			}
			for i := 0; i < len(val); i++ {
				if c := val[i]; c == '"' || c <= ' ' || c == 0x7f {
					return a
				}
			}
		}
		a.P[name] = val
	}
	a.Strict = true
	return a
}

func c13DecodeSig(s string) ([]byte, bool) {
	if b, err := base64.RawStdEncoding.DecodeString(s); err == nil {
		return b, true
	}
	if b, err := base64.StdEncoding.DecodeString(s); err == nil {
		return b, true
	}
	return nil, false
}

// ---------------------------------------------------------------------------------------------
// The wire model: the bytes http.Request.Write produced, split so that one thing can be replaced.

type c13Wire struct {
	Method, Target, Proto string
	Hdr                   [][2]string
	Body                  []byte
	Chunked               bool
}

func c13ParseWire(raw []byte) (c13Wire, bool) {
	var w c13Wire
	i := bytes.Index(raw, []byte("\r\n\r\n"))
	if i < 0 {
		return w, false
	}
	lines := strings.Split(string(raw[:i]), "\r\n")
	w.Body = append([]byte(nil), raw[i+4:]...)
	sp1 := strings.IndexByte(lines[0], ' ')
	sp2 := strings.LastIndexByte(lines[0], ' ')
	if sp1 < 0 || sp2 <= sp1 {
		return w, false
	}
	w.Method, w.Target, w.Proto = lines[0][:sp1], lines[0][sp1+1:sp2], lines[0][sp2+1:]
	for _, l := range lines[1:] {
		c := strings.Index(l, ": ")
		if c < 0 {
			return w, false
		}
		w.Hdr = append(w.Hdr, [2]string{l[:c], l[c+2:]})
	}
	return w, true
}

func (w *c13Wire) del(name string) {
	var out [][2]string
	for _, h := range w.Hdr {
		if !strings.EqualFold(h[0], name) {
			out = append(out, h)
		}
	}
	w.Hdr = out
}

func (w *c13Wire) get(name string) (string, bool) {
	for _, h := range w.Hdr {
		if strings.EqualFold(h[0], name) {
			return h[1], true
		}
	}
	return "", false
}

func (w *c13Wire) bytes() []byte {
	var b bytes.Buffer
	fmt.Fprintf(&b, "%s %s %s\r\n", w.Method, w.Target, w.Proto)
	w.del("Content-Length")
	w.del("Transfer-Encoding")
	for _, h := range w.Hdr {
		fmt.Fprintf(&b, "%s: %s\r\n", h[0], h[1])
	}
	switch {
	case w.Chunked:
		fmt.Fprintf(&b, "Transfer-Encoding: chunked\r\n\r\n")
		half := len(w.Body) / 2
		for _, ch := range [][]byte{w.Body[:half], w.Body[half:]} {
			if len(ch) > 0 {
				fmt.Fprintf(&b, "%x\r\n%s\r\n", len(ch), ch)
			}
		}
		b.WriteString("0\r\n\r\n")
	case len(w.Body) > 0:
		fmt.Fprintf(&b, "Content-Length: %d\r\n\r\n", len(w.Body))
		b.Write(w.Body)
	default:
		b.WriteString("\r\n")
	}
	return b.Bytes()
}

// ---------------------------------------------------------------------------------------------
// Verifiers

type c13KeyEntry struct {
	Pub        ed25519.PublicKey
	ValidUntil int64
	Expired    int64
}

type c13Table map[string]map[string]c13KeyEntry

func (tb c13Table) put(server, keyID string, e c13KeyEntry) {
	if tb[server] == nil {
		tb[server] = map[string]c13KeyEntry{}
	}
	tb[server][keyID] = e
}

// c13Verifier is an honest JSONVerifier: per request it looks for at least one signature by the
// named server whose key is in the table, was valid at AtTS (expired keys: strictly before their
// expiry; otherwise whatever rule the caller passed in ValidityCheckingFunc, none = no rule) and
// verifies under ed25519 over the REFERENCE canonical form of the message without
// signatures/unsigned. It shares no code with signing.go / keyring.go / json.go.
type c13Verifier struct {
	keys  c13Table
	calls int
}

func (v *c13Verifier) VerifyJSONs(_ context.Context, reqs []gomatrixserverlib.VerifyJSONRequest) ([]gomatrixserverlib.VerifyJSONResult, error) {
	out := make([]gomatrixserverlib.VerifyJSONResult, len(reqs))
	for i, r := range reqs {
		v.calls++
		out[i].Error = v.one(r)
	}
	return out, nil
}

func (v *c13Verifier) one(r gomatrixserverlib.VerifyJSONRequest) error {
	obj, fl, err := jparse(r.Message)
	if err != nil {
		return fmt.Errorf("c13: message is not JSON: %v", err)
	}
	if obj.K != 'o' || fl.DupKeys || fl.LoneSurrogate {
		return fmt.Errorf("c13: message is not a well-formed JSON object")
	}
	sigs, _ := obj.get("signatures")
	mine, _ := sigs.get(string(r.ServerName))
	if sigs.K != 'o' || mine.K != 'o' || len(mine.O) == 0 {
		return fmt.Errorf("c13: no signature by %q", r.ServerName)
	}
	payload := []byte(jcanon(obj.without("signatures", "unsigned")))
	ms := append([]jkv(nil), mine.O...)
	sort.SliceStable(ms, func(i, j int) bool { return ms[i].Key < ms[j].Key })
	last := fmt.Errorf("c13: no usable signature by %q", r.ServerName)
	for _, m := range ms {
		e, ok := v.keys[string(r.ServerName)][m.Key]
		if !ok {
			last = fmt.Errorf("c13: unknown key %q", m.Key)
			continue
		}
		valid := true
		switch {
		case e.Expired != 0:
			valid = int64(r.AtTS) < e.Expired
		case r.ValidityCheckingFunc != nil:
			valid = r.ValidityCheckingFunc(r.AtTS, spec.Timestamp(e.ValidUntil))
		}
		if !valid {
			last = fmt.Errorf("c13: key %q not valid at %d", m.Key, r.AtTS)
			continue
		}
		if m.Val.K != 's' {
			last = fmt.Errorf("c13: signature is not a string")
			continue
		}
		sig, ok := c13DecodeSig(m.Val.S)
		if !ok || len(sig) != ed25519.SignatureSize || !ed25519.Verify(e.Pub, payload, sig) {
			last = fmt.Errorf("c13: bad signature under key %q", m.Key)
			continue
		}
		return nil
	}
	return last
}

// c13DB is a scripted KeyDatabase for the library's own KeyRing.
// the last body-carrying request that was accepted in this process, and what it reported then
var (
	c13Earlier        *FederationRequest
	c13EarlierContent string
	c13EarlierURI     string
)

// c13FailingVerifier fails altogether.
type c13FailingVerifier struct{}

func (c13FailingVerifier) VerifyJSONs(context.Context, []gomatrixserverlib.VerifyJSONRequest) ([]gomatrixserverlib.VerifyJSONResult, error) {
	return nil, fmt.Errorf("c13: scripted verifier failure")
}

type c13DB struct{ keys c13Table }

func (d *c13DB) FetcherName() string { return "c13DB" }

func (d *c13DB) FetchKeys(_ context.Context, reqs map[gomatrixserverlib.PublicKeyLookupRequest]spec.Timestamp) (map[gomatrixserverlib.PublicKeyLookupRequest]gomatrixserverlib.PublicKeyLookupResult, error) {
	out := map[gomatrixserverlib.PublicKeyLookupRequest]gomatrixserverlib.PublicKeyLookupResult{}
	for r := range reqs {
		if e, ok := d.keys[string(r.ServerName)][string(r.KeyID)]; ok {
			out[r] = gomatrixserverlib.PublicKeyLookupResult{
				VerifyKey:    gomatrixserverlib.VerifyKey{Key: spec.Base64Bytes(e.Pub)},
				ExpiredTS:    spec.Timestamp(e.Expired),
				ValidUntilTS: spec.Timestamp(e.ValidUntil),
			}
		}
	}
	return out, nil
}

func (d *c13DB) StoreKeys(context.Context, map[gomatrixserverlib.PublicKeyLookupRequest]gomatrixserverlib.PublicKeyLookupResult) error {
	return nil
}

var c13Quiet = func() *logrus.Entry {
	l := logrus.New()
	l.SetOutput(io.Discard)
	l.SetLevel(logrus.PanicLevel)
	return logrus.NewEntry(l)
}()

// ---------------------------------------------------------------------------------------------
// Check

func c13KeyEntryFor(c c13Case, server, keyID, state string) (c13KeyEntry, bool, bool) {
	// returns (entry, present in the table, key usable at now)
	pub := c13Key(server, keyID).Public().(ed25519.PublicKey)
	skew := c.Skew
	if skew < 1 {
		skew = 1
	}
	switch state {
	case "valid":
		return c13KeyEntry{Pub: pub, ValidUntil: c.NowMS + skew}, true, true
	case "expired-future": // an old key, retired only after the time of receipt
		return c13KeyEntry{Pub: pub, Expired: c.NowMS + skew}, true, true
	case "stale":
		return c13KeyEntry{Pub: pub, ValidUntil: c.NowMS - skew}, true, false
	case "novalidity":
		return c13KeyEntry{Pub: pub, ValidUntil: 0}, true, false
	case "expired-past":
		return c13KeyEntry{Pub: pub, Expired: c.NowMS - skew + 1}, true, false // expiry <= now
	case "wrong-material":
		other := c13Key(server, keyID+"|other").Public().(ed25519.PublicKey)
		return c13KeyEntry{Pub: other, ValidUntil: c.NowMS + skew}, true, false
	default: // unknown
		return c13KeyEntry{}, false, false
	}
}

type c13Reasons struct {
	hard, soft []string
}

func (r *c13Reasons) Hard(s string) { r.hard = append(r.hard, s) }
func (r *c13Reasons) Soft(s string) { r.soft = append(r.soft, s) }

type c13Signed struct {
	origin, dest string
	pairs        map[string][]byte // key id -> signature bytes
	emitted      []string          // Authorization values as emitted by HTTPRequest
}

func c13ClassifyHeaders(vals []string, s c13Signed, r *c13Reasons) {
	var xs []c13Auth
	var xv []string
	fold, others := false, 0
	for _, v := range vals {
		a := c13ParseAuth(v)
		switch {
		case a.IsXMatrix:
			xs = append(xs, a)
			xv = append(xv, v)
		case a.FoldX:
			fold = true
		default:
			others++
		}
	}
	if len(xs) == 0 {
		if fold {
			r.Soft("hdr/scheme-case")
		} else {
			r.Hard("hdr/absent")
		}
		return
	}
	for _, a := range xs {
		if !a.Strict {
			r.Soft("hdr/non-strict-syntax")
			return
		}
	}
	if len(xs) == 1 {
		for _, name := range []string{"origin", "key", "sig"} {
			if xs[0].P[name] == "" {
				r.Hard("hdr/missing-" + name)
				return
			}
		}
	}
	if len(xs) >= 2 {
		a, b := append([]string(nil), xv...), append([]string(nil), s.emitted...)
		sort.Strings(a)
		sort.Strings(b)
		if others == 0 && !fold && strings.Join(a, "\x00") == strings.Join(b, "\x00") {
			return // exactly what was emitted (two signatures)
		}
		r.Soft("hdr/multiple")
		return
	}
	a := xs[0]
	if a.P["origin"] != s.origin {
		r.Hard("hdr/origin-differs")
		return
	}
	d, hasD := a.P["destination"]
	if hasD && d != "" && d != s.dest {
		r.Hard("hdr/destination-differs")
		return
	}
	want, ok := s.pairs[a.P["key"]]
	if !ok {
		r.Hard("hdr/key-differs")
		return
	}
	if got, ok := c13DecodeSig(a.P["sig"]); !ok || !bytes.Equal(got, want) {
		r.Hard("hdr/sig-differs")
		return
	}
	if !hasD || d == "" {
		r.Soft("hdr/destination-omitted")
		return
	}
	for _, e := range s.emitted {
		if e == xv[0] && others == 0 && !fold && len(s.emitted) == 1 {
			return // the emitted header itself
		}
	}
	r.Soft("hdr/variant")
}

func c13Check(ctx *vfCtx, c c13Case) {
	if len(c.Local) == 0 {
		ctx.Unjudged("case without receiver names")
		return
	}
	method := strings.ToUpper(c.Method)
	origin, dest := spec.ServerName(c.Origin), spec.ServerName(c.Dest)

	// ---- what the case is (computed from the Case alone) ----
	var bodyVal jv
	bodyClean := true
	signedBadUTF8 := c.HasBody && !utf8.Valid(c.Body)
	if signedBadUTF8 {
		// the origin itself signs and sends a body that is not UTF-8 (Go's JSON scanner lets such
		// bytes through inside strings): the receiver must refuse it whatever the signature says
		ctx.Class("body/signed-with-invalid-utf8")
		bodyClean = false
	} else if c.HasBody {
		v, fl, err := jparse(c.Body)
		if err != nil || fl.DupKeys || fl.LoneSurrogate {
			ctx.Class("build/body-not-well-formed(unjudged)")
			ctx.Unjudged("body handed to SetContent is not well-formed JSON")
			return
		}
		bodyVal = v
		if fl.NonInt || fl.OutOfRange {
			bodyClean = false
			ctx.Class("body/non-integer-number")
		}
		if v.K == 'o' {
			ctx.Class("body/object")
		} else {
			ctx.Class("body/non-object")
		}
	} else {
		ctx.Class("body/none")
	}
	hasQuery := strings.Contains(c.URI, "?")
	if hasQuery {
		ctx.Class("uri/query")
	}
	if strings.HasSuffix(c.URI, "?") {
		ctx.Class("uri/empty-query")
	}
	if strings.Contains(c.URI, "%") {
		ctx.Class("uri/percent-escape")
	}
	if strings.Contains(strings.ToUpper(c.URI), "%2F") {
		ctx.Class("uri/%2F")
	}
	if strings.Contains(c.URI, "+") {
		ctx.Class("uri/plus")
	}
	if strings.HasPrefix(c.Origin, "[") || strings.HasPrefix(c.Dest, "[") {
		ctx.Class("name/ipv6-literal")
	}
	if strings.Contains(strings.TrimPrefix(c.Dest, "["), ":") || strings.Contains(strings.TrimPrefix(c.Origin, "["), ":") {
		ctx.Class("name/port-or-colon")
	}
	if method != c.Method {
		ctx.Class("method/lower-case-spelling")
	}
	ctx.Class("verifier/" + c.Verifier)
	if c.UseFunc {
		ctx.Class(fmt.Sprintf("receiver/func-over-%d-names", len(c.Local)))
	} else {
		ctx.Class("receiver/single-name")
	}
	uriClean := c13ValidURI(c.URI)
	clean := !signedBadUTF8 && uriClean && c13IsToken(method) && method != "CONNECT" && c13ValidServerName(c.Origin) &&
		c13ValidServerName(c.Dest) && c13ValidKeyID(c.KeyID) && (c.Key2ID == "" || c13ValidKeyID(c.Key2ID))

	// ---- build, sign, emit ----
	fr := NewFederationRequest(c.Method, origin, dest, c.URI)
	var berr error
	var hr *http.Request
	stage := ""
	if vfCatch(ctx, "C13", func() {
		if c.HasBody {
			if berr = fr.SetContent(json.RawMessage(c.Body)); berr != nil {
				stage = "SetContent"
				return
			}
		}
		if berr = fr.Sign(origin, gomatrixserverlib.KeyID(c.KeyID), c13Key(c.Origin, c.KeyID)); berr != nil {
			stage = "Sign"
			return
		}
		if c.Key2ID != "" && c.Key2ID != c.KeyID {
			if berr = fr.Sign(origin, gomatrixserverlib.KeyID(c.Key2ID), c13Key(c.Origin, c.Key2ID)); berr != nil {
				stage = "Sign2"
				return
			}
		}
		if hr, berr = fr.HTTPRequest(); berr != nil {
			stage = "HTTPRequest"
		}
	}) {
		return
	}
	if berr != nil {
		why := ""
		switch msg := berr.Error(); {
		case strings.Contains(msg, "didn't encode properly"):
			why = "/uri-sanity-check"
		case strings.Contains(msg, "isn't safe"):
			why = "/unsafe-in-header"
		case stage == "HTTPRequest":
			why = "/net/http-NewRequest"
		}
		ctx.Class("build/refused-by-" + stage + why)
		if clean {
			ctx.Fail("C13/valid-request-not-sendable/"+stage, "%s refused a request whose method, URI, names, key id and body are all well-formed: %v", stage, berr)
		} else {
			ctx.Unjudged("sender refused to build a request outside the well-formed domain")
		}
		return
	}
	var raw bytes.Buffer
	if err := hr.Write(&raw); err != nil {
		ctx.Class("build/refused-by-net/http-Write")
		if clean {
			ctx.Fail("C13/valid-request-not-sendable/Write", "http.Request.Write refused the request produced by HTTPRequest: %v", err)
		} else {
			ctx.Unjudged("net/http refused to write a request outside the well-formed domain")
		}
		return
	}
	w, ok := c13ParseWire(raw.Bytes())
	if !ok {
		ctx.Class("build/wire-unparseable(unjudged)")
		ctx.Unjudged("wire text not understood by the harness")
		return
	}

	// ---- emission checks (what is on the wire is what was asked to be signed) ----
	if w.Method != method || w.Target != c.URI {
		ctx.Fail("C13/wire-differs-from-signed/request-line", "request line on the wire is %q %q, signed %q %q", w.Method, w.Target, method, c.URI)
		return
	}
	if signedBadUTF8 {
		if utf8.Valid(w.Body) {
			ctx.Class("build/invalid-utf8-body-repaired-by-sender(unjudged)")
			ctx.Unjudged("sender replaced the invalid UTF-8 before signing")
			return
		}
	} else if c.HasBody {
		wv, wfl, werr := jparse(w.Body)
		if werr != nil || wfl.DupKeys || !jequal(wv, bodyVal) {
			ctx.Fail("C13/wire-differs-from-signed/body", "body on the wire %q is not the JSON value handed to SetContent %q", w.Body, []byte(c.Body))
			return
		}
	} else if len(w.Body) != 0 {
		ctx.Fail("C13/wire-differs-from-signed/body", "body-less request has body %q on the wire", w.Body)
		return
	}
	signed := c13Signed{origin: c.Origin, dest: c.Dest, pairs: map[string][]byte{}}
	for _, h := range w.Hdr {
		if strings.EqualFold(h[0], "Authorization") {
			signed.emitted = append(signed.emitted, h[1])
		}
	}
	emittedOK := len(signed.emitted) > 0
	for _, e := range signed.emitted {
		a := c13ParseAuth(e)
		sig, sok := c13DecodeSig(a.P["sig"])
		if !a.IsXMatrix || !a.Strict || !sok || a.P["origin"] != c.Origin || a.P["destination"] != c.Dest ||
			(a.P["key"] != c.KeyID && a.P["key"] != c.Key2ID) {
			emittedOK = false
			break
		}
		signed.pairs[a.P["key"]] = sig
	}
	if !emittedOK {
		if clean {
			ctx.Fail("C13/emitted-header-malformed", "HTTPRequest emitted Authorization %q for origin %q key %q destination %q", signed.emitted, c.Origin, c.KeyID, c.Dest)
			return
		}
		// key ids / names outside their grammars may not survive the header syntax; recover the
		// signatures from the request itself so that the soundness oracle still has them.
		for k, s := range fr.fields.Signatures[origin] {
			if b, ok := c13DecodeSig(s); ok {
				signed.pairs[string(k)] = b
			}
		}
		ctx.Class("emit/header-not-strictly-parseable")
	}
	// the signature is over the object the specification defines (independent construction)
	if clean && bodyClean && emittedOK {
		want := jobj("method", jstr(method), "uri", jstr(c.URI), "origin", jstr(c.Origin), "destination", jstr(c.Dest))
		if c.HasBody {
			want = want.with("content", bodyVal)
		}
		for k, sig := range signed.pairs {
			if !ed25519.Verify(c13Key(c.Origin, k).Public().(ed25519.PublicKey), []byte(jcanon(want)), sig) {
				ctx.Fail("C13/signature-not-over-specified-object", "signature under %s does not verify over the canonical form of %s", k, jcanon(want))
				return
			}
		}
	}

	// ---- expectation: reasons from the configuration ----
	var rs c13Reasons
	if signedBadUTF8 {
		rs.Hard("body-not-utf8/as-signed")
	}
	if !c13ValidServerName(c.Origin) {
		rs.Hard("invalid-origin")
	}
	if !c13ValidServerName(c.Dest) {
		rs.Soft("destination-outside-grammar")
	}
	if !c13ValidKeyID(c.KeyID) || (c.Key2ID != "" && !c13ValidKeyID(c.Key2ID)) {
		rs.Soft("key-id-outside-grammar")
	}
	if !uriClean {
		rs.Soft("uri-outside-rfc3986")
	}
	if !c13IsToken(method) || method == "CONNECT" {
		rs.Soft("method-unusual")
	}
	owned := c.Local[0] == c.Dest
	if c.UseFunc {
		owned = false
		for _, l := range c.Local {
			if l == c.Dest {
				owned = true
			}
		}
	}
	if !owned {
		rs.Hard("destination-not-owned")
	}
	table := c13Table{}
	table.put(c13Evil, c13EvilKey, c13KeyEntry{Pub: c13Key(c13Evil, c13EvilKey).Public().(ed25519.PublicKey), ValidUntil: c.NowMS + 3600000})
	e1, present1, ok1 := c13KeyEntryFor(c, c.Origin, c.KeyID, c.KeyState)
	if present1 {
		table.put(c.Origin, c.KeyID, e1)
	}
	if c.Key2ID != "" && c.Key2ID != c.KeyID {
		e2, present2, ok2 := c13KeyEntryFor(c, c.Origin, c.Key2ID, c.Key2State)
		if present2 {
			table.put(c.Origin, c.Key2ID, e2)
		}
		ctx.Class("keys/two-signatures")
		switch {
		case ok1 && ok2:
		case !ok1 && !ok2:
			rs.Hard("key-" + c.KeyState)
		default:
			rs.Soft("one-of-two-keys-usable")
		}
	} else if !ok1 {
		rs.Hard("key-" + c.KeyState)
	}
	ctx.Class("key/" + c.KeyState)

	// ---- apply the tampering to the wire text; reasons from the tampering ----
	var postWire []string
	kind := c.T.Kind
	switch kind {
	case "", "none":
		kind = "none"
	case "method":
		if c.T.Method != method {
			rs.Hard("method-differs")
			w.Method = c.T.Method
		} else {
			kind = "none"
		}
	case "uri":
		if c.T.URI != c.URI {
			w.Target = c.T.URI // hard/soft decided after net/http has read it (see below)
		} else {
			kind = "none"
		}
	case "body":
		nb := []byte(c.T.Body)
		switch {
		case len(nb) == 0 && !c.HasBody, bytes.Equal(nb, w.Body):
			kind = "none"
		case signedBadUTF8:
			rs.Soft("body-tampered-where-signed-body-was-not-utf8")
		case len(nb) == 0:
			rs.Hard("body-removed")
		case !c.HasBody:
			rs.Hard("body-added")
		case !utf8.Valid(nb):
			rs.Hard("body-not-utf8")
		default:
			nv, nfl, nerr := jparse(nb)
			switch {
			case nerr != nil:
				rs.Hard("body-differs/not-json")
			case nfl.DupKeys || nfl.LoneSurrogate:
				rs.Soft("body-ill-formed-json")
			case jcanon(nv) == jcanon(bodyVal):
				ctx.Class("tamper/body-respelled(value-preserving)")
			case jequal(nv, bodyVal):
				// numerically equal but a number is written with another token (0.0 for -0): number
				// tokens are part of a value's identity in canonical JSON (see C01)
				rs.Soft("body-number-token-respelled")
			default:
				rs.Hard("body-value-differs")
			}
		}
		if kind != "none" {
			w.Body = nb
			if _, has := w.get("Content-Type"); !has && len(nb) > 0 {
				w.Hdr = append(w.Hdr, [2]string{"Content-Type", "application/json"})
			}
			if c.T.Chunked && len(nb) > 0 {
				w.Chunked = true
				ctx.Class("tamper/body-sent-chunked")
			}
		}
	case "ctype":
		cur, _ := w.get("Content-Type")
		switch {
		case c.T.CType == cur:
			kind = "none"
		case !c.HasBody:
			rs.Soft("content-type-without-body")
		default:
			base := c.T.CType
			if i := strings.IndexByte(base, ';'); i >= 0 {
				base = base[:i]
			}
			base = strings.ToLower(strings.Trim(base, " \t"))
			switch {
			case c.T.CType == "":
				rs.Hard("content-type-missing")
			case base == "application/json":
				rs.Soft("content-type-json-variant")
			default:
				rs.Hard("content-type-not-json")
			}
		}
		if kind != "none" {
			w.del("Content-Type")
			if c.T.CType != "" {
				w.Hdr = append(w.Hdr, [2]string{"Content-Type", c.T.CType})
			}
		}
	case "ctype2":
		rs.Soft("second-content-type-header")
		w.Hdr = append(w.Hdr, [2]string{"Content-Type", c.T.CType})
	case "chunked":
		if c.HasBody {
			rs.Soft("chunked-transfer")
			w.Chunked = true
		} else {
			kind = "none"
		}
	case "headers":
		sigOf := func(k string) string { return base64.RawStdEncoding.EncodeToString(signed.pairs[k]) }
		flipped := append([]byte(nil), signed.pairs[c.KeyID]...)
		if len(flipped) > 0 {
			bit := c.T.SigBit
			if bit < 0 {
				bit = -bit
			}
			bit %= len(flipped) * 8
			flipped[bit/8] ^= 1 << (bit % 8)
		}
		other := "other.example.com"
		if len(c.Local) > 1 && c.Local[1] != c.Dest {
			other = c.Local[1]
		} else if c.Local[0] != c.Dest {
			other = c.Local[0]
		}
		emitted1 := ""
		for _, e := range signed.emitted {
			if a := c13ParseAuth(e); a.P["key"] == c.KeyID || emitted1 == "" {
				emitted1 = e
			}
		}
		rep := strings.NewReplacer(
			"$C", emitted1, "$O", c.Origin, "$K", c.KeyID, "$S", sigOf(c.KeyID), "$D", c.Dest,
			"$F", base64.RawStdEncoding.EncodeToString(flipped), "$E", c13Evil, "$L", other,
			"$2K", c.Key2ID, "$2S", sigOf(c.Key2ID))
		var vals []string
		for _, tpl := range c.T.Headers {
			vals = append(vals, rep.Replace(tpl))
		}
		c13ClassifyHeaders(vals, signed, &rs)
		if len(rs.hard) == 0 && len(rs.soft) == 0 && len(vals) == len(signed.emitted) {
			kind = "none"
		}
		w.del("Authorization")
		if c.T.PostWire {
			postWire = vals
			if postWire == nil {
				postWire = []string{}
			}
		} else {
			for _, v := range vals {
				if strings.ContainsAny(v, "\r\n\x00") {
					ctx.Class("tamper/header-not-transmissible(unjudged)")
					ctx.Unjudged("header value with CR/LF/NUL cannot be put on the wire")
					return
				}
				w.Hdr = append(w.Hdr, [2]string{"Authorization", v})
			}
		}
	default:
		ctx.Unjudged("unknown tamper kind " + kind)
		return
	}
	ctx.Class("tamper/" + kind)

	// ---- the receiving side ----
	sreq, rerr := http.ReadRequest(bufio.NewReader(bytes.NewReader(w.bytes())))
	if rerr != nil {
		ctx.Class("wire/rejected-by-net/http(" + kind + ")")
		if kind == "none" && clean {
			ctx.Fail("C13/valid-request-not-readable", "http.ReadRequest cannot read the well-formed request that HTTPRequest + Write produced: %v", rerr)
			return
		}
		ctx.Unjudged("net/http could not read the request line/headers; the library never saw the request")
		return
	}
	if postWire != nil {
		sreq.Header["Authorization"] = postWire
	}
	if kind == "uri" {
		if nf := sreq.URL.RequestURI(); nf == c.URI {
			rs.Soft("uri-differs-only-below-net/http-normal-form")
		} else {
			rs.Hard("uri-differs")
		}
	}
	sreq = sreq.WithContext(util.ContextWithLogger(context.Background(), c13Quiet))

	var verifier gomatrixserverlib.JSONVerifier
	tv := &c13Verifier{keys: table}
	switch c.Verifier {
	case "failing":
		// the receiver's key verifier is down: no signature was checked, nothing may be accepted
		verifier = c13FailingVerifier{}
		rs.Hard("verifier-failed")
	case "keyring":
		verifier = &gomatrixserverlib.KeyRing{KeyDatabase: &c13DB{keys: table}}
	default:
		verifier = tv
	}
	var isLocal func(spec.ServerName) bool
	if c.UseFunc {
		local := append([]string(nil), c.Local...)
		isLocal = func(n spec.ServerName) bool {
			for _, l := range local {
				if l == string(n) {
					return true
				}
			}
			return false
		}
	}
	var got *FederationRequest
	var resp util.JSONResponse
	if vfCatch(ctx, "C13", func() {
		got, resp = VerifyHTTPRequest(sreq, time.UnixMilli(c.NowMS), spec.ServerName(c.Local[0]), isLocal, verifier)
	}) {
		return
	}

	// ---- the order of the Authorization headers is not signed (HTTPRequest emits them in map order,
	// proxies may reorder them): the same request with its X-Matrix headers in the opposite order gets
	// the same verdict
	if auths := sreq.Header["Authorization"]; len(auths) >= 2 && kind == "none" {
		rev := make([]string, len(auths))
		for i, a := range auths {
			rev[len(auths)-1-i] = a
		}
		sreq2, rerr2 := http.ReadRequest(bufio.NewReader(bytes.NewReader(w.bytes())))
		if rerr2 == nil {
			sreq2.Header["Authorization"] = rev
			sreq2 = sreq2.WithContext(util.ContextWithLogger(context.Background(), c13Quiet))
			var verifier2 gomatrixserverlib.JSONVerifier = &c13Verifier{keys: table}
			switch c.Verifier {
			case "keyring":
				verifier2 = &gomatrixserverlib.KeyRing{KeyDatabase: &c13DB{keys: table}}
			case "failing":
				verifier2 = c13FailingVerifier{}
			}
			var got2 *FederationRequest
			var resp2 util.JSONResponse
			if vfCatch(ctx, "C13/reordered", func() {
				got2, resp2 = VerifyHTTPRequest(sreq2, time.UnixMilli(c.NowMS), spec.ServerName(c.Local[0]), isLocal, verifier2)
			}) {
				return
			}
			ctx.Class("authorization-headers-reordered")
			if (got == nil) != (got2 == nil) {
				ctx.Fail("C13/verdict-depends-on-authorization-header-order", "with the %d Authorization headers as sent the request is answered %d, with the same headers in the opposite order %d (keys %s:%s, %s:%s)",
					len(auths), resp.Code, resp2.Code, c.KeyID, c.KeyState, c.Key2ID, c.Key2State)
				return
			}
		}
	}

	// ---- judgement ----
	if kind != "none" || len(rs.hard) > 0 || len(rs.soft) > 0 || (c.HasBody && hasQuery) {
		ctx.NonTrivial()
	}
	for _, h := range rs.hard {
		ctx.Class("must-refuse/" + h)
	}
	for _, s := range rs.soft {
		ctx.Class("soundness-only/" + s)
		ctx.Unjudged("acceptance not judged: " + s)
	}
	accepted := resp.Code == 200
	if accepted != (got != nil) {
		ctx.Fail("C13/inconsistent-result", "VerifyHTTPRequest returned code %d with request nil=%v", resp.Code, got == nil)
		return
	}
	// what a request accepted EARLIER in this process reports has not changed since (its body is its own,
	// whatever was read after it)
	if c13Earlier != nil {
		if string(c13Earlier.Content()) != c13EarlierContent || c13Earlier.RequestURI() != c13EarlierURI {
			ctx.Fail("C13/accepted-request-changed-by-later-requests", "a request accepted earlier reported content %q and URI %q then; after later requests were read it reports %q and %q", c13EarlierContent, c13EarlierURI, c13Earlier.Content(), c13Earlier.RequestURI())
			c13Earlier = nil
			return
		}
	}
	if accepted && c.HasBody {
		c13Earlier, c13EarlierContent, c13EarlierURI = got, string(got.Content()), got.RequestURI()
	}
	if accepted {
		ctx.Class("outcome/accepted")
		// soundness: whatever is accepted carries exactly the signed fields
		if got.Method() != method {
			ctx.Fail("C13/accepted-wrong-fields/method", "accepted request reports method %q, signed %q", got.Method(), method)
		}
		if got.RequestURI() != c.URI {
			ctx.Fail("C13/accepted-wrong-fields/uri", "accepted request reports URI %q, signed %q", got.RequestURI(), c.URI)
		}
		if string(got.Origin()) != c.Origin {
			ctx.Fail("C13/accepted-wrong-fields/origin", "accepted request reports origin %q, signed %q", got.Origin(), c.Origin)
		}
		if string(got.Destination()) != c.Dest {
			ctx.Fail("C13/accepted-wrong-fields/destination", "accepted request reports destination %q, signed %q", got.Destination(), c.Dest)
		}
		if signedBadUTF8 {
			// already a violation (hard reason); nothing to compare the content with
		} else if c.HasBody {
			gv, gfl, gerr := jparse(got.Content())
			if gerr != nil || gfl.DupKeys || !jequal(gv, bodyVal) {
				ctx.Fail("C13/accepted-wrong-fields/content", "accepted request reports content %q, signed %q", got.Content(), []byte(c.Body))
			}
		} else if len(got.Content()) != 0 {
			ctx.Fail("C13/accepted-wrong-fields/content", "accepted body-less request reports content %q", got.Content())
		}
		if len(rs.hard) > 0 {
			ctx.Fail("C13/accepted-despite/"+rs.hard[0], "request accepted (200) although it had to be refused: %v (tamper %s)", rs.hard, kind)
		}
		return
	}
	ctx.Class(fmt.Sprintf("outcome/refused-%d", resp.Code))
	if len(rs.hard) == 0 && len(rs.soft) == 0 {
		feature := "plain"
		switch {
		case kind != "none":
			feature = "value-preserving-" + kind
		case !bodyClean:
			feature = "non-integer-number-in-body"
		case c.Key2ID != "":
			feature = "two-signatures"
		}
		ctx.Fail("C13/refused-valid/"+feature, "a correctly signed, untampered request was refused with %d %v (method %q uri %q origin %q dest %q local %v func %v verifier %s)",
			resp.Code, resp.JSON, method, c.URI, c.Origin, c.Dest, c.Local, c.UseFunc, c.Verifier)
	}
}

// ---------------------------------------------------------------------------------------------
// Generators

var c13Hosts = []string{
	"example.org", "matrix.example.org", "localhost", "a", "a-b.c0", "EXAMPLE.org", "xn--bcher-kva.example",
	"1.2.3.4", "10.0.0.1", "[::1]", "[2001:db8::1]", "[::ffff:1.2.3.4]", "[fe80::1]", "s1.example.com", "s2.example.com",
}
var c13Ports = []string{"", "", "", ":8448", ":443", ":1", ":65535", ":8008"}

var c13BadNames = []string{
	"exa_mple.org", "example.org:port", "[::1", "ex ample.org", "example.org/", "ex@mple.org", "[::g]", "[::1]:",
	":8448", "é.example", "example.org:", "a,b", "a=b", "[]", "ex;ample", "example.org:123456",
}

func c13GenName(t *rapid.T, label string) string {
	return rapid.SampledFrom(c13Hosts).Draw(t, label+"_host") + rapid.SampledFrom(c13Ports).Draw(t, label+"_port")
}

var c13KeyIDs = []string{"ed25519:auto", "ed25519:1", "ed25519:a_B9", "ed25519:p2Vfjq", "ed25519:0", "ed25519:" + "k123456789_123456789_123456789_"}
var c13OddKeyIDs = []string{"ed25519:a,b", "ed25519:a b", "ed25519:a=b", "ed25519:", "rsa:1", "ed25519", "ED25519:x", "ed25519:a\"b", "ed25519:é", "ed25519: x", ",ed25519:x"}

var c13Methods = []string{"GET", "PUT", "POST", "DELETE", "GET", "PUT", "POST", "get", "put", "post", "delete", "Get", "pUt", "PATCH", "OPTIONS", "HEAD"}

var c13PathAtoms = []string{
	"a", "b", "Z", "0", "9", "-", ".", "_", "~", "!", "$", "&", "'", "(", ")", "*", "+", ",", ";", "=", ":", "@",
	"%2F", "%2f", "%20", "%C3%A9", "%c3%a9", "%41", "%00", "%25", "%3F", "%23", "%2B", "%7E", "%22", "%5E", "%7C", "%3C", "%5B",
	"send", "_matrix", "federation", "v1", "v2", "key", "query", "event", "..", ".", "$abc:example.org", "!room:example.org", "@user:example.org",
}
var c13BadPathAtoms = []string{" ", "\"", "é", "^", "[", "]", "#", "%zz", "%", "\\", "{", "|", "<", " "}
var c13QueryAtoms = []string{
	"a", "b", "k", "v", "1", "0", "+", "%20", "%2B", "%26", "%3D", "/", "?", ":", "@", "=", "%C3%A9", "%2F", "%", "-", ".", "~", "*", "ver", "10", "true",
}
var c13BadQueryAtoms = []string{" ", "é", "\"", "#", "%zz", "[", "]", "^", "<"}

func c13GenAtoms(t *rapid.T, good, bad []string, max int, badOK bool, label string) string {
	n := rapid.IntRange(0, max).Draw(t, label+"_n")
	var sb strings.Builder
	for i := 0; i < n; i++ {
		if badOK && rapid.IntRange(0, 5).Draw(t, label+"_bad") == 3 {
			sb.WriteString(rapid.SampledFrom(bad).Draw(t, label+"_b"))
		} else {
			sb.WriteString(rapid.SampledFrom(good).Draw(t, label+"_a"))
		}
	}
	return sb.String()
}

func c13GenURI(t *rapid.T) string {
	if rapid.IntRange(0, 59).Draw(t, "uri_weird") == 17 {
		return rapid.SampledFrom([]string{"", "*", "x/y", "//host/path", "http://evil.example/x", "/", "/?", "//", "/a#frag", "?q=1", "/a?b#c", "/ a", "/a? b"}).Draw(t, "uri_w")
	}
	badOK := rapid.IntRange(0, 11).Draw(t, "uri_badok") == 5
	var sb strings.Builder
	if rapid.IntRange(0, 2).Draw(t, "uri_prefix") == 0 {
		sb.WriteString(rapid.SampledFrom([]string{"/_matrix/federation/v1/send", "/_matrix/federation/v2/invite/!r:x.org", "/_matrix/key/v2/query", "/_matrix/federation/v1/event"}).Draw(t, "uri_pfx"))
	}
	nseg := rapid.IntRange(1, 4).Draw(t, "uri_nseg")
	for i := 0; i < nseg; i++ {
		sb.WriteByte('/')
		sb.WriteString(c13GenAtoms(t, c13PathAtoms, c13BadPathAtoms, 3, badOK, "seg"))
	}
	switch rapid.IntRange(0, 9).Draw(t, "uri_q") {
	case 0, 1, 2, 3:
	case 4:
		sb.WriteByte('?')
	default:
		sb.WriteByte('?')
		np := rapid.IntRange(1, 3).Draw(t, "uri_np")
		for i := 0; i < np; i++ {
			if i > 0 {
				sb.WriteString(rapid.SampledFrom([]string{"&", "&", "&", ";", "&&"}).Draw(t, "uri_sep"))
			}
			sb.WriteString(c13GenAtoms(t, c13QueryAtoms, c13BadQueryAtoms, 2, badOK, "qk"))
			if rapid.IntRange(0, 4).Draw(t, "uri_eq") > 0 {
				sb.WriteByte('=')
				sb.WriteString(c13GenAtoms(t, c13QueryAtoms, c13BadQueryAtoms, 3, badOK, "qv"))
			}
		}
	}
	return sb.String()
}

// c13TamperURI applies one small edit to a URI (escape-only changes included).
func c13TamperURI(t *rapid.T, u string) string {
	first := func(old, new string) (string, bool) {
		if i := strings.Index(u, old); i > 0 {
			return u[:i] + new + u[i+len(old):], true
		}
		return u, false
	}
	order := rapid.Permutation([]int{0, 1, 2, 3, 4, 5, 6, 7, 8, 9, 10, 11, 12, 13, 14, 15, 16, 17, 18, 19}).Draw(t, "uri_edit")
	for _, k := range order {
		var out string
		ok := false
		switch k {
		case 0:
			out, ok = first("%2F", "/")
		case 1:
			out, ok = first("/", "%2F")
		case 2: // hex case of the first escape
			if i := strings.IndexByte(u, '%'); i >= 0 && i+2 < len(u) {
				h := u[i+1 : i+3]
				if strings.ToLower(h) != h {
					out, ok = u[:i+1]+strings.ToLower(h)+u[i+3:], true
				} else if strings.ToUpper(h) != h {
					out, ok = u[:i+1]+strings.ToUpper(h)+u[i+3:], true
				}
			}
		case 3:
			out, ok = first("%41", "A")
		case 4: // escape the first unreserved letter
			for i := 1; i < len(u); i++ {
				if c := u[i]; (c >= 'a' && c <= 'z' || c >= 'A' && c <= 'Z') && (i < 2 || (u[i-1] != '%' && u[i-2] != '%')) {
					out, ok = fmt.Sprintf("%s%%%02X%s", u[:i], c, u[i+1:]), true
					break
				}
			}
		case 5:
			if q := strings.IndexByte(u, '?'); q >= 0 {
				out, ok = u[:q]+"/x"+u[q:], true
			} else {
				out, ok = u+"/x", true
			}
		case 6:
			if q := strings.IndexByte(u, '?'); q >= 0 {
				out, ok = u[:q], true
			} else {
				out, ok = u+"?", true
			}
		case 7:
			if strings.Contains(u, "?") {
				out, ok = u+"&x=1", true
			} else {
				out, ok = u+"?x=1", true
			}
		case 8: // swap two query parameters
			if q := strings.IndexByte(u, '?'); q >= 0 {
				ps := strings.Split(u[q+1:], "&")
				if len(ps) >= 2 && ps[0] != ps[1] {
					ps[0], ps[1] = ps[1], ps[0]
					out, ok = u[:q+1]+strings.Join(ps, "&"), true
				}
			}
		case 9:
			out, ok = first("+", "%20")
		case 10:
			out, ok = first("%20", "+")
		case 11:
			out, ok = first("+", "%2B")
		case 12: // decode an escape that net/http would itself re-encode (normal-form coincidence)
			for _, p := range [][2]string{{"%22", "\""}, {"%5E", "^"}, {"%7C", "|"}, {"%3C", "<"}, {"%C3%A9", "é"}, {"%c3%a9", "é"}} {
				if out, ok = first(p[0], p[1]); ok {
					break
				}
			}
		case 13:
			if len(u) > 1 {
				out, ok = u[:len(u)-1], true
			}
		case 14:
			out, ok = "/."+u, true
		case 15:
			out, ok = "/"+u, true
		case 16:
			out, ok = u+"#f", true
		case 17: // change one character
			if len(u) > 1 {
				i := rapid.IntRange(1, len(u)-1).Draw(t, "uri_pos")
				c := byte('q')
				if u[i] == c {
					c = 'w'
				}
				if u[i] != '%' && (i < 2 || (u[i-1] != '%' && u[i-2] != '%')) {
					out, ok = u[:i]+string(c)+u[i+1:], true
				}
			}
		case 18:
			out, ok = first("%7E", "~")
		case 19:
			if strings.HasSuffix(u, "/") {
				out, ok = u[:len(u)-1], true
			} else if !strings.Contains(u, "?") {
				out, ok = u+"/", true
			}
		}
		if ok && out != u {
			return out
		}
	}
	return u + "/x"
}

// c13Mutate returns a JSON value that differs from v in one small place.
func c13Mutate(t *rapid.T, v jv, depth int) jv {
	switch v.K {
	case 'o':
		if len(v.O) == 0 || rapid.IntRange(0, 5).Draw(t, "mut_add") == 0 {
			return v.with("c13", jnum(1))
		}
		i := rapid.IntRange(0, len(v.O)-1).Draw(t, "mut_member")
		out := jv{K: 'o', O: append([]jkv(nil), v.O...)}
		switch rapid.IntRange(0, 3).Draw(t, "mut_how") {
		case 0:
			out.O = append(out.O[:i:i], out.O[i+1:]...)
		case 1:
			k := out.O[i].Key + "x"
			if _, clash := v.get(k); clash {
				k += "c13"
			}
			out.O[i].Key = k
		default:
			if depth < 4 {
				out.O[i].Val = c13Mutate(t, out.O[i].Val, depth+1)
			} else {
				out.O[i].Val = jstr("c13-changed")
			}
		}
		return out
	case 'a':
		if len(v.A) == 0 || rapid.IntRange(0, 5).Draw(t, "mut_app") == 0 {
			return jv{K: 'a', A: append(append([]jv{}, v.A...), jv{K: 'n'})}
		}
		i := rapid.IntRange(0, len(v.A)-1).Draw(t, "mut_elem")
		out := jv{K: 'a', A: append([]jv{}, v.A...)}
		switch rapid.IntRange(0, 3).Draw(t, "mut_how") {
		case 0:
			out.A = append(out.A[:i:i], out.A[i+1:]...)
		case 1:
			j := (i + 1) % len(out.A)
			if jcanon(out.A[i]) != jcanon(out.A[j]) {
				out.A[i], out.A[j] = out.A[j], out.A[i]
				return out
			}
			fallthrough
		default:
			if depth < 4 {
				out.A[i] = c13Mutate(t, out.A[i], depth+1)
			} else {
				out.A[i] = jstr("c13-changed")
			}
		}
		return out
	case 's':
		switch rapid.IntRange(0, 3).Draw(t, "mut_str") {
		case 0:
			return jstr(v.S + " ")
		case 1:
			if v.S != "" {
				_, n := utf8.DecodeRuneInString(v.S)
				return jstr(v.S[n:])
			}
			return jstr("\u0000")
		case 2:
			if up := strings.ToUpper(v.S); up != v.S {
				return jstr(up)
			}
			return jstr(v.S + "A")
		default:
			return jv{K: 'a', A: []jv{v}}
		}
	case '#':
		switch v.S {
		case "1":
			return jv{K: '#', S: "2"}
		case "0", "-0":
			return rapid.SampledFrom([]jv{{K: '#', S: "1"}, {K: 'f'}, {K: 'n'}, jstr("0")}).Draw(t, "mut_zero")
		default:
			return rapid.SampledFrom([]jv{{K: '#', S: "1"}, jstr(v.S), {K: '#', S: "0"}}).Draw(t, "mut_num")
		}
	case 't':
		return jv{K: 'f'}
	case 'f':
		return rapid.SampledFrom([]jv{{K: 't'}, {K: 'n'}, {K: '#', S: "0"}}).Draw(t, "mut_false")
	default: // null
		return rapid.SampledFrom([]jv{{K: 'f'}, {K: '#', S: "0"}, jstr(""), {K: 'o'}, {K: 'a', A: []jv{}}, jstr("null")}).Draw(t, "mut_null")
	}
}

// c13Spread draws 0..127 from seven coin flips: rapid's integer ranges favour small values, which
// would make the first branch of a weighted switch dominate.
func c13Spread(t *rapid.T, label string) int {
	n := 0
	for i := 0; i < 7; i++ {
		n <<= 1
		if rapid.Bool().Draw(t, label) {
			n |= 1
		}
	}
	return n
}

const c13Canon = `X-Matrix origin="$O",key="$K",sig="$S",destination="$D"`

// c13GenBase draws an untampered, well-configured case.
func c13GenBase(t *rapid.T, allowOdd bool) (c13Case, jv) {
	c := c13Case{
		Method:   rapid.SampledFrom(c13Methods).Draw(t, "method"),
		URI:      c13GenURI(t),
		Origin:   c13GenName(t, "origin"),
		Dest:     c13GenName(t, "dest"),
		KeyID:    rapid.SampledFrom(c13KeyIDs).Draw(t, "keyid"),
		KeyState: "valid",
		NowMS:    1700000000000 + int64(rapid.IntRange(0, 1000000).Draw(t, "now")),
		Skew:     rapid.SampledFrom([]int64{1, 2, 1000, 3600000, 86400000 * 30}).Draw(t, "skew"),
		Verifier: rapid.SampledFrom([]string{"table", "table", "table", "table", "keyring", "keyring", "failing"}).Draw(t, "verifier"),
		T:        c13Tamper{Kind: "none"},
	}
	if rapid.IntRange(0, 5).Draw(t, "oldkey") == 0 {
		c.KeyState = "expired-future"
	}
	if allowOdd && rapid.IntRange(0, 24).Draw(t, "oddkey") == 11 {
		c.KeyID = rapid.SampledFrom(c13OddKeyIDs).Draw(t, "oddkeyid")
	}
	var bv jv
	if rapid.IntRange(0, 9).Draw(t, "hasbody") < 6 {
		c.HasBody = true
		o := jgenOpts{MaxDepth: rapid.IntRange(1, 3).Draw(t, "depth"), MaxWidth: rapid.IntRange(1, 4).Draw(t, "width"),
			IntsOnly: rapid.IntRange(0, 7).Draw(t, "ints") > 0}
		if rapid.IntRange(0, 6).Draw(t, "topobj") > 0 {
			bv = jgenObject(t, o, 0, "b")
		} else {
			bv = jgenValue(t, o, 0, "b")
		}
		c.Body = vfBytes(jspell(t, bv, "bsp"))
	}
	// receiver
	switch rapid.IntRange(0, 3).Draw(t, "recv") {
	case 0:
		c.Local = []string{c.Dest}
	case 1:
		c.Local, c.UseFunc = []string{c.Dest}, true
	case 2:
		c.Local, c.UseFunc = []string{c.Dest, c13GenName(t, "local2")}, true
	default: // the signed destination is a secondary name
		c.Local, c.UseFunc = []string{"primary.example.com", c.Dest, c13GenName(t, "local3")}, true
	}
	return c, bv
}

var c13BadKeyStates = []string{"stale", "novalidity", "expired-past", "unknown", "wrong-material"}

var c13CTypes = []string{"text/plain", "", "application/jsonx", "text/json", "application/x-www-form-urlencoded",
	"application/json; charset=utf-8", "Application/JSON", "application/json;", "application/json, text/plain",
	"application/xml", "json", "application/", "*/*", "application/json ; q=1", "multipart/form-data; boundary=x"}

func c13GenRoundTrip(t *rapid.T) c13Case {
	c, bv := c13GenBase(t, true)
	switch what := c13Spread(t, "what") % 100; {
	case what < 18: // untampered
		if rapid.IntRange(0, 5).Draw(t, "twosig") == 2 {
			c.Key2ID = "ed25519:second"
			c.Key2State = rapid.SampledFrom([]string{"valid", "valid", "stale", "unknown"}).Draw(t, "k2state")
			if rapid.Bool().Draw(t, "k1bad") {
				c.KeyState = rapid.SampledFrom(c13BadKeyStates).Draw(t, "k1state")
			}
		}
	case what < 24:
		m := rapid.SampledFrom([]string{"GET", "PUT", "POST", "DELETE", "HEAD", "get", "put", "Post", "GETT", "PATCH"}).Draw(t, "tm")
		if m == strings.ToUpper(c.Method) {
			m = strings.ToLower(m)
		}
		c.T = c13Tamper{Kind: "method", Method: m}
	case what < 38:
		if rapid.IntRange(0, 7).Draw(t, "uri_nf") == 4 {
			// the signed URI carries an escape that net/http itself re-creates when it meets the raw character
			p := rapid.SampledFrom([][2]string{{"%22", "\""}, {"%5E", "^"}, {"%7C", "|"}, {"%3C", "<"}, {"%C3%A9", "é"}, {"%60", "`"}, {"%7B", "{"}}).Draw(t, "uri_nfp")
			c.T = c13Tamper{Kind: "uri", URI: "/x" + p[1] + c.URI}
			c.URI = "/x" + p[0] + c.URI
		} else {
			c.T = c13Tamper{Kind: "uri", URI: c13TamperURI(t, c.URI)}
		}
	case what < 48: // body value changed
		if c.HasBody {
			c.T = c13Tamper{Kind: "body", Body: vfBytes(jspell(t, c13Mutate(t, bv, 0), "tb"))}
			if rapid.IntRange(0, 3).Draw(t, "plainmut") == 0 {
				c.T.Body = vfBytes(jcanon(c13Mutate(t, bv, 0)))
			}
		} else {
			c.T = c13Tamper{Kind: "body", Body: vfBytes(rapid.SampledFrom([]string{"{}", "null", `{"a":1}`, "[]", " "}).Draw(t, "addbody"))}
		}
	case what < 55: // body re-serialised
		if c.HasBody {
			c.T = c13Tamper{Kind: "body", Body: vfBytes(jspell(t, bv, "respell"))}
		} else {
			c.T = c13Tamper{Kind: "chunked"}
		}
	case what < 61: // invalid UTF-8 / not JSON / removed
		if !c.HasBody {
			c.HasBody = true
			bv = jobj("k", jstr("v"))
			c.Body = vfBytes(`{"k":"v"}`)
		}
		switch rapid.IntRange(0, 7).Draw(t, "badbody") {
		case 6, 7: // the ORIGIN signs and sends a body that is not UTF-8
			bad := rapid.SampledFrom([]string{"a\xffb", "\xc3", "a\xed\xa0\x80", "\xc0\xaf", "\xf8\x88\x80\x80\x80", "é\x80"}).Draw(t, "signedbad")
			c.Body = vfBytes(rapid.SampledFrom([]string{`{"k":"` + bad + `"}`, `{"` + bad + `":1}`, `["` + bad + `"]`, `"` + bad + `"`}).Draw(t, "signedbadform"))
			c.Verifier = rapid.SampledFrom([]string{"keyring", "keyring", "table"}).Draw(t, "signedbadver")
		case 0, 1: // a byte sequence that lenient decoders read as U+FFFD, where U+FFFD was signed
			if bv.K != 'o' {
				bv = jobj("v", bv)
			}
			bv = bv.with("u", jstr("a�b"))
			c.Body = vfBytes(jspell(t, bv, "bsp2"))
			bad := strings.Replace(jcanon(bv), "a�b", rapid.SampledFrom([]string{"a\xffb", "a\xc3b", "a\xed\xa0\x80b", "a\xc0\xafb", "a\xf8b"}).Draw(t, "badseq"), 1)
			c.T = c13Tamper{Kind: "body", Body: vfBytes(bad)}
		case 2:
			c.T = c13Tamper{Kind: "body", Body: append(vfBytes(jcanon(bv)), rapid.SampledFrom([]string{"\x80", "\xff", " \xc3"}).Draw(t, "trail")...)}
		case 3:
			c.T = c13Tamper{Kind: "body", Body: nil}
		case 4:
			s := jcanon(bv)
			c.T = c13Tamper{Kind: "body", Body: vfBytes(rapid.SampledFrom([]string{s[:len(s)-1], s + "}", s + s, "x" + s, s + ",", "'" + s + "'"}).Draw(t, "notjson"))}
		default:
			c.T = c13Tamper{Kind: "chunked"}
		}
	case what < 68:
		c.T = c13Tamper{Kind: "ctype", CType: rapid.SampledFrom(c13CTypes).Draw(t, "ctype")}
		if rapid.IntRange(0, 7).Draw(t, "ct2") == 0 {
			c.T.Kind = "ctype2"
			if c.T.CType == "" {
				c.T.CType = "text/plain"
			}
		}
	case what < 84: // Authorization header(s)
		c.T = c13Tamper{Kind: "headers", SigBit: rapid.IntRange(0, 511).Draw(t, "sigbit")}
		c.T.Headers = rapid.SampledFrom([][]string{
			{`X-Matrix origin="$E",key="$K",sig="$S",destination="$D"`},
			{`X-Matrix origin="$E",key="` + c13EvilKey + `",sig="$S",destination="$D"`},
			{`X-Matrix origin="$O",key="ed25519:other",sig="$S",destination="$D"`},
			{`X-Matrix origin="$O",key="$K",sig="$F",destination="$D"`},
			{`X-Matrix origin="$O",key="$K",sig="$F",destination="$D"`},
			{`X-Matrix origin="$O",key="$K",sig="$S",destination="$L"`},
			{`X-Matrix origin="$O",key="$K",sig="$S",destination="$L"`},
			{`X-Matrix origin="$O",key="$K",sig="$S",destination="$E"`},
			{`X-Matrix origin="$O",key="$K",sig="$S"`},
			{`X-Matrix origin="$O",key="$K",sig="$S",destination=""`},
			{},
			{},
			{"$C", "$C"},
			{"$C", `X-Matrix origin="$E",key="` + c13EvilKey + `",sig="$S",destination="$D"`},
			{`X-Matrix origin="$E",key="` + c13EvilKey + `",sig="$S",destination="$D"`, "$C"},
			{"$C", `X-Matrix origin="$O",key="ed25519:other",sig="$F",destination="$D"`},
			{"$C", "Bearer abcdef"},
			{"Basic dXNlcjpwYXNz", "$C"},
			{`Bearer origin="$O",key="$K",sig="$S",destination="$D"`},
			{`x-matrix origin="$O",key="$K",sig="$S",destination="$D"`},
			{`X-Matri origin="$O",key="$K",sig="$S",destination="$D"`},
			{`X-Matrix key="$K",sig="$S",destination="$D"`},
			{`X-Matrix origin="$O",sig="$S",destination="$D"`},
			{`X-Matrix origin="$O",key="$K",destination="$D"`},
			{`X-Matrix`},
			{`X-Matrix origin="$O",key="$K",sig="",destination="$D"`},
			{`X-Matrix origin="",key="$K",sig="$S",destination="$D"`},
			{`X-Matrix origin="$O",key="$K",sig="$S==",destination="$D"`},
			{`X-Matrix origin="$O",key="$K",sig="$S",destination="$D",origin="$E"`},
			{`X-Matrix origin="$E",origin="$O",key="$K",sig="$S",destination="$D"`},
			{`X-Matrix origin="$O",key="$K",sig="$S",destination="$D",destination="$L"`},
			{"$C"},
		}).Draw(t, "hdrs")
	case what < 91: // addressed to a name the receiver does not own
		switch rapid.IntRange(0, 3).Draw(t, "notown") {
		case 0:
			c.Local, c.UseFunc = []string{c13GenName(t, "own1") + ".x"}, false
		case 1:
			c.Local, c.UseFunc = []string{c13GenName(t, "own1") + ".x", c13GenName(t, "own2") + ".y"}, true
		case 2: // owned only according to a list that is not consulted
			c.Local, c.UseFunc = []string{c13GenName(t, "own1") + ".x", c.Dest}, false
		default: // differs only in letter case or port
			c.Local, c.UseFunc = []string{strings.ToUpper(c.Dest) + "x"}, rapid.Bool().Draw(t, "fn")
			if i := strings.LastIndex(c.Dest, ":"); i > 0 && !strings.HasSuffix(c.Dest, "]") {
				c.Local[0] = c.Dest[:i]
			} else {
				c.Local[0] = c.Dest + ":8448"
			}
		}
	case what < 97: // signing key not usable at the time of receipt
		c.KeyState = rapid.SampledFrom(c13BadKeyStates).Draw(t, "kstate")
	default: // origin that is not a server name
		c.Origin = rapid.SampledFrom(c13BadNames).Draw(t, "badorigin")
	}
	if c.T.Kind == "body" && rapid.IntRange(0, 2).Draw(t, "bodyChunked") == 0 {
		c.T.Chunked = true
	}
	return c
}

// c13GenHeaderSyntax varies the SYNTAX of the Authorization header around the real material.
func c13GenHeaderSyntax(t *rapid.T) c13Case {
	c, _ := c13GenBase(t, false)
	type param struct{ name, val string }
	ps := []param{{"origin", "$O"}, {"key", "$K"}, {"sig", "$S"}, {"destination", "$D"}}
	if rapid.IntRange(0, 2).Draw(t, "perm") == 0 {
		idx := rapid.Permutation([]int{0, 1, 2, 3}).Draw(t, "order")
		ps = []param{ps[idx[0]], ps[idx[1]], ps[idx[2]], ps[idx[3]]}
	}
	if rapid.IntRange(0, 3).Draw(t, "drop") == 0 {
		i := rapid.IntRange(0, len(ps)-1).Draw(t, "dropi")
		ps = append(ps[:i:i], ps[i+1:]...)
	}
	if rapid.IntRange(0, 2).Draw(t, "subst") == 0 {
		i := rapid.IntRange(0, len(ps)-1).Draw(t, "substi")
		switch ps[i].name {
		case "origin":
			ps[i].val = "$E"
		case "key":
			ps[i].val = rapid.SampledFrom([]string{"ed25519:zz", c13EvilKey, "$K "}).Draw(t, "substk")
		case "sig":
			ps[i].val = "$F"
		default:
			ps[i].val = rapid.SampledFrom([]string{"$L", "$E", "$Dx", "$O"}).Draw(t, "substd")
		}
	}
	if rapid.IntRange(0, 3).Draw(t, "extra") == 0 {
		e := rapid.SampledFrom([]param{{"foo", "bar"}, {"origin2", "$E"}, {"realm", ""}, {"a", "b"}, {"Origin", "$E"}, {"origin", "$E"},
			{"destination", "$L"}, {"sig", "$F"}, {"key", "ed25519:zz"}, {"ORIGIN", "$O"}, {"x", "y,origin=$E"}}).Draw(t, "extrap")
		i := rapid.IntRange(0, len(ps)).Draw(t, "extrai")
		ps = append(ps[:i:i], append([]param{e}, ps[i:]...)...)
	}
	seps := []string{",", ",", ",", ", ", " ,", " , ", ",\t", ",", ", ", ",", ",,", ";", " "}
	quotes := [][2]string{{`"`, `"`}, {`"`, `"`}, {`"`, `"`}, {"", ""}, {`"`, `"`}, {"", ""}, {`"`, `"`}, {`"`, ""}, {"", `"`}, {"'", "'"}, {`""`, `""`}, {`"`, `" `}, {` "`, `"`}}
	eqs := []string{"=", "=", "=", "=", "=", "=", "=", "=", " = ", "= ", ":", "=="}
	uniform := rapid.IntRange(0, 3).Draw(t, "uniform") > 0
	strict := rapid.IntRange(0, 9).Draw(t, "strict") < 4 // stay inside the strict grammar: only order, OWS, quoting, fields vary
	if strict {
		seps = []string{",", ",", ", ", " ,", " , ", ",\t"}
		quotes = [][2]string{{`"`, `"`}, {`"`, `"`}, {"", ""}}
		eqs = []string{"="}
	}
	sep, qt, eq := rapid.SampledFrom(seps).Draw(t, "sep"), rapid.SampledFrom(quotes).Draw(t, "quote"), rapid.SampledFrom(eqs).Draw(t, "eq")
	var sb strings.Builder
	schemes := []string{"X-Matrix ", "X-Matrix ", "X-Matrix ", "X-Matrix ", "X-Matrix ", "X-Matrix ", "X-Matrix ", "X-Matrix ", "X-Matrix  ", "X-Matrix   ", "X-Matrix\t", "X-Matrix", "x-matrix ", "X-MATRIX ", "X-Matrix: ", "X-Matrix ,", "X-Matrix , "}
	tails := []string{"", "", "", "", "", "", "", "", ",", " ", ", ", `"`, ",x"}
	if strict {
		schemes, tails = []string{"X-Matrix ", "X-Matrix ", "X-Matrix  "}, []string{""}
	}
	sb.WriteString(rapid.SampledFrom(schemes).Draw(t, "scheme"))
	for i, p := range ps {
		if !uniform {
			sep, qt, eq = rapid.SampledFrom(seps).Draw(t, "sep"), rapid.SampledFrom(quotes).Draw(t, "quote"), rapid.SampledFrom(eqs).Draw(t, "eq")
		}
		if i > 0 {
			sb.WriteString(sep)
		}
		sb.WriteString(p.name + eq + qt[0] + p.val + qt[1])
	}
	sb.WriteString(rapid.SampledFrom(tails).Draw(t, "tail"))
	c.T = c13Tamper{Kind: "headers", Headers: []string{sb.String()}, SigBit: rapid.IntRange(0, 511).Draw(t, "sigbit")}
	switch rapid.IntRange(0, 9).Draw(t, "second") {
	case 0:
		c.T.Headers = append(c.T.Headers, "$C")
	case 1:
		c.T.Headers = append([]string{"$C"}, c.T.Headers...)
	}
	return c
}

func init() {
	rule := "non-trivial = exactly one tampering of the transmitted request (method, URI incl. escape-only edits, body value / bytes only / invalid UTF-8 / removed / added, Content-Type, Authorization header fields, header dropped / duplicated / second header, scheme) or a receiver that does not own the destination or a signing key not usable at the time of receipt or an invalid origin or a header-syntax variant was applied, or the untampered request has both a body and a query string. distinct = distinct Case JSON."
	vfRapid("C13/roundtrip", rule, 20000, 400000, 16, c13GenRoundTrip, c13Check)
	vfRapid("C13/header-syntax", rule, 12000, 200000, 8, c13GenHeaderSyntax, c13Check)
}

// ---------------------------------------------------------------------------------------------
// Native fuzzing: Authorization header syntax. The fuzzer owns the header text (two values), with
// the real material available through the placeholders, and which of a few fixed requests and
// receivers is used. Oracle = c13Check (soundness for anything not strictly well-formed, refusal
// for absent / incomplete / field-changing headers, acceptance for the emitted header).

var c13FuzzBases = []c13Case{
	{Method: "GET", URI: "/_matrix/federation/v1/event/%24abc?x=1", Origin: "example.org", Dest: "s1.example.com:8448", KeyID: "ed25519:auto",
		KeyState: "valid", Local: []string{"s1.example.com:8448"}, Verifier: "table", NowMS: 1700000000000, Skew: 1000},
	{Method: "PUT", URI: "/_matrix/federation/v1/send/1?a=b+c", HasBody: true, Body: vfBytes(`{"pdus":[],"origin":"[::1]:8448","n":-0}`), Origin: "[::1]:8448", Dest: "localhost",
		KeyID: "ed25519:a_B9", KeyState: "valid", Local: []string{"primary.example.com", "localhost", "other.example.com"}, UseFunc: true, Verifier: "keyring", NowMS: 1700000000500, Skew: 1},
	{Method: "post", URI: "/a%2Fb/?", HasBody: true, Body: vfBytes(`{"k":"vé"}`), Origin: "1.2.3.4", Dest: "example.org", KeyID: "ed25519:1", Key2ID: "ed25519:second",
		KeyState: "valid", Key2State: "valid", Local: []string{"example.org", "s2.example.com"}, UseFunc: true, Verifier: "table", NowMS: 1700000000900, Skew: 3600000},
}

// c13FuzzEdit is a small structure-aware mutator on top of the byte-level one: it inserts one token
// from a dictionary at a structural position of the header template (next to a quote, comma, equals
// sign, space, or at the end). Byte-level mutation alone has no coverage signal that would lead it
// to, say, a single blank inside the quotes.
var c13FuzzDict = []string{" ", ".", "x", `"`, ",", "=", "\t", "'", ";", `\`, "origin=", ",origin=$E", ",destination=$L", "$E", "X-Matrix ", "\x00", "\xff", ":", "/"}

func c13FuzzEdit(h string, edit uint16) string {
	if edit == 0 {
		return h
	}
	tok := c13FuzzDict[int(edit>>8)%len(c13FuzzDict)]
	var pos []int
	for i := 0; i < len(h); i++ {
		if strings.IndexByte("\",= ", h[i]) >= 0 {
			pos = append(pos, i, i+1)
		}
	}
	pos = append(pos, len(h))
	i := pos[int(edit&0xff)%len(pos)]
	return h[:i] + tok + h[i:]
}

func FuzzVF_C13(f *testing.F) {
	seeds := [][2]string{
		{c13Canon, ""}, {"$C", ""}, {"$C", "$C"},
		{`X-Matrix origin=$O,key="$K",sig="$S"`, ""},
		{`X-Matrix destination="$D", sig="$S", key="$K", origin="$O"`, ""},
		{`X-Matrix origin="$E",key="$K",sig="$S",destination="$D"`, "$C"},
		{`X-Matrix origin="$O",key="$K",sig="$F",destination="$D"`, ""},
		{`X-Matrix origin="$O",key="$K",sig="$S",destination="$L"`, ""},
		{`X-Matrix origin="$O",key="$2K",sig="$2S",destination="$D"`, "Bearer x"},
		{`X-Matrix origin="$O",key="$K",sig="$S",destination="$D",origin="$E"`, ""},
		{`X-Matrix`, `x-matrix origin="$O"`}, {``, ``}, {`X-Matrix ,,,=,"`, `X-Matrix origin==`},
		{`X-Matrix origin="$O"",key=""$K",sig='$S',destination=$D`, ""},
	}
	// near misses: one extra byte next to each value, inside and outside the quotes, so that the
	// byte-level mutator explores the neighbourhood in which a lenient parser would "repair" a value
	for _, p := range []string{"$O", "$K", "$S", "$D"} {
		for _, v := range []string{"x" + p, p + "x", p + `"x`, `x"` + p} {
			seeds = append(seeds, [2]string{strings.Replace(c13Canon, p, v, 1), ""})
		}
	}
	for i, s := range seeds {
		f.Add(s[0], s[1], uint8(i), uint16(i*37), uint16(0))
	}
	f.Fuzz(func(t *testing.T, h1, h2 string, pick uint8, bit uint16, edit uint16) {
		h1 = c13FuzzEdit(h1, edit)
		c := c13FuzzBases[int(pick)%len(c13FuzzBases)]
		c.T = c13Tamper{Kind: "headers", Headers: []string{h1}, SigBit: int(bit), PostWire: true}
		if h2 != "" {
			c.T.Headers = append(c.T.Headers, h2)
		}
		if pick&0x80 != 0 && h1 == "" {
			c.T.Headers = nil
		}
		// the parser itself: no panic, and nothing is reported for a foreign scheme
		scheme, o, d, k, s := ParseAuthorization(h1)
		if scheme != "X-Matrix" && (o != "" || d != "" || k != "" || s != "") {
			t.Fatalf("VFVIOLATION prop=C13/header-syntax sig=C13/parse-foreign-scheme: ParseAuthorization(%q) reports fields for scheme %q", h1, scheme)
		}
		vfFuzzEval(t, "C13/header-syntax", c, c13Check)
	})
}
