//go:build verif

package fclient

// C16 — reference models (independent of the code under test):
//   * the server-name grammar of the Matrix specification (appendix "Server name"),
//   * the "Resolving server names" steps 1–6 of the server-server specification as a table that
//     yields the ordered list of (destination, Host, SNI) targets,
//   * the rule that decides whether a /.well-known reply is honoured and which cache lifetime it has,
//   * the allow / deny network policy on net/netip prefixes (no net.ParseCIDR / IPNet.Contains).

import (
	"fmt"
	"net/netip"
	"sort"
	"strconv"
	"strings"
)

// ---------------------------------------------------------------------------------------------
// server-name grammar
//
//   server_name = hostname [ ":" port ]          port = 1*5DIGIT
//   hostname    = IPv4address / "[" IPv6address "]" / dns-name
//   dns-name    = 1*255 ( ALPHA / DIGIT / "-" / "." )

type c16Name struct {
	Valid    bool
	Kind     string // "ip4" | "ip6" | "dns"
	Host     string // hostname part as written (IPv6 with its brackets)
	Inner    string // hostname without brackets
	Port     int    // -1 = none
	PortText string
	Dubious  string // non-empty: grammar and common sense disagree, the check does not judge validity
}

func c16IsDigits(s string) bool {
	if s == "" {
		return false
	}
	for i := 0; i < len(s); i++ {
		if s[i] < '0' || s[i] > '9' {
			return false
		}
	}
	return true
}

func c16IsDNSChars(s string) bool {
	if s == "" {
		return false
	}
	for i := 0; i < len(s); i++ {
		c := s[i]
		switch {
		case c >= 'a' && c <= 'z', c >= 'A' && c <= 'Z', c >= '0' && c <= '9', c == '-', c == '.':
		default:
			return false
		}
	}
	return true
}

// c16LooksLikeV4 reports the shape d+.d+.d+.d+ (each 1–3 digits): the grammar's IPv4address.
func c16LooksLikeV4(s string) bool {
	parts := strings.Split(s, ".")
	if len(parts) != 4 {
		return false
	}
	for _, p := range parts {
		if !c16IsDigits(p) || len(p) > 3 {
			return false
		}
	}
	return true
}

func c16ParseName(s string) c16Name {
	bad := c16Name{Port: -1}
	if s == "" {
		return bad
	}
	n := c16Name{Port: -1}
	rest := ""
	if s[0] == '[' {
		i := strings.IndexByte(s, ']')
		if i < 0 {
			return bad
		}
		n.Host, n.Inner, rest = s[:i+1], s[1:i], s[i+1:]
		a, err := netip.ParseAddr(n.Inner)
		if err != nil || a.Zone() != "" || !strings.Contains(n.Inner, ":") {
			return bad
		}
		n.Kind = "ip6"
	} else {
		i := strings.LastIndexByte(s, ':')
		if i >= 0 {
			n.Host, rest = s[:i], s[i:]
		} else {
			n.Host = s
		}
		n.Inner = n.Host
		if !c16IsDNSChars(n.Host) || len(n.Host) > 255 {
			return bad
		}
		if a, err := netip.ParseAddr(n.Host); err == nil && a.Is4() {
			n.Kind = "ip4"
		} else {
			n.Kind = "dns"
			if c16LooksLikeV4(n.Host) {
				// 256.1.1.1, 01.2.3.4: IPv4address by the grammar's letter, not an address
				n.Dubious = "ipv4-shaped-non-address"
			}
		}
	}
	if rest != "" {
		if rest[0] != ':' || !c16IsDigits(rest[1:]) || len(rest[1:]) > 18 {
			return bad
		}
		n.PortText = rest[1:]
		p, _ := strconv.Atoi(n.PortText)
		n.Port = p
		if p > 65535 {
			n.Dubious = "port-above-65535" // 1*5DIGIT by the grammar, no port number
		} else if len(n.PortText) > 5 {
			n.Dubious = "port-with-more-than-5-digits" // 000080: not 1*5DIGIT, yet a port number
		}
	}
	n.Valid = true
	return n
}

// c16RegularHost: a host name every DNS library agrees on (letters/digits/inner hyphens per
// label, at least one letter, optional trailing dot). SRV / address records are only ever
// configured for such names.
func c16RegularHost(h string) bool {
	h = strings.TrimSuffix(h, ".")
	if h == "" || len(h) > 200 {
		return false
	}
	letter := false
	for _, l := range strings.Split(h, ".") {
		if l == "" || len(l) > 63 || l[0] == '-' || l[len(l)-1] == '-' {
			return false
		}
		for i := 0; i < len(l); i++ {
			c := l[i]
			switch {
			case c >= 'a' && c <= 'z', c >= 'A' && c <= 'Z':
				letter = true
			case c >= '0' && c <= '9', c == '-':
			default:
				return false
			}
		}
	}
	return letter
}

func c16FQDN(h string) string {
	h = strings.ToLower(h)
	if !strings.HasSuffix(h, ".") {
		h += "."
	}
	return h
}

// ---------------------------------------------------------------------------------------------
// well-known reply description (shared by C16/wellknown, C16/resolve and C16/tripper)

const c16MaxWK = 50 * 1024

type c16WKSpec struct {
	Mode     string `json:"mode"`               // "neterr" | "reply"
	Status   int    `json:"status,omitempty"`   // HTTP status of the reply
	Doc      string `json:"doc,omitempty"`      // ok | no-mserver | empty-object | empty-mserver | nonstring-number | nonstring-null | nonstring-array | nonstring-object | truncated | not-json | empty-body | top-array | html
	Delegate string `json:"delegate,omitempty"` // value of m.server for Doc == ok
	Extra    string `json:"extra,omitempty"`    // "", "before", "after", "both": other members around m.server
	Pad      string `json:"pad,omitempty"`      // "", "trail", "lead", "inner", "member-after", "member-before"
	Size     int    `json:"size,omitempty"`     // total body size wanted when Pad != ""
	NoCL     bool   `json:"no_cl,omitempty"`    // true: no Content-Length header (chunked reply)
	CC       string `json:"cc,omitempty"`       // Cache-Control header value ("" = absent)
	Expires  string `json:"expires,omitempty"`  // Expires header value ("" = absent)
}

func c16JSONString(s string) string {
	var b strings.Builder
	b.WriteByte('"')
	for _, r := range s {
		switch {
		case r == '"' || r == '\\':
			b.WriteByte('\\')
			b.WriteRune(r)
		case r < 0x20:
			fmt.Fprintf(&b, "\\u%04x", r)
		default:
			b.WriteRune(r)
		}
	}
	b.WriteByte('"')
	return b.String()
}

// c16WKBody builds the reply body from its description. The second result tells whether the body
// is a JSON object naming a non-empty string m.server — by construction, not by parsing.
func c16WKBody(w c16WKSpec) (body []byte, names bool) {
	var doc string
	before, after := "", ""
	if w.Extra == "before" || w.Extra == "both" {
		before = `"a.other":{"x":[1,2,3]},`
	}
	if w.Extra == "after" || w.Extra == "both" {
		after = `,"z.other":"v"`
	}
	if w.Extra == "expiry-members" {
		// members spelled like the fields of the library's result type: the document names a server,
		// it has no say over how long the answer is kept
		before = `"CacheExpiresAt":4102444800,`
		after = `,"cacheexpiresat":4102444800,"cache_expires_at":4102444800,"NewAddress":"evil.example"`
	}
	switch w.Doc {
	case "ok":
		doc = "{" + before + `"m.server":` + c16JSONString(w.Delegate) + after + "}"
		names = w.Delegate != ""
	case "no-mserver":
		doc = `{"m.homeserver":{"base_url":"https://x.example"}}`
	case "empty-object":
		doc = `{}`
	case "empty-mserver":
		doc = `{"m.server":""}`
	case "nonstring-number":
		doc = `{"m.server":8448}`
	case "nonstring-null":
		doc = `{"m.server":null}`
	case "nonstring-array":
		doc = `{"m.server":["a.example"]}`
	case "nonstring-object":
		doc = `{"m.server":{"host":"a.example"}}`
	case "truncated":
		doc = `{"m.server":"a.example"`
	case "not-json":
		doc = `m.server=a.example`
	case "empty-body":
		doc = ``
	case "top-array":
		doc = `[{"m.server":"a.example"}]`
	case "html":
		doc = `<html><body>404 not found</body></html>`
	default:
		doc = `{}`
	}
	if w.Pad == "" || w.Size <= len(doc) {
		return []byte(doc), names
	}
	n := w.Size - len(doc)
	sp := strings.Repeat(" ", n)
	switch w.Pad {
	case "trail":
		return []byte(doc + sp), names
	case "lead":
		return []byte(sp + doc), names
	case "inner":
		if strings.HasSuffix(doc, "}") {
			return []byte(doc[:len(doc)-1] + sp + "}"), names
		}
		return []byte(doc + sp), names
	case "member-after", "member-before":
		// a member `"pad":"xxxx"` plus a comma: 9 bytes of syntax
		if !strings.HasPrefix(doc, "{") || !strings.HasSuffix(doc, "}") || doc == "{}" || n < 10 {
			return []byte(doc + sp), names
		}
		m := `"pad":"` + strings.Repeat("x", n-9) + `"`
		if w.Pad == "member-after" {
			return []byte(doc[:len(doc)-1] + "," + m + "}"), names
		}
		return []byte("{" + m + "," + doc[1:]), names
	}
	return []byte(doc + sp), names
}

// c16WKHonoured is the statement's rule: status 200, no larger than 50 KiB, names an m.server.
func c16WKHonoured(w c16WKSpec) (honoured bool, why string) {
	if w.Mode != "reply" {
		return false, "transport-error"
	}
	body, names := c16WKBody(w)
	switch {
	case w.Status != 200:
		return false, "status-not-200"
	case len(body) > c16MaxWK:
		return false, "oversize"
	case !names:
		return false, "no-m.server"
	}
	return true, "honoured"
}

// ---------------------------------------------------------------------------------------------
// SRV description

type c16SRVRec struct {
	Target string `json:"target"`
	Port   int    `json:"port"`
	Prio   int    `json:"prio"`
	Weight int    `json:"weight"`
}

type c16SRVAns struct {
	Kind string      `json:"kind"` // "nx" | "nodata" | "servfail" | "records" | "mixed" (records, one more of them with a target that is no host name: the resolver reports an error next to the well-formed ones)
	Recs []c16SRVRec `json:"recs,omitempty"`
}

type c16SRVSpec struct {
	Fed c16SRVAns `json:"fed"` // _matrix-fed._tcp.<name>
	Old c16SRVAns `json:"old"` // _matrix._tcp.<name>
}

func (a c16SRVAns) found() bool  { return a.Kind == "records" && len(a.Recs) > 0 }
func (a c16SRVAns) failed() bool { return a.Kind == "servfail" || a.Kind == "mixed" }

// ---------------------------------------------------------------------------------------------
// resolution reference

type c16Target struct {
	Dest string // host:port to connect to
	Host string // Host header
	SNI  string // TLS server name
	Prio int    // SRV priority (targets of equal priority may come in any order)
}

type c16Expect struct {
	Refuse bool          // the name must be refused with an error
	Alts   [][]c16Target // acceptable ordered target lists (usually exactly one)
	OrErr  bool          // an error is acceptable as well (statement silent)
	Step   string        // which step of the specification decides
	Note   string        // why more than one outcome is acceptable
	WKReq  int           // number of well-known requests the specification prescribes (0 or 1)
}

func c16SRVTargets(recs []c16SRVRec, host, sni string) []c16Target {
	out := make([]c16Target, 0, len(recs))
	for _, r := range recs {
		out = append(out, c16Target{Dest: fmt.Sprintf("%s:%d", strings.TrimSuffix(r.Target, "."), r.Port), Host: host, SNI: sni, Prio: r.Prio})
	}
	sort.SliceStable(out, func(i, j int) bool { return out[i].Prio < out[j].Prio })
	return out
}

// c16SRVOrDefault: steps 3.3–3.5 / 4–6 for a host name without port.
func c16SRVOrDefault(name string, srv c16SRVSpec) (alts [][]c16Target, step, note string) {
	def := []c16Target{{Dest: name + ":8448", Host: name, SNI: name}}
	if !c16RegularHost(name) {
		return [][]c16Target{def}, "default-port", ""
	}
	switch {
	case srv.Fed.found():
		return [][]c16Target{c16SRVTargets(srv.Fed.Recs, name, name)}, "srv-matrix-fed", ""
	case srv.Fed.failed():
		// the specification does not say what a failed lookup means: going on to _matrix or
		// straight to port 8448 are both defensible
		alts = [][]c16Target{def}
		if srv.Old.found() {
			alts = append(alts, c16SRVTargets(srv.Old.Recs, name, name))
		}
		return alts, "srv-lookup-error", "matrix-fed lookup failed"
	case srv.Old.found():
		return [][]c16Target{c16SRVTargets(srv.Old.Recs, name, name)}, "srv-matrix", ""
	}
	return [][]c16Target{def}, "default-port", ""
}

// c16Resolve is the table of the specification. srvOrig / srvDeleg answer for the original and the
// delegated host name.
func c16Resolve(name string, wk c16WKSpec, srvOrig, srvDeleg c16SRVSpec) c16Expect {
	n := c16ParseName(name)
	if !n.Valid {
		return c16Expect{Refuse: true, Step: "invalid"}
	}
	switch {
	case n.Kind == "ip4" || n.Kind == "ip6":
		dest := name
		if n.Port < 0 {
			dest = n.Host + ":8448"
		}
		return c16Expect{Alts: [][]c16Target{{{Dest: dest, Host: name, SNI: n.Inner}}}, Step: "1-ip-literal"}
	case n.Port >= 0:
		return c16Expect{Alts: [][]c16Target{{{Dest: name, Host: name, SNI: n.Host}}}, Step: "2-explicit-port"}
	}
	if ok, _ := c16WKHonoured(wk); ok {
		d := c16ParseName(wk.Delegate)
		if d.Valid && d.Dubious != "" {
			// delegated name of doubtful validity: everything defensible is accepted
			plain := d
			plain.Dubious = ""
			e := c16Expect{OrErr: true, Step: "3-delegate-dubious", Note: "delegated name of doubtful validity: " + d.Dubious, WKReq: 1}
			e.Alts, _, _ = c16SRVOrDefault(name, srvOrig)
			switch {
			case d.Port >= 0:
				e.Alts = append(e.Alts, []c16Target{{Dest: wk.Delegate, Host: wk.Delegate, SNI: d.Host}})
			default:
				more, _, _ := c16SRVOrDefault(wk.Delegate, srvDeleg)
				e.Alts = append(e.Alts, more...)
			}
			return e
		}
		switch {
		case !d.Valid:
			// delegated name invalid: refusing, or treating the reply as invalid (step 4), are both
			// defensible; a target built from the invalid name is not
			alts, _, _ := c16SRVOrDefault(name, srvOrig)
			return c16Expect{Alts: alts, OrErr: true, Step: "3-delegate-invalid", Note: "invalid delegated name", WKReq: 1}
		case d.Kind == "ip4" || d.Kind == "ip6":
			dest := wk.Delegate
			if d.Port < 0 {
				dest = d.Host + ":8448"
			}
			return c16Expect{Alts: [][]c16Target{{{Dest: dest, Host: wk.Delegate, SNI: d.Inner}}}, Step: "3.1-delegate-ip", WKReq: 1}
		case d.Port >= 0:
			return c16Expect{Alts: [][]c16Target{{{Dest: wk.Delegate, Host: wk.Delegate, SNI: d.Host}}}, Step: "3.2-delegate-port", WKReq: 1}
		}
		alts, step, note := c16SRVOrDefault(wk.Delegate, srvDeleg)
		return c16Expect{Alts: alts, Step: "3-delegate/" + step, Note: note, WKReq: 1}
	}
	alts, step, note := c16SRVOrDefault(name, srvOrig)
	return c16Expect{Alts: alts, Step: "4-6/" + step, Note: note, WKReq: 1}
}

// c16MatchTargets compares a result list with one acceptable list: same Host / SNI everywhere,
// destinations equal up to the order inside a group of equal SRV priority (RFC 2782 randomises
// there) and up to one trailing dot on the destination host.
func c16NormDest(d string) string {
	i := strings.LastIndexByte(d, ':')
	if i <= 0 {
		return d
	}
	return strings.TrimSuffix(d[:i], ".") + d[i:]
}

func c16MatchTargets(got []ResolutionResult, want []c16Target) string {
	if len(got) != len(want) {
		return fmt.Sprintf("count: got %d targets, want %d", len(got), len(want))
	}
	for i := range got {
		if string(got[i].Host) != want[i].Host {
			return fmt.Sprintf("host: target %d has Host %q, want %q", i, got[i].Host, want[i].Host)
		}
		if got[i].TLSServerName != want[i].SNI {
			return fmt.Sprintf("sni: target %d has TLS server name %q, want %q", i, got[i].TLSServerName, want[i].SNI)
		}
	}
	for i := 0; i < len(want); {
		j := i
		for j < len(want) && want[j].Prio == want[i].Prio {
			j++
		}
		var g, w []string
		for k := i; k < j; k++ {
			g = append(g, c16NormDest(got[k].Destination))
			w = append(w, c16NormDest(want[k].Dest))
		}
		sort.Strings(g)
		sort.Strings(w)
		for k := range g {
			if g[k] != w[k] {
				return fmt.Sprintf("dest: targets %d..%d are %v, want %v", i, j-1, g, w)
			}
		}
		i = j
	}
	return ""
}

// ---------------------------------------------------------------------------------------------
// network policy reference

type c16Policy struct {
	Allow, Deny       []netip.Prefix
	AllowBad, DenyBad int // unparsable entries
}

func c16ParsePrefix(s string) (netip.Prefix, bool) {
	p, err := netip.ParsePrefix(s)
	if err != nil {
		return netip.Prefix{}, false
	}
	if p.Addr().Is4In6() && p.Bits() >= 96 {
		p = netip.PrefixFrom(p.Addr().Unmap(), p.Bits()-96)
	}
	return p.Masked(), true
}

func c16NewPolicy(allow, deny []string) c16Policy {
	var p c16Policy
	for _, s := range allow {
		if x, ok := c16ParsePrefix(s); ok {
			p.Allow = append(p.Allow, x)
		} else {
			p.AllowBad++
		}
	}
	for _, s := range deny {
		if x, ok := c16ParsePrefix(s); ok {
			p.Deny = append(p.Deny, x)
		} else {
			p.DenyBad++
		}
	}
	return p
}

func c16InAny(ps []netip.Prefix, ip netip.Addr) bool {
	for _, p := range ps {
		if p.Contains(ip) {
			return true
		}
	}
	return false
}

// permits: ip lies in no denied range and in at least one allowed range. For an IPv4-mapped IPv6
// address both readings (the IPv6 number, the embedded IPv4 address) are computed; ambiguous is
// true when they disagree.
func (p c16Policy) permits(ip netip.Addr) (ok, ambiguous bool) {
	ip = ip.WithZone("")
	one := func(a netip.Addr) bool { return !c16InAny(p.Deny, a) && c16InAny(p.Allow, a) }
	if ip.Is4In6() {
		a, b := one(ip), one(ip.Unmap())
		return b, a != b
	}
	return one(ip), false
}

func (p c16Policy) inListed(ip netip.Addr) bool {
	u := ip.WithZone("").Unmap()
	return c16InAny(p.Deny, u) || c16InAny(p.Allow, u) || c16InAny(p.Deny, ip.WithZone("")) || c16InAny(p.Allow, ip.WithZone(""))
}

// c16LenientIP extracts the IP address a dial address string talks about, accepting the odd
// syntaxes the generator produces ("ip", "ip:", "[v4]:port", zones). ok=false: no IP in there.
func c16LenientIP(address string) (ip netip.Addr, canonical bool, ok bool) {
	if ap, err := netip.ParseAddrPort(address); err == nil {
		return ap.Addr(), ap.Addr().Zone() == "", true
	}
	h := address
	if strings.HasPrefix(h, "[") {
		if i := strings.IndexByte(h, ']'); i > 0 {
			h = h[1:i]
		}
	} else if strings.Count(h, ":") == 1 {
		h = h[:strings.IndexByte(h, ':')]
	}
	a, err := netip.ParseAddr(h)
	if err != nil {
		return netip.Addr{}, false, false
	}
	return a, false, true
}
