//go:build verif

package fclient

// C16 — process-wide in-process stand-ins for the network, installed once per process:
//   * http.DefaultTransport  -> c16Transport (serves the scripted /.well-known replies),
//   * net.DefaultResolver    -> a pure-Go resolver whose Dial hook returns an in-memory
//     connection answered by c16DNSAnswer (no socket, no goroutine, no timing).
// Both read the script of the case currently being judged (c16W); cases are judged one at a
// time, and the script is cleared when a case ends.

import (
	"bytes"
	"context"
	"encoding/binary"
	"errors"
	"io"
	"net"
	"net/http"
	"net/netip"
	"os"
	"strconv"
	"strings"
	"sync"
	"time"

	"github.com/miekg/dns"
)

type c16HTTPReq struct {
	Method, Scheme, URLHost, HostHeader, Path string
}

type c16World struct {
	mu     sync.Mutex
	active bool
	wk     map[string]c16WKSpec // lower-case URL host -> reply script
	srv    map[string]c16SRVAns // lower-case FQDN of the SRV owner name -> answer
	addrs  map[string][]string  // lower-case FQDN -> addresses
	http   []c16HTTPReq
	dns    []string // "SRV name." / "A name." / "AAAA name."
}

var c16W c16World

var c16InstallOnce sync.Once

func c16Install() {
	c16InstallOnce.Do(func() {
		for _, k := range []string{"HTTP_PROXY", "HTTPS_PROXY", "ALL_PROXY", "http_proxy", "https_proxy", "all_proxy"} {
			_ = os.Unsetenv(k)
		}
		http.DefaultTransport = c16Transport{}
		net.DefaultResolver = &net.Resolver{
			PreferGo: true,
			Dial: func(ctx context.Context, network, address string) (net.Conn, error) {
				return &c16DNSConn{}, nil
			},
		}
	})
}

// c16Begin installs the script of one case; the returned function removes it again.
func c16Begin(wk map[string]c16WKSpec, srv map[string]c16SRVAns, addrs map[string][]string) (end func()) {
	c16Install()
	c16W.mu.Lock()
	c16W.active = true
	c16W.wk, c16W.srv, c16W.addrs = wk, srv, addrs
	c16W.http, c16W.dns = nil, nil
	c16W.mu.Unlock()
	return func() {
		c16W.mu.Lock()
		c16W.active = false
		c16W.wk, c16W.srv, c16W.addrs = nil, nil, nil
		c16W.http, c16W.dns = nil, nil
		c16W.mu.Unlock()
	}
}

func c16Logs() (h []c16HTTPReq, d []string) {
	c16W.mu.Lock()
	defer c16W.mu.Unlock()
	return append([]c16HTTPReq(nil), c16W.http...), append([]string(nil), c16W.dns...)
}

// ---------------------------------------------------------------------------------------------
// HTTP

type c16Transport struct{}

// c16TrapDelegate is what any host without a script answers: if the library asks a second
// well-known question (for a delegated name), the answer shows up in its results.
const c16TrapDelegate = "c16-trap.invalid:1"

const c16MaxHTTPPerCase = 16

type c16SlowReader struct {
	r *bytes.Reader
}

func (s *c16SlowReader) Read(p []byte) (int, error) {
	if len(p) > 4096 {
		p = p[:4096]
	}
	return s.r.Read(p)
}

func c16Response(r *http.Request, status int, body []byte, noCL bool, hdr http.Header) *http.Response {
	if hdr == nil {
		hdr = http.Header{}
	}
	resp := &http.Response{
		Status:     strconv.Itoa(status) + " " + http.StatusText(status),
		StatusCode: status,
		Proto:      "HTTP/1.1", ProtoMajor: 1, ProtoMinor: 1,
		Header:  hdr,
		Body:    io.NopCloser(&c16SlowReader{bytes.NewReader(body)}),
		Request: r,
	}
	hdr.Set("Content-Type", "application/json")
	if noCL {
		resp.ContentLength = -1
		resp.TransferEncoding = []string{"chunked"}
	} else {
		resp.ContentLength = int64(len(body))
		hdr.Set("Content-Length", strconv.Itoa(len(body)))
	}
	return resp
}

func (c16Transport) RoundTrip(r *http.Request) (*http.Response, error) {
	c16W.mu.Lock()
	active := c16W.active
	c16W.http = append(c16W.http, c16HTTPReq{Method: r.Method, Scheme: r.URL.Scheme, URLHost: r.URL.Host, HostHeader: r.Host, Path: r.URL.Path})
	spec, scripted := c16W.wk[strings.ToLower(r.URL.Host)]
	runaway := len(c16W.http) > c16MaxHTTPPerCase
	c16W.mu.Unlock()
	if runaway {
		// a delegation loop in the code under test must end as a finding, not as a stack overflow
		return nil, errors.New("c16: too many well-known requests in one case")
	}
	if r.Body != nil {
		_ = r.Body.Close()
	}
	if !active {
		return nil, errors.New("c16: no case is active")
	}
	if r.Method != "GET" || r.URL.Scheme != "https" || r.URL.Path != "/.well-known/matrix/server" || r.URL.RawQuery != "" {
		return c16Response(r, 404, []byte(`{"errcode":"M_NOT_FOUND"}`), false, nil), nil
	}
	if !scripted {
		return c16Response(r, 200, []byte(`{"m.server":"`+c16TrapDelegate+`"}`), false, nil), nil
	}
	if spec.Mode != "reply" {
		return nil, &net.OpError{Op: "dial", Net: "tcp", Err: errors.New("c16: connection refused (scripted)")}
	}
	body, _ := c16WKBody(spec)
	hdr := http.Header{}
	if spec.CC != "" {
		hdr.Set("Cache-Control", spec.CC)
	}
	if spec.Expires != "" {
		hdr.Set("Expires", spec.Expires)
	}
	return c16Response(r, spec.Status, body, spec.NoCL, hdr), nil
}

// ---------------------------------------------------------------------------------------------
// DNS

// c16DNSConn is a stream ("TCP") DNS connection held in memory: every complete query written to
// it is answered at once into the read buffer.
type c16DNSConn struct {
	mu  sync.Mutex
	in  []byte
	out bytes.Buffer
}

func (c *c16DNSConn) Write(p []byte) (int, error) {
	c.mu.Lock()
	defer c.mu.Unlock()
	c.in = append(c.in, p...)
	for len(c.in) >= 2 {
		n := int(binary.BigEndian.Uint16(c.in))
		if len(c.in) < 2+n {
			break
		}
		q := c.in[2 : 2+n]
		c.in = c.in[2+n:]
		if a := c16DNSAnswer(q); a != nil {
			var l [2]byte
			binary.BigEndian.PutUint16(l[:], uint16(len(a)))
			c.out.Write(l[:])
			c.out.Write(a)
		}
	}
	return len(p), nil
}

func (c *c16DNSConn) Read(p []byte) (int, error) {
	c.mu.Lock()
	defer c.mu.Unlock()
	if c.out.Len() == 0 {
		return 0, io.EOF
	}
	return c.out.Read(p)
}

type c16Addr struct{}

func (c16Addr) Network() string { return "c16mem" }
func (c16Addr) String() string  { return "c16mem" }

func (c *c16DNSConn) Close() error                     { return nil }
func (c *c16DNSConn) LocalAddr() net.Addr              { return c16Addr{} }
func (c *c16DNSConn) RemoteAddr() net.Addr             { return c16Addr{} }
func (c *c16DNSConn) SetDeadline(time.Time) error      { return nil }
func (c *c16DNSConn) SetReadDeadline(time.Time) error  { return nil }
func (c *c16DNSConn) SetWriteDeadline(time.Time) error { return nil }

func c16DNSAnswer(raw []byte) []byte {
	var q dns.Msg
	if err := q.Unpack(raw); err != nil || len(q.Question) != 1 {
		return nil
	}
	qu := q.Question[0]
	name := strings.ToLower(qu.Name)
	reply := new(dns.Msg)
	reply.SetReply(&q)
	reply.Authoritative = true
	reply.RecursionAvailable = true

	c16W.mu.Lock()
	active := c16W.active
	c16W.dns = append(c16W.dns, dns.TypeToString[qu.Qtype]+" "+name)
	srv, haveSRV := c16W.srv[name]
	addrs, haveAddr := c16W.addrs[name]
	c16W.mu.Unlock()

	hdr := func(t uint16) dns.RR_Header {
		return dns.RR_Header{Name: qu.Name, Rrtype: t, Class: dns.ClassINET, Ttl: 60}
	}
	switch {
	case !active:
		reply.Rcode = dns.RcodeServerFailure
	case qu.Qtype == dns.TypeSRV:
		switch {
		case !haveSRV || srv.Kind == "nx":
			reply.Rcode = dns.RcodeNameError
		case srv.Kind == "servfail":
			reply.Rcode = dns.RcodeServerFailure
		case srv.Kind == "records" || srv.Kind == "mixed":
			if srv.Kind == "mixed" {
				reply.Answer = append(reply.Answer, &dns.SRV{Hdr: hdr(dns.TypeSRV), Priority: 5, Weight: 1, Port: 8001, Target: "bad*host.example.net."})
			}
			for _, r := range srv.Recs {
				reply.Answer = append(reply.Answer, &dns.SRV{Hdr: hdr(dns.TypeSRV), Priority: uint16(r.Prio),
					Weight: uint16(r.Weight), Port: uint16(r.Port), Target: dns.Fqdn(r.Target)})
			}
		} // "nodata": NOERROR with an empty answer section
	case qu.Qtype == dns.TypeA || qu.Qtype == dns.TypeAAAA:
		if !haveAddr {
			reply.Rcode = dns.RcodeNameError
			break
		}
		for _, s := range addrs {
			a, err := netip.ParseAddr(s)
			if err != nil {
				continue
			}
			if a.Is4() && qu.Qtype == dns.TypeA {
				reply.Answer = append(reply.Answer, &dns.A{Hdr: hdr(dns.TypeA), A: net.IP(a.AsSlice())})
			}
			if a.Is6() && qu.Qtype == dns.TypeAAAA {
				reply.Answer = append(reply.Answer, &dns.AAAA{Hdr: hdr(dns.TypeAAAA), AAAA: net.IP(a.AsSlice())})
			}
		}
	default:
		reply.Rcode = dns.RcodeNameError
	}
	out, err := reply.Pack()
	if err != nil {
		return nil
	}
	return out
}
