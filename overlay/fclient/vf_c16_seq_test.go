//go:build verif

package fclient

// C16/sequence — SEVERAL requests through ONE federation round tripper, with connections that succeed.
// Names are answered by the in-process DNS / well-known stand-ins (vf_c16_stubs_test.go); the targets
// are two TLS listeners on the loopback interface that record the Host header of what reaches them.
// World: server name A delegates (well-known) to the host name B; SRV of B points at listener 1.
// B is ALSO a server name in its own right: it either publishes a well-known of its own that
// delegates to C (SRV of C -> listener 2), or publishes none (then SRV of B -> listener 1).
// Whatever was asked before through the same client, every request goes where the resolution of ITS
// server name leads, with the Host header of that resolution step.

import (
	"fmt"
	"net"
	"net/http"
	"net/http/httptest"
	"strconv"
	"strings"
	"sync"

	"pgregory.net/rapid"
)

type c16SeqCase struct {
	BOwnWK bool     `json:"b_own_wk"`
	Order  []string `json:"order"` // "a" | "b"
}

func c16SeqGen(t *rapid.T) c16SeqCase {
	return c16SeqCase{BOwnWK: rapid.Bool().Draw(t, "bOwnWK"),
		Order: rapid.SampledFrom([][]string{{"a", "b"}, {"b", "a"}, {"a", "a", "b"}, {"a", "b", "a"}, {"b", "a", "b"}, {"a", "b", "b"}}).Draw(t, "order")}
}

func c16SeqCheck(ctx *vfCtx, c c16SeqCase) {
	tag := "nowk"
	if c.BOwnWK {
		tag = "ownwk"
	}
	tag += "-" + strings.Join(c.Order, "")
	a, b, cc := "a-"+tag+".c16seq.example", "b-"+tag+".c16seq.example", "c-"+tag+".c16seq.example"
	var mu sync.Mutex
	var log []string
	mk := func(which string) (out *httptest.Server) {
		defer func() {
			if r := recover(); r != nil { // (no loopback interface to listen on: the environment's matter)
				out = nil
			}
		}()
		s := httptest.NewUnstartedServer(http.HandlerFunc(func(rw http.ResponseWriter, req *http.Request) {
			mu.Lock()
			log = append(log, which+" Host="+req.Host)
			mu.Unlock()
			rw.Header().Set("Content-Type", "application/json")
			_, _ = rw.Write([]byte(`{}`))
		}))
		s.Config.ErrorLog = nil
		s.StartTLS()
		return s
	}
	s1, s2 := mk("listener-1"), mk("listener-2")
	if s1 != nil {
		defer s1.Close()
	}
	if s2 != nil {
		defer s2.Close()
	}
	if s1 == nil || s2 == nil {
		ctx.Unjudged("no listener on the loopback interface")
		return
	}
	port := func(s *httptest.Server) int {
		_, p, _ := net.SplitHostPort(s.Listener.Addr().String())
		n, _ := strconv.Atoi(p)
		return n
	}
	wk := map[string]c16WKSpec{a: {Mode: "reply", Status: 200, Doc: "ok", Delegate: b}}
	if c.BOwnWK {
		wk[b] = c16WKSpec{Mode: "reply", Status: 200, Doc: "ok", Delegate: cc}
	} else {
		wk[b] = c16WKSpec{Mode: "reply", Status: 404, Doc: "html"}
	}
	srv := map[string]c16SRVAns{}
	c16SRVMap(srv, b, c16SRVSpec{Fed: c16SRVAns{Kind: "records", Recs: []c16SRVRec{{Target: b, Port: port(s1), Prio: 1, Weight: 1}}}, Old: c16SRVAns{Kind: "nx"}})
	c16SRVMap(srv, cc, c16SRVSpec{Fed: c16SRVAns{Kind: "records", Recs: []c16SRVRec{{Target: cc, Port: port(s2), Prio: 1, Weight: 1}}}, Old: c16SRVAns{Kind: "nx"}})
	c16SRVMap(srv, a, c16SRVSpec{Fed: c16SRVAns{Kind: "nx"}, Old: c16SRVAns{Kind: "nx"}})
	addrs := map[string][]string{c16FQDN(a): {"127.0.0.1"}, c16FQDN(b): {"127.0.0.1"}, c16FQDN(cc): {"127.0.0.1"}}
	end := c16Begin(wk, srv, addrs)
	defer end()

	wantFor := map[string]string{"a": "listener-1 Host=" + b, "b": "listener-1 Host=" + b}
	if c.BOwnWK {
		wantFor["b"] = "listener-2 Host=" + cc
	}
	var tr *destinationTripper
	if vfCatch(ctx, "C16/sequence", func() { tr = newDestinationTripper(true, nil, false, true, nil, nil) }) {
		return
	}
	ctx.Class("b-own-well-known=" + fmt.Sprint(c.BOwnWK))
	ctx.Class("order/" + strings.Join(c.Order, ""))
	for i, which := range c.Order {
		name := map[string]string{"a": a, "b": b}[which]
		before := len(log)
		var resp *http.Response
		var err error
		if vfCatch(ctx, "C16/sequence", func() {
			req, rerr := http.NewRequest("GET", "matrix://"+name+"/_matrix/federation/v1/version", nil)
			if rerr != nil {
				err = rerr
				return
			}
			resp, err = tr.RoundTrip(req)
		}) {
			return
		}
		if resp != nil {
			_ = resp.Body.Close()
		}
		mu.Lock()
		got := append([]string(nil), log[before:]...)
		mu.Unlock()
		if err != nil || len(got) == 0 {
			if i == 0 {
				ctx.Unjudged(fmt.Sprintf("the first request did not reach a loopback listener: %v", err))
				return
			}
			ctx.Fail("C16/sequence/later-request-fails", "request %d (to %s, after %v) did not reach its target: %v", i+1, name, c.Order[:i], err)
			return
		}
		ctx.NonTrivial()
		if got[len(got)-1] != wantFor[which] {
			ctx.Fail("C16/sequence/wrong-target-or-host", "request %d of %v: server name %s was served by %q; the resolution of that name leads to %q", i+1, c.Order, name, got[len(got)-1], wantFor[which])
			return
		}
	}
}

func init() {
	vfRapid("C16/sequence", "every case: 2-3 requests for two server names (one the well-known delegate of the other) through one federation round tripper, connections succeeding on the loopback interface; distinct = distinct Case JSON", 24, 200, 1, c16SeqGen, c16SeqCheck)
}
