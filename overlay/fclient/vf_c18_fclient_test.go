//go:build verif

// C18 (package fclient) — Authorization headers / inbound federation requests, and every response
// or request body type a remote server fills in.
package fclient

import (
	"bytes"
	"context"
	"encoding/json"
	"fmt"
	"net/http"
	"os"
	"path/filepath"
	"strings"
	"testing"
	"time"

	"github.com/matrix-org/gomatrixserverlib"
	"github.com/matrix-org/gomatrixserverlib/spec"
	"pgregory.net/rapid"
)

// ---------------------------------------------------------------------------------------------
// bookkeeping (same discipline as the root package: one library call per vfCatch, one report per
// panic function and case)

type c18State struct {
	ctx    *vfCtx
	prefix string
	seen   map[string]bool
	ops    int
}

func c18NewState(ctx *vfCtx, prefix string) *c18State {
	return &c18State{ctx: ctx, prefix: prefix, seen: map[string]bool{}}
}

func (s *c18State) call(op string, f func()) (panicked bool) {
	n := len(s.ctx.findings)
	panicked = vfCatch(s.ctx, s.prefix, f)
	s.ops++
	if !panicked || len(s.ctx.findings) <= n {
		return panicked
	}
	fd := s.ctx.findings[len(s.ctx.findings)-1]
	stem := fd.Sig[len(s.prefix)+len("/panic/"):]
	if s.seen[fd.Sig] {
		s.ctx.findings = s.ctx.findings[:n]
		s.ctx.Class("again/" + stem)
		return panicked
	}
	s.seen[fd.Sig] = true
	s.ctx.findings[len(s.ctx.findings)-1].Msg = op + ": " + fd.Msg
	s.ctx.Class("panic/" + stem + "/via/" + op)
	return panicked
}

func c18Copy(b []byte) []byte { return append([]byte(nil), b...) }

type c18Verifier struct{ mode int }

func (v c18Verifier) VerifyJSONs(ctx context.Context, reqs []gomatrixserverlib.VerifyJSONRequest) ([]gomatrixserverlib.VerifyJSONResult, error) {
	out := make([]gomatrixserverlib.VerifyJSONResult, len(reqs))
	switch v.mode {
	case 1:
		for i := range out {
			out[i].Error = fmt.Errorf("c18: stub says invalid")
		}
	case 2:
		return nil, fmt.Errorf("c18: stub verifier failure")
	case 3:
		for i, r := range reqs {
			out[i].Error = fmt.Errorf("c18: no valid signature from %q", r.ServerName)
			ids, err := gomatrixserverlib.ListKeyIDs(string(r.ServerName), r.Message)
			if err != nil {
				out[i].Error = err
				continue
			}
			pub, _ := vfKeyFor("origin:" + string(r.ServerName))
			for _, id := range ids {
				if gomatrixserverlib.VerifyJSON(string(r.ServerName), id, pub, r.Message) == nil {
					out[i].Error = nil
					break
				}
			}
		}
	}
	return out, nil
}

func c18UserIDForSender(roomID spec.RoomID, senderID spec.SenderID) (*spec.UserID, error) {
	return spec.NewUserID(string(senderID), true)
}

// ---------------------------------------------------------------------------------------------
// C18/fc-request

type c18ReqCase struct {
	Method      string   `json:"method"`
	URI         string   `json:"uri"`
	Auth        []string `json:"auth"` // Authorization header values
	ContentType string   `json:"content_type"`
	Body        vfBytes  `json:"body"`
	Dest        string   `json:"dest"`
	Verifier    int      `json:"verifier"`
	LocalNames  bool     `json:"local_names"`
}

var c18ReqNow = time.UnixMilli(1700000000000)

func c18ReqCheck(ctx *vfCtx, c c18ReqCase) {
	s := c18NewState(ctx, "C18")
	for _, h := range c.Auth {
		var scheme string
		var origin spec.ServerName
		s.call("ParseAuthorization", func() { scheme, origin, _, _, _ = ParseAuthorization(h) })
		if scheme == "X-Matrix" && origin != "" {
			ctx.Class("header/x-matrix-with-origin")
		}
		s.call("isSafeInHTTPQuotedString", func() { _ = isSafeInHTTPQuotedString(h) })
	}
	// net/http is trusted transport: what it cannot turn into a request never reaches the library
	req, err := http.NewRequest(c.Method, "https://local.example"+c.URI, bytes.NewReader(c18Copy(c.Body)))
	if err != nil || req == nil || req.URL == nil {
		ctx.Class("request/not-constructible")
		return
	}
	if c.ContentType != "" {
		req.Header.Set("Content-Type", c.ContentType)
	}
	req.Header["Authorization"] = append([]string(nil), c.Auth...)
	var isLocal func(spec.ServerName) bool
	if c.LocalNames {
		isLocal = func(n spec.ServerName) bool { return n == "local.example" || n == spec.ServerName(c.Dest) }
	}
	var fr *FederationRequest
	var code int
	s.call("VerifyHTTPRequest", func() {
		r, resp := VerifyHTTPRequest(req, c18ReqNow, spec.ServerName(c.Dest), isLocal, c18Verifier{c.Verifier})
		fr, code = r, resp.Code
	})
	ctx.Class(fmt.Sprintf("verify/%d", code))
	ctx.NonTrivial() // the header / request parser ran on a deliverable request
	if fr != nil {
		ctx.Class("request/authenticated")
		s.call("FederationRequest.accessors", func() {
			_ = fr.Method()
			_ = fr.Content()
			_ = fr.Origin()
			_ = fr.Destination()
			_ = fr.RequestURI()
		})
		s.call("FederationRequest.HTTPRequest", func() { _, _ = fr.HTTPRequest() })
	}
	// the same values on the way out (a server name / key ID learnt from a remote ends up here)
	_, priv := vfKeyFor("origin:local.example")
	out := NewFederationRequest(c.Method, "local.example", spec.ServerName(c.Dest), c.URI)
	s.call("FederationRequest.SetContent", func() { _ = out.SetContent(spec.RawJSON(c18Copy(c.Body))) })
	s.call("FederationRequest.Sign", func() { _ = out.Sign("local.example", gomatrixserverlib.KeyID("ed25519:1"), priv) })
	s.call("FederationRequest.HTTPRequest/out", func() { _, _ = out.HTTPRequest() })
}

var c18Headers = []string{
	`X-Matrix origin="a.example",key="ed25519:1",sig="AAAA",destination="local.example"`,
	`X-Matrix origin=a.example,key="ed25519:1",sig="AAAA"`, `X-Matrix`, `X-Matrix `, `X-Matrix ,`, `X-Matrix =`, `X-Matrix origin`, `X-Matrix origin=`, `X-Matrix origin="`,
	`X-Matrix origin="",key="",sig=""`, `X-Matrix origin="a.example",origin="b.example",key="k",sig="s"`, `X-Matrix origin="a.example",key="ed25519:1",sig="AAAA",destination=""`,
	`X-Matrix origin="a.example\"",key=ed25519:1,sig=`, ` X-Matrix origin=a`, `x-matrix origin=a,key=b,sig=c`, `Bearer abc`, ``, ` `, `X-Matrix  origin = "a.example" , key = "k" , sig = "s"`,
	`X-Matrix origin="[::1]:8448",key="ed25519:1",sig="AAAA"`, `X-Matrix origin="a.example",key="ed25519:1",sig="` + strings.Repeat("A", 86) + `"`, "X-Matrix origin=\"\x00\",key=\"\xff\",sig=\"\"",
	`X-Matrix origin=a.example,key=ed25519:1,sig=AAAA,destination=other.example`, `X-Matrix ====,,,,"""`,
}

func c18GenReq(t *rapid.T) c18ReqCase {
	c := c18ReqCase{
		Method:      rapid.SampledFrom([]string{"GET", "PUT", "POST", "get", "", "P UT", "DELETE"}).Draw(t, "method"),
		URI:         rapid.SampledFrom([]string{"/_matrix/federation/v1/send/1", "/", "", "/a?b=c", "/a b", "/%zz", "//x", "/a#b", "?x", "/é"}).Draw(t, "uri"),
		ContentType: rapid.SampledFrom([]string{"application/json", "application/json; charset=utf-8", "", "text/plain", "application/json;", ";", "APPLICATION/JSON", "application/json; x"}).Draw(t, "ct"),
		Dest:        rapid.SampledFrom([]string{"local.example", "", "other.example", "a b"}).Draw(t, "dest"),
		Verifier:    rapid.SampledFrom([]int{0, 0, 3, 1, 2}).Draw(t, "verifier"),
		LocalNames:  rapid.Bool().Draw(t, "localNames"),
	}
	n := rapid.IntRange(0, 3).Draw(t, "nauth")
	for i := 0; i < n; i++ {
		h := rapid.SampledFrom(c18Headers).Draw(t, "header")
		if rapid.Bool().Draw(t, "structured") {
			// a well-formed header from small pools, so that several headers of one request relate to each
			// other: the same origin, another origin, the same origin in another letter case or spelling
			h = fmt.Sprintf("X-Matrix origin=%q,key=%q,sig=%q",
				rapid.SampledFrom([]string{"a.example", "a.example", "A.Example", "a.example.", "a.example:8448", "b.example", "A.EXAMPLE"}).Draw(t, "hOrigin"),
				rapid.SampledFrom([]string{"ed25519:1", "ed25519:1", "ed25519:2", "ED25519:1", ""}).Draw(t, "hKey"),
				rapid.SampledFrom([]string{"AAAA", strings.Repeat("A", 86), "", "!"}).Draw(t, "hSig"))
			if rapid.Bool().Draw(t, "hDest") {
				h += fmt.Sprintf(",destination=%q", rapid.SampledFrom([]string{"local.example", "Local.Example", "other.example", ""}).Draw(t, "hDestV"))
			}
		}
		if rapid.IntRange(0, 3).Draw(t, "damage") == 0 && len(h) > 0 {
			pos := rapid.IntRange(0, len(h)-1).Draw(t, "pos")
			switch rapid.IntRange(0, 2).Draw(t, "how") {
			case 0:
				h = h[:pos]
			case 1:
				h = h[:pos] + rapid.SampledFrom([]string{"\"", ",", "=", " ", "\x00"}).Draw(t, "ins") + h[pos:]
			default:
				h = h[:pos] + h[pos+1:]
			}
		}
		c.Auth = append(c.Auth, h)
	}
	switch rapid.IntRange(0, 5).Draw(t, "body") {
	case 0:
	case 1:
		c.Body = vfBytes(`{"a":1}`)
	case 2:
		c.Body = vfBytes("\xff\xfe")
	case 3:
		c.Body = vfBytes(`{"a":`)
	default:
		o := jgenOpts{MaxDepth: 2, MaxWidth: 3}
		c.Body = vfBytes(jspell(t, jgenValue(t, o, 0, "v"), "p"))
	}
	return c
}

// ---------------------------------------------------------------------------------------------
// C18/fc-types

type c18TypesCase struct {
	Kind    string  `json:"kind"`
	Body    vfBytes `json:"body"`
	Version string  `json:"version"` // room version used where the type carries PDUs
}

var c18Kinds = []string{"RespSend", "RespStateIDs", "RespState", "RespPeek", "RespMissingEvents", "RespPublicRooms", "RespEventAuth", "RespUserDevices", "RespMakeJoin", "RespSendJoin",
	"RespSendKnock", "RespMakeKnock", "RespMakeLeave", "RespDirectory", "RespProfile", "RespInvite", "RespInviteV2", "RespClaimKeys", "RespQueryKeys", "DeviceKeys", "Version",
	"MSC2836Request", "MSC2836Response", "RoomHierarchyResponse", "InviteV2Request", "InviteV3Request", "CrossSigningKeys", "CrossSigningKey", "CrossSigningForKeyOrDevice",
	"Transaction", "RespGetRelayTransaction", "RelayEvents", "ServerKeys", "ServerKeysList", "InviteStrippedState", "RespError"}

func c18Decode(s *c18State, kind string, body []byte, into interface{}) bool {
	var err error
	if s.call(kind+"/json.Unmarshal", func() { err = json.Unmarshal(c18Copy(body), into) }) {
		return false
	}
	return err == nil
}

func c18StateLike(s *c18State, version string, r gomatrixserverlib.StateResponse) {
	ver := gomatrixserverlib.RoomVersion(version)
	bg := context.Background()
	s.call("CheckStateResponse", func() {
		_, _, _ = gomatrixserverlib.CheckStateResponse(bg, r, ver, c18Verifier{0}, nil, c18UserIDForSender)
	})
	s.call("LineariseStateResponse", func() { _ = gomatrixserverlib.LineariseStateResponse(ver, r) })
}

func c18EventLike(s *c18State, tag string, ev gomatrixserverlib.PDU) {
	if ev == nil {
		return
	}
	s.call(tag+"/EventID", func() { _ = ev.EventID() })
	s.call(tag+"/RoomID", func() { r := ev.RoomID(); _ = r.String() })
	s.call(tag+"/AuthEventIDs", func() { _ = ev.AuthEventIDs() })
	s.call(tag+"/SenderID.IsUserID", func() { _ = ev.SenderID().IsUserID() })
	s.call(tag+"/Membership", func() { _, _ = ev.Membership() })
}

func c18RawEvent(s *c18State, tag, version string, raw []byte) {
	if len(raw) == 0 {
		return
	}
	impl, err := gomatrixserverlib.GetRoomVersion(gomatrixserverlib.RoomVersion(version))
	if err != nil {
		return
	}
	var ev gomatrixserverlib.PDU
	if !s.call(tag+"/NewEventFromUntrustedJSON", func() { ev, err = impl.NewEventFromUntrustedJSON(c18Copy(raw)) }) && err == nil {
		c18EventLike(s, tag, ev)
	}
}

func c18TypesCheck(ctx *vfCtx, c c18TypesCase) {
	s := c18NewState(ctx, "C18")
	ctx.Class("kind/" + c.Kind)
	body := []byte(c.Body)
	ok := false
	remarshal := func(v interface{}) { s.call(c.Kind+"/json.Marshal", func() { _, _ = json.Marshal(v) }) }
	switch c.Kind {
	case "RespSend":
		var v RespSend
		ok = c18Decode(s, c.Kind, body, &v)
	case "RespStateIDs":
		var v RespStateIDs
		if ok = c18Decode(s, c.Kind, body, &v); ok {
			_ = v.GetStateEventIDs()
			_ = v.GetAuthEventIDs()
		}
	case "RespState":
		var v RespState
		if ok = c18Decode(s, c.Kind, body, &v); ok {
			c18StateLike(s, c.Version, &v)
			remarshal(v)
		}
	case "RespPeek":
		var v RespPeek
		if ok = c18Decode(s, c.Kind, body, &v); ok {
			c18StateLike(s, c.Version, &v)
			remarshal(v)
		}
	case "RespMissingEvents":
		var v RespMissingEvents
		if ok = c18Decode(s, c.Kind, body, &v); ok {
			s.call("UntrustedEvents", func() { _ = v.Events.UntrustedEvents(gomatrixserverlib.RoomVersion(c.Version)) })
		}
	case "RespPublicRooms":
		var v RespPublicRooms
		ok = c18Decode(s, c.Kind, body, &v)
	case "RespEventAuth":
		var v RespEventAuth
		if ok = c18Decode(s, c.Kind, body, &v); ok {
			s.call("UntrustedEvents", func() { _ = v.AuthEvents.UntrustedEvents(gomatrixserverlib.RoomVersion(c.Version)) })
		}
	case "RespUserDevices":
		var v RespUserDevices
		if ok = c18Decode(s, c.Kind, body, &v); ok {
			remarshal(v)
			s.call("CrossSigningKey.Equal", func() { _ = v.MasterKey.Equal(v.SelfSigningKey); _ = v.SelfSigningKey.Equal(v.SelfSigningKey) })
		}
	case "RespMakeJoin":
		var v RespMakeJoin
		if ok = c18Decode(s, c.Kind, body, &v); ok {
			pe := v.GetJoinEvent()
			_ = v.GetRoomVersion()
			s.call("StateNeededForProtoEvent", func() { _, _ = gomatrixserverlib.StateNeededForProtoEvent(&pe) })
			remarshal(v)
		}
	case "RespSendJoin":
		var v RespSendJoin
		if ok = c18Decode(s, c.Kind, body, &v); ok {
			_ = v.GetOrigin()
			_ = v.GetMembersOmitted()
			_ = v.GetServersInRoom()
			c18StateLike(s, c.Version, &v)
			c18RawEvent(s, "RespSendJoin.Event", c.Version, v.GetJoinEvent())
			remarshal(v)
		}
	case "RespSendKnock":
		var v RespSendKnock
		if ok = c18Decode(s, c.Kind, body, &v); ok {
			for i := range v.KnockRoomState {
				st := &v.KnockRoomState[i]
				_, _, _, _ = st.Content(), st.StateKey(), st.Type(), st.Sender()
			}
			remarshal(v)
		}
	case "RespMakeKnock":
		var v RespMakeKnock
		ok = c18Decode(s, c.Kind, body, &v)
	case "RespMakeLeave":
		var v RespMakeLeave
		ok = c18Decode(s, c.Kind, body, &v)
	case "RespDirectory":
		var v RespDirectory
		ok = c18Decode(s, c.Kind, body, &v)
	case "RespProfile":
		var v RespProfile
		ok = c18Decode(s, c.Kind, body, &v)
	case "RespInvite":
		var v RespInvite
		if ok = c18Decode(s, c.Kind, body, &v); ok {
			c18RawEvent(s, "RespInvite.Event", c.Version, v.Event)
			remarshal(v)
		}
	case "RespInviteV2":
		var v RespInviteV2
		if ok = c18Decode(s, c.Kind, body, &v); ok {
			c18RawEvent(s, "RespInviteV2.Event", c.Version, v.Event)
		}
	case "RespClaimKeys":
		var v RespClaimKeys
		ok = c18Decode(s, c.Kind, body, &v)
	case "RespQueryKeys":
		var v RespQueryKeys
		if ok = c18Decode(s, c.Kind, body, &v); ok {
			remarshal(v)
		}
	case "DeviceKeys":
		var v DeviceKeys
		s.call("DeviceKeys.Scan", func() { ok = v.Scan(c18Copy(body)) == nil; _ = v.Scan(string(body)); _ = v.Scan(5) })
		if ok {
			s.call("DeviceKeys.Value", func() { _, _ = v.Value() })
		}
	case "Version":
		var v Version
		ok = c18Decode(s, c.Kind, body, &v)
	case "MSC2836Request":
		s.call("NewMSC2836EventRelationshipsRequest", func() {
			r, err := NewMSC2836EventRelationshipsRequest(bytes.NewReader(c18Copy(body)))
			ok = err == nil && r != nil
		})
	case "MSC2836Response":
		var v MSC2836EventRelationshipsResponse
		if ok = c18Decode(s, c.Kind, body, &v); ok {
			s.call("UntrustedEvents", func() {
				_ = v.Events.UntrustedEvents(gomatrixserverlib.RoomVersion(c.Version))
				_ = v.AuthChain.UntrustedEvents(gomatrixserverlib.RoomVersion(c.Version))
			})
		}
	case "RoomHierarchyResponse":
		var v RoomHierarchyResponse
		ok = c18Decode(s, c.Kind, body, &v)
	case "InviteV2Request":
		var v InviteV2Request
		if ok = c18Decode(s, c.Kind, body, &v); ok {
			_ = v.RoomVersion()
			_ = v.InviteRoomState()
			c18EventLike(s, "InviteV2Request.Event", v.Event())
			remarshal(v)
			// the request on its way out again (SendInviteV2 builds its path from the event)
			if v.Event() != nil {
				s.call("NewInviteV2Request", func() { _, _ = NewInviteV2Request(v.Event(), v.InviteRoomState()) })
			}
		}
	case "InviteV3Request":
		var v InviteV3Request
		if ok = c18Decode(s, c.Kind, body, &v); ok {
			pe := v.Event()
			_ = v.RoomVersion()
			_ = v.InviteRoomState()
			s.call("StateNeededForProtoEvent", func() { _, _ = gomatrixserverlib.StateNeededForProtoEvent(&pe) })
			s.call("NewInviteV3Request", func() { _, _ = NewInviteV3Request(pe, v.RoomVersion(), v.InviteRoomState()) })
			remarshal(v)
		}
	case "CrossSigningKeys":
		var v CrossSigningKeys
		if ok = c18Decode(s, c.Kind, body, &v); ok {
			s.call("CrossSigningKey.Equal", func() { _ = v.MasterKey.Equal(&v.SelfSigningKey); _ = v.UserSigningKey.Equal(&v.UserSigningKey) })
		}
	case "CrossSigningKey":
		var v CrossSigningKey
		if ok = c18Decode(s, c.Kind, body, &v); ok {
			s.call("CrossSigningKey.Equal", func() { _ = v.Equal(&v); _ = v.Equal(nil) })
			remarshal(v)
		}
	case "CrossSigningForKeyOrDevice":
		var v CrossSigningForKeyOrDevice
		if ok = c18Decode(s, c.Kind, body, &v); ok {
			remarshal(v)
		}
		var m map[string]map[string]CrossSigningForKeyOrDevice
		_ = c18Decode(s, c.Kind+"/map", body, &m)
	case "Transaction":
		var v gomatrixserverlib.Transaction
		if ok = c18Decode(s, c.Kind, body, &v); ok {
			for i := range v.EDUs {
				s.call("EDU.CacheCost", func() { _ = v.EDUs[i].CacheCost() })
			}
			for i, p := range v.PDUs {
				if i < 4 {
					c18RawEvent(s, "Transaction.PDU", c.Version, p)
				}
			}
		}
	case "RespGetRelayTransaction":
		var v RespGetRelayTransaction
		ok = c18Decode(s, c.Kind, body, &v)
	case "RelayEvents":
		var v RelayEvents
		ok = c18Decode(s, c.Kind, body, &v)
	case "ServerKeys":
		var v gomatrixserverlib.ServerKeys
		if ok = c18Decode(s, c.Kind, body, &v); ok {
			s.call("CheckKeys", func() { _, _ = gomatrixserverlib.CheckKeys(v.ServerName, c18ReqNow, v) })
			remarshal(v)
		}
	case "ServerKeysList":
		// what Client.LookupServerKeys does with a notary answer
		var b struct {
			ServerKeyList []json.RawMessage `json:"server_keys"`
		}
		if ok = c18Decode(s, c.Kind, body, &b); ok {
			for _, field := range b.ServerKeyList {
				var keys gomatrixserverlib.ServerKeys
				if c18Decode(s, c.Kind+"/entry", field, &keys) {
					s.call("CheckKeys", func() { _, _ = gomatrixserverlib.CheckKeys(keys.ServerName, time.Unix(0, 0), keys) })
				}
			}
		}
	case "InviteStrippedState":
		var v []gomatrixserverlib.InviteStrippedState
		if ok = c18Decode(s, c.Kind, body, &v); ok {
			remarshal(v)
		}
	case "RespError":
		var v spec.MatrixError
		ok = c18Decode(s, c.Kind, body, &v)
		s.call("MatrixError.Error", func() { _ = v.Error() })
	default:
		ctx.Unjudged("generator: unknown kind")
		return
	}
	// the streaming decoder the client uses
	s.call(c.Kind+"/json.Decoder", func() {
		var v RespSendJoin
		var w RespUserDevices
		var x RespInvite
		_ = json.NewDecoder(bytes.NewReader(c18Copy(body))).Decode(&v)
		_ = json.NewDecoder(bytes.NewReader(c18Copy(body))).Decode(&w)
		_ = json.NewDecoder(bytes.NewReader(c18Copy(body))).Decode(&x)
	})
	if ok {
		ctx.Class("decoded")
		ctx.NonTrivial()
	} else {
		ctx.Class("refused")
	}
}

func c18EventJSON(version, roomID, sender string, content string, stateKey *string) string {
	// an unhashed, unsigned event: accepted as redacted by the parsers (hash mismatch) when the fields hold
	sk := ""
	if stateKey != nil {
		sk = fmt.Sprintf(`"state_key":%q,`, *stateKey)
	}
	refs := `[]`
	id := ""
	switch version {
	case "1", "2":
		id = `"event_id":"$c18:a.example",`
	}
	return fmt.Sprintf(`{%s"type":"m.room.member","room_id":%q,"sender":%q,%s"content":%s,"depth":3,"origin_server_ts":5,"prev_events":%s,"auth_events":%s,"hashes":{"sha256":"47DEQpj8HBSa+/TImW+5JCeuQeRkm5NMpJWZG3hSuFU"},"signatures":{}}`,
		id, roomID, sender, sk, content, refs, refs)
}

var c18AllVersions = []string{"1", "2", "3", "4", "5", "6", "7", "8", "9", "10", "11", "12", "org.matrix.msc3667", "org.matrix.msc3787", "org.matrix.msc4014", "org.matrix.hydra.11"}

func c18TypesSeeds() []c18TypesCase {
	bob := "@bob:b.example"
	var out []c18TypesCase
	for _, v := range []string{"1", "4", "10", "12", "org.matrix.msc4014"} {
		rooms := []string{"!room:a.example", "!:example.com", "!x", "!" + strings.Repeat("é", 130) + ":h.test", "!" + strings.Repeat("B", 43)}
		for _, room := range rooms {
			for _, sender := range []string{bob, ""} {
				ev := c18EventJSON(v, room, sender, `{"membership":"invite"}`, &bob)
				out = append(out,
					c18TypesCase{Kind: "InviteV2Request", Version: v, Body: vfBytes(fmt.Sprintf(`{"room_version":%q,"invite_room_state":[{"type":"m.room.name","sender":"@a:b","state_key":"","content":{}}],"event":%s}`, v, ev))},
					c18TypesCase{Kind: "RespState", Version: v, Body: vfBytes(fmt.Sprintf(`{"pdus":[%s,%s],"auth_chain":[%s]}`, ev, ev, ev))},
					c18TypesCase{Kind: "RespSendJoin", Version: v, Body: vfBytes(fmt.Sprintf(`{"state":[%s],"auth_chain":[],"origin":"a.example","event":%s,"members_omitted":true,"servers_in_room":["a","b"]}`, ev, ev))},
					c18TypesCase{Kind: "RespInvite", Version: v, Body: vfBytes(fmt.Sprintf(`[200,{"event":%s}]`, ev))},
					c18TypesCase{Kind: "Transaction", Version: v, Body: vfBytes(fmt.Sprintf(`{"origin":"a.example","origin_server_ts":5,"pdus":[%s],"edus":[{"edu_type":"m.typing","origin":"a","content":{}}]}`, ev))},
					c18TypesCase{Kind: "RespPeek", Version: v, Body: vfBytes(fmt.Sprintf(`{"renewal_interval":5,"state":[%s],"auth_chain":[%s],"room_version":%q,"latest_event":%s}`, ev, ev, v, ev))},
				)
			}
		}
	}
	for _, b := range []string{`[200]`, `[200,{}]`, `[200,{"event":5}]`, `[]`, `[1,2,3]`, `{}`, `null`, `[null,null]`, `[200,"x"]`, `[200,{"event":"\ud800"}]`} {
		out = append(out, c18TypesCase{Kind: "RespInvite", Version: "10", Body: vfBytes(b)})
	}
	for _, b := range []string{`{"user_id":"@a:b","stream_id":5,"devices":[5,"x",{"device_id":5},{"device_id":"D","keys":{"keys":{"ed25519:D":"!!!"}}}],"master_key":5,"self_signing_key":{"keys":{"a":"AAAA"},"usage":["master",5]}}`,
		`{"devices":null,"master_key":null}`, `{"stream_id":"x"}`, `{"master_key":{"usage":["b","a"],"keys":{"k":"AAAA"},"signatures":{"u":{"k":"AAAA"}}},"self_signing_key":{"usage":["a","b"],"keys":{"k":"AAAA"},"signatures":{"u":{"k2":"AAAA"}}}}`} {
		out = append(out, c18TypesCase{Kind: "RespUserDevices", Version: "10", Body: vfBytes(b)})
	}
	for _, b := range []string{`{"device_id":"D","user_id":"@a:b","keys":{"ed25519:D":"AAAA"},"unsigned":{"x":1e400}}`, `{"device_id":5}`, `{"usage":["master"],"keys":{"ed25519:x":"!!!"}}`, `{"usage":5}`, `{"device_id":null}`, `[]`,
		`{"@a:b":{"D":{"device_id":"D"},"k":{"usage":["master"]}}}`} {
		out = append(out, c18TypesCase{Kind: "CrossSigningForKeyOrDevice", Version: "10", Body: vfBytes(b)})
	}
	for _, b := range []string{`{"event":{"type":"m.room.member","prev_events":[[]],"auth_events":[""],"content":5},"room_version":"1"}`, `{"event":{"prev_events":5,"state_key":5}}`, `{"event":null,"room_version":null}`} {
		out = append(out, c18TypesCase{Kind: "RespMakeJoin", Version: "1", Body: vfBytes(b)}, c18TypesCase{Kind: "InviteV3Request", Version: "1", Body: vfBytes(b)})
	}
	return out
}

func c18GenTypes(t *rapid.T) c18TypesCase {
	c := c18TypesCase{Kind: rapid.SampledFrom(c18Kinds).Draw(t, "kind"), Version: rapid.SampledFrom(c18AllVersions).Draw(t, "version")}
	seeds := c18TypesSeeds()
	switch rapid.IntRange(0, 5).Draw(t, "mode") {
	case 0, 1:
		s := rapid.SampledFrom(seeds).Draw(t, "seed")
		c.Body = s.Body
		if rapid.Bool().Draw(t, "keepKind") {
			c.Kind, c.Version = s.Kind, s.Version
		}
	case 2:
		s := rapid.SampledFrom(seeds).Draw(t, "seed")
		c.Kind, c.Version = s.Kind, s.Version
		c.Body = c18DamageBytes(t, s.Body)
	case 3:
		// a seed document re-parsed and mutated as a tree
		s := rapid.SampledFrom(seeds).Draw(t, "seed")
		c.Kind, c.Version = s.Kind, s.Version
		if v, _, err := jparse(s.Body); err == nil {
			c.Body = vfBytes(jspell(t, c18MutateTree(t, v, 0), "spell"))
		} else {
			c.Body = s.Body
		}
	default:
		o := jgenOpts{MaxDepth: 3, MaxWidth: 4}
		c.Body = vfBytes(jspell(t, jgenValue(t, o, 0, "v"), "p"))
	}
	return c
}

func c18DamageBytes(t *rapid.T, in vfBytes) vfBytes {
	text := c18Copy(in)
	if len(text) == 0 {
		return text
	}
	pos := rapid.IntRange(0, len(text)-1).Draw(t, "pos")
	switch rapid.IntRange(0, 3).Draw(t, "mut") {
	case 0:
		text = text[:pos]
	case 1:
		text = append(text[:pos:pos], text[pos+1:]...)
	case 2:
		text[pos] = rapid.SampledFrom([]byte("{}[]\":,0e-\\ \x00")).Draw(t, "sub")
	default:
		text = append(text[:pos:pos], append([]byte(rapid.SampledFrom([]string{`\ud800`, `"`, `,`, `null`, `{`, `[`}).Draw(t, "ins")), text[pos:]...)...)
	}
	return text
}

var c18TreeHostile = []jv{{K: 'n'}, {K: 't'}, jstr(""), jstr("x"), jnum(0), jnum(-1), jnum(9007199254740991), {K: '#', S: "1e400"}, {K: '#', S: "1.5"}, jarr(), jarr(jnum(1)), jobj(), jobj("a", jobj()), jstr("!!!"), jstr("AAAA")}

func c18MutateTree(t *rapid.T, v jv, depth int) jv {
	switch v.K {
	case 'o':
		if len(v.O) > 0 && depth < 6 && rapid.IntRange(0, 9).Draw(t, "descend") < 8 {
			i := rapid.IntRange(0, len(v.O)-1).Draw(t, "mi")
			out := jv{K: 'o', O: append([]jkv(nil), v.O...)}
			if rapid.IntRange(0, 9).Draw(t, "del") == 0 {
				out.O = append(out.O[:i:i], out.O[i+1:]...)
				return out
			}
			out.O[i].Val = c18MutateTree(t, out.O[i].Val, depth+1)
			return out
		}
	case 'a':
		if len(v.A) > 0 && depth < 6 && rapid.IntRange(0, 9).Draw(t, "descend") < 8 {
			i := rapid.IntRange(0, len(v.A)-1).Draw(t, "ai")
			out := jv{K: 'a', A: append([]jv(nil), v.A...)}
			out.A[i] = c18MutateTree(t, out.A[i], depth+1)
			return out
		}
	}
	return rapid.SampledFrom(c18TreeHostile).Draw(t, "hostile")
}

func init() {
	vfRapid("C18/fc-request", "non-trivial = net/http could construct the request, so the library's header and request parser (and, for well-formed headers, the verification path) ran on it.", 3000, 100000, 8, c18GenReq, c18ReqCheck)
	vfRapid("C18/fc-types", "non-trivial = the body decoded into the named request / response type and its accessors, re-marshalling and (for PDU-carrying types) the event parsers and response checks ran.", 3000, 100000, 8, c18GenTypes, c18TypesCheck)
}

func FuzzVF_C18_fc_request(f *testing.F) {
	for i, h := range c18Headers {
		f.Add("PUT", "/_matrix/federation/v1/send/1", h, c18Headers[(i*7+3)%len(c18Headers)], "application/json", []byte(`{"a":1}`), "local.example", uint8(i))
	}
	f.Fuzz(func(t *testing.T, method, uri, h1, h2, ct string, body []byte, dest string, flags uint8) {
		if len(body)+len(h1)+len(h2)+len(uri) > 1<<16 {
			return
		}
		c := c18ReqCase{Method: method, URI: uri, Auth: []string{h1}, ContentType: ct, Body: body, Dest: dest, Verifier: []int{0, 3, 1, 2}[flags&3], LocalNames: flags&4 != 0}
		if flags&8 != 0 {
			c.Auth = append(c.Auth, h2)
		}
		if flags&16 != 0 {
			c.Auth = nil
		}
		vfFuzzEval(t, "C18/fc-request", c, c18ReqCheck)
	})
}

func FuzzVF_C18_fc_types(f *testing.F) {
	kindIdx := func(k string) uint8 {
		for i, x := range c18Kinds {
			if x == k {
				return uint8(i)
			}
		}
		return 0
	}
	verIdx := func(v string) uint8 {
		for i, x := range c18AllVersions {
			if x == v {
				return uint8(i)
			}
		}
		return 0
	}
	for _, s := range c18TypesSeeds() {
		f.Add(kindIdx(s.Kind), verIdx(s.Version), []byte(s.Body))
	}
	f.Fuzz(func(t *testing.T, kind, ver uint8, body []byte) {
		if len(body) > 1<<17 {
			return
		}
		c := c18TypesCase{Kind: c18Kinds[int(kind)%len(c18Kinds)], Version: c18AllVersions[int(ver)%len(c18AllVersions)], Body: body}
		vfFuzzEval(t, "C18/fc-types", c, c18TypesCheck)
	})
}

// TestVF_C18_DumpCorpus writes the seeds as Go fuzz corpus files when VF_C18_DUMP names a directory.
func TestVF_C18_DumpCorpus(t *testing.T) {
	dir := os.Getenv("VF_C18_DUMP")
	if dir == "" {
		t.Skip("VF_C18_DUMP not set")
	}
	write := func(target string, i int, lines ...string) {
		d := filepath.Join(dir, target)
		if err := os.MkdirAll(d, 0o755); err != nil {
			t.Fatal(err)
		}
		body := "go test fuzz v1\n" + strings.Join(lines, "\n") + "\n"
		if err := os.WriteFile(filepath.Join(d, fmt.Sprintf("seed-%03d", i)), []byte(body), 0o644); err != nil {
			t.Fatal(err)
		}
	}
	for i, h := range c18Headers {
		write("FuzzVF_C18_fc_request", i, `string("PUT")`, `string("/_matrix/federation/v1/send/1")`, fmt.Sprintf("string(%q)", h), fmt.Sprintf("string(%q)", c18Headers[(i*7+3)%len(c18Headers)]),
			`string("application/json")`, `[]byte("{\"a\":1}")`, `string("local.example")`, fmt.Sprintf("uint8(%d)", i))
	}
	for i, s := range c18TypesSeeds() {
		k, v := 0, 0
		for j, x := range c18Kinds {
			if x == s.Kind {
				k = j
			}
		}
		for j, x := range c18AllVersions {
			if x == s.Version {
				v = j
			}
		}
		write("FuzzVF_C18_fc_types", i, fmt.Sprintf("uint8(%d)", k), fmt.Sprintf("uint8(%d)", v), fmt.Sprintf("[]byte(%q)", string(s.Body)))
	}
}
