//go:build verif

package fclient

// C19/dns-dial — the connecting side of the DNS cache (DialContext): several goroutines dial host
// names through ONE cache whose resolver answers with the loopback address of a listening socket.
// What is judged (the statement's cache clauses, seen through dials instead of lookups):
//   * an entry's expiry is fixed when the resolver answered: no dial, successful or not, moves it;
//   * an entry past its expiry is not served: the next dial of that name goes to the resolver;
//   * a dial of a name connects to an address the resolver gave FOR THAT NAME;
//   * the cache never holds more entries than its size.
// Expiry is produced by ageing an entry under the cache's mutex (no timing-dependent verdict).

import (
	"context"
	"fmt"
	"net"
	"sync"
	"time"

	"pgregory.net/rapid"
)

type c19DialOp struct {
	Kind string `json:"kind"` // dial | age
	Host int    `json:"host"`
}

type c19DialCase struct {
	Size     int           `json:"size"`
	NHost    int           `json:"nhost"`
	Rounds   [][]c19DialOp `json:"rounds"`    // the operations of one round run at the same time (one goroutine each)
	DeadHost int           `json:"dead_host"` // this host resolves to a port nobody listens on (-1: none)
}

type c19DialResolver struct {
	mu    sync.Mutex
	calls map[string]int
	ip    net.IP
}

func (r *c19DialResolver) LookupIPAddr(ctx context.Context, name string) ([]net.IPAddr, error) {
	r.mu.Lock()
	r.calls[name]++
	r.mu.Unlock()
	return []net.IPAddr{{IP: r.ip}}, nil
}

func (r *c19DialResolver) count(name string) int {
	r.mu.Lock()
	defer r.mu.Unlock()
	return r.calls[name]
}

func c19DialGen(t *rapid.T) c19DialCase {
	c := c19DialCase{Size: rapid.IntRange(1, 3).Draw(t, "size"), NHost: rapid.IntRange(1, 3).Draw(t, "nhost"), DeadHost: -1}
	if rapid.IntRange(0, 3).Draw(t, "dead") == 0 {
		c.DeadHost = rapid.IntRange(0, c.NHost-1).Draw(t, "deadHost")
	}
	nr := rapid.IntRange(2, 6).Draw(t, "rounds")
	for i := 0; i < nr; i++ {
		var round []c19DialOp
		k := rapid.IntRange(1, 4).Draw(t, "k")
		for j := 0; j < k; j++ {
			round = append(round, c19DialOp{Kind: rapid.SampledFrom([]string{"dial", "dial", "dial", "age"}).Draw(t, "kind"), Host: rapid.IntRange(0, c.NHost-1).Draw(t, "host")})
		}
		c.Rounds = append(c.Rounds, round)
	}
	return c
}

func c19DialCheck(ctx *vfCtx, c c19DialCase) {
	ln, err := net.Listen("tcp", "127.0.0.1:0")
	if err != nil {
		ctx.Unjudged("harness: cannot listen on the loopback interface")
		return
	}
	defer ln.Close() // nolint: errcheck
	go func() {
		for {
			conn, err := ln.Accept()
			if err != nil {
				return
			}
			_ = conn.Close()
		}
	}()
	_, port, _ := net.SplitHostPort(ln.Addr().String())
	dead, err := net.Listen("tcp", "127.0.0.1:0")
	if err != nil {
		ctx.Unjudged("harness: cannot reserve a second port")
		return
	}
	_, deadPort, _ := net.SplitHostPort(dead.Addr().String())
	_ = dead.Close() // bound a moment ago, nobody listens now
	res := &c19DialResolver{calls: map[string]int{}, ip: net.ParseIP("127.0.0.1")}
	cache := NewDNSCache(c.Size, time.Hour, nil, nil)
	cache.resolver = res
	cache.dialer = net.Dialer{Timeout: 2 * time.Second}
	name := func(h int) string { return fmt.Sprintf("host%d.c19.example", h) }
	expiryOf := func(h int) (time.Time, bool) {
		cache.mutex.Lock()
		defer cache.mutex.Unlock()
		e, ok := cache.entries[name(h)]
		if !ok {
			return time.Time{}, false
		}
		return e.expires, true
	}
	ctx.NonTrivial()
	for ri, round := range c.Rounds {
		// what holds before the round
		type before struct {
			exp   time.Time
			held  bool
			calls int
		}
		bf := map[int]before{}
		for h := 0; h < c.NHost; h++ {
			e, ok := expiryOf(h)
			bf[h] = before{exp: e, held: ok, calls: res.count(name(h))}
		}
		aged := map[int]bool{}
		dialled := map[int]bool{}
		var wg sync.WaitGroup
		var mu sync.Mutex
		var fails []string
		for _, op := range round {
			op := op
			if op.Kind == "age" {
				aged[op.Host] = true
				continue
			}
			dialled[op.Host] = true
		}
		// ageing first (under the cache's mutex), then the dials of the round at the same time
		for h := range aged {
			cache.mutex.Lock()
			if e, ok := cache.entries[name(h)]; ok {
				cache.entries[name(h)] = &dnsCacheEntry{addrs: e.addrs, expires: time.Now().Add(-time.Hour)}
			}
			cache.mutex.Unlock()
		}
		for _, op := range round {
			if op.Kind != "dial" {
				continue
			}
			h := op.Host
			wg.Add(1)
			go func() {
				defer wg.Done()
				defer func() {
					if r := recover(); r != nil {
						mu.Lock()
						fails = append(fails, fmt.Sprint("panic: ", r))
						mu.Unlock()
					}
				}()
				p := port
				if h == c.DeadHost {
					p = deadPort
				}
				conn, derr := cache.DialContext(context.Background(), "tcp", name(h)+":"+p)
				if conn != nil {
					if ra, ok := conn.RemoteAddr().(*net.TCPAddr); ok && !ra.IP.Equal(res.ip) {
						mu.Lock()
						fails = append(fails, fmt.Sprintf("dial of %s connected to %s, which the resolver never gave", name(h), ra))
						mu.Unlock()
					}
					_ = conn.Close()
				} else if h != c.DeadHost {
					mu.Lock()
					fails = append(fails, fmt.Sprintf("dial of %s failed although its address listens: %v", name(h), derr))
					mu.Unlock()
				}
			}()
		}
		wg.Wait()
		if len(fails) > 0 {
			ctx.Fail("C19/dns-dial/wrong-connection", "round %d: %s", ri, fails[0])
			return
		}
		cache.mutex.Lock()
		n := len(cache.entries)
		cache.mutex.Unlock()
		if n > c.Size {
			ctx.Fail("C19/dns-dial/size-exceeded", "round %d: the cache holds %d entries, its size is %d", ri, n, c.Size)
			return
		}
		for h := 0; h < c.NHost; h++ {
			b := bf[h]
			asked := res.count(name(h)) - b.calls
			after, held := expiryOf(h)
			switch {
			case dialled[h] && aged[h] && b.held && asked == 0 && h != c.DeadHost:
				ctx.Fail("C19/dns-dial/served-past-expiry", "round %d: %s was held past its expiry and was dialled, yet the resolver was not asked again", ri, name(h))
				return
			case b.held && !aged[h] && held && asked == 0 && !after.Equal(b.exp):
				ctx.Fail("C19/dns-dial/expiry-moved", "round %d: the entry of %s expired at %s before the round and at %s after it, although the resolver was not asked (a dial is not a resolver answer)", ri, name(h), b.exp.Format(time.RFC3339Nano), after.Format(time.RFC3339Nano))
				return
			}
		}
		if len(dialled) > 0 && len(aged) > 0 {
			ctx.Class("round/dials-and-ageing")
		}
	}
}

func init() {
	vfRapid("C19/dns-dial", "every case: 2..6 rounds of up to 4 simultaneous dials through one cache (loopback listener), entries aged in between; distinct = distinct Case JSON", 60, 1500, 4, c19DialGen, c19DialCheck)
}
