//go:build verif

package fclient

// C19/transport — k goroutines use ONE destinationTripper (the federation transport cache) at
// once: round trips to overlapping destinations, direct getTransport calls, the reaper, and the
// harness's own "this transport was last used six minutes ago". Everything is in-process: two TLS
// servers on 127.0.0.1 (httptest), one closed loopback port as the unreachable destination, and —
// when the tripper has a DNS cache — a stub resolver that answers 127.0.0.1 for the made-up names.
//
// mode "scheduled" (keep-alives off, HTTP/1.1, so that every round trip is one chain dial ->
// request -> response): the stub resolver (inside DNSCache.DialContext, i.e. inside the dial) and
// the servers' handlers (inside the round trip) park on the scheduler, the schedule decides who
// proceeds and which goroutines proceed together. mode "free": nothing parks, all goroutines are
// released by one barrier (keep-alives / HTTP/2 allowed; connection reuse makes the order of events
// net/http's business) — race detector, per-request results and the final invariants only.
//
// Oracles: no race report / runtime abort / reproducible hang (engine); every caller gets the
// answer to ITS request from ITS destination (server, Host header, TLS server name, path), a round
// trip to the closed port fails; the transport map (read under its mutex after every step) only
// holds TLS names that were asked for, keeps one and the same transport per name while it is not
// idle, getTransport returns the instance in the map, a reaper run alone removes exactly the
// transports idle for more than five minutes; the DNS cache stays within its size and only holds
// 127.0.0.1 for names that were resolved.

import (
	"context"
	"encoding/json"
	"fmt"
	"io"
	"net"
	"net/http"
	"net/http/httptest"
	"sort"
	"strconv"
	"strings"
	"sync"
	"syscall"
	"time"

	"pgregory.net/rapid"
)

type c19TrOp struct {
	Kind string `json:"kind"` // rt | get | reap | old
	Dest int    `json:"dest"`
}

type c19TrDest struct {
	Name   int `json:"name"`
	Server int `json:"server"` // 0, 1: the two servers; 2: the closed port
}

type c19TrCase struct {
	Mode      string      `json:"mode"` // scheduled | free
	KeepAlive bool        `json:"keepalive"`
	HTTP2     bool        `json:"http2"`
	WithDNS   bool        `json:"with_dns"`
	DNSSize   int         `json:"dns_size"`
	WellKnown bool        `json:"well_known"` // wellKnownSRV on: names carry a port, so resolution is local, but goes through the resolution cache
	Dests     []c19TrDest `json:"dests"`
	Progs     [][]c19TrOp `json:"progs"`
	Sched     []c19Step   `json:"sched"`
}

func c19TrGen(t *rapid.T) c19TrCase {
	c := c19TrCase{Mode: "scheduled"}
	if rapid.IntRange(0, 3).Draw(t, "free") == 0 {
		c.Mode = "free"
		c.KeepAlive = rapid.Bool().Draw(t, "keepalive")
		c.HTTP2 = rapid.Bool().Draw(t, "http2")
	}
	c.WithDNS = rapid.IntRange(0, 3).Draw(t, "dns") != 0
	c.DNSSize = rapid.IntRange(1, 3).Draw(t, "dnssize")
	c.WellKnown = rapid.IntRange(0, 2).Draw(t, "wellknown") == 0
	nd := rapid.IntRange(1, 4).Draw(t, "ndests")
	for i := 0; i < nd; i++ {
		c.Dests = append(c.Dests, c19TrDest{
			Name:   rapid.IntRange(0, 2).Draw(t, "name"),
			Server: rapid.SampledFrom([]int{0, 0, 0, 1, 1, 1, 2}).Draw(t, "server"),
		})
	}
	k := rapid.SampledFrom([]int{2, 2, 3, 3, 4, 5, 6}).Draw(t, "k")
	for g := 0; g < k; g++ {
		n := rapid.IntRange(1, 3).Draw(t, "nops")
		var prog []c19TrOp
		for i := 0; i < n; i++ {
			prog = append(prog, c19TrOp{
				Kind: rapid.SampledFrom([]string{"rt", "rt", "rt", "rt", "rt", "get", "get", "reap", "old"}).Draw(t, "kind"),
				Dest: rapid.IntRange(0, nd-1).Draw(t, "dest"),
			})
		}
		c.Progs = append(c.Progs, prog)
	}
	c.Sched = c19GenSched(t, 30)
	return c
}

type c19TrResolver struct{ s *c19Sched }

func (r *c19TrResolver) LookupIPAddr(ctx context.Context, name string) ([]net.IPAddr, error) {
	if r.s != nil {
		gid := c19Gid(ctx)
		r.s.park(gid, "resolver", fmt.Sprintf("g%02d/resolver", gid), name)
	}
	return []net.IPAddr{{IP: net.IPv4(127, 0, 0, 1)}}, nil
}

type c19TrRes struct {
	op     c19TrOp
	status int
	body   string
	err    string
	tr     *destinationTripperTransport // get
}

type c19TrWorld struct {
	c       c19TrCase
	out     *c19Out
	s       *c19Sched
	ports   [3]string
	tripper *destinationTripper
	cache   *DNSCache
}

// hostport is what the caller puts into the request URL; tlsName is the key of the transport map.
func (w *c19TrWorld) hostport(d c19TrDest) string {
	host := "127.0.0.1"
	if w.c.WithDNS {
		host = fmt.Sprintf("n%d.c19.example", d.Name)
	}
	return host + ":" + w.ports[d.Server%3]
}

func (w *c19TrWorld) tlsName(d c19TrDest) string {
	hp := w.hostport(d)
	if w.c.WellKnown {
		h, _, _ := net.SplitHostPort(hp)
		return h
	}
	return hp
}

func (w *c19TrWorld) expectedSNI(d c19TrDest) string {
	n := w.tlsName(d)
	if net.ParseIP(n) != nil {
		return ""
	}
	return n
}

func (w *c19TrWorld) handler(idx int) http.Handler {
	return http.HandlerFunc(func(rw http.ResponseWriter, r *http.Request) {
		gid, _ := strconv.Atoi(r.Header.Get("X-C19-Gid"))
		if w.s != nil {
			w.s.park(gid, "handler", fmt.Sprintf("g%02d/handler", gid), idx)
		}
		sni := "-"
		if r.TLS != nil {
			sni = r.TLS.ServerName
		}
		fmt.Fprintf(rw, "srv=%d;host=%s;sni=%s;path=%s;gid=%d", idx, r.Host, sni, r.URL.Path, gid)
	})
}

func (w *c19TrWorld) roundTrip(g, o int, d c19TrDest) c19TrRes {
	res := c19TrRes{}
	path := fmt.Sprintf("/c19/g%d/o%d", g, o)
	req, err := http.NewRequestWithContext(c19Ctx(g), "GET", "matrix://"+w.hostport(d)+path, nil)
	if err != nil {
		res.err = "harness: " + err.Error()
		return res
	}
	req.Header.Set("X-C19-Gid", strconv.Itoa(g))
	resp, err := w.tripper.RoundTrip(req)
	if err != nil {
		res.err = err.Error()
		return res
	}
	body, err := io.ReadAll(resp.Body)
	_ = resp.Body.Close()
	if err != nil {
		res.err = "body: " + err.Error()
	}
	res.status, res.body = resp.StatusCode, string(body)
	return res
}

func (w *c19TrWorld) snapshot() map[string]*destinationTripperTransport {
	w.tripper.transportsMutex.Lock()
	defer w.tripper.transportsMutex.Unlock()
	out := map[string]*destinationTripperTransport{}
	for k, v := range w.tripper.transports {
		out[k] = v
	}
	return out
}

func c19TrIdle(tr *destinationTripperTransport) bool {
	t, _ := tr.lastUsed.Load().(time.Time)
	return time.Since(t) > destinationTripperLifetime
}

func (w *c19TrWorld) runOp(g, o int, op c19TrOp) c19TrRes {
	d := w.c.Dests[op.Dest%len(w.c.Dests)]
	var r c19TrRes
	switch op.Kind {
	case "rt":
		r = w.roundTrip(g, o, d)
	case "get":
		tr, _ := w.tripper.getTransport(w.tlsName(d), w.tripper.dialer).(*destinationTripperTransport)
		r.tr = tr
	case "reap":
		w.tripper.reaper()
	case "old":
		// what six idle minutes would do to this transport's time stamp
		w.tripper.transportsMutex.Lock()
		if tr, ok := w.tripper.transports[w.tlsName(d)]; ok {
			tr.lastUsed.Store(time.Now().Add(-destinationTripperLifetime - time.Minute))
		}
		w.tripper.transportsMutex.Unlock()
	}
	r.op = op
	c19Beat()
	return r
}

// judgeRT checks one finished round trip against what its caller asked for.
func (w *c19TrWorld) judgeRT(g, o int, r c19TrRes) {
	d := w.c.Dests[r.op.Dest%len(w.c.Dests)]
	if d.Server%3 == 2 {
		if r.err == "" {
			w.out.Fail("C19/transport/answer-from-the-closed-port", "goroutine %d op %d: a round trip to the closed port %s was answered: %d %q", g, o, w.hostport(d), r.status, r.body)
		}
		return
	}
	if r.err != "" {
		w.out.Fail("C19/transport/round-trip-failed", "goroutine %d op %d: round trip to %s failed: %s", g, o, w.hostport(d), r.err)
		return
	}
	want := fmt.Sprintf("srv=%d;host=%s;sni=%s;path=/c19/g%d/o%d;gid=%d", d.Server%3, w.hostport(d), w.expectedSNI(d), g, o, g)
	if r.status != 200 || r.body != want {
		w.out.Fail("C19/transport/not-this-callers-answer", "goroutine %d op %d: got %d %q, the answer to this request is %q", g, o, r.status, r.body, want)
	}
}

func (w *c19TrWorld) dnsInvariants() {
	if w.cache == nil {
		return
	}
	w.cache.mutex.Lock()
	defer w.cache.mutex.Unlock()
	if len(w.cache.entries) > w.c.DNSSize {
		w.out.Fail("C19/dns/size-exceeded", "the tripper's DNS cache holds %d entries, its size is %d", len(w.cache.entries), w.c.DNSSize)
	}
	for name, e := range w.cache.entries {
		if !strings.HasSuffix(name, ".c19.example") || len(e.addrs) != 1 || !e.addrs[0].IP.Equal(net.IPv4(127, 0, 0, 1)) {
			w.out.Fail("C19/dns/foreign-addresses/held", "the tripper's DNS cache holds %v for %q", e.addrs, name)
		}
	}
}

func c19TrRun(out *c19Out, raw []byte) {
	var c c19TrCase
	if err := json.Unmarshal(raw, &c); err != nil {
		out.Fail("C19/harness/bad-case", "%v", err)
		return
	}
	if len(c.Dests) == 0 || c.DNSSize < 1 {
		out.Unjudged("transport/outside-domain")
		return
	}
	scheduled := c.Mode != "free"
	if scheduled {
		c.KeepAlive, c.HTTP2 = false, false
	}
	w := &c19TrWorld{c: c, out: out}
	if scheduled {
		w.s = c19NewSched(out, c.Sched)
	}
	for i := 0; i < 2; i++ {
		srv := httptest.NewUnstartedServer(w.handler(i))
		srv.EnableHTTP2 = c.HTTP2
		srv.Config.ErrorLog = nil
		srv.StartTLS()
		_, port, _ := net.SplitHostPort(srv.Listener.Addr().String())
		w.ports[i] = port
	}
	// the unreachable destination: a TCP socket bound to a loopback port but never listening, kept
	// open for the whole case, so that connecting is refused and no other process (for instance
	// another shard's child) can be given the same port meanwhile
	fd, err := syscall.Socket(syscall.AF_INET, syscall.SOCK_STREAM, 0)
	if err == nil {
		err = syscall.Bind(fd, &syscall.SockaddrInet4{Port: 0, Addr: [4]byte{127, 0, 0, 1}})
	}
	if err != nil {
		c19HarnessTrouble(out, "no loopback socket: %v", err)
		return
	}
	sa, err := syscall.Getsockname(fd)
	if err != nil {
		c19HarnessTrouble(out, "getsockname: %v", err)
		return
	}
	w.ports[2] = strconv.Itoa(sa.(*syscall.SockaddrInet4).Port)

	if c.WithDNS {
		w.cache = NewDNSCache(c.DNSSize, time.Hour, []string{"127.0.0.0/8"}, nil)
		w.cache.resolver = &c19TrResolver{s: w.s}
	}
	w.tripper = newDestinationTripper(true, w.cache, c.KeepAlive, c.WellKnown, nil, nil)

	k := len(c.Progs)
	results := make([][]c19TrRes, k)
	asked := map[string]bool{} // TLS names some operation has asked for so far (scheduler's view)

	out.Class("mode/" + c.Mode)
	if c.WithDNS {
		out.Class("dial/through-dns-cache")
	} else {
		out.Class("dial/ip-literal")
	}
	if c.WellKnown {
		out.Class("resolution-cache/on")
	}
	if c.KeepAlive {
		out.Class("keepalive/on")
	}
	if c.HTTP2 {
		out.Class("http2/on")
	}

	if !scheduled {
		barrier := make(chan struct{})
		var wg sync.WaitGroup
		for g := 0; g < k; g++ {
			g := g
			wg.Add(1)
			c19Go(out, nil, g, func() {
				defer wg.Done()
				<-barrier
				for o, op := range c.Progs[g] {
					results[g] = append(results[g], w.runOp(g, o, op))
				}
			})
		}
		c19Beat()
		close(barrier)
		wg.Wait() // a goroutine that never comes back is reported by the child's watchdog
		for g := range results {
			for o, r := range results[g] {
				if r.op.Kind == "rt" {
					w.judgeRT(g, o, r)
				}
				asked[w.tlsName(c.Dests[r.op.Dest%len(c.Dests)])] = true
			}
		}
		for name := range w.snapshot() {
			if !asked[name] {
				out.Fail("C19/transport/unrequested-transport", "the transport map holds %q, which nobody asked for", name)
			}
		}
		w.dnsInvariants()
		if k >= 2 {
			out.NonTrivial()
		}
		return
	}

	// ---- scheduled mode
	s := w.s
	for g := 0; g < k; g++ {
		g := g
		c19Go(out, s, g, func() {
			for o, op := range c.Progs[g] {
				s.park(g, "gate", fmt.Sprintf("g%02d/gate/%02d", g, o), o)
				results[g] = append(results[g], w.runOp(g, o, op))
			}
			s.notify(g, "fin")
		})
	}
	finished := 0
	on := func(ev c19Event) {
		if ev.Kind == "fin" {
			finished++
		}
	}
	first := map[int]int{}
	for g := 0; g < k; g++ {
		first[g] = 1
	}
	s.await(first, on)

	known := map[string]*destinationTripperTransport{}
	judged := make([]int, k)
	activeRT := map[int]string{} // goroutine -> TLS name of the round trip it is in
	windowRT, sameNameWindow := false, false
	for finished < k || len(s.parked) > 0 {
		if out.Failed() {
			return
		}
		inflight := map[string]int{}
		n := 0
		for _, p := range s.parked {
			if p.Kind == "resolver" || p.Kind == "handler" {
				n++
				inflight[activeRT[p.Gid]]++
			}
		}
		if n >= 2 {
			windowRT = true
		}
		for _, cnt := range inflight {
			if cnt >= 2 {
				sameNameWindow = true
			}
		}
		sel := s.pick()
		if len(sel) == 0 {
			s.await(map[int]int{-2: 1}, on)
			continue
		}
		// what the step contains
		want := map[int]int{}
		reap := false
		olded := map[string]bool{}
		type getSec struct {
			g    int
			name string
		}
		var gets []getSec
		for _, p := range sel {
			want[p.Gid]++
			if p.Kind == "gate" {
				op := c.Progs[p.Gid][p.Info.(int)]
				name := w.tlsName(c.Dests[op.Dest%len(c.Dests)])
				switch op.Kind {
				case "rt":
					activeRT[p.Gid] = name
					asked[name] = true
				case "get":
					asked[name] = true
					gets = append(gets, getSec{p.Gid, name})
				case "reap":
					reap = true
				case "old":
					olded[name] = true
				}
			}
		}
		idleBefore := map[string]bool{}
		for name, tr := range known {
			idleBefore[name] = c19TrIdle(tr)
		}
		for _, p := range sel {
			p.release(nil)
		}
		s.await(want, on)
		snap := w.snapshot()

		// ---- finished operations
		got := map[int]*destinationTripperTransport{}
		for _, p := range sel {
			g := p.Gid
			for judged[g] < len(results[g]) {
				r := results[g][judged[g]]
				if r.op.Kind == "rt" {
					w.judgeRT(g, judged[g], r)
					delete(activeRT, g)
				}
				if r.op.Kind == "get" {
					got[g] = r.tr
					if r.tr == nil {
						out.Fail("C19/transport/get-transport-returned-nothing", "goroutine %d: getTransport returned no transport", g)
					}
				}
				judged[g]++
			}
		}

		// ---- the transport map
		for name := range snap {
			if !asked[name] {
				out.Fail("C19/transport/unrequested-transport", "the transport map holds %q, which nobody asked for", name)
			}
		}
		for name, tr := range known {
			ageable := idleBefore[name] || olded[name]
			now, present := snap[name]
			switch {
			case !ageable || !reap:
				if !present || now != tr {
					out.Fail("C19/transport/live-transport-replaced-or-dropped", "the transport for %q (not idle, or no reaper run in this step) was %s", name, map[bool]string{true: "replaced by another instance", false: "dropped"}[present])
				}
			case len(sel) == 1:
				// a reaper run alone
				if present {
					out.Fail("C19/transport/reaper-kept-an-idle-transport", "the reaper ran alone and kept the transport for %q, idle for more than five minutes", name)
				}
			}
		}
		for _, gs := range gets {
			ageable := idleBefore[gs.name] || olded[gs.name]
			if reap && ageable {
				continue // order of reaper and getTransport decides; both are fine
			}
			tr := got[gs.g]
			if tr == nil {
				continue
			}
			if snap[gs.name] != tr {
				out.Fail("C19/transport/get-transport-not-the-instance-in-the-map", "goroutine %d: getTransport(%q) returned %p, the map holds %p", gs.g, gs.name, tr, snap[gs.name])
			}
			if old, ok := known[gs.name]; ok && old != tr {
				out.Fail("C19/transport/second-instance-for-a-name", "goroutine %d: getTransport(%q) returned %p although %p was already there", gs.g, gs.name, tr, old)
			}
		}
		w.dnsInvariants()
		known = snap
	}
	if windowRT {
		out.Class("window/2+-round-trips-in-flight")
		out.NonTrivial()
	} else {
		out.Class("window/at-most-1-round-trip-in-flight")
	}
	if sameNameWindow {
		out.Class("window/2+-round-trips-on-one-transport")
	}
	if s.parallelSteps > 0 {
		out.Class("step/parallel")
	}
	kinds := map[string]bool{}
	for _, p := range c.Progs {
		for _, op := range p {
			kinds[op.Kind] = true
			if op.Kind == "rt" && c.Dests[op.Dest%len(c.Dests)].Server%3 == 2 {
				kinds["rt-to-closed-port"] = true
			}
		}
	}
	var ks []string
	for kd := range kinds {
		ks = append(ks, kd)
	}
	sort.Strings(ks)
	for _, kd := range ks {
		out.Class("op/" + kd)
	}
}

func c19TrCheck(ctx *vfCtx, c c19TrCase) { c19Check(ctx, "transport", c) }

func init() {
	c19Scenarios["transport"] = c19TrRun
	vfRapid("C19/transport",
		"scheduled mode: at least two round trips of the one destinationTripper are in flight (parked in the resolver inside the dial or in the server's handler) at the same time; free mode: k >= 2 goroutines released by one barrier",
		120, 2500, 8, c19TrGen, c19TrCheck)
}
