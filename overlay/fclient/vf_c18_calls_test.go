//go:build verif

package fclient

// C18/fc-calls — the federation CLIENT's methods against a remote server that answers whatever it
// likes: a scripted sequence of (status, content type, body) served over TLS on the loopback
// interface, in the order the requests arrive. The methods with a fallback (send_join / send_leave /
// invite: a 404 on the newer endpoint sends the client to the older one, whose answer has another
// shape) thereby get both answers from the script. Nothing is judged but the absence of a panic:
// the call returns a result or an error.

import (
	"context"
	"crypto/ed25519"
	"encoding/json"
	"fmt"
	"net/http"
	"net/http/httptest"
	"sync"
	"time"

	"github.com/matrix-org/gomatrixserverlib"
	"github.com/matrix-org/gomatrixserverlib/spec"
	"pgregory.net/rapid"
)

type c18Answer struct {
	Status int     `json:"status"`
	CT     string  `json:"content_type"`
	Body   vfBytes `json:"body"`
}

type c18CallCase struct {
	Method  string      `json:"method"`
	Version string      `json:"version"`
	Answers []c18Answer `json:"answers"`
}

var c18CallMethods = []string{"SendJoin", "SendJoinPartialState", "SendLeave", "SendInviteV2", "SendInviteV3", "MakeJoin", "MakeLeave", "MakeKnock", "SendKnock",
	"LookupState", "LookupStateIDs", "LookupMissingEvents", "GetEvent", "GetEventAuth", "Backfill", "SendTransaction", "Peek", "GetServerKeys", "LookupServerKeys",
	"LookupRoomAlias", "GetPublicRooms", "LookupProfile", "ClaimKeys", "QueryKeys", "GetUserDevices", "ExchangeThirdPartyInvite", "RoomHierarchy", "MSC2836EventRelationships",
	"GetPublicRoomsFiltered", "DownloadMedia", "P2PSendTransactionToRelay", "P2PGetTransactionFromRelay", "GetVersion", "LookupUserInfo", "CreateMediaDownloadRequest"}

var c18CallBodies = []string{
	`[200]`, `[]`, `[200,{}]`, `[{}]`, `[200,null]`, `[null,null]`, `[null]`, `[200,{"state":null,"auth_chain":null}]`, `[200,[]]`, `[1,2,3]`, `[[200,{}]]`,
	`{}`, `null`, `"x"`, `7`, `true`, ``, `{`, `[200,`, `{"event":null}`, `{"event":{}}`, `{"event":7}`, `{"state":null}`, `{"state":[null]}`, `{"auth_chain":[7]}`,
	`{"pdus":[null]}`, `{"pdus":null}`, `{"pdus":[{}]}`, `{"pdu_ids":null}`, `{"auth_chain_ids":[null]}`, `{"room_version":7,"event":{}}`, `{"room_version":"10","event":null}`,
	`{"server_keys":[null]}`, `{"server_keys":null}`, `{"server_keys":[{}]}`, `{"server_name":7}`, `{"verify_keys":null,"old_verify_keys":{"x":null}}`,
	`{"events":[null]}`, `{"room_id":7,"servers":null}`, `{"chunk":[null]}`, `{"one_time_keys":null}`, `{"device_keys":{"@a:b":null}}`, `{"devices":[null],"user_id":7}`,
	`{"errcode":"M_NOT_FOUND","error":"x"}`, `{"errcode":7}`, `{"room":null,"children":[null]}`, `{"state":[{"type":"m.room.member"}],"auth_chain":[],"event":{"type":"x"}}`,
	`{"members_omitted":"yes","servers_in_room":7}`, `{"origin":7,"origin_server_ts":"x","pdus":[]}`,
	`{"sub":7}`, `{"sub":"@u"}`, `{"sub":":"}`, `{"sub":"@u:local.example:x"}`, `{"server":null}`, `{"server":{"name":7}}`, `{"pdus":[null],"edus":[null],"entry_id":"x","entries_queued":7}`, `{"transaction":null}`,
}

func c18GenCall(t *rapid.T) c18CallCase {
	c := c18CallCase{Method: rapid.SampledFrom(c18CallMethods).Draw(t, "method"),
		Version: rapid.SampledFrom([]string{"1", "4", "10", "11", "12"}).Draw(t, "version")}
	fallback := map[string]bool{"SendJoin": true, "SendJoinPartialState": true, "SendLeave": true, "SendInviteV2": true}
	if rapid.IntRange(0, 3).Draw(t, "fallbackMethod") == 0 {
		c.Method = rapid.SampledFrom([]string{"SendJoin", "SendJoinPartialState", "SendLeave", "SendInviteV2"}).Draw(t, "fbMethod")
	}
	if fallback[c.Method] && rapid.Bool().Draw(t, "takeFallback") {
		// the newer endpoint is unknown to the remote (404 / 400 M_UNRECOGNIZED), the older one answers
		// with its tuple form - or with something else in square brackets
		var arrays []string
		for _, b := range c18CallBodies {
			if len(b) > 0 && b[0] == '[' {
				arrays = append(arrays, b)
			}
		}
		c.Answers = []c18Answer{
			{Status: rapid.SampledFrom([]int{404, 404, 400}).Draw(t, "fbStatus"), CT: "application/json", Body: vfBytes(rapid.SampledFrom([]string{`{"errcode":"M_UNRECOGNIZED","error":"x"}`, `{}`, ``}).Draw(t, "fbBody1"))},
			{Status: 200, CT: "application/json", Body: vfBytes(rapid.SampledFrom(arrays).Draw(t, "fbBody2"))},
		}
		return c
	}
	n := rapid.IntRange(1, 3).Draw(t, "nanswers")
	for i := 0; i < n; i++ {
		a := c18Answer{Status: rapid.SampledFrom([]int{200, 200, 200, 404, 404, 400, 403, 500, 204, 302}).Draw(t, "status"),
			CT:   rapid.SampledFrom([]string{"application/json", "application/json", "application/json", "text/plain", ""}).Draw(t, "ct"),
			Body: vfBytes(rapid.SampledFrom(c18CallBodies).Draw(t, "body"))}
		c.Answers = append(c.Answers, a)
	}
	return c
}

var c18CallOnce sync.Once
var c18CallKey ed25519.PrivateKey

func c18CallEvent(version string) gomatrixserverlib.PDU {
	impl, err := gomatrixserverlib.GetRoomVersion(gomatrixserverlib.RoomVersion(version))
	if err != nil {
		return nil
	}
	room := "!r:local.example"
	if impl.DomainlessRoomIDs() {
		room = "!AAAAAAAAAAAAAAAAAAAAAAAAAAAAAAAAAAAAAAAAAAA"
	}
	js := fmt.Sprintf(`{"type":"m.room.member","state_key":"@u:local.example","sender":"@u:local.example","room_id":%q,"content":{"membership":"join"},"depth":3,"origin_server_ts":1700000000000,"prev_events":[],"auth_events":[],"hashes":{"sha256":"AAAAAAAAAAAAAAAAAAAAAAAAAAAAAAAAAAAAAAAAAAA"},"signatures":{}}`, room)
	if impl.EventFormat() == gomatrixserverlib.EventFormatV1 {
		js = js[:len(js)-1] + `,"event_id":"$e:local.example"}`
	}
	ev, err := impl.NewEventFromTrustedJSON([]byte(js), false)
	if err != nil {
		return nil
	}
	return ev
}

func c18CallCheck(ctx *vfCtx, c c18CallCase) {
	c18CallOnce.Do(func() { _, c18CallKey, _ = ed25519.GenerateKey(vfZeroReader{}) })
	s := c18NewState(ctx, "C18")
	var mu sync.Mutex
	served := 0
	srv := httptest.NewUnstartedServer(http.HandlerFunc(func(rw http.ResponseWriter, r *http.Request) {
		mu.Lock()
		i := served
		served++
		mu.Unlock()
		if len(c.Answers) == 0 {
			rw.WriteHeader(500)
			return
		}
		if i >= len(c.Answers) {
			i = len(c.Answers) - 1
		}
		a := c.Answers[i]
		if a.CT != "" {
			rw.Header().Set("Content-Type", a.CT)
		}
		if a.Status == 302 {
			rw.Header().Set("Location", "/elsewhere")
		}
		st := a.Status
		if st < 100 || st > 599 {
			st = 200
		}
		rw.WriteHeader(st)
		if st != 204 {
			_, _ = rw.Write(a.Body)
		}
	}))
	srv.Config.ErrorLog = nil
	srv.StartTLS()
	defer srv.Close()
	dest := spec.ServerName(srv.Listener.Addr().String())
	origin := spec.ServerName("local.example")
	fc := NewFederationClient([]*SigningIdentity{{ServerName: origin, KeyID: "ed25519:1", PrivateKey: c18CallKey}},
		WithSkipVerify(true), WithTimeout(5*time.Second), WithKeepAlives(false))
	ev := c18CallEvent(c.Version)
	if ev == nil {
		ctx.Unjudged("harness event not constructible for this version")
		return
	}
	rv := gomatrixserverlib.RoomVersion(c.Version)
	bg, cancel := context.WithTimeout(context.Background(), 10*time.Second)
	defer cancel()
	room, user, eid := ev.RoomID().String(), "@u:local.example", ev.EventID()
	// the methods of the plain (unsigned-request) client underneath
	plain := &fc.(*federationClient).Client
	calls := map[string]func(){
		"SendJoin":             func() { _, _ = fc.SendJoin(bg, origin, dest, ev) },
		"SendJoinPartialState": func() { _, _ = fc.SendJoinPartialState(bg, origin, dest, ev) },
		"SendLeave":            func() { _ = fc.SendLeave(bg, origin, dest, ev) },
		"SendInviteV2": func() {
			if req, err := NewInviteV2Request(ev, nil); err == nil {
				_, _ = fc.SendInviteV2(bg, origin, dest, req)
			}
		},
		"SendInviteV3": func() {
			if uid, err := spec.NewUserID(user, true); err == nil {
				pe := gomatrixserverlib.ProtoEvent{SenderID: user, RoomID: room, Type: "m.room.member", StateKey: &user, Content: []byte(`{"membership":"invite"}`)}
				if req, err := NewInviteV3Request(pe, rv, nil); err == nil {
					_, _ = fc.SendInviteV3(bg, origin, dest, req, *uid)
				}
			}
		},
		"MakeJoin":  func() { _, _ = fc.MakeJoin(bg, origin, dest, room, user) },
		"MakeLeave": func() { _, _ = fc.MakeLeave(bg, origin, dest, room, user) },
		"MakeKnock": func() { _, _ = fc.MakeKnock(bg, origin, dest, room, user, []gomatrixserverlib.RoomVersion{rv}) },
		"SendKnock": func() { _, _ = fc.SendKnock(bg, origin, dest, ev) },
		"LookupState": func() {
			_, _ = fc.LookupState(bg, origin, dest, room, eid, rv)
		},
		"LookupStateIDs": func() { _, _ = fc.LookupStateIDs(bg, origin, dest, room, eid) },
		"LookupMissingEvents": func() {
			_, _ = fc.LookupMissingEvents(bg, origin, dest, room, MissingEvents{Limit: 5, EarliestEvents: []string{eid}, LatestEvents: []string{eid}}, rv)
		},
		"GetEvent":     func() { _, _ = fc.GetEvent(bg, origin, dest, eid) },
		"GetEventAuth": func() { _, _ = fc.GetEventAuth(bg, origin, dest, rv, room, eid) },
		"Backfill":     func() { _, _ = fc.Backfill(bg, origin, dest, room, 5, []string{eid}) },
		"SendTransaction": func() {
			_, _ = fc.SendTransaction(bg, gomatrixserverlib.Transaction{TransactionID: "t1", Origin: origin, Destination: dest, PDUs: []json.RawMessage{json.RawMessage(ev.JSON())}})
		},
		"Peek":          func() { _, _ = fc.Peek(bg, origin, dest, room, "peek1", []gomatrixserverlib.RoomVersion{rv}) },
		"GetServerKeys": func() { _, _ = fc.GetServerKeys(bg, dest) },
		"LookupServerKeys": func() {
			_, _ = fc.LookupServerKeys(bg, dest, map[gomatrixserverlib.PublicKeyLookupRequest]spec.Timestamp{{ServerName: "x.example", KeyID: "ed25519:1"}: 0})
		},
		"LookupRoomAlias": func() { _, _ = fc.LookupRoomAlias(bg, origin, dest, "#a:x.example") },
		"GetPublicRooms":  func() { _, _ = fc.GetPublicRooms(bg, origin, dest, 5, "", false, "") },
		"LookupProfile":   func() { _, _ = fc.LookupProfile(bg, origin, dest, user, "") },
		"ClaimKeys": func() {
			_, _ = fc.ClaimKeys(bg, origin, dest, map[string]map[string]string{user: {"DEV": "signed_curve25519"}})
		},
		"QueryKeys":      func() { _, _ = fc.QueryKeys(bg, origin, dest, map[string][]string{user: {}}) },
		"GetUserDevices": func() { _, _ = fc.GetUserDevices(bg, origin, dest, user) },
		"ExchangeThirdPartyInvite": func() {
			_ = fc.ExchangeThirdPartyInvite(bg, origin, dest, gomatrixserverlib.ProtoEvent{SenderID: user, RoomID: room, Type: "m.room.member", StateKey: &user, Content: []byte(`{"membership":"invite"}`)})
		},
		"RoomHierarchy": func() { _, _ = fc.RoomHierarchy(bg, origin, dest, room, false) },
		"MSC2836EventRelationships": func() {
			_, _ = fc.MSC2836EventRelationships(bg, origin, dest, MSC2836EventRelationshipsRequest{EventID: eid}, rv)
		},
		"GetPublicRoomsFiltered": func() { _, _ = fc.GetPublicRoomsFiltered(bg, origin, dest, 5, "", "x", false, "") },
		"DownloadMedia": func() {
			if r, err := fc.DownloadMedia(bg, origin, dest, "media1"); err == nil && r != nil && r.Body != nil {
				_ = r.Body.Close()
			}
		},
		"P2PSendTransactionToRelay": func() {
			if u, err := spec.NewUserID(user, true); err == nil {
				_, _ = fc.P2PSendTransactionToRelay(bg, *u, gomatrixserverlib.Transaction{TransactionID: "t1", Origin: origin, Destination: dest}, dest)
			}
		},
		"P2PGetTransactionFromRelay": func() {
			if u, err := spec.NewUserID(user, true); err == nil {
				_, _ = fc.P2PGetTransactionFromRelay(bg, *u, RelayEntry{EntryID: 1}, dest)
			}
		},
		"GetVersion":     func() { _, _ = plain.GetVersion(bg, dest) },
		"LookupUserInfo": func() { _, _ = plain.LookupUserInfo(bg, dest, "token") },
		"CreateMediaDownloadRequest": func() {
			if r, err := plain.CreateMediaDownloadRequest(bg, dest, "media1"); err == nil && r != nil && r.Body != nil {
				_ = r.Body.Close()
			}
		},
	}
	f, ok := calls[c.Method]
	if !ok {
		ctx.Unjudged("unknown method")
		return
	}
	s.call(c.Method, f)
	ctx.Class("method/" + c.Method)
	mu.Lock()
	n := served
	mu.Unlock()
	if n > 0 {
		ctx.NonTrivial()
	}
	if n >= 2 {
		ctx.Class("requests/2+ (a fallback or a retry was taken)")
	}
}

type vfZeroReader struct{}

func (vfZeroReader) Read(p []byte) (int, error) {
	for i := range p {
		p[i] = 7
	}
	return len(p), nil
}

func init() {
	vfRapid("C18/fc-calls", "non-trivial = the scripted server received at least one request from the client method under test. distinct = distinct Case JSON",
		600, 20000, 8, c18GenCall, c18CallCheck)
}
