//go:build verif

package fclient

// C12/key-client — the HTTP client the key fetchers stand on: Client.LookupServerKeys (the notary
// query) and Client.GetServerKeys against a loopback TLS server that answers with a list of key
// documents. What the client hands to the fetchers must be what the server said, document by
// document: each entry's server name, validity, current keys and retired keys are its own (the
// fetchers check every document's signatures against the keys IT lists).

import (
	"context"
	"encoding/json"
	"fmt"
	"net/http"
	"net/http/httptest"
	"sort"
	"time"

	"github.com/matrix-org/gomatrixserverlib"
	"github.com/matrix-org/gomatrixserverlib/spec"
	"pgregory.net/rapid"
)

type c12DocSpec struct {
	Server     string   `json:"server"`
	ValidUntil int64    `json:"valid_until_ts"`
	Verify     []string `json:"verify"` // key IDs
	Old        []string `json:"old"`    // key IDs
	Sigs       []string `json:"sigs"`   // key IDs the document carries a signature entry for
}

type c12ClientCase struct {
	Docs []c12DocSpec `json:"docs"`
}

func c12ClientGen(t *rapid.T) c12ClientCase {
	var c c12ClientCase
	n := rapid.SampledFrom([]int{1, 2, 2, 3, 3, 4, 6}).Draw(t, "ndocs")
	ids := []string{"ed25519:a", "ed25519:b", "ed25519:c", "ed25519:old1", "ed25519:old2"}
	for i := 0; i < n; i++ {
		d := c12DocSpec{Server: rapid.SampledFrom([]string{"a.example", "b.example:8448", "c.example", "a.example"}).Draw(t, "server"),
			ValidUntil: int64(rapid.IntRange(1, 9).Draw(t, "vu"))*1000000 + int64(i)}
		for _, id := range ids {
			switch rapid.IntRange(0, 3).Draw(t, "where") {
			case 0:
				d.Verify = append(d.Verify, id)
				d.Sigs = append(d.Sigs, id)
			case 1:
				d.Old = append(d.Old, id)
			}
		}
		c.Docs = append(c.Docs, d)
	}
	return c
}

func c12DocJSON(i int, d c12DocSpec) map[string]any {
	key := func(id string) string {
		return spec.Base64Bytes(fmt.Sprintf("%-32.32s", fmt.Sprint(i, "/", d.Server, "/", id))).Encode()
	}
	verify, old, sigs := map[string]any{}, map[string]any{}, map[string]any{}
	for _, id := range d.Verify {
		verify[id] = map[string]any{"key": key(id)}
	}
	for _, id := range d.Old {
		old[id] = map[string]any{"key": key(id), "expired_ts": d.ValidUntil - 7}
	}
	for _, id := range d.Sigs {
		sigs[id] = spec.Base64Bytes(fmt.Sprintf("%-64.64s", "sig/"+key(id))).Encode()
	}
	return map[string]any{"server_name": d.Server, "valid_until_ts": d.ValidUntil, "verify_keys": verify, "old_verify_keys": old,
		"signatures": map[string]any{d.Server: sigs}}
}

func c12SortedKeys[V any](m map[gomatrixserverlib.KeyID]V) []string {
	var out []string
	for k := range m {
		out = append(out, string(k))
	}
	sort.Strings(out)
	return out
}

func c12ClientCheck(ctx *vfCtx, c c12ClientCase) {
	var docs []map[string]any
	for i, d := range c.Docs {
		docs = append(docs, c12DocJSON(i, d))
	}
	var asked map[string]map[string]json.RawMessage // the notary query as it arrived
	srv := httptest.NewUnstartedServer(http.HandlerFunc(func(rw http.ResponseWriter, req *http.Request) {
		rw.Header().Set("Content-Type", "application/json")
		if req.URL.Path == "/_matrix/key/v2/server" {
			_ = json.NewEncoder(rw).Encode(docs[0])
			return
		}
		var body struct {
			ServerKeys map[string]map[string]json.RawMessage `json:"server_keys"`
		}
		if json.NewDecoder(req.Body).Decode(&body) == nil {
			asked = body.ServerKeys
		}
		_ = json.NewEncoder(rw).Encode(map[string]any{"server_keys": docs})
	}))
	srv.Config.ErrorLog = nil
	srv.StartTLS()
	defer srv.Close()
	dest := spec.ServerName(srv.Listener.Addr().String())
	cl := NewClient(WithSkipVerify(true), WithTimeout(5*time.Second), WithKeepAlives(false))
	bg, cancel := context.WithTimeout(context.Background(), 10*time.Second)
	defer cancel()
	ask := map[gomatrixserverlib.PublicKeyLookupRequest]spec.Timestamp{}
	for i, d := range c.Docs {
		ask[gomatrixserverlib.PublicKeyLookupRequest{ServerName: spec.ServerName(d.Server), KeyID: "ed25519:a"}] = 0
		if i%2 == 0 {
			// several keys of one server in one query (events from before and after a key rotation)
			ask[gomatrixserverlib.PublicKeyLookupRequest{ServerName: spec.ServerName(d.Server), KeyID: "ed25519:b"}] = 0
			ask[gomatrixserverlib.PublicKeyLookupRequest{ServerName: spec.ServerName(d.Server), KeyID: "ed25519:old1"}] = 0
		}
	}
	var got []gomatrixserverlib.ServerKeys
	var err error
	if vfCatch(ctx, "C12/key-client", func() { got, err = cl.LookupServerKeys(bg, dest, ask) }) {
		return
	}
	ctx.NonTrivial()
	ctx.Class(fmt.Sprintf("documents=%d", len(c.Docs)))
	if err != nil {
		ctx.Fail("C12/key-client/lookup-failed", "LookupServerKeys failed on a well-formed answer of %d documents: %v", len(c.Docs), err)
		return
	}
	// the notary is asked for every key the caller named (a notary answers for what it was asked)
	for r := range ask {
		if _, ok := asked[string(r.ServerName)][string(r.KeyID)]; !ok {
			ctx.Fail("C12/key-client/key-not-asked-for", "LookupServerKeys was given %s / %s but the query the notary received does not name it: %v", r.ServerName, r.KeyID, asked)
			return
		}
	}
	for sn, ks := range asked {
		for k := range ks {
			if _, ok := ask[gomatrixserverlib.PublicKeyLookupRequest{ServerName: spec.ServerName(sn), KeyID: gomatrixserverlib.KeyID(k)}]; !ok {
				ctx.Fail("C12/key-client/asked-for-a-key-nobody-named", "the query the notary received names %s / %s which the caller did not ask for", sn, k)
				return
			}
		}
	}
	if len(got) != len(c.Docs) {
		ctx.Fail("C12/key-client/document-count", "the server answered with %d key documents, LookupServerKeys returned %d", len(c.Docs), len(got))
		return
	}
	same := func(what string, i int, got, want []string) bool {
		sort.Strings(want)
		if fmt.Sprint(got) != fmt.Sprint(want) && !(len(got) == 0 && len(want) == 0) {
			ctx.Fail("C12/key-client/document-differs/"+what, "document %d (%s): %s as sent %v, as handed to the fetcher %v", i, c.Docs[i].Server, what, want, got)
			return false
		}
		return true
	}
	for i, d := range c.Docs {
		g := got[i]
		if string(g.ServerName) != d.Server || int64(g.ValidUntilTS) != d.ValidUntil {
			ctx.Fail("C12/key-client/document-differs/header", "document %d: sent %s valid until %d, handed over %s valid until %d", i, d.Server, d.ValidUntil, g.ServerName, g.ValidUntilTS)
			return
		}
		if !same("verify_keys", i, c12SortedKeys(g.VerifyKeys), append([]string(nil), d.Verify...)) ||
			!same("old_verify_keys", i, c12SortedKeys(g.OldVerifyKeys), append([]string(nil), d.Old...)) {
			return
		}
		want := c12DocJSON(i, d)["verify_keys"].(map[string]any)
		for id, vk := range g.VerifyKeys {
			if w, ok := want[string(id)].(map[string]any); !ok || w["key"] != vk.Key.Encode() {
				ctx.Fail("C12/key-client/document-differs/key-material", "document %d: key %s as handed over is not the key that was sent", i, id)
				return
			}
		}
	}
	// the single-document endpoint
	var one gomatrixserverlib.ServerKeys
	if vfCatch(ctx, "C12/key-client", func() { one, err = cl.GetServerKeys(bg, dest) }) {
		return
	}
	if err == nil {
		d := c.Docs[0]
		if string(one.ServerName) != d.Server || !same("verify_keys(GetServerKeys)", 0, c12SortedKeys(one.VerifyKeys), append([]string(nil), d.Verify...)) {
			return
		}
	}
}

func init() {
	vfRapid("C12/key-client", "every case: a notary answer of 1..6 key documents (servers and key IDs overlapping) served over TLS on the loopback interface; distinct = distinct Case JSON", 150, 4000, 4, c12ClientGen, c12ClientCheck)
}
