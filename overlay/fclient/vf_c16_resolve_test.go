//go:build verif

package fclient

// C16/resolve   — ResolveServer against the specification's resolution table.
// C16/wellknown — LookupWellKnown: when a reply is honoured, and its cache lifetime.
//
// The network is played by the in-process stand-ins of vf_c16_stubs_test.go.

import (
	"context"
	"fmt"
	"net/http"
	"strings"
	"time"

	"github.com/matrix-org/gomatrixserverlib/spec"
	"pgregory.net/rapid"
)

// ---------------------------------------------------------------------------------------------
// generators shared by resolve / wellknown / tripper

var c16Labels = []string{"example", "matrix", "a", "b1", "x-y", "com", "org", "test", "EXAMPLE", "synapse", "m"}

func c16GenHost(t *rapid.T) string {
	n := rapid.SampledFrom([]int{1, 2, 2, 2, 3, 3}).Draw(t, "labels")
	var ls []string
	for i := 0; i < n; i++ {
		ls = append(ls, rapid.SampledFrom(c16Labels).Draw(t, "label"))
	}
	h := strings.Join(ls, ".")
	if rapid.IntRange(0, 14).Draw(t, "rooted") == 0 {
		h += "."
	}
	return h
}

var c16Ports = []string{"8448", "443", "4242", "1", "65535", "0", "080", "8008"}
var c16V4Lits = []string{"42.42.42.42", "1.2.3.4", "127.0.0.1", "10.0.0.1", "0.0.0.0", "255.255.255.255", "192.168.1.1"}
var c16V6Lits = []string{"::1", "::", "42:42::42", "2001:db8::1", "fe80::1", "::ffff:1.2.3.4", "1:2:3:4:5:6:7:8", "2001:DB8::A", "0:0::1"}
var c16OddValid = []string{"a..b", "-a", "a-", ".", "..", "1.2.3", "1.2.3.4.5", "a.-b.c", "1234", "-", "a.b..", "999"}
var c16Invalid = []string{"", "exa mple.com", "example.com:", "example.com:abc", "example.com:-1", "example.com:+80", "example.com:123456",
	"[::1", "::1", "1::2:3", "fe80::1", "[::1]x", "[::1]:", "[::1]:x", "[:::1]", "[1.2.3.4]", "[1.2.3.4]:8448", "[fe80::1%eth0]", "[]", "[]:80", "[example.com]",
	"exämple.com", "user@example.com", "example.com/path", "example.com/", "example.com:80:80", "http://example.com", "example_com", "exam*ple.com",
	" example.com", "example.com ", "example.com\n", "exam\x00ple.com", ":80", ":", "[::1]:99999x", "[::g]", "example.com:８０", "example.com?x", "example.com#f", "[::1]]", "[[::1]]"}

// c16GenName returns a server name; most are valid.
func c16GenName(t *rapid.T, label string) string {
	k := rapid.IntRange(0, 99).Draw(t, label)
	port := func() string { return ":" + rapid.SampledFrom(c16Ports).Draw(t, "port") }
	switch {
	case k < 45:
		return c16GenHost(t)
	case k < 55:
		return c16GenHost(t) + port()
	case k < 62:
		return rapid.SampledFrom(c16V4Lits).Draw(t, "v4")
	case k < 67:
		return rapid.SampledFrom(c16V4Lits).Draw(t, "v4") + port()
	case k < 74:
		return "[" + rapid.SampledFrom(c16V6Lits).Draw(t, "v6") + "]"
	case k < 79:
		return "[" + rapid.SampledFrom(c16V6Lits).Draw(t, "v6") + "]" + port()
	case k < 84:
		s := rapid.SampledFrom(c16OddValid).Draw(t, "odd")
		if rapid.IntRange(0, 4).Draw(t, "oddPort") == 0 {
			s += port()
		}
		return s
	case k < 93:
		return rapid.SampledFrom(c16Invalid).Draw(t, "invalid")
	case k < 96:
		// port edge cases, judged or not by the model
		return c16GenHost(t) + ":" + rapid.SampledFrom([]string{"65536", "99999", "00000", "000080", "65535"}).Draw(t, "edgePort")
	default:
		// a valid name damaged by one inserted character
		s := c16GenHost(t)
		pos := rapid.IntRange(0, len(s)).Draw(t, "pos")
		ch := rapid.SampledFrom([]string{" ", "_", "/", "@", "#", "?", "%", "*", "\\", "\n", "\t", "é", ":", "[", "]", "\""}).Draw(t, "ch")
		return s[:pos] + ch + s[pos:]
	}
}

func c16GenSRVAns(t *rapid.T, label string) c16SRVAns {
	k := rapid.IntRange(0, 99).Draw(t, label)
	switch {
	case k < 35:
		return c16SRVAns{Kind: "nx"}
	case k < 45:
		return c16SRVAns{Kind: "nodata"}
	case k < 55:
		return c16SRVAns{Kind: "servfail"}
	}
	n := rapid.SampledFrom([]int{1, 1, 2, 3, 4}).Draw(t, "nrec")
	a := c16SRVAns{Kind: "records"}
	for i := 0; i < n; i++ {
		a.Recs = append(a.Recs, c16SRVRec{
			Target: rapid.SampledFrom([]string{"srv1.example.net", "srv2.example.net", "matrix.otherexample.com", "host.test", "a.b1.org", "SRV.Example.NET"}).Draw(t, "target"),
			Port:   rapid.SampledFrom([]int{8448, 443, 4242, 1, 65535}).Draw(t, "port"),
			Prio:   rapid.SampledFrom([]int{0, 10, 10, 20}).Draw(t, "prio"),
			Weight: rapid.SampledFrom([]int{0, 5, 10}).Draw(t, "weight"),
		})
	}
	if rapid.IntRange(0, 9).Draw(t, label+"Mixed") == 0 {
		a.Kind = "mixed"
	}
	return a
}

func c16GenSRV(t *rapid.T, label string) c16SRVSpec {
	return c16SRVSpec{Fed: c16GenSRVAns(t, label+"Fed"), Old: c16GenSRVAns(t, label+"Old")}
}

var c16Statuses = []int{201, 202, 203, 204, 206, 400, 401, 403, 404, 404, 404, 410, 429, 500, 502, 503}
var c16BadDocs = []string{"no-mserver", "empty-object", "empty-mserver", "nonstring-number", "nonstring-null", "nonstring-array", "nonstring-object", "truncated", "not-json", "empty-body", "top-array", "html"}
var c16Pads = []string{"trail", "trail", "lead", "inner", "member-after", "member-before"}
var c16Sizes = []int{c16MaxWK - 1, c16MaxWK, c16MaxWK, c16MaxWK + 1, c16MaxWK + 1, c16MaxWK + 2, c16MaxWK + 4095, c16MaxWK + 4096, c16MaxWK + 4097, 2 * c16MaxWK, 200000, 1000, 40000}

// c16GenWK draws a well-known outcome (without cache headers).
func c16GenWK(t *rapid.T) c16WKSpec {
	if rapid.IntRange(0, 9).Draw(t, "wkNetErr") == 0 {
		return c16WKSpec{Mode: "neterr"}
	}
	w := c16WKSpec{Mode: "reply", Status: 200, Doc: "ok"}
	if rapid.IntRange(0, 9).Draw(t, "wkStatus") < 2 {
		w.Status = rapid.SampledFrom(c16Statuses).Draw(t, "status")
	}
	if rapid.IntRange(0, 9).Draw(t, "wkDoc") < 2 {
		w.Doc = rapid.SampledFrom(c16BadDocs).Draw(t, "doc")
	} else {
		w.Delegate = c16GenName(t, "delegateKind")
		w.Extra = rapid.SampledFrom([]string{"", "", "before", "after", "both", "expiry-members"}).Draw(t, "extra")
	}
	if rapid.IntRange(0, 9).Draw(t, "wkBig") < 3 {
		w.Pad = rapid.SampledFrom(c16Pads).Draw(t, "pad")
		w.Size = rapid.SampledFrom(c16Sizes).Draw(t, "size")
	}
	w.NoCL = rapid.Bool().Draw(t, "noCL")
	return w
}

func c16WKClasses(ctx *vfCtx, w c16WKSpec) {
	if w.Mode != "reply" {
		ctx.Class("wk:transport-error")
		return
	}
	body, _ := c16WKBody(w)
	ctx.Class(fmt.Sprintf("wk:status-%d", w.Status))
	ctx.Class("wk:doc-" + w.Doc)
	cl := "content-length"
	if w.NoCL {
		cl = "chunked"
	}
	switch {
	case len(body) > c16MaxWK+1:
		ctx.Class("wk:size>50KiB+1," + cl)
	case len(body) == c16MaxWK+1:
		ctx.Class("wk:size=50KiB+1," + cl)
	case len(body) == c16MaxWK:
		ctx.Class("wk:size=50KiB," + cl)
	case len(body) == c16MaxWK-1:
		ctx.Class("wk:size=50KiB-1," + cl)
	case len(body) > 4096:
		ctx.Class("wk:size-medium," + cl)
	default:
		ctx.Class("wk:size-small," + cl)
	}
	if w.Pad != "" {
		ctx.Class("wk:pad-" + w.Pad)
	}
	if w.Doc == "ok" {
		d := c16ParseName(w.Delegate)
		switch {
		case w.Delegate == "":
			ctx.Class("wk:delegate-empty")
		case !d.Valid:
			ctx.Class("wk:delegate-invalid")
		case d.Port >= 0:
			ctx.Class("wk:delegate-" + d.Kind + "+port")
		default:
			ctx.Class("wk:delegate-" + d.Kind)
		}
	}
}

// c16InvalidShape names the way a server name is invalid (signature stem).
func c16InvalidShape(s string) string {
	switch {
	case s == "":
		return "empty"
	case strings.HasPrefix(s, "["):
		i := strings.IndexByte(s, ']')
		if i < 0 {
			return "bracket-unclosed"
		}
		inner := s[1:i]
		if !strings.Contains(inner, ":") {
			return "bracketed-non-ipv6"
		}
		if c16ParseName(s[:i+1]).Valid {
			return "bracketed-bad-port"
		}
		return "bracketed-bad-ipv6"
	}
	if i := strings.LastIndexByte(s, ':'); i >= 0 && c16IsDNSChars(s[:i]) {
		return "bad-port"
	}
	if strings.Count(s, ":") >= 2 {
		return "unbracketed-colons"
	}
	return "bad-character"
}

// ---------------------------------------------------------------------------------------------
// C16/resolve

type c16ResolveCase struct {
	Name     string     `json:"name"`
	WK       c16WKSpec  `json:"wk"`
	SRVOrig  c16SRVSpec `json:"srv_orig"`
	SRVDeleg c16SRVSpec `json:"srv_deleg"`
}

const c16ResolveRule = "the server name is a valid DNS name without port, so resolution passes step 2 and needs the well-known and/or SRV answers"

func c16ResolveGen(t *rapid.T) c16ResolveCase {
	return c16ResolveCase{Name: c16GenName(t, "nameKind"), WK: c16GenWK(t), SRVOrig: c16GenSRV(t, "orig"), SRVDeleg: c16GenSRV(t, "deleg")}
}

func c16SRVMap(m map[string]c16SRVAns, host string, s c16SRVSpec) {
	if !c16RegularHost(host) {
		return
	}
	m["_matrix-fed._tcp."+c16FQDN(host)] = s.Fed
	m["_matrix._tcp."+c16FQDN(host)] = s.Old
}

func c16SRVClass(ctx *vfCtx, who string, s c16SRVSpec) {
	ctx.Class(fmt.Sprintf("srv-%s:fed=%s,old=%s", who, s.Fed.Kind, s.Old.Kind))
	if len(s.Fed.Recs) > 1 || len(s.Old.Recs) > 1 {
		ctx.Class("srv-" + who + ":several-records")
	}
}

// c16OtherVerdict: the expectation under the opposite verdict on the well-known reply (honoured
// <-> not honoured) and the signature that names that root cause.
func c16OtherVerdict(c c16ResolveCase, srvD c16SRVSpec) (c16Expect, string, bool) {
	if c.WK.Mode != "reply" {
		return c16Expect{}, "", false
	}
	honoured, why := c16WKHonoured(c.WK)
	other := c.WK
	if honoured {
		other = c16WKSpec{Mode: "neterr"}
	} else {
		other.Status, other.Pad, other.Size = 200, "", 0
	}
	if now, _ := c16WKHonoured(other); now == honoured {
		return c16Expect{}, "", false
	}
	sig := "C16/resolve/well-known-ignored"
	if !honoured {
		sig = "C16/resolve/well-known-honoured/" + why
		if why == "oversize" {
			if c.WK.NoCL {
				sig += "/no-content-length"
			} else {
				sig += "/content-length"
			}
			sig += "/pad-" + c.WK.Pad
		}
	}
	return c16Resolve(c.Name, other, c.SRVOrig, srvD), sig, true
}

func c16ResolveCheck(ctx *vfCtx, c c16ResolveCase) {
	n := c16ParseName(c.Name)
	d := c16ParseName(c.WK.Delegate)
	srvD := c.SRVDeleg
	if strings.EqualFold(strings.TrimSuffix(c.WK.Delegate, "."), strings.TrimSuffix(c.Name, ".")) {
		srvD = c.SRVOrig // self-delegation: one name, one set of records
	}
	exp := c16Resolve(c.Name, c.WK, c.SRVOrig, srvD)

	ctx.Class("step:" + exp.Step)
	switch {
	case !n.Valid:
		ctx.Class("name:invalid/" + c16InvalidShape(c.Name))
	case n.Port >= 0:
		ctx.Class("name:" + n.Kind + "+port")
	default:
		ctx.Class("name:" + n.Kind)
	}
	passesStep2 := n.Valid && n.Kind == "dns" && n.Port < 0
	if passesStep2 {
		ctx.NonTrivial()
		c16WKClasses(ctx, c.WK)
		_, why := c16WKHonoured(c.WK)
		ctx.Class("wk-verdict:" + why)
		if strings.HasPrefix(exp.Step, "3-delegate/") {
			c16SRVClass(ctx, "delegated", srvD)
		} else if strings.HasPrefix(exp.Step, "4-6/") {
			c16SRVClass(ctx, "original", c.SRVOrig)
		}
		if !c16RegularHost(c.Name) {
			ctx.Class("name:dns-irregular")
		}
	}

	wk := map[string]c16WKSpec{strings.ToLower(c.Name): c.WK}
	srv := map[string]c16SRVAns{}
	if n.Valid && n.Kind == "dns" {
		c16SRVMap(srv, n.Host, c.SRVOrig)
	}
	if d.Valid && d.Kind == "dns" && !strings.EqualFold(c16FQDN(d.Host), c16FQDN(n.Host)) {
		c16SRVMap(srv, d.Host, srvD)
	}
	end := c16Begin(wk, srv, nil)
	defer end()

	var got []ResolutionResult
	var err error
	if vfCatch(ctx, "C16/resolve", func() {
		got, err = ResolveServer(context.Background(), spec.ServerName(c.Name))
	}) {
		return
	}
	httpLog, dnsLog := c16Logs()

	show := func() string {
		var b strings.Builder
		for _, r := range got {
			fmt.Fprintf(&b, "(%s Host=%s SNI=%s) ", r.Destination, r.Host, r.TLSServerName)
		}
		return fmt.Sprintf("results [%s] err=%v", strings.TrimSpace(b.String()), err)
	}

	// invalid names are refused
	if exp.Refuse {
		if err == nil {
			ctx.Fail("C16/resolve/invalid-accepted/"+c16InvalidShape(c.Name), "ResolveServer(%q) accepts an invalid server name: %s", c.Name, show())
		}
		return
	}
	if n.Dubious != "" {
		ctx.Unjudged("server name of doubtful validity: " + n.Dubious)
		return
	}

	for _, r := range got {
		if strings.Contains(r.Destination, "c16-trap") || strings.Contains(string(r.Host), "c16-trap") {
			ctx.Fail("C16/resolve/second-well-known-lookup", "ResolveServer(%q): the delegated name %q was itself looked up via /.well-known: %s", c.Name, c.WK.Delegate, show())
			return
		}
	}
	for _, r := range httpLog {
		if !strings.EqualFold(r.URLHost, c.Name) {
			ctx.Fail("C16/resolve/well-known-for-other-name", "ResolveServer(%q) asked %s://%s%s", c.Name, r.Scheme, r.URLHost, r.Path)
			return
		}
	}
	if honoured, _ := c16WKHonoured(c.WK); honoured && len(httpLog) > 1 {
		ctx.Fail("C16/resolve/further-well-known-lookup", "ResolveServer(%q): %d well-known requests although the first reply was honourable (delegate %q)", c.Name, len(httpLog), c.WK.Delegate)
		return
	}
	if len(httpLog) > 0 && !passesStep2 {
		ctx.Class("note:well-known-requested-for-literal-or-port-name")
	}

	if err != nil {
		if exp.OrErr {
			ctx.Class("outcome:error-where-statement-is-silent")
			ctx.Unjudged("invalid delegated name: error or fall-back to SRV both accepted")
			return
		}
		sig := "C16/resolve/valid-refused/" + exp.Step
		if passesStep2 {
			if other, stem, ok := c16OtherVerdict(c, srvD); ok && other.OrErr {
				sig = stem
			}
		}
		ctx.Fail(sig, "ResolveServer(%q) wk=%+v fails for a valid name: %v", c.Name, c.WK, err)
		return
	}
	if len(exp.Alts) > 1 {
		ctx.Unjudged("several outcomes accepted: " + exp.Note)
	}
	first, matched := "", false
	for _, alt := range exp.Alts {
		m := c16MatchTargets(got, alt)
		if m == "" {
			matched = true
			break
		}
		if first == "" {
			first = m
		}
	}
	if !matched {
		kind := first
		if i := strings.IndexByte(kind, ':'); i > 0 {
			kind = kind[:i]
		}
		var want []string
		for _, alt := range exp.Alts {
			var b strings.Builder
			for _, tg := range alt {
				fmt.Fprintf(&b, "(%s Host=%s SNI=%s) ", tg.Dest, tg.Host, tg.SNI)
			}
			want = append(want, "["+strings.TrimSpace(b.String())+"]")
		}
		sig := "C16/resolve/" + exp.Step + "/" + kind
		// name the root cause when the result is exactly what the other verdict on the well-known
		// reply would give
		if exp.Step == "3-delegate-invalid" {
			sig = "C16/resolve/invalid-delegate-accepted/" + c16InvalidShape(c.WK.Delegate)
		}
		if passesStep2 {
			if other, stem, ok := c16OtherVerdict(c, srvD); ok {
				for _, alt := range other.Alts {
					if c16MatchTargets(got, alt) == "" {
						sig = stem
					}
				}
				// a target carrying the delegated name shows that a reply the model refuses was honoured
				if honoured, _ := c16WKHonoured(c.WK); !honoured && c.WK.Delegate != "" && !strings.EqualFold(c.WK.Delegate, c.Name) {
					for _, r := range got {
						if string(r.Host) == c.WK.Delegate {
							sig = stem
						}
					}
				}
			}
		}
		ctx.Fail(sig, "ResolveServer(%q) wk=%+v srvOrig=%+v srvDeleg=%+v: %s; want %s (%s)", c.Name, c.WK, c.SRVOrig, srvD, show(), strings.Join(want, " or "), first)
		return
	}
	// _matrix-fed is asked before _matrix
	seenOld := map[string]bool{}
	for _, q := range dnsLog {
		if strings.HasPrefix(q, "SRV _matrix._tcp.") {
			seenOld[strings.TrimPrefix(q, "SRV _matrix._tcp.")] = true
		}
		if strings.HasPrefix(q, "SRV _matrix-fed._tcp.") && seenOld[strings.TrimPrefix(q, "SRV _matrix-fed._tcp.")] {
			ctx.Fail("C16/resolve/srv-order", "ResolveServer(%q) asked _matrix before _matrix-fed: %v", c.Name, dnsLog)
		}
	}
}

// ---------------------------------------------------------------------------------------------
// C16/wellknown

type c16WKCase struct {
	Name    string    `json:"name"`
	WK      c16WKSpec `json:"wk"` // CC / Expires are filled in from the four fields below
	CCKind  string    `json:"cc_kind"`
	MaxAge  int64     `json:"max_age"`
	ExpKind string    `json:"exp_kind"`
	ExpUnix int64     `json:"exp_unix"`
}

const c16WKRule = "the reply has status 200 (so size, m.server and the cache headers decide)"

// cache-control shapes: judged-valid (max-age must win), judged-absent (no usable max-age: Expires
// or nothing decides), and shapes HTTP allows or forbids only in its small print (not judged).
var c16CCValid = map[string]string{
	"plain":          "max-age=%d",
	"first":          "max-age=%d, must-revalidate",
	"last":           "public, max-age=%d",
	"middle":         "public,max-age=%d,immutable",
	"upper":          "Max-Age=%d",
	"spaces":         "public ,  max-age=%d , s-maxage=7",
	"after-s-maxage": "s-maxage=7, max-age=%d",
}
var c16CCAbsent = map[string]string{
	"none":        "",
	"no-cache":    "no-cache",
	"s-maxage":    "s-maxage=%d",
	"not-number":  "max-age=abc",
	"empty-value": "max-age=",
	"no-value":    "public, max-age",
	"prefixed":    "x-max-age=%d",
	"suffixed":    "max-age-x=%d",
}
var c16CCUnjudged = map[string]string{
	"negative":  "max-age=-5",
	"plus":      "max-age=+5",
	"quoted":    "max-age=\"%d\"",
	"twice":     "max-age=%d, max-age=1",
	"too-big":   "max-age=99999999999999999999",
	"int64-max": "max-age=9223372036854775807",
	"space-eq":  "max-age= %d",
	"tab":       "public,\tmax-age=%d",
	"fraction":  "max-age=%d.5",
}

func c16Keys(m map[string]string) []string {
	var ks []string
	for k := range m {
		ks = append(ks, k)
	}
	// deterministic order for rapid.SampledFrom
	for i := 1; i < len(ks); i++ {
		for j := i; j > 0 && ks[j] < ks[j-1]; j-- {
			ks[j], ks[j-1] = ks[j-1], ks[j]
		}
	}
	return ks
}

func c16WKGen(t *rapid.T) c16WKCase {
	c := c16WKCase{WK: c16GenWK(t)}
	if rapid.IntRange(0, 9).Draw(t, "plainName") < 8 {
		c.Name = c16GenHost(t)
	} else {
		c.Name = rapid.SampledFrom([]string{"42.42.42.42", "[::1]", "example.com:8448", "[2001:db8::1]:443", "EXAMPLE.org"}).Draw(t, "name")
	}
	// the delegate is only echoed here: keep it mostly valid
	if c.WK.Doc == "ok" && rapid.IntRange(0, 9).Draw(t, "simpleDelegate") < 6 {
		c.WK.Delegate = rapid.SampledFrom([]string{"matrix.example.com", "matrix.example.com:443", "42.42.42.42", "[::1]:8448", "a"}).Draw(t, "delegate")
	}
	switch k := rapid.IntRange(0, 9).Draw(t, "ccClass"); {
	case k < 5:
		c.CCKind = rapid.SampledFrom(c16Keys(c16CCValid)).Draw(t, "ccValid")
	case k < 8:
		c.CCKind = rapid.SampledFrom(c16Keys(c16CCAbsent)).Draw(t, "ccAbsent")
	default:
		c.CCKind = rapid.SampledFrom(c16Keys(c16CCUnjudged)).Draw(t, "ccUnjudged")
	}
	c.MaxAge = rapid.SampledFrom([]int64{0, 1, 60, 3600, 86400, 31536000, 1000000000, 9223372036, 9223372037, 31536000000, 315360000000, 4000000000000}).Draw(t, "maxAge") // (also beyond what a time.Duration holds in seconds)
	c.ExpKind = rapid.SampledFrom([]string{"none", "none", "imf", "imf", "imf", "zero", "minus1", "garbage", "rfc850", "asctime"}).Draw(t, "expKind")
	c.ExpUnix = rapid.SampledFrom([]int64{0, 1, 784111777, 1700000000, 1800000000, 1900000000, 2147483647, 2147483648, 4102444800}).Draw(t, "expUnix")
	return c
}

func c16CCHeader(kind string, n int64) (value string, class string) {
	pick := func(m map[string]string) (string, bool) {
		f, ok := m[kind]
		if !ok {
			return "", false
		}
		if strings.Contains(f, "%d") {
			return fmt.Sprintf(f, n), true
		}
		return f, true
	}
	if v, ok := pick(c16CCValid); ok {
		return v, "valid"
	}
	if v, ok := pick(c16CCAbsent); ok {
		return v, "absent"
	}
	if v, ok := pick(c16CCUnjudged); ok {
		return v, "unjudged"
	}
	return "", "absent"
}

func c16ExpHeader(kind string, unix int64) string {
	tm := time.Unix(unix, 0).UTC()
	switch kind {
	case "imf":
		return tm.Format(http.TimeFormat)
	case "zero":
		return "0"
	case "minus1":
		return "-1"
	case "garbage":
		return "next tuesday"
	case "rfc850":
		return tm.Format("Monday, 02-Jan-06 15:04:05") + " GMT"
	case "asctime":
		return tm.Format(time.ANSIC)
	}
	return ""
}

func c16WKCheck(ctx *vfCtx, c c16WKCase) {
	w := c.WK
	ccClass := "absent"
	w.CC, ccClass = c16CCHeader(c.CCKind, c.MaxAge)
	w.Expires = c16ExpHeader(c.ExpKind, c.ExpUnix)
	honoured, why := c16WKHonoured(w)
	body, _ := c16WKBody(w)

	c16WKClasses(ctx, w)
	ctx.Class("wk-verdict:" + why)
	if w.Mode == "reply" && w.Status == 200 {
		ctx.NonTrivial()
	}
	if honoured {
		ctx.Class("cache:cc-" + ccClass + "/" + c.CCKind + ",expires-" + c.ExpKind)
	}

	end := c16Begin(map[string]c16WKSpec{strings.ToLower(c.Name): w}, nil, nil)
	defer end()
	var res *WellKnownResult
	var err error
	t0 := time.Now().Unix()
	if vfCatch(ctx, "C16/wellknown", func() {
		res, err = LookupWellKnown(context.Background(), spec.ServerName(c.Name))
	}) {
		return
	}
	t1 := time.Now().Unix()
	httpLog, _ := c16Logs()

	if len(httpLog) != 1 || httpLog[0].Method != "GET" || httpLog[0].Scheme != "https" || httpLog[0].URLHost != c.Name || httpLog[0].Path != "/.well-known/matrix/server" {
		ctx.Fail("C16/wellknown/request-shape", "LookupWellKnown(%q) made the requests %+v, want one GET https://%s/.well-known/matrix/server", c.Name, httpLog, c.Name)
		return
	}

	if err != nil || res == nil {
		ctx.Class("outcome:refused")
		if honoured {
			ctx.Fail("C16/wellknown/refused/valid-reply", "LookupWellKnown(%q) refuses a reply with status 200, %d bytes, m.server=%q: %v", c.Name, len(body), w.Delegate, err)
		}
		return
	}
	ctx.Class("outcome:honoured")
	if !honoured {
		sig := "C16/wellknown/honoured/" + why
		if why == "oversize" {
			if w.NoCL {
				sig += "/no-content-length"
			} else {
				sig += "/content-length"
			}
			sig += "/pad-" + w.Pad
		}
		ctx.Fail(sig, "LookupWellKnown(%q) honours a reply it must not (%s): status %d, %d bytes, content-length header %v, doc %s, m.server=%q -> %+v",
			c.Name, why, w.Status, len(body), !w.NoCL, w.Doc, w.Delegate, *res)
		return
	}
	if string(res.NewAddress) != w.Delegate {
		ctx.Fail("C16/wellknown/wrong-delegate", "LookupWellKnown(%q) returns m.server %q, the reply says %q", c.Name, res.NewAddress, w.Delegate)
		return
	}

	// cache lifetime: max-age in preference to Expires
	got := res.CacheExpiresAt
	expiresWant, expiresJudged := int64(0), true
	switch c.ExpKind {
	case "imf":
		expiresWant = c.ExpUnix
	case "rfc850", "asctime":
		expiresJudged = false // obsolete HTTP-date formats: the statement does not say
	}
	const margin = 2
	switch ccClass {
	case "valid":
		lo, hi := t0+c.MaxAge-margin, t1+c.MaxAge+margin
		if got < lo || got > hi {
			sig := "C16/wellknown/cache/max-age-not-used"
			if c.ExpKind == "imf" && got == c.ExpUnix {
				sig = "C16/wellknown/cache/expires-preferred-to-max-age"
			}
			ctx.Fail(sig, "LookupWellKnown(%q): Cache-Control %q, Expires %q -> CacheExpiresAt %d, want now+%d = %d..%d", c.Name, w.CC, w.Expires, got, c.MaxAge, lo, hi)
		}
	case "absent":
		if !expiresJudged {
			ctx.Unjudged("Expires in an obsolete HTTP-date format")
			return
		}
		if got != expiresWant {
			ctx.Fail("C16/wellknown/cache/expires-"+c.ExpKind, "LookupWellKnown(%q): Cache-Control %q (no usable max-age), Expires %q -> CacheExpiresAt %d, want %d", c.Name, w.CC, w.Expires, got, expiresWant)
		}
	default:
		ctx.Unjudged("Cache-Control shape outside the statement: " + c.CCKind)
	}
}

func init() {
	vfRapid("C16/resolve", c16ResolveRule, 6000, 400000, 8, c16ResolveGen, c16ResolveCheck)
	vfRapid("C16/wellknown", c16WKRule, 6000, 400000, 8, c16WKGen, c16WKCheck)
}
