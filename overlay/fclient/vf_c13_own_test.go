//go:build verif

package fclient

// C13/own-transport — requests as the library's OWN federation client puts them on the wire (no injected
// transport: NewFederationClient, its destination round tripper, TLS to a loopback listener whose
// address is the destination name, so no DNS and no well-known lookup). The receiving side runs
// VerifyHTTPRequest with a verifier that knows the sender's key. A request the client built, signed
// and sent itself is accepted there, and the URI reported is the one that was signed - also when the
// path carries identifiers with characters that are escaped (room-version-3 event IDs with '/' and '+',
// user IDs with '/').

import (
	"context"
	"crypto/ed25519"
	"fmt"
	"net/http"
	"net/http/httptest"
	"net/url"
	"strings"
	"sync"
	"time"

	"github.com/matrix-org/gomatrixserverlib/spec"
	"pgregory.net/rapid"
)

type c13OwnCase struct {
	Call string `json:"call"` // event | event-auth | devices
	ID   string `json:"id"`   // the event ID / user ID put into the path
	Room string `json:"room"`
}

var c13OwnIDs = []string{"$abcdefghijklmnopqrstuvwxyzABCDEFGHIJKLMNOPQ", "$ab/defghijklmnopqrstuvwxyzABCDEFGHIJKLMNOPQ", "$a+c/efghijklmnopqrstuvwxyzABCDEFGHIJKLMN//Q",
	"$plain:remote.example", "$with/slash:remote.example", "$q?x=1:remote.example", "$sp ace:remote.example", "$per%2Fcent:remote.example", "$ünï:remote.example"}
var c13OwnUsers = []string{"@alice:remote.example", "@al/ice:remote.example", "@a+b=c:remote.example", "@a%2Fb:remote.example", "@a?b:remote.example"}

func c13OwnGen(t *rapid.T) c13OwnCase {
	c := c13OwnCase{Call: rapid.SampledFrom([]string{"event", "event-auth", "devices"}).Draw(t, "call"),
		Room: rapid.SampledFrom([]string{"!room:remote.example", "!ro/om:remote.example", "!AbCdEfGhIjKlMnOpQrStUvWxYz0123456789-_AbCdE"}).Draw(t, "room")}
	if c.Call == "devices" {
		c.ID = rapid.SampledFrom(c13OwnUsers).Draw(t, "user")
	} else {
		c.ID = rapid.SampledFrom(c13OwnIDs).Draw(t, "id")
	}
	return c
}

func c13OwnCheck(ctx *vfCtx, c c13OwnCase) {
	const origin, keyID = "origin.example", "ed25519:own"
	priv := c13Key(origin, keyID)
	pub := priv.Public().(ed25519.PublicKey)
	table := c13Table{}
	table.put(origin, keyID, c13KeyEntry{Pub: pub, ValidUntil: 1 << 52})
	var mu sync.Mutex
	var seen []string
	var status []int
	var dest spec.ServerName
	srv, lerr := c13OwnListen(http.HandlerFunc(func(rw http.ResponseWriter, req *http.Request) {
		got, resp := VerifyHTTPRequest(req, time.Now(), dest, nil, &c13Verifier{keys: table})
		mu.Lock()
		status = append(status, resp.Code)
		if got != nil {
			seen = append(seen, got.RequestURI())
		} else {
			seen = append(seen, "")
		}
		mu.Unlock()
		rw.Header().Set("Content-Type", "application/json")
		_, _ = rw.Write([]byte(`{}`))
	}))
	if lerr != nil {
		ctx.Unjudged("no listener on the loopback interface: " + lerr.Error())
		return
	}
	srv.Config.ErrorLog = nil
	srv.StartTLS()
	defer srv.Close()
	dest = spec.ServerName(srv.Listener.Addr().String())
	fc := NewFederationClient([]*SigningIdentity{{ServerName: origin, KeyID: keyID, PrivateKey: priv}}, WithSkipVerify(true), WithKeepAlives(false), WithTimeout(5*time.Second))
	bg, cancel := context.WithTimeout(context.Background(), 10*time.Second)
	defer cancel()
	var want string
	var cerr error
	if vfCatch(ctx, "C13/own-transport", func() {
		switch c.Call {
		case "event":
			want = "/_matrix/federation/v1/event/" + url.PathEscape(c.ID)
			_, cerr = fc.GetEvent(bg, origin, dest, c.ID)
		case "event-auth":
			want = "/_matrix/federation/v1/event_auth/" + url.PathEscape(c.Room) + "/" + url.PathEscape(c.ID)
			_, cerr = fc.GetEventAuth(bg, origin, dest, "10", c.Room, c.ID)
		default:
			want = "/_matrix/federation/v1/user/devices/" + url.PathEscape(c.ID)
			_, cerr = fc.GetUserDevices(bg, origin, dest, c.ID)
		}
	}) {
		return
	}
	ctx.Class("call/" + c.Call)
	mu.Lock()
	defer mu.Unlock()
	if len(status) == 0 {
		ctx.Unjudged(fmt.Sprintf("the request never reached the loopback listener: %v", cerr))
		return
	}
	ctx.NonTrivial()
	if strings.ContainsAny(c.ID+c.Room, "/+?% ") {
		ctx.Class("path-with-escaped-characters")
	}
	if status[0] != 200 {
		ctx.Fail("C13/own-transport/own-request-refused", "a %s request the library's own client built, signed and sent for %q is refused by VerifyHTTPRequest at the destination with %d (signed URI %s)", c.Call, c.ID, status[0], want)
		return
	}
	if seen[0] != want {
		ctx.Fail("C13/own-transport/uri-differs", "the destination accepted the request but reports URI %q; the client signed %q", seen[0], want)
	}
}

// c13OwnListen opens a listener on the loopback interface (httptest panics where there is none: that is the
// environment's matter, not the library's)
func c13OwnListen(h http.Handler) (srv *httptest.Server, err error) {
	defer func() {
		if r := recover(); r != nil {
			err = fmt.Errorf("%v", r)
		}
	}()
	return httptest.NewUnstartedServer(h), nil
}

func init() {
	vfRapid("C13/own-transport", "every case: one GET built, signed and sent by the library's own federation client (its own round tripper, TLS on the loopback interface) and verified at the destination; distinct = distinct Case JSON", 40, 600, 2, c13OwnGen, c13OwnCheck)
}
