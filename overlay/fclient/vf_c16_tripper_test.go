//go:build verif

package fclient

// C16/tripper — the federation round tripper end to end, without ever opening a connection.
//
// A destinationTripper is built the way NewClient builds it (newDestinationTripper, optionally with a
// DNSCache from NewDNSCache), names are answered by the in-process DNS / well-known stand-ins, and the
// control function of the library's own dialer(s) is wrapped: the wrapper records (network, address,
// the library's verdict) and then always refuses, so no packet leaves the process and every target and
// every address of every target is tried. Judged:
//   * every dial the library's control lets through goes to an address the lists permit,
//     "by whatever name it was reached" (server name -> well-known -> SRV -> A/AAAA),
//   * the set of dialled addresses is the one the specification's resolution table yields,
//   * the TLS server name of the transports used and the Host header put on the request,
//   * every /.well-known fetch (which the library sends through http.DefaultTransport) goes to a
//     host with at least one permitted address when lists are configured.

import (
	"bufio"
	"context"
	"errors"
	"fmt"
	"io"
	"net"
	"net/http"
	"net/netip"
	"sort"
	"strings"
	"sync"
	"syscall"
	"time"

	"pgregory.net/rapid"
)

type c16HostAddrs struct {
	Host string   `json:"host"`
	IPs  []string `json:"ips"`
}

type c16TripCase struct {
	Name     string         `json:"name"`
	WK       c16WKSpec      `json:"wk"`
	SRVOrig  c16SRVSpec     `json:"srv_orig"`
	SRVDeleg c16SRVSpec     `json:"srv_deleg"`
	Addrs    []c16HostAddrs `json:"addrs"`
	Allow    []string       `json:"allow"`
	Deny     []string       `json:"deny"`
	DNSCache bool           `json:"dns_cache"`
	// CacheNoLists: the DNS cache handed to the client was itself built WITHOUT lists (the client's
	// own lists still apply to every connection it makes)
	CacheNoLists bool `json:"cache_no_lists,omitempty"`
	NoLookup     bool `json:"no_lookup"` // wellKnownSRV = false
}

const c16TripRule = "lists are configured and at least one dial attempt reaches the library's control function"

var c16TripAllow = [][]string{nil, {"0.0.0.0/0"}, {"0.0.0.0/0", "::/0"}, {"0.0.0.0/0", "::/0"}, {"10.0.0.0/8"}, {"10.0.0.0/8", "2001:db8::/32"}, {"garbage", "0.0.0.0/0", "::/0"}}
var c16TripDeny = [][]string{nil, nil, {"10.0.0.0/8"}, {"10.1.0.0/16", "fc00::/7"}, {"127.0.0.0/8", "::1/128", "10.0.0.0/8", "192.168.0.0/16", "fc00::/7"},
	{"10.0.0.0", "10.1.0.0/16", "2001:db8:1::/48"}, {"10.1.0.0/16", "", "127.0.0.0/8"}, {"0.0.0.0/0", "::/0"}, {"2001:db8:1::/48"}}
var c16TripIPs = []string{"10.0.0.1", "10.1.2.3", "10.1.255.255", "127.0.0.1", "127.0.0.53", "192.168.1.10", "8.8.8.8", "2001:db8::1", "2001:db8:1::5", "::1", "fc00::1"}
var c16TripSRVTargets = []string{"srv1.example.net", "srv2.example.net", "matrix.otherexample.com", "host.test", "a.b1.org", "SRV.Example.NET"}

func c16GenValidName(t *rapid.T, label string) string {
	k := rapid.IntRange(0, 99).Draw(t, label)
	port := func() string {
		return ":" + rapid.SampledFrom([]string{"8448", "443", "4242", "1", "65535"}).Draw(t, "port")
	}
	switch {
	case k < 60:
		return strings.TrimSuffix(c16GenHost(t), ".")
	case k < 72:
		return strings.TrimSuffix(c16GenHost(t), ".") + port()
	case k < 80:
		return rapid.SampledFrom([]string{"10.0.0.1", "10.1.2.3", "127.0.0.1", "8.8.8.8", "192.168.1.10"}).Draw(t, "v4")
	case k < 86:
		return rapid.SampledFrom([]string{"10.0.0.1", "10.1.2.3", "127.0.0.1", "8.8.8.8"}).Draw(t, "v4") + port()
	case k < 94:
		return "[" + rapid.SampledFrom([]string{"::1", "2001:db8::1", "2001:db8:1::5", "fc00::1"}).Draw(t, "v6") + "]"
	default:
		return "[" + rapid.SampledFrom([]string{"::1", "2001:db8::1", "2001:db8:1::5", "fc00::1"}).Draw(t, "v6") + "]" + port()
	}
}

func c16GenIPs(t *rapid.T) []string {
	n := rapid.SampledFrom([]int{0, 1, 1, 2, 2, 3}).Draw(t, "nip")
	var out []string
	for i := 0; i < n; i++ {
		ip := rapid.SampledFrom(c16TripIPs).Draw(t, "ip")
		dup := false
		for _, o := range out {
			dup = dup || o == ip
		}
		if !dup {
			out = append(out, ip)
		}
	}
	return out
}

func c16TripGen(t *rapid.T) c16TripCase {
	c := c16TripCase{Name: c16GenValidName(t, "nameKind")}
	// well-known: mostly honoured, delegate valid
	switch k := rapid.IntRange(0, 9).Draw(t, "wk"); {
	case k < 2:
		c.WK = c16WKSpec{Mode: "neterr"}
	case k < 4:
		c.WK = c16WKSpec{Mode: "reply", Status: rapid.SampledFrom([]int{404, 500, 204}).Draw(t, "status"), Doc: "ok", Delegate: "matrix.example.com"}
	case k < 5:
		c.WK = c16WKSpec{Mode: "reply", Status: 200, Doc: rapid.SampledFrom(c16BadDocs).Draw(t, "doc")}
	default:
		c.WK = c16WKSpec{Mode: "reply", Status: 200, Doc: "ok", Delegate: c16GenValidName(t, "delegateKind"), NoCL: rapid.Bool().Draw(t, "noCL")}
	}
	c.SRVOrig, c.SRVDeleg = c16GenSRV(t, "orig"), c16GenSRV(t, "deleg")
	hosts := map[string]bool{}
	add := func(h string) {
		if h == "" || hosts[c16FQDN(h)] {
			return
		}
		hosts[c16FQDN(h)] = true
		c.Addrs = append(c.Addrs, c16HostAddrs{Host: h, IPs: c16GenIPs(t)})
	}
	if n := c16ParseName(c.Name); n.Valid && n.Kind == "dns" {
		add(n.Host)
	}
	if d := c16ParseName(c.WK.Delegate); d.Valid && d.Kind == "dns" {
		add(d.Host)
	}
	for _, h := range c16TripSRVTargets {
		add(h)
	}
	c.Allow = rapid.SampledFrom(c16TripAllow).Draw(t, "allow")
	c.Deny = rapid.SampledFrom(c16TripDeny).Draw(t, "deny")
	c.DNSCache = rapid.IntRange(0, 3).Draw(t, "dnsCache") == 0
	c.CacheNoLists = c.DNSCache && rapid.IntRange(0, 2).Draw(t, "cacheNoLists") == 0
	c.NoLookup = rapid.IntRange(0, 9).Draw(t, "noLookup") == 0
	return c
}

type c16Dial struct {
	Network, Address string
	HadControl       bool
	Allowed          bool
	Via              string
}

var c16ErrNoConnect = errors.New("c16: observation only, no connection is made")

func c16SplitDest(dest string) (host, port string) {
	if strings.HasPrefix(dest, "[") {
		if i := strings.IndexByte(dest, ']'); i > 0 {
			host = dest[1:i]
			if strings.HasPrefix(dest[i+1:], ":") {
				port = dest[i+2:]
			}
			return
		}
	}
	if i := strings.LastIndexByte(dest, ':'); i >= 0 {
		return dest[:i], dest[i+1:]
	}
	return dest, ""
}

func c16TripCheck(ctx *vfCtx, c c16TripCase) {
	n := c16ParseName(c.Name)
	if !n.Valid || n.Dubious != "" {
		ctx.Class("skipped:name-not-plainly-valid")
		return
	}
	d := c16ParseName(c.WK.Delegate)
	srvD := c.SRVDeleg
	if strings.EqualFold(strings.TrimSuffix(c.WK.Delegate, "."), strings.TrimSuffix(c.Name, ".")) {
		srvD = c.SRVOrig
	}
	pol := c16NewPolicy(c.Allow, c.Deny)
	configured := len(c.Allow)+len(c.Deny) > 0

	addrs := map[string][]string{}
	for _, h := range c.Addrs {
		if c16RegularHost(h.Host) {
			addrs[c16FQDN(h.Host)] = h.IPs
		}
	}
	ipsOf := func(host string) []netip.Addr {
		if a, err := netip.ParseAddr(host); err == nil {
			return []netip.Addr{a}
		}
		var out []netip.Addr
		for _, s := range addrs[c16FQDN(host)] {
			if a, err := netip.ParseAddr(s); err == nil {
				out = append(out, a)
			}
		}
		return out
	}
	wk := map[string]c16WKSpec{strings.ToLower(c.Name): c.WK}
	srv := map[string]c16SRVAns{}
	if n.Kind == "dns" {
		c16SRVMap(srv, n.Host, c.SRVOrig)
	}
	if d.Valid && d.Kind == "dns" && !strings.EqualFold(c16FQDN(d.Host), c16FQDN(n.Host)) {
		c16SRVMap(srv, d.Host, srvD)
	}

	switch {
	case !configured:
		ctx.Class("lists:none")
	case pol.DenyBad+pol.AllowBad > 0:
		ctx.Class("lists:with-unparsable-entry")
	default:
		ctx.Class("lists:configured")
	}
	ctx.Class(fmt.Sprintf("dnscache=%v,lookups=%v", c.DNSCache, !c.NoLookup))

	end := c16Begin(wk, srv, addrs)
	defer end()

	var mu sync.Mutex
	var dials []c16Dial
	wrap := func(via string, cc func(context.Context, string, string, syscall.RawConn) error, c0 func(string, string, syscall.RawConn) error) func(context.Context, string, string, syscall.RawConn) error {
		return func(cx context.Context, network, address string, rc syscall.RawConn) error {
			dl := c16Dial{Network: network, Address: address, Via: via}
			switch {
			case cc != nil:
				dl.HadControl, dl.Allowed = true, cc(cx, network, address, rc) == nil
			case c0 != nil:
				dl.HadControl, dl.Allowed = true, c0(network, address, rc) == nil
			default:
				dl.Allowed = true
			}
			mu.Lock()
			dials = append(dials, dl)
			mu.Unlock()
			return c16ErrNoConnect
		}
	}

	var tr *destinationTripper
	var req *http.Request
	var rtErr error
	if vfCatch(ctx, "C16/tripper", func() {
		var cache *DNSCache
		if c.DNSCache {
			cache = NewDNSCache(8, time.Minute, c.Allow, c.Deny)
			if c.CacheNoLists {
				cache = NewDNSCache(8, time.Minute, nil, nil)
			}
			cache.dialer.ControlContext = wrap("dnscache", cache.dialer.ControlContext, cache.dialer.Control)
			cache.dialer.Control = nil
		}
		tr = newDestinationTripper(true, cache, false, !c.NoLookup, c.Allow, c.Deny)
		tr.dialer.ControlContext = wrap("tripper", tr.dialer.ControlContext, tr.dialer.Control)
		tr.dialer.Control = nil
		var err error
		req, err = http.NewRequest("GET", "matrix://"+c.Name+"/_matrix/federation/v1/version", nil)
		if err != nil {
			rtErr = err
			req = nil
			return
		}
		resp, err := tr.RoundTrip(req)
		if resp != nil {
			_ = resp.Body.Close()
		}
		rtErr = err
	}) {
		return
	}
	if req == nil {
		ctx.Class("skipped:request-not-constructible")
		return
	}
	if rtErr == nil {
		ctx.Fail("C16/tripper/harness/connected", "RoundTrip(%q) succeeded although every dial is refused by the harness", c.Name)
		return
	}
	httpLog, _ := c16Logs()
	mu.Lock()
	seen := append([]c16Dial(nil), dials...)
	mu.Unlock()

	// (1) policy: by whatever name the address was reached
	for _, dl := range seen {
		ap, err := netip.ParseAddrPort(dl.Address)
		if err != nil {
			ctx.Fail("C16/tripper/harness/address", "unexpected dial address %q", dl.Address)
			return
		}
		if dl.Allowed {
			ctx.Class("dial:let-through")
		} else {
			ctx.Class("dial:refused-by-library")
		}
		if !configured {
			continue
		}
		ctx.NonTrivial()
		if !dl.Allowed {
			continue
		}
		if !dl.HadControl {
			ctx.Fail("C16/tripper/dial-without-control", "lists %q / %q are configured but the %s dialer reaches %s %s without a control function", c.Allow, c.Deny, dl.Via, dl.Network, dl.Address)
			return
		}
		ok, amb := pol.permits(ap.Addr())
		if amb || ok {
			continue
		}
		sig := "C16/tripper/dial-outside-policy"
		if c16DenyOnlyAfterBad(c.Deny, ap.Addr()) {
			sig += "/unparsable-entry-earlier-in-deny-list"
		}
		ctx.Fail(sig, "server name %q: the %s dialer lets %s %s through, which allow=%q deny=%q do not permit", c.Name, dl.Via, dl.Network, dl.Address, c.Allow, c.Deny)
		break
	}

	// (5) the well-known fetch is a connection too
	if configured {
		for _, r := range httpLog {
			host, _ := c16SplitDest(r.URLHost)
			ips := ipsOf(host)
			if len(ips) == 0 {
				continue
			}
			any := false
			for _, ip := range ips {
				ok, amb := pol.permits(ip)
				any = any || ok || amb
			}
			if !any {
				ctx.Fail("C16/tripper/well-known-fetch-outside-policy", "server name %q with allow=%q deny=%q: https://%s/.well-known/matrix/server is fetched through http.DefaultTransport (no control function) although every address of %s (%v) is outside the policy", c.Name, c.Allow, c.Deny, r.URLHost, host, ips)
				break
			}
		}
	}

	if c.NoLookup {
		ctx.Class("resolution:disabled")
		return
	}

	// (2) the dialled addresses are those of the specification's targets
	exp := c16Resolve(c.Name, c.WK, c.SRVOrig, srvD)
	ctx.Class("step:" + exp.Step)
	if exp.OrErr {
		ctx.Unjudged("invalid delegated name")
		return
	}
	got := map[string]bool{}
	for _, dl := range seen {
		got[dl.Address] = true
	}
	type want struct {
		must, may map[string]bool
		host, sni string
		first     []string // destinations of the first SRV priority group (or the only target)
	}
	build := func(alt []c16Target, extra map[string]bool) want {
		w := want{must: map[string]bool{}, may: map[string]bool{}}
		for k := range extra {
			w.may[k] = true
		}
		for _, tg := range alt {
			w.host, w.sni = tg.Host, tg.SNI
			if tg.Prio == alt[0].Prio {
				w.first = append(w.first, tg.Dest)
			}
			h, p := c16SplitDest(tg.Dest)
			for _, ip := range ipsOf(strings.TrimSuffix(h, ".")) {
				a := netip.AddrPortFrom(ip, 0).Addr()
				key := c16AddrText(a, p)
				if pn, err := netip.ParseAddrPort(key); err == nil {
					key = pn.String()
				}
				w.may[key] = true
				if c.DNSCache && ip.Is6() {
					continue // DNSCache joins "ip:port" without brackets: IPv6 never reaches the dialer
				}
				w.must[key] = true
			}
		}
		return w
	}
	var wants []want
	for _, alt := range exp.Alts {
		wants = append(wants, build(alt, nil))
	}
	wants0 := wants // the expectation with the well-known fetch served by http.DefaultTransport
	if len(httpLog) == 0 && exp.WKReq > 0 {
		// the well-known fetch did not go through http.DefaultTransport: then it went through the
		// observed dialer (port 443 of the server name), was refused like every dial, and resolution
		// continues as after a transport error
		alt := c16Resolve(c.Name, c16WKSpec{Mode: "neterr"}, c.SRVOrig, srvD)
		extra := map[string]bool{}
		for _, ip := range ipsOf(n.Inner) {
			extra[netip.AddrPortFrom(ip, 443).String()] = true
		}
		wants = nil
		for _, a := range alt.Alts {
			wants = append(wants, build(a, extra))
		}
		ctx.Class("note:well-known-not-via-default-transport")
	}
	normGot := map[string]bool{}
	for k := range got {
		if ap, err := netip.ParseAddrPort(k); err == nil {
			normGot[ap.String()] = true
		}
	}
	keys := func(m map[string]bool) []string {
		var ks []string
		for k := range m {
			ks = append(ks, k)
		}
		sort.Strings(ks)
		return ks
	}
	var matched *want
	for i := range wants {
		w := wants[i]
		ok := true
		for k := range normGot {
			ok = ok && w.may[k]
		}
		for k := range w.must {
			ok = ok && normGot[k]
		}
		if ok {
			matched = &wants[i]
			break
		}
	}
	if matched == nil {
		ctx.Fail("C16/tripper/targets/"+exp.Step, "RoundTrip to %q (wk=%+v srvOrig=%+v srvDeleg=%+v addrs=%v dnscache=%v) dialled %v, want %v (optional %v)", c.Name, c.WK, c.SRVOrig, srvD, c.Addrs, c.DNSCache, keys(normGot), keys(wants[0].must), keys(wants[0].may))
		return
	}
	if len(normGot) == 0 {
		ctx.Class("dial:none")
	}

	// (3) TLS server name of the transports that were used
	tr.transportsMutex.Lock()
	var snis []string
	bad := ""
	for k, t := range tr.transports {
		snis = append(snis, k)
		if t.Transport == nil || t.TLSClientConfig == nil || t.TLSClientConfig.ServerName != k {
			bad = k
		}
	}
	tr.transportsMutex.Unlock()
	sort.Strings(snis)
	if bad != "" {
		ctx.Fail("C16/tripper/sni/transport-config", "transport registered for TLS server name %q is configured for another name", bad)
		return
	}
	if len(snis) != 1 || snis[0] != matched.sni {
		ctx.Fail("C16/tripper/sni/"+exp.Step, "RoundTrip to %q (wk=%+v): TLS server names used %q, want [%q]", c.Name, c.WK, snis, matched.sni)
		return
	}
	// (4) Host header and first destination on the wire: a second round trip whose transport for
	// the expected TLS server name talks to an in-memory HTTP/1.1 peer (every other dial refused).
	var wire c16Wire
	var rt2Err error
	status := 0
	if vfCatch(ctx, "C16/tripper", func() {
		tr2 := newDestinationTripper(true, nil, false, true, nil, nil)
		tr2.dialer.ControlContext = func(context.Context, string, string, syscall.RawConn) error { return c16ErrNoConnect }
		tr2.dialer.Control = nil
		tr2.transportsMutex.Lock()
		for _, w := range wants0 {
			if len(w.first) > 0 {
				tr2.transports[w.sni] = &destinationTripperTransport{Transport: &http.Transport{DisableKeepAlives: true, DialTLSContext: wire.dial, DialContext: wire.refuse}}
			}
		}
		tr2.transportsMutex.Unlock()
		req2, err := http.NewRequest("GET", "matrix://"+c.Name+"/_matrix/federation/v1/version", nil)
		if err != nil {
			rt2Err = err
			return
		}
		resp, err := tr2.RoundTrip(req2)
		if resp != nil {
			status = resp.StatusCode
			_ = resp.Body.Close()
		}
		rt2Err = err
	}) {
		wire.wg.Wait()
		return
	}
	wire.wg.Wait()
	wire.mu.Lock()
	defer wire.mu.Unlock()
	if rt2Err != nil || status != 200 || len(wire.dests) == 0 || len(wire.hosts) == 0 {
		ctx.Fail("C16/tripper/wire/"+exp.Step, "RoundTrip to %q (wk=%+v) with a reachable peer for TLS server name %q: err=%v status=%d dials=%v", c.Name, c.WK, wants0[0].sni, rt2Err, status, wire.dests)
		return
	}
	ctx.Class("wire:request-seen")
	var firsts []string
	okDest, okHost := false, false
	for _, w := range wants0 {
		for _, d := range w.first {
			firsts = append(firsts, d)
			if c16NormDest(d) == c16NormDest(wire.dests[0]) {
				okDest = true
				okHost = okHost || wire.hosts[0] == w.host
			}
		}
	}
	if !okDest {
		ctx.Fail("C16/tripper/first-destination/"+exp.Step, "RoundTrip to %q (wk=%+v): first connection goes to %q, want one of %q", c.Name, c.WK, wire.dests[0], firsts)
		return
	}
	if !okHost {
		ctx.Fail("C16/tripper/host/"+exp.Step, "RoundTrip to %q (wk=%+v): Host header on the wire %q, want %q", c.Name, c.WK, wire.hosts[0], wants0[0].host)
		return
	}
	if wire.paths[0] != "/_matrix/federation/v1/version" {
		ctx.Fail("C16/tripper/wire/path", "RoundTrip to %q: request path %q", c.Name, wire.paths[0])
	}
}

// c16Wire is the in-memory peer of the second round trip.
type c16Wire struct {
	mu                  sync.Mutex
	wg                  sync.WaitGroup
	dests, hosts, paths []string
}

func (w *c16Wire) refuse(context.Context, string, string) (net.Conn, error) {
	return nil, c16ErrNoConnect
}

func (w *c16Wire) dial(_ context.Context, _ string, addr string) (net.Conn, error) {
	client, server := net.Pipe()
	_ = server.SetDeadline(time.Now().Add(10 * time.Second))
	w.mu.Lock()
	w.dests = append(w.dests, addr)
	w.mu.Unlock()
	w.wg.Add(1)
	go func() {
		defer w.wg.Done()
		defer server.Close()
		r, err := http.ReadRequest(bufio.NewReader(server))
		if err != nil {
			return
		}
		w.mu.Lock()
		w.hosts = append(w.hosts, r.Host)
		w.paths = append(w.paths, r.URL.Path)
		w.mu.Unlock()
		_, _ = io.WriteString(server, "HTTP/1.1 200 OK\r\nContent-Type: application/json\r\nContent-Length: 2\r\nConnection: close\r\n\r\n{}")
	}()
	return client, nil
}

func init() {
	vfRapid("C16/tripper", c16TripRule, 2500, 120000, 8, c16TripGen, c16TripCheck)
}
