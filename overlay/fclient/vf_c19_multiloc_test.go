//go:build verif

package fclient

// C19/multi-location — concurrent round trips to ONE server name whose cached resolution lists
// several locations, the first of which does not answer. The cached location list is shared by
// every caller: a round trip may read it, it must not rewrite it. Real goroutines; the live server's
// handler holds the requests until all of them have arrived (or 300 ms have passed), so that the
// round trips overlap. Verdicts: the race detector's report, every round trip answered by the live
// location, and the cached list unchanged afterwards.

import (
	"encoding/json"
	"fmt"
	"io"
	"net"
	"net/http"
	"net/http/httptest"
	"strconv"
	"sync"
	"sync/atomic"
	"syscall"
	"time"

	"github.com/matrix-org/gomatrixserverlib/spec"
	"pgregory.net/rapid"
)

type c19MultiCase struct {
	Callers int `json:"callers"`
	Dead    int `json:"dead"`  // unreachable locations listed before the live one
	After   int `json:"after"` // further (live) locations listed after it
	Rounds  int `json:"rounds"`
}

func c19MultiGen(t *rapid.T) c19MultiCase {
	return c19MultiCase{
		Callers: rapid.IntRange(2, 8).Draw(t, "callers"),
		Dead:    rapid.IntRange(1, 2).Draw(t, "dead"),
		After:   rapid.IntRange(0, 1).Draw(t, "after"),
		Rounds:  rapid.IntRange(1, 2).Draw(t, "rounds"),
	}
}

func c19MultiRun(out *c19Out, raw []byte) {
	var c c19MultiCase
	if err := json.Unmarshal(raw, &c); err != nil {
		out.Fail("C19/harness/bad-case", "%v", err)
		return
	}
	if c.Callers < 2 || c.Dead < 1 {
		out.Unjudged("multi-location/outside-domain")
		return
	}
	var arrived atomic.Int64
	want := int64(c.Callers)
	srv := httptest.NewUnstartedServer(http.HandlerFunc(func(rw http.ResponseWriter, r *http.Request) {
		arrived.Add(1)
		deadline := time.Now().Add(300 * time.Millisecond)
		for arrived.Load()%want != 0 && time.Now().Before(deadline) {
			time.Sleep(time.Millisecond)
		}
		c19Beat()
		fmt.Fprintf(rw, "ok host=%s", r.Host)
	}))
	srv.Config.ErrorLog = nil
	srv.StartTLS()
	defer srv.Close()
	_, livePort, _ := net.SplitHostPort(srv.Listener.Addr().String())
	var deadPorts []string
	for i := 0; i < c.Dead; i++ {
		fd, err := syscall.Socket(syscall.AF_INET, syscall.SOCK_STREAM, 0)
		if err == nil {
			err = syscall.Bind(fd, &syscall.SockaddrInet4{Port: 0, Addr: [4]byte{127, 0, 0, 1}})
		}
		if err != nil {
			c19HarnessTrouble(out, "no loopback socket: %v", err)
			return
		}
		sa, err := syscall.Getsockname(fd)
		if err != nil {
			c19HarnessTrouble(out, "getsockname: %v", err)
			return
		}
		deadPorts = append(deadPorts, strconv.Itoa(sa.(*syscall.SockaddrInet4).Port))
	}
	const name = "multi.c19.example"
	var locations []ResolutionResult
	for _, p := range deadPorts {
		locations = append(locations, ResolutionResult{Destination: "127.0.0.1:" + p, Host: name, TLSServerName: name})
	}
	for i := 0; i <= c.After; i++ {
		locations = append(locations, ResolutionResult{Destination: "127.0.0.1:" + livePort, Host: name, TLSServerName: name})
	}
	before := append([]ResolutionResult(nil), locations...)
	tr := newDestinationTripper(true, nil, false, true, nil, nil)
	tr.resolutionCache.Store(spec.ServerName(name), locations)
	out.Class(fmt.Sprintf("multi-location/callers=%d,dead=%d", c.Callers, c.Dead))
	out.NonTrivial()

	for round := 0; round < c.Rounds; round++ {
		var wg sync.WaitGroup
		errs := make([]string, c.Callers)
		for g := 0; g < c.Callers; g++ {
			g := g
			wg.Add(1)
			go func() {
				defer wg.Done()
				req, err := http.NewRequest("GET", fmt.Sprintf("matrix://%s/c19/multi/%d", name, g), nil)
				if err != nil {
					errs[g] = "harness: " + err.Error()
					return
				}
				resp, err := tr.RoundTrip(req)
				if err != nil {
					errs[g] = err.Error()
					return
				}
				body, _ := io.ReadAll(resp.Body)
				_ = resp.Body.Close()
				if resp.StatusCode != 200 || len(body) < 2 || string(body[:2]) != "ok" {
					errs[g] = fmt.Sprintf("status %d body %q", resp.StatusCode, body)
				}
			}()
		}
		doneCh := make(chan struct{})
		go func() { wg.Wait(); close(doneCh) }()
		select {
		case <-doneCh:
		case <-time.After(20 * time.Second):
			out.Fail("C19/multi-location/round-trips-hang", "round trips to a name with %d dead and %d live locations did not return within 20 s", c.Dead, c.After+1)
			return
		}
		c19Beat()
		for g, e := range errs {
			if e != "" {
				out.Fail("C19/multi-location/round-trip-failed", "caller %d of %d: the live location is listed after %d unreachable one(s), but the round trip failed: %s", g, c.Callers, c.Dead, e)
				return
			}
		}
	}
	cached, _ := tr.resolutionCache.Load(spec.ServerName(name))
	now, _ := cached.([]ResolutionResult)
	same := len(now) == len(before)
	for i := range before {
		same = same && i < len(now) && now[i] == before[i]
	}
	// (the slice handed to the cache is the harness's own: compare it too)
	for i := range before {
		same = same && locations[i] == before[i]
	}
	if !same {
		out.Fail("C19/multi-location/shared-resolution-results-modified", "the cached location list of %s was %v before the round trips and is %v (cache) / %v (the stored slice) afterwards", name, before, now, locations)
	}
}

func c19MultiCheck(ctx *vfCtx, c c19MultiCase) { c19Check(ctx, "multi-location", c) }

func init() {
	c19Scenarios["multi-location"] = c19MultiRun
	vfRapid("C19/multi-location",
		"every case: 2..8 overlapping round trips to one name whose cached resolution lists 1..2 unreachable locations before the live one",
		24, 600, 8, c19MultiGen, c19MultiCheck)
}
