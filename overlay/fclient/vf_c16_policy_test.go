//go:build verif

package fclient

// C16/policy and C16/policy-table — the allow / deny network control.
//
// Statement: "When allow / deny network lists are configured, a connection is made only to
// tcp4 / tcp6 addresses that lie in no denied range and in at least one allowed range."
//
// Judged on the three in-package places that build the control function:
//   allowDenyNetworksControl(a, d), newDestinationTripperDialer(a, d).ControlContext,
//   NewDNSCache(.., a, d).dialer.ControlContext.
// Soundness (always): control returns nil  =>  network is tcp4/tcp6, the address names an IP, the
// IP is in no parsable denied range and in some parsable allowed range.
// Completeness (only where the statement leaves no doubt: every list entry parses, canonical
// "ip:port" syntax, lists configured): a permitted address is let through.
// Not judged: what an unparsable entry should mean beyond "it must not switch off other entries'
// denials", IPv4-mapped IPv6 addresses whose two readings disagree, zone-qualified addresses.

import (
	"context"
	"fmt"
	"net/netip"
	"strings"
	"time"

	"pgregory.net/rapid"
)

type c16PolicyCase struct {
	Allow   []string `json:"allow"`
	Deny    []string `json:"deny"`
	Network string   `json:"network"`
	Address string   `json:"address"`
}

const c16PolicyRule = "both lists non-empty and the candidate address lies inside at least one listed range"

func c16PolicyCheck(ctx *vfCtx, c c16PolicyCase) {
	pol := c16NewPolicy(c.Allow, c.Deny)
	configured := len(c.Allow)+len(c.Deny) > 0
	netOK := c.Network == "tcp4" || c.Network == "tcp6"
	ip, canonical, isIP := c16LenientIP(c.Address)

	// classes
	switch {
	case !configured:
		ctx.Class("lists:none")
	case len(c.Allow) == 0:
		ctx.Class("lists:deny-only")
	case len(c.Deny) == 0:
		ctx.Class("lists:allow-only")
	default:
		ctx.Class("lists:both")
	}
	if pol.DenyBad > 0 {
		ctx.Class("deny-has-unparsable-entry")
	}
	if pol.AllowBad > 0 {
		ctx.Class("allow-has-unparsable-entry")
	}
	ctx.Class("network:" + c.Network)
	permitted, ambiguous := false, false
	switch {
	case !isIP:
		ctx.Class("address:not-an-ip")
	case !canonical:
		ctx.Class("address:odd-syntax")
	case ip.Is4In6():
		ctx.Class("address:ipv4-mapped")
	case ip.Is4():
		ctx.Class("address:ipv4")
	default:
		ctx.Class("address:ipv6")
	}
	if isIP {
		permitted, ambiguous = pol.permits(ip)
		inDeny := c16InAny(pol.Deny, ip.WithZone("").Unmap())
		inAllow := c16InAny(pol.Allow, ip.WithZone("").Unmap())
		ctx.Class(fmt.Sprintf("membership:deny=%v,allow=%v", inDeny, inAllow))
		if len(c.Allow) > 0 && len(c.Deny) > 0 && pol.inListed(ip) {
			ctx.NonTrivial()
		}
		for _, p := range append(append([]netip.Prefix{}, pol.Allow...), pol.Deny...) {
			u := ip.WithZone("").Unmap()
			if p.Addr().BitLen() != u.BitLen() {
				continue
			}
			if u == p.Addr() {
				ctx.Class("edge:first-address-of-a-range")
			}
			if u == c16LastAddr(p) {
				ctx.Class("edge:last-address-of-a-range")
			}
			if pr := p.Addr().Prev(); pr.IsValid() && u == pr {
				ctx.Class("edge:just-below-a-range")
			}
			if nx := c16LastAddr(p).Next(); nx.IsValid() && u == nx {
				ctx.Class("edge:just-above-a-range")
			}
		}
	}

	// is every denied range that contains ip preceded by an unparsable deny entry?
	denyMatchOnlyAfterBad := isIP && c16DenyOnlyAfterBad(c.Deny, ip)

	judge := func(entry string, err error) {
		allowed := err == nil
		if allowed {
			ctx.Class("verdict:allowed")
			switch {
			case !netOK:
				ctx.Fail("C16/policy/allowed/unsafe-network", "%s lets network %q through (address %q)", entry, c.Network, c.Address)
			case !isIP:
				ctx.Fail("C16/policy/allowed/not-an-ip", "%s lets %q through, which names no IP address", entry, c.Address)
			case ambiguous:
				ctx.Unjudged("IPv4-mapped IPv6 address whose IPv6 and IPv4 readings fall on different sides of the lists")
			case !permitted:
				if c16InAny(pol.Deny, ip.WithZone("").Unmap()) || c16InAny(pol.Deny, ip.WithZone("")) {
					sig := "C16/policy/allowed/in-denied-range"
					if denyMatchOnlyAfterBad {
						sig += "/unparsable-entry-earlier-in-deny-list"
					}
					ctx.Fail(sig, "%s lets %s %q through although it lies in a denied range: allow=%q deny=%q", entry, c.Network, c.Address, c.Allow, c.Deny)
				} else {
					ctx.Fail("C16/policy/allowed/in-no-allowed-range", "%s lets %s %q through although no allowed range contains it: allow=%q deny=%q", entry, c.Network, c.Address, c.Allow, c.Deny)
				}
			}
			return
		}
		ctx.Class("verdict:refused")
		if !(netOK && isIP && permitted && !ambiguous) {
			return
		}
		switch {
		case !canonical || ip.Zone() != "":
			ctx.Unjudged("permitted address in a non-canonical syntax is refused")
		case pol.AllowBad+pol.DenyBad > 0:
			ctx.Unjudged("address permitted by the parsable entries is refused because a list holds an unparsable entry")
		default:
			ctx.Fail("C16/policy/refused/permitted-address", "%s refuses %s %q (%v) although it lies in an allowed and in no denied range: allow=%q deny=%q", entry, c.Network, c.Address, err, c.Allow, c.Deny)
		}
	}

	bg := context.Background()
	vfCatch(ctx, "C16/policy", func() {
		judge("allowDenyNetworksControl", allowDenyNetworksControl(c.Allow, c.Deny)(bg, c.Network, c.Address, nil))
	})
	vfCatch(ctx, "C16/policy", func() {
		d := newDestinationTripperDialer(c.Allow, c.Deny)
		switch {
		case d.ControlContext != nil:
			judge("newDestinationTripperDialer", d.ControlContext(bg, c.Network, c.Address, nil))
		case d.Control != nil:
			judge("newDestinationTripperDialer", d.Control(c.Network, c.Address, nil))
		case configured:
			ctx.Fail("C16/policy/dialer-without-control", "newDestinationTripperDialer(%q, %q) has no control function", c.Allow, c.Deny)
		default:
			ctx.Class("tripper-dialer:unrestricted-when-unconfigured")
		}
	})
	vfCatch(ctx, "C16/policy", func() {
		cache := NewDNSCache(1, time.Second, c.Allow, c.Deny)
		switch {
		case cache.dialer.ControlContext != nil:
			judge("NewDNSCache.dialer", cache.dialer.ControlContext(bg, c.Network, c.Address, nil))
		case cache.dialer.Control != nil:
			judge("NewDNSCache.dialer", cache.dialer.Control(c.Network, c.Address, nil))
		case configured:
			ctx.Fail("C16/policy/dialer-without-control", "NewDNSCache(.., %q, %q).dialer has no control function", c.Allow, c.Deny)
		default:
			ctx.Class("dnscache-dialer:unrestricted-when-unconfigured")
		}
	})
}

// c16DenyOnlyAfterBad: ip lies in a denied range, and every denied range containing it comes after
// an unparsable entry of the deny list (the input class of the "list walk stops at a typo" defect).
func c16DenyOnlyAfterBad(deny []string, ip netip.Addr) bool {
	one := func(a netip.Addr) bool {
		seenBad, matchBeforeBad, matchAfterBad := false, false, false
		for _, s := range deny {
			p, ok := c16ParsePrefix(s)
			switch {
			case !ok:
				seenBad = true
			case p.Contains(a):
				if seenBad {
					matchAfterBad = true
				} else {
					matchBeforeBad = true
				}
			}
		}
		return matchAfterBad && !matchBeforeBad
	}
	// an IPv4-mapped address has two readings; the class holds if it holds under either
	return one(ip.WithZone("").Unmap()) || one(ip.WithZone(""))
}

func c16LastAddr(p netip.Prefix) netip.Addr {
	b := p.Masked().Addr().AsSlice()
	bits := p.Bits()
	for i := range b {
		for j := 0; j < 8; j++ {
			if i*8+j >= bits {
				b[i] |= 1 << (7 - j)
			}
		}
	}
	a, _ := netip.AddrFromSlice(b)
	return a
}

func c16AddrText(a netip.Addr, port string) string {
	if a.Is4() {
		return a.String() + ":" + port
	}
	return "[" + a.String() + "]:" + port
}

// ---------------------------------------------------------------------------------------------
// bounded-exhaustive table

var c16BadEntries = []string{"", "garbage", "10.0.0.0", "10.0.0.0/33", "10.0.0/8", "2001:db8::/129", "/8", "10.0.0.0/", "10.0.0.0/8 ", "10.0.0.0-10.0.0.255"}

type c16ListShape struct{ allow, deny []string }

var c16Shapes = []c16ListShape{
	{[]string{"0.0.0.0/0"}, nil},
	{[]string{"0.0.0.0/0", "::/0"}, []string{"10.0.0.0/8", "127.0.0.0/8", "169.254.0.0/16", "172.16.0.0/12", "192.168.0.0/16", "::1/128", "fc00::/7", "fe80::/10"}},
	{[]string{"10.0.0.0/8"}, []string{"10.1.0.0/16"}},
	{[]string{"10.1.0.0/16"}, []string{"10.0.0.0/8"}},
	{nil, []string{"10.0.0.0/8"}},
	{[]string{"10.0.0.0/8"}, nil},
	{[]string{}, []string{}},
	{[]string{"10.0.0.0/8", "10.1.0.0/16", "192.168.1.0/24"}, []string{"10.1.2.0/24", "10.1.2.128/25"}},
	{[]string{"2001:db8::/32"}, []string{"2001:db8:1::/48"}},
	{[]string{"192.0.2.1/32", "2001:db8::1/128", "192.0.2.8/31"}, []string{"192.0.2.9/32"}},
	{[]string{"0.0.0.0/0", "::/0"}, []string{"0.0.0.0/1", "8000::/1"}},
	{[]string{"0.0.0.0/0"}, []string{"::ffff:10.0.0.0/104"}},
	{[]string{"10.9.8.7/8"}, []string{"10.1.2.3/16"}}, // host bits set: still the enclosing network
	{[]string{"::/0"}, []string{"::ffff:0:0/96"}},
}

var c16FixedCandidates = []string{"8.8.8.8", "127.0.0.1", "0.0.0.0", "255.255.255.255", "10.1.2.3", "10.1.2.200", "10.2.0.1", "192.168.1.77",
	"::", "::1", "2001:db8::1", "2001:db8:1::5", "2001:4860:4860::8888", "fe80::1", "ffff:ffff:ffff:ffff:ffff:ffff:ffff:ffff", "::ffff:10.1.2.3", "::ffff:8.8.8.8"}

var c16Networks = []string{"tcp4", "tcp6", "tcp", "udp", "udp4", "udp6", "ip4", "unix", "", "TCP4"}

func c16WithBad(list []string, pos int, bad string) []string {
	out := make([]string, 0, len(list)+1)
	out = append(out, list[:pos]...)
	out = append(out, bad)
	out = append(out, list[pos:]...)
	return out
}

func c16PolicyEnum(size, shard, nshards int, emit func(c16PolicyCase)) {
	n := 0
	out := func(c c16PolicyCase) {
		if n%nshards == shard {
			emit(c)
		}
		n++
	}
	var shapes []c16ListShape
	shapes = append(shapes, c16Shapes...)
	bads := c16BadEntries[:4]
	if size >= 2 {
		bads = c16BadEntries
	}
	for _, s := range c16Shapes[:12] {
		for _, bad := range bads {
			for pos := 0; pos <= len(s.deny); pos++ {
				shapes = append(shapes, c16ListShape{s.allow, c16WithBad(s.deny, pos, bad)})
			}
			for pos := 0; pos <= len(s.allow); pos++ {
				shapes = append(shapes, c16ListShape{c16WithBad(s.allow, pos, bad), s.deny})
			}
		}
	}
	for _, s := range shapes {
		pol := c16NewPolicy(s.allow, s.deny)
		seen := map[netip.Addr]bool{}
		var cands []netip.Addr
		add := func(a netip.Addr) {
			if a.IsValid() && !seen[a] {
				seen[a] = true
				cands = append(cands, a)
			}
		}
		for _, p := range append(append([]netip.Prefix{}, pol.Allow...), pol.Deny...) {
			first, last := p.Addr(), c16LastAddr(p)
			add(first)
			add(last)
			add(first.Prev())
			add(last.Next())
			add(first.Next())
			if first.Is4() {
				add(netip.AddrFrom16(first.As16())) // the IPv4-mapped form
			}
		}
		for _, f := range c16FixedCandidates {
			add(netip.MustParseAddr(f))
		}
		for _, a := range cands {
			for _, nw := range c16Networks {
				out(c16PolicyCase{Allow: s.allow, Deny: s.deny, Network: nw, Address: c16AddrText(a, "8448")})
			}
			// address syntax
			for _, nw := range []string{"tcp4", "tcp6"} {
				out(c16PolicyCase{Allow: s.allow, Deny: s.deny, Network: nw, Address: a.String()})
				out(c16PolicyCase{Allow: s.allow, Deny: s.deny, Network: nw, Address: a.String() + ":"})
				out(c16PolicyCase{Allow: s.allow, Deny: s.deny, Network: nw, Address: "[" + a.String() + "]:443"})
				if a.Is6() && !a.Is4In6() {
					out(c16PolicyCase{Allow: s.allow, Deny: s.deny, Network: nw, Address: "[" + a.String() + "%eth0]:443"})
				}
			}
		}
		for _, addr := range []string{"", "example.com:443", "localhost:8448", "10.0.0.1.example.com:443", "[example.com]:443", ":443", "10.0.0.256:443", "10.0.0.1/8:443", "010.0.0.1:443", "0x0a.0.0.1:443", "167772161:443"} {
			for _, nw := range []string{"tcp4", "tcp6"} {
				out(c16PolicyCase{Allow: s.allow, Deny: s.deny, Network: nw, Address: addr})
			}
		}
	}
}

// ---------------------------------------------------------------------------------------------
// random lists

var c16V4Bytes = []byte{0, 1, 10, 127, 128, 192, 254, 255}
var c16V6Hextets = []uint16{0, 1, 0xdb8, 0x2001, 0xfc00, 0xfe80, 0xffff, 0x8000}

func c16GenAddr(t *rapid.T, v6 bool) netip.Addr {
	if !v6 {
		var b [4]byte
		for i := range b {
			b[i] = rapid.SampledFrom(c16V4Bytes).Draw(t, "b")
		}
		return netip.AddrFrom4(b)
	}
	var b [16]byte
	for i := 0; i < 8; i++ {
		h := rapid.SampledFrom(c16V6Hextets).Draw(t, "h")
		b[2*i], b[2*i+1] = byte(h>>8), byte(h)
	}
	return netip.AddrFrom16(b)
}

func c16GenPrefix(t *rapid.T) string {
	kind := rapid.IntRange(0, 19).Draw(t, "prefixKind")
	switch {
	case kind == 0:
		a := c16GenAddr(t, false)
		bits := rapid.SampledFrom([]int{96, 104, 120, 128}).Draw(t, "bits")
		return "::ffff:" + a.String() + "/" + fmt.Sprint(bits)
	case kind <= 12:
		a := c16GenAddr(t, false)
		bits := rapid.SampledFrom([]int{0, 1, 7, 8, 9, 15, 16, 24, 25, 30, 31, 32}).Draw(t, "bits")
		if rapid.IntRange(0, 3).Draw(t, "masked") > 0 {
			return netip.PrefixFrom(a, bits).Masked().String()
		}
		return a.String() + "/" + fmt.Sprint(bits)
	default:
		a := c16GenAddr(t, true)
		bits := rapid.SampledFrom([]int{0, 1, 7, 8, 16, 32, 48, 63, 64, 65, 112, 127, 128}).Draw(t, "bits")
		if rapid.IntRange(0, 3).Draw(t, "masked") > 0 {
			return netip.PrefixFrom(a, bits).Masked().String()
		}
		return a.String() + "/" + fmt.Sprint(bits)
	}
}

func c16GenList(t *rapid.T, label string) []string {
	n := rapid.SampledFrom([]int{0, 1, 1, 2, 2, 3, 4}).Draw(t, label+"Len")
	var out []string
	for i := 0; i < n; i++ {
		if rapid.IntRange(0, 9).Draw(t, "bad") == 0 {
			out = append(out, rapid.SampledFrom(c16BadEntries).Draw(t, "badEntry"))
		} else {
			out = append(out, c16GenPrefix(t))
		}
	}
	return out
}

func c16PolicyGen(t *rapid.T) c16PolicyCase {
	c := c16PolicyCase{Allow: c16GenList(t, "allow"), Deny: c16GenList(t, "deny")}
	if len(c.Allow) > 0 && rapid.IntRange(0, 3).Draw(t, "allowAll") == 0 {
		c.Allow[0] = rapid.SampledFrom([]string{"0.0.0.0/0", "::/0"}).Draw(t, "all")
	}
	pol := c16NewPolicy(c.Allow, c.Deny)
	all := append(append([]netip.Prefix{}, pol.Allow...), pol.Deny...)
	var a netip.Addr
	if len(all) > 0 && rapid.IntRange(0, 9).Draw(t, "fromRange") < 7 {
		p := rapid.SampledFrom(all).Draw(t, "range")
		switch rapid.IntRange(0, 5).Draw(t, "where") {
		case 0:
			a = p.Addr()
		case 1:
			a = c16LastAddr(p)
		case 2:
			a = p.Addr().Prev()
		case 3:
			a = c16LastAddr(p).Next()
		default:
			// random address inside the range: random bits below the prefix length
			r := c16GenAddr(t, p.Addr().Is6()).AsSlice()
			b := p.Addr().AsSlice()
			for i := range b {
				for j := 0; j < 8; j++ {
					if i*8+j >= p.Bits() {
						b[i] |= r[i] & (1 << (7 - j))
					}
				}
			}
			a, _ = netip.AddrFromSlice(b)
		}
	}
	if !a.IsValid() {
		a = c16GenAddr(t, rapid.Bool().Draw(t, "v6"))
	}
	if a.Is4() && rapid.IntRange(0, 9).Draw(t, "mapped") == 0 {
		a = netip.AddrFrom16(a.As16())
	}
	port := rapid.SampledFrom([]string{"8448", "443", "1", "65535", "0"}).Draw(t, "port")
	switch rapid.IntRange(0, 19).Draw(t, "syntax") {
	case 0:
		c.Address = a.String()
	case 1:
		c.Address = a.String() + ":"
	case 2:
		c.Address = "[" + a.String() + "]:" + port
	case 3:
		c.Address = rapid.SampledFrom([]string{"example.com:443", "", ":443", "localhost:8448", "10.0.0.256:443"}).Draw(t, "nonIP")
	case 4:
		if a.Is6() && !a.Is4In6() {
			c.Address = "[" + a.String() + "%eth0]:" + port
		} else {
			c.Address = c16AddrText(a, port)
		}
	default:
		c.Address = c16AddrText(a, port)
	}
	c.Network = rapid.SampledFrom([]string{"tcp4", "tcp4", "tcp4", "tcp4", "tcp6", "tcp6", "tcp6", "tcp", "udp4", "udp6", "unix", "ip4", ""}).Draw(t, "network")
	if strings.HasPrefix(c.Network, "tcp") && len(c.Network) == 4 && rapid.IntRange(0, 3).Draw(t, "matchFamily") > 0 {
		if a.Is4() {
			c.Network = "tcp4"
		} else {
			c.Network = "tcp6"
		}
	}
	return c
}

func init() {
	vfEnum("C16/policy-table", c16PolicyRule, 1, 2, 4, c16PolicyEnum, c16PolicyCheck)
	vfRapid("C16/policy", c16PolicyRule, 20000, 1600000, 8, c16PolicyGen, c16PolicyCheck)
}
