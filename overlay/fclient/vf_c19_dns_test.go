//go:build verif

package fclient

// C19/dns — k goroutines look host names up in ONE DNSCache whose resolver is a stub that parks on
// the scheduler (vf_c19_sched_test.go). A case is a program per goroutine plus a schedule.
//
// Oracles (all evaluated in the child, after every step, with the cache read under its own mutex):
//   * no race-detector report, no runtime abort, no reproducible hang (engine);
//   * len(entries) <= size;
//   * an entry returned with cached == true had expires after the instant taken before the call;
//   * every address returned / held for a name was given by the resolver FOR THAT NAME;
//   * a lookup that went to the resolver returns exactly the answer the resolver gave to THAT call,
//     with an expiry in [release + duration, return + duration]; a resolver error gives (nil, false);
//   * linearisability: the critical sections released together in a step (the part of lookup before
//     the resolver call, the part after it, the harness's own ageing of an entry) must be explained
//     by SOME order of these sections run one at a time against a cache specification in which a
//     fresh entry is served, an expired or absent one sends the caller to the resolver, and an insert
//     may evict any entries (the statement bounds the size; WHICH entry goes is not demanded).
//
// Time. With dur_ms == 0 the cache's duration is one hour and entries expire only because the
// harness replaces them (under the cache's mutex) by a copy whose expiry lies an hour in the past —
// the state a real wait would reach, without a timing-dependent verdict. With dur_ms > 0 the
// duration is real and "sleep" operations wait longer than it; whether an entry was fresh when a
// section looked at it is then decided from the interval [release, quiescence] in which the section
// read the clock, and both outcomes are accepted when the expiry falls inside that interval.

import (
	"context"
	"encoding/json"
	"errors"
	"fmt"
	"net"
	"sort"
	"strings"
	"time"

	"pgregory.net/rapid"
)

type c19DNSOp struct {
	Kind string `json:"kind"` // lookup | age | sleep
	Host int    `json:"host"`
	// Ended: the lookup is made by a caller whose context has already ended (a dial that was given up);
	// the stub resolver answers all the same, so the lookup means what any other lookup means
	Ended bool `json:"ended,omitempty"`
}

type c19DNSCase struct {
	Size  int          `json:"size"`
	DurMs int          `json:"dur_ms"`
	NHost int          `json:"nhost"`
	Progs [][]c19DNSOp `json:"progs"`
	Resp  [][]int      `json:"resp"` // per host, successive resolver outcomes: -1 error, 0 empty answer, j > 0 answer j
	Sched []c19Step    `json:"sched"`
}

func c19DNSGen(t *rapid.T) c19DNSCase {
	c := c19DNSCase{Size: rapid.IntRange(1, 3).Draw(t, "size")}
	if rapid.IntRange(0, 4).Draw(t, "realtime") == 0 {
		c.DurMs = rapid.IntRange(20, 60).Draw(t, "dur")
	}
	c.NHost = rapid.IntRange(1, 4).Draw(t, "nhost")
	k := rapid.SampledFrom([]int{2, 2, 3, 3, 3, 4, 4, 5, 6}).Draw(t, "k")
	for g := 0; g < k; g++ {
		n := rapid.IntRange(1, 4).Draw(t, "nops")
		var prog []c19DNSOp
		for i := 0; i < n; i++ {
			kind := "lookup"
			if r := rapid.IntRange(0, 9).Draw(t, "opkind"); r < 2 {
				kind = "age"
				if c.DurMs > 0 && r == 0 {
					kind = "sleep"
				}
			}
			op := c19DNSOp{Kind: kind, Host: rapid.IntRange(0, c.NHost-1).Draw(t, "host")}
			if kind == "lookup" && rapid.IntRange(0, 4).Draw(t, "ended") == 0 {
				op.Ended = true
			}
			prog = append(prog, op)
		}
		c.Progs = append(c.Progs, prog)
	}
	for h := 0; h < c.NHost; h++ {
		n := rapid.IntRange(1, 3).Draw(t, "nresp")
		var rs []int
		for i := 0; i < n; i++ {
			rs = append(rs, rapid.SampledFrom([]int{1, 1, 1, 2, 2, 3, 0, -1}).Draw(t, "resp"))
		}
		c.Resp = append(c.Resp, rs)
	}
	c.Sched = c19GenSched(t, 24)
	return c
}

func c19HostName(h int) string { return fmt.Sprintf("h%d.c19.example", h) }

func c19DNSAnswer(h, j int) []net.IPAddr {
	if j <= 0 {
		return []net.IPAddr{}
	}
	out := []net.IPAddr{{IP: net.IPv4(10, byte(h+1), byte(j), 1)}}
	if j%2 == 0 {
		out = append(out, net.IPAddr{IP: net.IPv4(10, byte(h+1), byte(j), 2)})
	}
	return out
}

func c19AddrString(a []net.IPAddr) string {
	var parts []string
	for _, x := range a {
		parts = append(parts, x.String())
	}
	return "[" + strings.Join(parts, " ") + "]"
}

type c19ResolverResp struct {
	addrs []net.IPAddr
	err   error
}

type c19Resolver struct{ s *c19Sched }

func (r *c19Resolver) LookupIPAddr(ctx context.Context, name string) ([]net.IPAddr, error) {
	gid := c19Gid(ctx)
	v := r.s.park(gid, "resolver", fmt.Sprintf("g%02d/resolver/%s", gid, name), name).(c19ResolverResp)
	return v.addrs, v.err
}

// what a goroutine reports about an operation it has finished
type c19DNSRes struct {
	op       c19DNSOp
	entry    *dnsCacheEntry
	cached   bool
	t0       time.Time
	agedFrom *dnsCacheEntry // age: what was in the cache / what replaced it
	agedTo   *dnsCacheEntry
}

// one critical section released in a step, with what was observed of it
type c19DNSSec struct {
	g    int
	kind byte // 'A' lookup up to the resolver call or a cache hit, 'B' lookup after a resolver answer, 'E' after a resolver error, 'G' age, 'S' sleep
	host string
	resp c19ResolverResp
	// observations
	miss bool // 'A': the goroutine arrived at the resolver
	res  *c19DNSRes
}

type c19DNSWorld struct {
	c     c19DNSCase
	out   *c19Out
	cache *DNSCache
	dur   time.Duration
	// model
	m       map[string]*dnsCacheEntry
	answers map[string]map[string]bool // host -> address lists the resolver ever gave for it
	calls   map[int]int                // host index -> resolver calls answered
}

func (w *c19DNSWorld) snapshot() map[string]*dnsCacheEntry {
	w.cache.mutex.Lock()
	defer w.cache.mutex.Unlock()
	out := make(map[string]*dnsCacheEntry, len(w.cache.entries))
	for k, v := range w.cache.entries {
		out[k] = v
	}
	return out
}

func c19DNSDescribe(m map[string]*dnsCacheEntry) string {
	var keys []string
	for k := range m {
		keys = append(keys, k)
	}
	sort.Strings(keys)
	var parts []string
	for _, k := range keys {
		parts = append(parts, fmt.Sprintf("%s=%s@%p", k, c19AddrString(m[k].addrs), m[k]))
	}
	return "{" + strings.Join(parts, ", ") + "}"
}

// explain searches an order of the sections (and a choice of evictions) that takes the model
// from w.m to snap with exactly the observed outcomes.
func (w *c19DNSWorld) explain(secs []*c19DNSSec, snap map[string]*dnsCacheEntry, tRel, tQui time.Time) bool {
	surviving := map[*dnsCacheEntry]bool{}
	for _, e := range snap {
		surviving[e] = true
	}
	used := make([]bool, len(secs))
	var rec func(m map[string]*dnsCacheEntry, left int) bool
	clone := func(m map[string]*dnsCacheEntry) map[string]*dnsCacheEntry {
		out := make(map[string]*dnsCacheEntry, len(m)+1)
		for k, v := range m {
			out[k] = v
		}
		return out
	}
	rec = func(m map[string]*dnsCacheEntry, left int) bool {
		if left == 0 {
			if len(m) != len(snap) {
				return false
			}
			for k, v := range m {
				if snap[k] != v {
					return false
				}
			}
			return true
		}
		for i, sec := range secs {
			if used[i] {
				continue
			}
			used[i] = true
			ok := false
			switch sec.kind {
			case 'S', 'E':
				ok = rec(m, left-1)
			case 'G':
				cur := m[sec.host]
				if cur == sec.res.agedFrom {
					n := clone(m)
					if sec.res.agedTo != nil {
						n[sec.host] = sec.res.agedTo
					}
					ok = rec(n, left-1)
				}
			case 'A':
				e := m[sec.host]
				switch {
				case e == nil:
					ok = sec.miss && rec(m, left-1)
				case sec.miss:
					// the section found the entry expired: possible iff its clock reading (<= tQui) was not before the expiry
					if !e.expires.After(tQui) {
						n := clone(m)
						delete(n, sec.host)
						ok = rec(n, left-1)
					}
				default:
					// served from the cache: the entry the model holds, read at a time (>= tRel) before its expiry
					ok = sec.res != nil && sec.res.cached && sec.res.entry == e && e.expires.After(tRel) && rec(m, left-1)
				}
			case 'B':
				if sec.res == nil || sec.res.entry == nil || sec.res.cached {
					break
				}
				// candidates for eviction: entries that are gone at the end of the step
				var cand []string
				for k, v := range m {
					if k != sec.host && !surviving[v] {
						cand = append(cand, k)
					}
				}
				sort.Strings(cand)
				for mask := 0; mask < 1<<len(cand) && !ok; mask++ {
					n := clone(m)
					for b, k := range cand {
						if mask&(1<<b) != 0 {
							delete(n, k)
						}
					}
					n[sec.host] = sec.res.entry
					if len(n) <= w.c.Size {
						ok = rec(n, left-1)
					}
				}
			}
			used[i] = false
			if ok {
				return true
			}
		}
		return false
	}
	return rec(w.m, len(secs))
}

func c19DNSRun(out *c19Out, raw []byte) {
	var c c19DNSCase
	if err := json.Unmarshal(raw, &c); err != nil {
		out.Fail("C19/harness/bad-case", "%v", err)
		return
	}
	if c.Size < 1 || c.NHost < 1 || len(c.Resp) < c.NHost {
		out.Unjudged("dns/outside-domain")
		return
	}
	w := &c19DNSWorld{c: c, out: out, dur: time.Hour, m: map[string]*dnsCacheEntry{}, answers: map[string]map[string]bool{}, calls: map[int]int{}}
	if c.DurMs > 0 {
		w.dur = time.Duration(c.DurMs) * time.Millisecond
	}
	w.cache = NewDNSCache(c.Size, w.dur, nil, nil)
	s := c19NewSched(out, c.Sched)
	w.cache.resolver = &c19Resolver{s: s}

	k := len(c.Progs)
	results := make([][]c19DNSRes, k)
	ageSeq := make([]int, k)
	for g := 0; g < k; g++ {
		g := g
		c19Go(out, s, g, func() {
			ctx := c19Ctx(g)
			for i, op := range c.Progs[g] {
				s.park(g, "gate", fmt.Sprintf("g%02d/gate/%02d", g, i), i)
				r := c19DNSRes{op: op, t0: time.Now()}
				name := c19HostName(op.Host % c.NHost)
				switch op.Kind {
				case "lookup":
					lctx := ctx
					if op.Ended {
						var cancel context.CancelFunc
						lctx, cancel = context.WithCancel(ctx)
						cancel()
					}
					r.entry, r.cached = w.cache.lookup(lctx, name)
				case "age":
					// what waiting for the duration would do to this entry, without the wait
					w.cache.mutex.Lock()
					if old, ok := w.cache.entries[name]; ok {
						ageSeq[g]++
						past := time.Now().Add(-time.Hour - time.Duration(g*100+ageSeq[g])*time.Millisecond)
						if old.expires.Before(past) {
							past = old.expires
						}
						r.agedFrom, r.agedTo = old, &dnsCacheEntry{addrs: old.addrs, expires: past}
						w.cache.entries[name] = r.agedTo
					}
					w.cache.mutex.Unlock()
				case "sleep":
					time.Sleep(w.dur + 2*time.Millisecond)
				}
				results[g] = append(results[g], r)
			}
			s.notify(g, "fin")
		})
	}

	finished := 0
	opIdx := make([]int, k) // operations completed, as seen by the scheduler
	on := func(ev c19Event) {
		if ev.Kind == "fin" {
			finished++
		}
	}
	first := map[int]int{}
	for g := 0; g < k; g++ {
		first[g] = 1
	}
	s.await(first, on)

	out.Class(fmt.Sprintf("size/%d", c.Size))
	for _, prog := range c.Progs {
		for _, op := range prog {
			if op.Ended {
				out.Class("lookup/by-a-caller-whose-context-ended")
			}
		}
	}
	if c.DurMs > 0 {
		out.Class("time/real-duration")
	} else {
		out.Class("time/hour+ageing")
	}
	sameHostWindow, evicted, expiredMiss, hits, parallelBB, inWindow2 := false, false, false, 0, false, false

	for finished < k || len(s.parked) > 0 {
		if out.Failed() {
			return
		}
		// classes: who is inside the unlocked window right now
		perHost := map[string]int{}
		nres := 0
		for _, p := range s.parked {
			if p.Kind == "resolver" {
				nres++
				perHost[p.Info.(string)]++
			}
		}
		if nres >= 2 {
			inWindow2 = true
		}
		for _, n := range perHost {
			if n >= 2 {
				sameHostWindow = true
			}
		}
		sel := s.pick()
		if len(sel) == 0 {
			s.await(map[int]int{-2: 1}, on) // nothing parked, not everybody finished: wait (reports a hang)
			continue
		}
		var secs []*c19DNSSec
		want := map[int]int{}
		nB := 0
		for _, p := range sel {
			sec := &c19DNSSec{g: p.Gid}
			switch p.Kind {
			case "gate":
				op := c.Progs[p.Gid][p.Info.(int)]
				sec.host = c19HostName(op.Host % c.NHost)
				switch op.Kind {
				case "lookup":
					sec.kind = 'A'
				case "age":
					sec.kind = 'G'
				default:
					sec.kind = 'S'
				}
			case "resolver":
				sec.host = p.Info.(string)
				var h int
				fmt.Sscanf(sec.host, "h%d.", &h)
				script := c.Resp[h]
				code := script[w.calls[h]%len(script)]
				w.calls[h]++
				switch {
				case code < 0:
					sec.kind, sec.resp = 'E', c19ResolverResp{err: errors.New("c19: scripted resolver failure")}
					out.Class("resolver/error")
				case code == 0:
					sec.kind, sec.resp = 'B', c19ResolverResp{addrs: c19DNSAnswer(h, 0)}
					out.Class("resolver/empty-answer")
				default:
					sec.kind, sec.resp = 'B', c19ResolverResp{addrs: c19DNSAnswer(h, code)}
				}
				if sec.kind == 'B' {
					nB++
					if w.answers[sec.host] == nil {
						w.answers[sec.host] = map[string]bool{}
					}
					key := c19AddrString(sec.resp.addrs)
					if len(w.answers[sec.host]) > 0 && !w.answers[sec.host][key] {
						out.Class("resolver/changed-answer")
					}
					w.answers[sec.host][key] = true
				}
			}
			secs = append(secs, sec)
			want[p.Gid]++
		}
		if nB >= 2 {
			parallelBB = true
		}
		tRel := time.Now()
		for i, p := range sel {
			if p.Kind == "resolver" {
				p.release(secs[i].resp)
			} else {
				p.release(nil)
			}
		}
		arrivedAtResolver := map[int]bool{}
		s.await(want, func(ev c19Event) {
			on(ev)
			if ev.Kind == "resolver" {
				arrivedAtResolver[ev.Gid] = true
			}
		})
		tQui := time.Now()
		snap := w.snapshot()

		// ---- what each released section did
		for _, sec := range secs {
			if sec.kind == 'A' && arrivedAtResolver[sec.g] {
				sec.miss = true
				if old := w.m[sec.host]; old != nil {
					expiredMiss = true
				}
				continue
			}
			if opIdx[sec.g] < len(results[sec.g]) {
				r := results[sec.g][opIdx[sec.g]]
				sec.res = &r
				opIdx[sec.g]++
			} else {
				out.Fail("C19/harness/no-result", "goroutine %d reached its next point without a result", sec.g)
				return
			}
		}

		// ---- invariants
		if len(snap) > c.Size {
			out.Fail("C19/dns/size-exceeded", "the cache holds %d entries, its size is %d: %s", len(snap), c.Size, c19DNSDescribe(snap))
		}
		for name, e := range snap {
			if !w.answers[name][c19AddrString(e.addrs)] {
				out.Fail("C19/dns/foreign-addresses/held", "the cache holds %s for %s, which the resolver never answered for that name", c19AddrString(e.addrs), name)
			}
		}
		for _, sec := range secs {
			r := sec.res
			if r == nil || r.op.Kind != "lookup" {
				continue
			}
			switch {
			case r.entry == nil:
				if r.cached {
					out.Fail("C19/dns/nil-entry-reported-cached", "lookup(%s) = (nil, true)", sec.host)
				}
				if sec.kind != 'E' {
					out.Fail("C19/dns/lookup-failed-without-resolver-error", "lookup(%s) returned no entry although the resolver did not fail for this call", sec.host)
				}
			case sec.kind == 'E':
				out.Fail("C19/dns/entry-after-resolver-error", "lookup(%s) returned %s although the resolver failed for this call", sec.host, c19AddrString(r.entry.addrs))
			default:
				if !w.answers[sec.host][c19AddrString(r.entry.addrs)] {
					out.Fail("C19/dns/foreign-addresses/returned", "lookup(%s) returned %s, which the resolver never answered for that name", sec.host, c19AddrString(r.entry.addrs))
				}
				if r.cached {
					hits++
					if !r.entry.expires.After(r.t0) {
						out.Fail("C19/dns/served-expired", "lookup(%s) served a cached entry that had expired %v before the call began", sec.host, r.t0.Sub(r.entry.expires))
					}
				} else if sec.kind == 'B' {
					if c19AddrString(r.entry.addrs) != c19AddrString(sec.resp.addrs) {
						out.Fail("C19/dns/not-this-callers-answer", "lookup(%s) went to the resolver, was answered %s and returned %s", sec.host, c19AddrString(sec.resp.addrs), c19AddrString(r.entry.addrs))
					}
					if r.entry.expires.Before(tRel.Add(w.dur)) || r.entry.expires.After(tQui.Add(w.dur)) {
						out.Fail("C19/dns/expiry-not-now-plus-duration", "lookup(%s) stored an entry expiring %v after the resolver answered; the duration is %v", sec.host, r.entry.expires.Sub(tRel), w.dur)
					}
				}
			}
		}
		if out.Failed() {
			return
		}

		// ---- linearisability of the step
		if !w.explain(secs, snap, tRel, tQui) {
			var kinds []string
			for _, sec := range secs {
				kinds = append(kinds, string(sec.kind))
			}
			sort.Strings(kinds)
			mode := "serial"
			if len(secs) > 1 {
				mode = "parallel"
			}
			var what []string
			for _, sec := range secs {
				d := fmt.Sprintf("g%d %c %s", sec.g, sec.kind, sec.host)
				switch {
				case sec.miss:
					d += " -> went to the resolver"
				case sec.res != nil && sec.res.op.Kind == "lookup" && sec.res.entry != nil:
					d += fmt.Sprintf(" -> %s@%p cached=%v", c19AddrString(sec.res.entry.addrs), sec.res.entry, sec.res.cached)
				case sec.res != nil && sec.res.op.Kind == "lookup":
					d += " -> nil"
				}
				what = append(what, d)
			}
			out.Fail("C19/dns/not-linearisable/"+mode+"/"+strings.Join(kinds, ""),
				"no order of the released sections explains the step: before %s, after %s, sections: %s", c19DNSDescribe(w.m), c19DNSDescribe(snap), strings.Join(what, "; "))
			return
		}
		for name, e := range w.m {
			if snap[name] != e {
				if _, still := snap[name]; !still {
					evicted = true
				}
			}
		}
		w.m = snap
	}

	// ---- classes and the non-triviality rule
	if s.maxParked["resolver"] >= 2 || inWindow2 {
		out.Class("window/2+-lookups-in-flight")
		out.NonTrivial()
	} else {
		out.Class("window/at-most-1-in-flight")
	}
	if sameHostWindow {
		out.Class("window/same-name-in-flight-twice")
	}
	if parallelBB {
		out.Class("step/2+-inserts-released-together")
	}
	if s.parallelSteps > 0 {
		out.Class("step/parallel")
	}
	if evicted {
		out.Class("cache/entry-evicted-or-dropped")
	}
	if expiredMiss {
		out.Class("cache/expired-entry-refetched")
	}
	if hits > 0 {
		out.Class("cache/hit")
	}
}

func c19DNSCheck(ctx *vfCtx, c c19DNSCase) { c19Check(ctx, "dns", c) }

func init() {
	c19Scenarios["dns"] = c19DNSRun
	vfRapid("C19/dns",
		"the schedule has at least two lookups inside the unlocked window of the same DNS cache (parked at the resolver) at the same time",
		300, 5000, 8, c19DNSGen, c19DNSCheck)
}
