//go:build verif

// Shared harness kit. This file is a template: the driver copies it into every package
// directory under test and replaces the package clause. It owns: the property registry,
// evaluation (with panic capture), class histograms, non-trivial counting, samples,
// known-finding exclusion, violation capture (last failing = shrunk case), replay, and the
// stats file that the driver merges into /verif/evidence/<id>.json.
package VFPKG

import (
	"bytes"
	"encoding/base64"
	"encoding/binary"
	"encoding/json"
	"flag"
	"fmt"
	"hash/fnv"
	"os"
	"regexp"
	"runtime/debug"
	"sort"
	"strconv"
	"strings"
	"sync"
	"testing"
	"unicode/utf8"

	"pgregory.net/rapid"
)

// ---------------------------------------------------------------------------------------------
// Case helpers

// vfBytes is a byte string that survives a JSON round trip exactly: valid UTF-8 is written as a
// JSON string, anything else as {"b64": "..."}.
type vfBytes []byte

func (b vfBytes) MarshalJSON() ([]byte, error) {
	if utf8.Valid(b) {
		return json.Marshal(string(b))
	}
	return json.Marshal(map[string]string{"b64": base64.StdEncoding.EncodeToString(b)})
}

func (b *vfBytes) UnmarshalJSON(in []byte) error {
	var s string
	if err := json.Unmarshal(in, &s); err == nil {
		*b = vfBytes(s)
		return nil
	}
	var m map[string]string
	if err := json.Unmarshal(in, &m); err != nil {
		return err
	}
	raw, err := base64.StdEncoding.DecodeString(m["b64"])
	if err != nil {
		return err
	}
	*b = raw
	return nil
}

// ---------------------------------------------------------------------------------------------
// Evaluation context handed to every check(Case)

type vfFinding struct {
	Sig string `json:"sig"`
	Msg string `json:"msg"`
}

type vfCtx struct {
	classes    []string
	nontrivial bool
	findings   []vfFinding
	unjudged   []string
}

// Class records a generator / outcome class for the histogram in the evidence file.
func (c *vfCtx) Class(s string) { c.classes = append(c.classes, s) }

// NonTrivial marks the case as non-trivial by the property's stated rule.
func (c *vfCtx) NonTrivial() { c.nontrivial = true }

// Unjudged counts a class the check deliberately does not judge (listed in evidence).
func (c *vfCtx) Unjudged(s string) { c.unjudged = append(c.unjudged, s) }

// Fail records a violation of the property with a stable signature.
func (c *vfCtx) Fail(sig, format string, args ...any) {
	c.findings = append(c.findings, vfFinding{Sig: sig, Msg: fmt.Sprintf(format, args...)})
}

// Failed reports whether an UNLISTED violation has been recorded (findings whose signature is a
// listed known finding do not stop a check: the search goes on behind them).
func (c *vfCtx) Failed() bool {
	for _, f := range c.findings {
		if !vfIsKnown(f.Sig) {
			return true
		}
	}
	return false
}

// ---------------------------------------------------------------------------------------------
// Registry

type vfProp struct {
	Name     string `json:"name"` // "C01/canon"
	Kind     string `json:"kind"` // "rapid" | "enum"
	Quick    int    `json:"quick"`
	Thorough int    `json:"thorough"`
	Shards   int    `json:"shards"` // parallel processes in the thorough tier
	Rule     string `json:"rule"`   // the non-triviality rule in words

	run    func(t *testing.T)
	replay func(raw []byte) (*vfCtx, error)
	fuzz   func(t *testing.T, data []byte) // rapid.MakeFuzz form (coverage-guided search over the same generator)
}

var vfRegistry = map[string]*vfProp{}

func vfRegister(p *vfProp) {
	if _, dup := vfRegistry[p.Name]; dup {
		panic("duplicate vf property " + p.Name)
	}
	if p.Shards <= 0 {
		p.Shards = 1
	}
	vfRegistry[p.Name] = p
}

// vfRapid registers a rapid-driven property: gen draws a Case, check judges it.
func vfRapid[C any](name, rule string, quick, thorough, shards int, gen func(*rapid.T) C, check func(*vfCtx, C)) {
	p := &vfProp{Name: name, Kind: "rapid", Quick: quick, Thorough: thorough, Shards: shards, Rule: rule}
	p.run = func(t *testing.T) {
		rapid.Check(t, func(rt *rapid.T) {
			c := gen(rt)
			bad := vfEval(name, c, check, true)
			if len(bad) > 0 {
				rt.Fatalf("VFVIOLATION prop=%s sig=%s: %s", name, bad[0].Sig, bad[0].Msg)
			}
		})
	}
	p.replay = func(raw []byte) (*vfCtx, error) {
		var c C
		if err := json.Unmarshal(raw, &c); err != nil {
			return nil, err
		}
		return vfEvalCtx(c, check), nil
	}
	p.fuzz = rapid.MakeFuzz(func(rt *rapid.T) {
		c := gen(rt)
		ctx := vfEvalCtx(c, check)
		for _, f := range ctx.findings {
			if vfIsKnown(f.Sig) {
				continue
			}
			raw, _ := json.Marshal(c)
			rt.Fatalf("VFVIOLATION prop=%s sig=%s: %s\nVFCASE %s", name, f.Sig, f.Msg, raw)
		}
	})
	vfRegister(p)
}

// FuzzVF_Rapid drives the rapid generator of the property named by VF_PROP with Go's native
// coverage-guided fuzzer (thorough tier): the fuzzer's bytes are the generator's entropy.
func FuzzVF_Rapid(f *testing.F) {
	p := vfRegistry[os.Getenv("VF_PROP")]
	if p == nil || p.fuzz == nil {
		f.Skip("VF_PROP does not name a rapid property")
	}
	f.Fuzz(p.fuzz)
}

// vfEnum registers a bounded-exhaustive enumerator. enum must emit the cases of shard
// `shard` out of `nshards` (a partition of the space) for the given size parameter. It does not
// stop at the first violation: violations are grouped by signature, smallest case kept.
func vfEnum[C any](name, rule string, quickSize, thoroughSize, shards int, enum func(size, shard, nshards int, emit func(C)), check func(*vfCtx, C)) {
	p := &vfProp{Name: name, Kind: "enum", Quick: quickSize, Thorough: thoroughSize, Shards: shards, Rule: rule}
	p.run = func(t *testing.T) {
		size := vfEnvInt("VF_SIZE", quickSize)
		shard, nshards := vfEnvInt("VF_SHARD", 0), vfEnvInt("VF_NSHARDS", 1)
		failed := 0
		enum(size, shard, nshards, func(c C) {
			if len(vfEval(name, c, check, false)) > 0 {
				failed++
			}
		})
		vfStats.mu.Lock()
		vfStats.Exhaustive[name] = true
		vfStats.mu.Unlock()
		if failed > 0 {
			t.Errorf("VFVIOLATION prop=%s: %d enumerated cases violate the property", name, failed)
		}
	}
	p.replay = func(raw []byte) (*vfCtx, error) {
		var c C
		if err := json.Unmarshal(raw, &c); err != nil {
			return nil, err
		}
		return vfEvalCtx(c, check), nil
	}
	vfRegister(p)
}

// ---------------------------------------------------------------------------------------------
// Stats

type vfViolationRec struct {
	Prop string          `json:"prop"`
	Sig  string          `json:"sig"`
	Msg  string          `json:"msg"`
	Case json.RawMessage `json:"case"`
}

type vfPropStats struct {
	Evaluations int64            `json:"evaluations"`
	NonTrivial  int64            `json:"nontrivial"`
	Classes     map[string]int64 `json:"classes"`
	Unjudged    map[string]int64 `json:"unjudged"`
}

type vfStatsT struct {
	mu         sync.Mutex
	Props      map[string]*vfPropStats    `json:"props"`
	Samples    map[string]json.RawMessage `json:"samples"` // class -> one case
	sampleN    map[string]int
	Excluded   map[string]int64           `json:"excluded_known"` // sig -> count
	KnownSeen  map[string]*vfViolationRec `json:"known_seen"`     // sig -> smallest witness seen
	Violations map[string]*vfViolationRec `json:"violations"`     // key -> record
	Exhaustive map[string]bool            `json:"exhaustive"`
	Notes      map[string]int64           `json:"notes"`
	hashes     map[string]map[uint64]struct{}
}

var vfStats = &vfStatsT{
	Props:      map[string]*vfPropStats{},
	Samples:    map[string]json.RawMessage{},
	sampleN:    map[string]int{},
	Excluded:   map[string]int64{},
	KnownSeen:  map[string]*vfViolationRec{},
	Violations: map[string]*vfViolationRec{},
	Exhaustive: map[string]bool{},
	Notes:      map[string]int64{},
	hashes:     map[string]map[uint64]struct{}{},
}

// vfNote bumps a free-form counter reported in evidence (e.g. fuzz execs, observations).
func vfNote(name string, n int64) {
	vfStats.mu.Lock()
	vfStats.Notes[name] += n
	vfStats.mu.Unlock()
}

var vfKnownSigs = map[string]bool{}

func vfLoadKnown() {
	path := os.Getenv("VF_KNOWN")
	if path == "" {
		return
	}
	raw, err := os.ReadFile(path)
	if err != nil {
		return
	}
	re := regexp.MustCompile(`\bsig=(\S+)`)
	for _, line := range strings.Split(string(raw), "\n") {
		line = strings.TrimSpace(line)
		if !strings.HasPrefix(line, "known:") {
			continue
		}
		if m := re.FindStringSubmatch(line); m != nil {
			vfKnownSigs[m[1]] = true
		}
	}
}

func vfIsKnown(sig string) bool { return vfKnownSigs[sig] }

func vfEnvInt(name string, def int) int {
	if v := os.Getenv(name); v != "" {
		if n, err := strconv.Atoi(v); err == nil {
			return n
		}
	}
	return def
}

var vfLibFrame = regexp.MustCompile(`(gomatrixserverlib[^\s:]*/[A-Za-z0-9_]+\.go):(\d+)`)

// vfPanicSite returns the top non-harness library frame of the current panic stack.
func vfPanicSite(stack []byte) string {
	site := "unknown"
	for _, m := range vfLibFrame.FindAllStringSubmatch(string(stack), -1) {
		f := m[1]
		if i := strings.LastIndex(f, "gomatrixserverlib"); i >= 0 {
			f = f[i+len("gomatrixserverlib"):]
		}
		f = strings.TrimPrefix(f, "/")
		base := f
		if i := strings.LastIndex(base, "/"); i >= 0 {
			base = base[i+1:]
		}
		if strings.HasPrefix(base, "vf_") {
			continue
		}
		site = f + ":" + m[2]
		break
	}
	return site
}

// vfPanicFunc returns the name of the top non-harness library function on the stack
// (stable across line-number drift), used as the signature stem for panics.
var vfFuncLine = regexp.MustCompile(`(?m)^(\S*gomatrixserverlib\S*)\(`)

func vfPanicFunc(stack []byte) string {
	lines := strings.Split(string(stack), "\n")
	for i := 0; i+1 < len(lines); i++ {
		fn := lines[i]
		loc := strings.TrimSpace(lines[i+1])
		if !strings.Contains(fn, "gomatrixserverlib") || !strings.Contains(loc, ".go:") {
			continue
		}
		file := loc
		if j := strings.Index(file, ".go:"); j >= 0 {
			file = file[:j+3]
		}
		if k := strings.LastIndex(file, "/"); k >= 0 {
			file = file[k+1:]
		}
		if strings.HasPrefix(file, "vf_") {
			continue
		}
		if j := strings.Index(fn, "("); j >= 0 {
			// strip argument list, keep receiver
			if k := strings.LastIndex(fn, "("); k > 0 && !strings.HasSuffix(fn[:k], ")") {
				fn = fn[:k]
			}
		}
		if k := strings.LastIndex(fn, "gomatrixserverlib"); k >= 0 {
			fn = fn[k+len("gomatrixserverlib"):]
		}
		fn = strings.TrimLeft(fn, "/.")
		fn = strings.NewReplacer("(", "", ")", "", "*", "", " ", "").Replace(fn)
		return fn
	}
	return "unknown"
}

// vfCatch runs f and converts a panic into a finding with signature prefix+"/panic/"+function.
func vfCatch(c *vfCtx, prefix string, f func()) (panicked bool) {
	defer func() {
		if r := recover(); r != nil {
			st := debug.Stack()
			panicked = true
			c.Fail(prefix+"/panic/"+vfPanicFunc(st), "panic: %v at %s", r, vfPanicSite(st))
		}
	}()
	f()
	return false
}

func vfEvalCtx[C any](c C, check func(*vfCtx, C)) *vfCtx {
	ctx := &vfCtx{}
	func() {
		defer func() {
			if r := recover(); r != nil {
				st := debug.Stack()
				// a panic escaping the check: library panics are violations; harness panics are
				// recognisable by their site ("unknown" or a vf_ file) and are reported as such.
				ctx.Fail("panic/"+vfPanicFunc(st), "panic: %v at %s\n%s", r, vfPanicSite(st), vfTrimStack(st))
			}
		}()
		check(ctx, c)
	}()
	return ctx
}

func vfTrimStack(st []byte) string {
	s := string(st)
	if len(s) > 3000 {
		s = s[:3000]
	}
	return s
}

// vfEval evaluates one case, updates statistics, and returns the findings that are NOT in the
// known-findings list (those are counted under excluded_known and the search goes on).
func vfEval[C any](name string, c C, check func(*vfCtx, C), overwrite bool) []vfFinding {
	if cur := os.Getenv("VF_CURCASE"); cur != "" {
		// fatal-crash watch: a stack overflow or another runtime fatal error kills the process and can
		// not be recovered; the case being evaluated is left on disk for the driver to report.
		if b, err := json.Marshal(struct {
			Prop string `json:"prop"`
			Case C      `json:"case"`
		}{name, c}); err == nil {
			_ = os.WriteFile(cur, b, 0o644)
		}
	}
	ctx := vfEvalCtx(c, check)
	var raw []byte
	needRaw := ctx.nontrivial || len(ctx.findings) > 0
	vfStats.mu.Lock()
	defer vfStats.mu.Unlock()
	ps := vfStats.Props[name]
	if ps == nil {
		ps = &vfPropStats{Classes: map[string]int64{}, Unjudged: map[string]int64{}}
		vfStats.Props[name] = ps
		vfStats.hashes[name] = map[uint64]struct{}{}
	}
	ps.Evaluations++
	for _, cl := range ctx.classes {
		ps.Classes[cl]++
		key := name + ":" + cl
		if vfStats.sampleN[key] == 0 {
			needRaw = true
		}
	}
	for _, u := range ctx.unjudged {
		ps.Unjudged[u]++
	}
	if needRaw {
		raw, _ = json.Marshal(c)
	}
	if ctx.nontrivial {
		ps.NonTrivial++
		h := fnv.New64a()
		h.Write(raw)
		vfStats.hashes[name][h.Sum64()] = struct{}{}
	}
	for _, cl := range ctx.classes {
		key := name + ":" + cl
		if vfStats.sampleN[key] == 0 && len(raw) < 6000 {
			vfStats.sampleN[key] = 1
			vfStats.Samples[key] = raw
		}
	}
	var bad []vfFinding
	for _, f := range ctx.findings {
		rec := &vfViolationRec{Prop: name, Sig: f.Sig, Msg: f.Msg, Case: raw}
		if vfIsKnown(f.Sig) {
			vfStats.Excluded[f.Sig]++
			if old := vfStats.KnownSeen[f.Sig]; old == nil || len(old.Case) > len(raw) {
				vfStats.KnownSeen[f.Sig] = rec
			}
			continue
		}
		bad = append(bad, f)
		key := name
		if !overwrite {
			key = name + "|" + f.Sig
			if old := vfStats.Violations[key]; old != nil && len(old.Case) <= len(raw) {
				continue
			}
			if len(vfStats.Violations) > 200 {
				continue
			}
		}
		vfStats.Violations[key] = rec
	}
	return bad
}

func vfWriteStats() {
	path := os.Getenv("VF_STATS")
	if path == "" {
		return
	}
	vfStats.mu.Lock()
	defer vfStats.mu.Unlock()
	out, err := json.Marshal(vfStats)
	if err != nil {
		fmt.Fprintln(os.Stderr, "vf: cannot marshal stats:", err)
		return
	}
	_ = os.WriteFile(path, out, 0o644)
	// distinct non-trivial hashes, one binary file per property (merged across shards by the driver)
	var buf bytes.Buffer
	names := make([]string, 0, len(vfStats.hashes))
	for n := range vfStats.hashes {
		names = append(names, n)
	}
	sort.Strings(names)
	for _, n := range names {
		hs := vfStats.hashes[n]
		buf.WriteString(n)
		buf.WriteByte('\n')
		var cnt [8]byte
		binary.LittleEndian.PutUint64(cnt[:], uint64(len(hs)))
		buf.Write(cnt[:])
		for h := range hs {
			var b [8]byte
			binary.LittleEndian.PutUint64(b[:], h)
			buf.Write(b[:])
		}
	}
	_ = os.WriteFile(path+".hashes", buf.Bytes(), 0o644)
}

// ---------------------------------------------------------------------------------------------
// Entry points

func TestMain(m *testing.M) {
	flag.Parse()
	vfLoadKnown()
	code := m.Run()
	vfWriteStats()
	os.Exit(code)
}

// TestVFList writes the registry to VF_STATS (used by the driver to plan jobs).
func TestVFList(t *testing.T) {
	if os.Getenv("VF_MODE") != "list" {
		t.Skip("list mode only")
	}
	var props []*vfProp
	for _, p := range vfRegistry {
		props = append(props, p)
	}
	sort.Slice(props, func(i, j int) bool { return props[i].Name < props[j].Name })
	out, _ := json.Marshal(props)
	if err := os.WriteFile(os.Getenv("VF_LIST"), out, 0o644); err != nil {
		t.Fatal(err)
	}
}

// TestVF runs the property named by VF_PROP (generation mode) or the replay files in VF_REPLAY.
func TestVF(t *testing.T) {
	switch os.Getenv("VF_MODE") {
	case "run":
		name := os.Getenv("VF_PROP")
		p := vfRegistry[name]
		if p == nil {
			t.Fatalf("VFHARNESS unknown property %q", name)
		}
		p.run(t)
	case "replay":
		for _, path := range strings.Split(os.Getenv("VF_REPLAY"), ",") {
			if path == "" {
				continue
			}
			vfReplayFile(t, path)
		}
	default:
		t.Skip("VF_MODE not set")
	}
}

type vfReplayDoc struct {
	Prop string          `json:"prop"`
	Sig  string          `json:"sig"`
	Msg  string          `json:"msg"`
	Case json.RawMessage `json:"case"`
}

func vfReplayFile(t *testing.T, path string) {
	raw, err := os.ReadFile(path)
	if err != nil {
		t.Fatalf("VFHARNESS cannot read replay %s: %v", path, err)
	}
	var doc vfReplayDoc
	if err := json.Unmarshal(raw, &doc); err != nil {
		t.Fatalf("VFHARNESS bad replay %s: %v", path, err)
	}
	p := vfRegistry[doc.Prop]
	if p == nil {
		// belongs to another package's binary
		return
	}
	ctx, err := p.replay(doc.Case)
	if err != nil {
		t.Fatalf("VFHARNESS cannot decode case in %s: %v", path, err)
	}
	vfStats.mu.Lock()
	defer vfStats.mu.Unlock()
	vfStats.Notes["replayed:"+doc.Prop]++
	for _, f := range ctx.findings {
		rec := &vfViolationRec{Prop: doc.Prop, Sig: f.Sig, Msg: f.Msg, Case: doc.Case}
		if vfIsKnown(f.Sig) {
			vfStats.Excluded[f.Sig]++
			vfStats.KnownSeen[f.Sig] = rec
			fmt.Printf("VFREPLAY known %s sig=%s %s\n", path, f.Sig, f.Msg)
			continue
		}
		vfStats.Violations[doc.Prop+"|"+f.Sig+"|"+path] = rec
		fmt.Printf("VFREPLAY violation %s sig=%s %s\n", path, f.Sig, f.Msg)
		t.Errorf("VFVIOLATION prop=%s sig=%s (replay %s): %s", doc.Prop, f.Sig, path, f.Msg)
	}
	if len(ctx.findings) == 0 {
		fmt.Printf("VFREPLAY pass %s\n", path)
	}
}

// vfFuzzEval is used by native fuzz targets: evaluates the case, fails the target on an
// unlisted violation with a parseable message.
func vfFuzzEval[C any](t *testing.T, name string, c C, check func(*vfCtx, C)) {
	ctx := vfEvalCtx(c, check)
	for _, f := range ctx.findings {
		if vfIsKnown(f.Sig) {
			continue
		}
		raw, _ := json.Marshal(c)
		t.Fatalf("VFVIOLATION prop=%s sig=%s: %s\nVFCASE %s", name, f.Sig, f.Msg, raw)
	}
}
