//go:build verif

// G-id: identities — server names, key IDs, ed25519 keys derived deterministically from labels.
package VFPKG

import (
	"crypto/ed25519"
	"crypto/sha256"

	"pgregory.net/rapid"
)

// vfKeyFor derives an ed25519 key pair from a label (deterministic, no RNG).
func vfKeyFor(label string) (ed25519.PublicKey, ed25519.PrivateKey) {
	seed := sha256.Sum256([]byte("vf-key:" + label))
	priv := ed25519.NewKeyFromSeed(seed[:])
	return priv.Public().(ed25519.PublicKey), priv
}

var vfServerNamePool = []string{
	"a.example", "b.example", "c.example", "matrix.org", "localhost", "b.example:8448", "sub.a.example:443",
	"1.2.3.4", "1.2.3.4:8448", "[::1]", "[2001:db8::1]:8448", "xn--nxasmq6b.example", "A-1.example",
}

func vfGenServerName(t *rapid.T, label string) string {
	return rapid.SampledFrom(vfServerNamePool).Draw(t, label)
}

var vfKeyIDPool = []string{"ed25519:1", "ed25519:auto", "ed25519:a_B9", "ed25519:key2", "ed25519:0"}

func vfGenKeyID(t *rapid.T, label string) string {
	return rapid.SampledFrom(vfKeyIDPool).Draw(t, label)
}
