//go:build verif

// G-json and R-canon: an independent strict JSON parser, the reference canonical encoder, JSON
// value generators and presentation (spelling) generators. Shares no code with json.go (which is
// built on gjson and byte scanning).
package VFPKG

import (
	"fmt"
	"math/big"
	"sort"
	"strings"
	"unicode/utf16"
	"unicode/utf8"

	"pgregory.net/rapid"
)

// jv is a JSON value. K: 'n' null, 't' true, 'f' false, 's' string (S decoded), '#' number
// (S token verbatim), 'a' array, 'o' object (keys decoded, in source order).
type jv struct {
	K byte
	S string
	A []jv
	O []jkv
}

type jkv struct {
	Key string
	Val jv
}

// jflags records facts about a parsed text that decide which clauses of a property apply.
type jflags struct {
	DupKeys       bool // an object has two members with the same (decoded) key
	LoneSurrogate bool // a \uD800-\uDFFF escape that is not part of a well-formed pair
	NonInt        bool // some number token is not -?(0|[1-9][0-9]*)
	NegZero       bool // some number token is exactly "-0"
	NegZeroFrac   bool // a token starting "-0" followed by . e E whose value is zero, e.g. -0.0, -0e1
	OutOfRange    bool // some integer token is outside +/-(2^53-1)
	Numbers       int
	Depth         int
}

type jparser struct {
	in  []byte
	pos int
	fl  jflags
	err error
}

func (p *jparser) fail(format string, a ...any) {
	if p.err == nil {
		p.err = fmt.Errorf("at %d: %s", p.pos, fmt.Sprintf(format, a...))
	}
}

func (p *jparser) ws() {
	for p.pos < len(p.in) {
		switch p.in[p.pos] {
		case ' ', '\t', '\n', '\r':
			p.pos++
		default:
			return
		}
	}
}

// jparse parses a complete JSON text strictly per RFC 8259 (any value at top level).
func jparse(in []byte) (jv, jflags, error) {
	p := &jparser{in: in}
	if !utf8.Valid(in) {
		return jv{}, p.fl, fmt.Errorf("invalid UTF-8")
	}
	p.ws()
	v := p.value(1)
	p.ws()
	if p.err == nil && p.pos != len(p.in) {
		p.fail("trailing data")
	}
	return v, p.fl, p.err
}

func (p *jparser) value(depth int) jv {
	if depth > p.fl.Depth {
		p.fl.Depth = depth
	}
	if depth > 40000 {
		p.fail("too deep")
		return jv{}
	}
	if p.err != nil {
		return jv{}
	}
	if p.pos >= len(p.in) {
		p.fail("unexpected end")
		return jv{}
	}
	switch c := p.in[p.pos]; {
	case c == '{':
		p.pos++
		v := jv{K: 'o'}
		seen := map[string]bool{}
		p.ws()
		if p.pos < len(p.in) && p.in[p.pos] == '}' {
			p.pos++
			return v
		}
		for p.err == nil {
			p.ws()
			if p.pos >= len(p.in) || p.in[p.pos] != '"' {
				p.fail("expected key")
				return v
			}
			k := p.str()
			p.ws()
			if p.pos >= len(p.in) || p.in[p.pos] != ':' {
				p.fail("expected colon")
				return v
			}
			p.pos++
			p.ws()
			val := p.value(depth + 1)
			if seen[k] {
				p.fl.DupKeys = true
			}
			seen[k] = true
			v.O = append(v.O, jkv{k, val})
			p.ws()
			if p.pos >= len(p.in) {
				p.fail("unexpected end in object")
				return v
			}
			if p.in[p.pos] == ',' {
				p.pos++
				continue
			}
			if p.in[p.pos] == '}' {
				p.pos++
				return v
			}
			p.fail("expected , or }")
		}
		return v
	case c == '[':
		p.pos++
		v := jv{K: 'a', A: []jv{}}
		p.ws()
		if p.pos < len(p.in) && p.in[p.pos] == ']' {
			p.pos++
			return v
		}
		for p.err == nil {
			p.ws()
			v.A = append(v.A, p.value(depth+1))
			p.ws()
			if p.pos >= len(p.in) {
				p.fail("unexpected end in array")
				return v
			}
			if p.in[p.pos] == ',' {
				p.pos++
				continue
			}
			if p.in[p.pos] == ']' {
				p.pos++
				return v
			}
			p.fail("expected , or ]")
		}
		return v
	case c == '"':
		return jv{K: 's', S: p.str()}
	case c == 't':
		return p.lit("true", jv{K: 't'})
	case c == 'f':
		return p.lit("false", jv{K: 'f'})
	case c == 'n':
		return p.lit("null", jv{K: 'n'})
	case c == '-' || (c >= '0' && c <= '9'):
		return p.num()
	default:
		p.fail("unexpected byte %q", c)
		return jv{}
	}
}

func (p *jparser) lit(s string, v jv) jv {
	if strings.HasPrefix(string(p.in[p.pos:]), s) {
		p.pos += len(s)
		return v
	}
	p.fail("bad literal")
	return jv{}
}

func (p *jparser) num() jv {
	start := p.pos
	if p.in[p.pos] == '-' {
		p.pos++
	}
	digits := func() int {
		n := 0
		for p.pos < len(p.in) && p.in[p.pos] >= '0' && p.in[p.pos] <= '9' {
			p.pos++
			n++
		}
		return n
	}
	if p.pos >= len(p.in) {
		p.fail("bad number")
		return jv{}
	}
	if p.in[p.pos] == '0' {
		p.pos++
	} else if digits() == 0 {
		p.fail("bad number")
		return jv{}
	}
	isInt := true
	if p.pos < len(p.in) && p.in[p.pos] == '.' {
		isInt = false
		p.pos++
		if digits() == 0 {
			p.fail("bad fraction")
			return jv{}
		}
	}
	if p.pos < len(p.in) && (p.in[p.pos] == 'e' || p.in[p.pos] == 'E') {
		isInt = false
		p.pos++
		if p.pos < len(p.in) && (p.in[p.pos] == '+' || p.in[p.pos] == '-') {
			p.pos++
		}
		if digits() == 0 {
			p.fail("bad exponent")
			return jv{}
		}
	}
	tok := string(p.in[start:p.pos])
	p.fl.Numbers++
	if !isInt {
		p.fl.NonInt = true
		if strings.HasPrefix(tok, "-0") && jnumIsZero(tok) {
			p.fl.NegZeroFrac = true
		}
	} else if tok == "-0" {
		p.fl.NegZero = true
	} else {
		n, ok := new(big.Int).SetString(tok, 10)
		if !ok || n.CmpAbs(jmaxSafe) > 0 {
			p.fl.OutOfRange = true
		}
	}
	return jv{K: '#', S: tok}
}

var jmaxSafe = big.NewInt(9007199254740991)

func jnumIsZero(tok string) bool {
	// mantissa digits all zero
	for _, c := range tok {
		if c == 'e' || c == 'E' {
			break
		}
		if c >= '1' && c <= '9' {
			return false
		}
	}
	return true
}

func (p *jparser) hex4() (rune, bool) {
	if p.pos+4 > len(p.in) {
		return 0, false
	}
	var r rune
	for i := 0; i < 4; i++ {
		c := p.in[p.pos+i]
		switch {
		case c >= '0' && c <= '9':
			r = r<<4 | rune(c-'0')
		case c >= 'a' && c <= 'f':
			r = r<<4 | rune(c-'a'+10)
		case c >= 'A' && c <= 'F':
			r = r<<4 | rune(c-'A'+10)
		default:
			return 0, false
		}
	}
	p.pos += 4
	return r, true
}

func (p *jparser) str() string {
	p.pos++ // opening quote
	var sb strings.Builder
	for {
		if p.pos >= len(p.in) {
			p.fail("unterminated string")
			return ""
		}
		c := p.in[p.pos]
		switch {
		case c == '"':
			p.pos++
			return sb.String()
		case c < 0x20:
			p.fail("raw control character in string")
			return ""
		case c == '\\':
			p.pos++
			if p.pos >= len(p.in) {
				p.fail("unterminated escape")
				return ""
			}
			e := p.in[p.pos]
			p.pos++
			switch e {
			case '"', '\\', '/':
				sb.WriteByte(e)
			case 'b':
				sb.WriteByte('\b')
			case 'f':
				sb.WriteByte('\f')
			case 'n':
				sb.WriteByte('\n')
			case 'r':
				sb.WriteByte('\r')
			case 't':
				sb.WriteByte('\t')
			case 'u':
				r, ok := p.hex4()
				if !ok {
					p.fail("bad \\u escape")
					return ""
				}
				if utf16.IsSurrogate(r) {
					// need a following low surrogate escape
					if r < 0xDC00 && p.pos+6 <= len(p.in) && p.in[p.pos] == '\\' && p.in[p.pos+1] == 'u' {
						save := p.pos
						p.pos += 2
						r2, ok2 := p.hex4()
						if ok2 && r2 >= 0xDC00 && r2 <= 0xDFFF {
							sb.WriteRune(utf16.DecodeRune(r, r2))
							continue
						}
						p.pos = save
					}
					p.fl.LoneSurrogate = true
					sb.WriteRune(utf8.RuneError)
					continue
				}
				sb.WriteRune(r)
			default:
				p.fail("bad escape \\%c", e)
				return ""
			}
		default:
			_, n := utf8.DecodeRune(p.in[p.pos:])
			sb.Write(p.in[p.pos : p.pos+n])
			p.pos += n
		}
	}
}

// jcanonString emits the one canonical spelling of a string: minimal escapes.
func jcanonString(sb *strings.Builder, s string) {
	sb.WriteByte('"')
	for _, r := range s {
		switch {
		case r == '"':
			sb.WriteString(`\"`)
		case r == '\\':
			sb.WriteString(`\\`)
		case r == '\b':
			sb.WriteString(`\b`)
		case r == '\t':
			sb.WriteString(`\t`)
		case r == '\n':
			sb.WriteString(`\n`)
		case r == '\f':
			sb.WriteString(`\f`)
		case r == '\r':
			sb.WriteString(`\r`)
		case r < 0x20:
			fmt.Fprintf(sb, `\u%04x`, r)
		default:
			sb.WriteRune(r)
		}
	}
	sb.WriteByte('"')
}

// jcanon is R-canon: sorted keys (by code point == by UTF-8 bytes), no whitespace, minimal
// escapes, number tokens verbatim except -0 -> 0.
func jcanon(v jv) string {
	var sb strings.Builder
	jcanonTo(&sb, v)
	return sb.String()
}

func jcanonTo(sb *strings.Builder, v jv) {
	switch v.K {
	case 'n':
		sb.WriteString("null")
	case 't':
		sb.WriteString("true")
	case 'f':
		sb.WriteString("false")
	case 's':
		jcanonString(sb, v.S)
	case '#':
		if v.S == "-0" {
			sb.WriteString("0")
		} else {
			sb.WriteString(v.S)
		}
	case 'a':
		sb.WriteByte('[')
		for i, e := range v.A {
			if i > 0 {
				sb.WriteByte(',')
			}
			jcanonTo(sb, e)
		}
		sb.WriteByte(']')
	case 'o':
		ms := append([]jkv(nil), v.O...)
		sort.SliceStable(ms, func(i, j int) bool { return ms[i].Key < ms[j].Key })
		sb.WriteByte('{')
		for i, m := range ms {
			if i > 0 {
				sb.WriteByte(',')
			}
			jcanonString(sb, m.Key)
			sb.WriteByte(':')
			jcanonTo(sb, m.Val)
		}
		sb.WriteByte('}')
	}
}

// jequal is value equality: numbers numerically (so -0.5 != 0.5, 0 == -0), objects as maps.
func jequal(a, b jv) bool {
	if a.K != b.K {
		return false
	}
	switch a.K {
	case 's':
		return a.S == b.S
	case '#':
		return jnumEqual(a.S, b.S)
	case 'a':
		if len(a.A) != len(b.A) {
			return false
		}
		for i := range a.A {
			if !jequal(a.A[i], b.A[i]) {
				return false
			}
		}
		return true
	case 'o':
		if len(a.O) != len(b.O) {
			return false
		}
		bm := map[string]jv{}
		for _, m := range b.O {
			bm[m.Key] = m.Val
		}
		for _, m := range a.O {
			bv, ok := bm[m.Key]
			if !ok || !jequal(m.Val, bv) {
				return false
			}
		}
		return true
	}
	return true
}

func jnumEqual(a, b string) bool {
	if a == b {
		return true
	}
	// Avoid materialising gigantic exponents: compare structurally when exponents are huge.
	ra, oka := jnumRat(a)
	rb, okb := jnumRat(b)
	if !oka || !okb {
		return false // differing tokens that we refuse to expand: treated as different
	}
	return ra.Cmp(rb) == 0
}

func jnumRat(tok string) (*big.Rat, bool) {
	if i := strings.IndexAny(tok, "eE"); i >= 0 {
		exp := strings.TrimLeft(tok[i+1:], "+-0")
		if len(exp) > 4 {
			if jnumIsZero(tok) {
				return new(big.Rat), true
			}
			return nil, false
		}
	}
	r, ok := new(big.Rat).SetString(tok)
	return r, ok
}

func (v jv) get(key string) (jv, bool) {
	for _, m := range v.O {
		if m.Key == key {
			return m.Val, true
		}
	}
	return jv{}, false
}

// without returns a copy of the object without the named members.
func (v jv) without(keys ...string) jv {
	out := jv{K: 'o'}
	for _, m := range v.O {
		drop := false
		for _, k := range keys {
			if m.Key == k {
				drop = true
			}
		}
		if !drop {
			out.O = append(out.O, m)
		}
	}
	return out
}

func (v jv) with(key string, val jv) jv {
	out := jv{K: 'o'}
	done := false
	for _, m := range v.O {
		if m.Key == key {
			out.O = append(out.O, jkv{key, val})
			done = true
		} else {
			out.O = append(out.O, m)
		}
	}
	if !done {
		out.O = append(out.O, jkv{key, val})
	}
	return out
}

func jstr(s string) jv { return jv{K: 's', S: s} }
func jnum(n int64) jv  { return jv{K: '#', S: fmt.Sprint(n)} }
func jobj(kv ...any) jv {
	v := jv{K: 'o'}
	for i := 0; i+1 < len(kv); i += 2 {
		v.O = append(v.O, jkv{kv[i].(string), kv[i+1].(jv)})
	}
	return v
}
func jarr(vs ...jv) jv { return jv{K: 'a', A: append([]jv{}, vs...)} }

// ---------------------------------------------------------------------------------------------
// Generators

var jgenRunes = []rune{
	'a', 'b', 'z', 'A', '0', '1', ' ', '_', '.', ':', '@', '!', '$', '-',
	'"', '\\', '/', '\b', '\t', '\n', '\f', '\r', 0x00, 0x01, 0x1f, 0x7f,
	0xe9, 0x2028, 0x2029, 0xfffd, 0xffff, 0xd7ff, 0xe000, 0x1f600, 0x10000, 0x10ffff,
	// UTF-8 width boundaries and their neighbours
	0x7e, 0x80, 0x81, 0xa0, 0xff, 0x7ff, 0x800, 0xfffe,
}

func jgenString(t *rapid.T, label string) string {
	n := rapid.IntRange(0, 5).Draw(t, label+"_len")
	var sb strings.Builder
	for i := 0; i < n; i++ {
		sb.WriteRune(rapid.SampledFrom(jgenRunes).Draw(t, label+"_r"))
	}
	return sb.String()
}

var jgenInts = []string{
	"0", "1", "-1", "7", "10", "42", "-42", "100", "255", "65536",
	"9007199254740991", "-9007199254740991", "9007199254740990", "4294967296",
}

// number tokens that are not plain in-range integers; each is its own "identity" (see DESIGN C01).
var jgenOddNums = []string{
	"-0", "0.5", "-0.5", "1.0", "0.0", "-0.0", "1e2", "1E2", "0e0", "0E1", "-0e1", "1e400", "-1E-2",
	"1.5e3", "9007199254740992", "-9007199254740992", "9007199254740993", "123456789012345678901234567890",
	"1e-400", "-0.0e0", "10.25", "-10.25", "0.000", "-1.5", "2E+3", "2.5E-03", "1E-05", "1e-05", "-7E-01", "1.000000E-05", "3e-007",
	// integer literals far outside the safe range, including values congruent to small numbers
	// modulo 2^64 / 2^63 / 2^32 (wrap-around in fixed-width parsers)
	"18446744073709551616", "18446744073709551658", "-18446744073709551617", "36893488147419103232", "36893488147419103233",
	"340282366920938463463374607431768211456", "340282366920938463463374607431768211457", "9223372036854775808", "-9223372036854775809",
	"100000000000000000000", "-100000000000000000000", "18446744073709551615", "9223372036854775807",
}

// jgenBigInt draws an integer literal of 17-45 digits (always outside +/-(2^53-1)), or k*2^64+small.
func jgenBigInt(t *rapid.T, label string) string {
	if rapid.Bool().Draw(t, label+"_wrap") {
		k := new(big.Int).Lsh(big.NewInt(int64(rapid.IntRange(1, 5).Draw(t, label+"_k"))), uint(rapid.SampledFrom([]int{64, 64, 65, 128}).Draw(t, label+"_sh")))
		k.Add(k, big.NewInt(int64(rapid.IntRange(-1000, 1000).Draw(t, label+"_small"))))
		if rapid.Bool().Draw(t, label+"_neg") {
			k.Neg(k)
		}
		return k.String()
	}
	n := rapid.IntRange(17, 45).Draw(t, label+"_n")
	var sb strings.Builder
	if rapid.Bool().Draw(t, label+"_neg2") {
		sb.WriteByte('-')
	}
	sb.WriteByte(byte('1' + rapid.IntRange(0, 8).Draw(t, label+"_d0")))
	for i := 1; i < n; i++ {
		sb.WriteByte(byte('0' + rapid.IntRange(0, 9).Draw(t, label+"_d")))
	}
	return sb.String()
}

type jgenOpts struct {
	IntsOnly bool // only in-range integer literals (what room versions >= 6 allow)
	MaxDepth int
	MaxWidth int
}

func jgenValue(t *rapid.T, o jgenOpts, depth int, label string) jv {
	kinds := []byte{'n', 't', 'f', 's', 's', '#', '#'}
	if depth < o.MaxDepth {
		kinds = append(kinds, 'a', 'o', 'o')
	}
	switch k := rapid.SampledFrom(kinds).Draw(t, label+"_k"); k {
	case 's':
		return jv{K: 's', S: jgenString(t, label+"_s")}
	case '#':
		if o.IntsOnly || rapid.IntRange(0, 2).Draw(t, label+"_odd") > 0 {
			if rapid.Bool().Draw(t, label+"_small") {
				return jv{K: '#', S: fmt.Sprint(rapid.IntRange(-150, 150).Draw(t, label+"_i"))}
			}
			return jv{K: '#', S: rapid.SampledFrom(jgenInts).Draw(t, label+"_i")}
		}
		if rapid.IntRange(0, 4).Draw(t, label+"_big") == 0 {
			return jv{K: '#', S: jgenBigInt(t, label+"_bi")}
		}
		return jv{K: '#', S: rapid.SampledFrom(jgenOddNums).Draw(t, label+"_n")}
	case 'a':
		n := rapid.IntRange(0, o.MaxWidth).Draw(t, label+"_n")
		v := jv{K: 'a', A: []jv{}}
		for i := 0; i < n; i++ {
			v.A = append(v.A, jgenValue(t, o, depth+1, label+"_e"))
		}
		return v
	case 'o':
		return jgenObject(t, o, depth, label)
	default:
		return jv{K: k}
	}
}

// jgenWrap nests a value inside arrays / objects (arrays of arrays of objects and the like are
// rare under uniform generation but matter to code with per-level fast paths).
// jgenWide puts v among many siblings: an object with 100..300 members (around and beyond 128 and
// 256, in unsorted order) or an array of that length. Fixed-size scratch buffers and small-object
// fast paths live behind such sizes.
func jgenWide(t *rapid.T, v jv, label string) jv {
	n := rapid.SampledFrom([]int{100, 127, 128, 129, 130, 150, 255, 256, 257, 300}).Draw(t, label+"_wideN")
	at := rapid.IntRange(0, n-1).Draw(t, label+"_wideAt")
	if rapid.Bool().Draw(t, label+"_wideArr") {
		out := jv{K: 'a'}
		for i := 0; i < n; i++ {
			if i == at {
				out.A = append(out.A, v)
			} else {
				out.A = append(out.A, jnum(int64(i)))
			}
		}
		return out
	}
	out := jv{K: 'o'}
	for i := 0; i < n; i++ {
		// keys in an order that is not sorted: k(7i mod n)
		k := fmt.Sprintf("k%03d", (i*7+3)%n)
		if i == at {
			out.O = append(out.O, jkv{"k" + fmt.Sprintf("%03d", (i*7+3)%n), v})
		} else {
			out.O = append(out.O, jkv{k, jnum(int64(i))})
		}
	}
	// 7 is coprime to every n in the list except multiples of 7; drop accidental duplicates
	seen := map[string]bool{}
	uniq := out.O[:0]
	for _, m := range out.O {
		if !seen[m.Key] {
			seen[m.Key] = true
			uniq = append(uniq, m)
		}
	}
	out.O = uniq
	return out
}

func jgenWrap(t *rapid.T, v jv, label string) jv {
	if rapid.IntRange(0, 24).Draw(t, label+"_wide") == 0 {
		v = jgenWide(t, v, label)
	}
	n := rapid.IntRange(0, 3).Draw(t, label+"_wrapN")
	if rapid.IntRange(0, 19).Draw(t, label+"_deep") == 0 {
		// many enclosing containers (around and beyond 32, 64, 128, 256): recursion bounds and
		// per-depth scratch space live behind such depths. The innermost value gets an unsorted object
		// around it so that what happens down there shows in the canonical form.
		v = jobj("z", jnum(1), "m", v, "a", jnum(2))
		n = rapid.SampledFrom([]int{30, 31, 32, 33, 62, 63, 64, 65, 66, 100, 127, 128, 129, 200, 255, 256, 257, 300}).Draw(t, label+"_deepN")
	}
	for i := 0; i < n; i++ {
		switch rapid.IntRange(0, 4).Draw(t, label+"_wrapK") {
		case 0, 1:
			v = jarr(v)
		case 2:
			v = jarr(jstr("x"), v)
		case 3:
			v = jarr(v, jnum(int64(i)))
		default:
			v = jobj("z", jnum(1), "a", v)
		}
	}
	return v
}

func jgenObject(t *rapid.T, o jgenOpts, depth int, label string) jv {
	n := rapid.IntRange(0, o.MaxWidth).Draw(t, label+"_n")
	v := jv{K: 'o'}
	seen := map[string]bool{}
	for i := 0; i < n; i++ {
		k := jgenString(t, label+"_key")
		if seen[k] {
			continue
		}
		seen[k] = true
		v.O = append(v.O, jkv{k, jgenValue(t, o, depth+1, label+"_v")})
	}
	return v
}

// jchooser abstracts "pick one of n": backed by rapid during generation, or by a seeded
// deterministic sequence inside a check (so that a check stays a pure function of its Case).
type jchooser interface{ pick(n int) int }

type jrapidChooser struct {
	t     *rapid.T
	label string
}

func (c jrapidChooser) pick(n int) int {
	if n <= 1 {
		return 0
	}
	return rapid.IntRange(0, n-1).Draw(c.t, c.label)
}

// jseedChooser is a splitmix64 sequence.
type jseedChooser struct{ s uint64 }

func (c *jseedChooser) pick(n int) int {
	c.s += 0x9e3779b97f4a7c15
	z := c.s
	z = (z ^ (z >> 30)) * 0xbf58476d1ce4e5b9
	z = (z ^ (z >> 27)) * 0x94d049bb133111eb
	z ^= z >> 31
	if n <= 1 {
		return 0
	}
	return int(z % uint64(n))
}

// jspell writes one textual presentation of a value: random whitespace, random key order and,
// per character, one of its legal spellings.
func jspell(t *rapid.T, v jv, label string) string {
	var sb strings.Builder
	jspellTo(jrapidChooser{t, label}, &sb, v)
	return sb.String()
}

// jspellSeed is jspell driven by a seed (deterministic).
func jspellSeed(seed uint64, v jv) string {
	var sb strings.Builder
	jspellTo(&jseedChooser{seed}, &sb, v)
	return sb.String()
}

var jwsChoices = []string{"", "", "", " ", "\n", "\t", "\r", "  \n"}

func jws(t jchooser, sb *strings.Builder) {
	sb.WriteString(jwsChoices[t.pick(len(jwsChoices))])
}

func jspellString(t jchooser, sb *strings.Builder, s string) {
	sb.WriteByte('"')
	for _, r := range s {
		var opts []string
		lit := string(r)
		hex := func(u rune) []string {
			return []string{fmt.Sprintf(`\u%04x`, u), fmt.Sprintf(`\u%04X`, u)}
		}
		switch {
		case r == '"':
			opts = append([]string{`\"`}, hex(r)...)
		case r == '\\':
			opts = append([]string{`\\`}, hex(r)...)
		case r == '/':
			opts = append([]string{`/`, `\/`}, hex(r)...)
		case r == '\b':
			opts = append([]string{`\b`}, hex(r)...)
		case r == '\t':
			opts = append([]string{`\t`}, hex(r)...)
		case r == '\n':
			opts = append([]string{`\n`}, hex(r)...)
		case r == '\f':
			opts = append([]string{`\f`}, hex(r)...)
		case r == '\r':
			opts = append([]string{`\r`}, hex(r)...)
		case r < 0x20:
			opts = hex(r)
		case r >= 0x10000:
			r1, r2 := utf16.EncodeRune(r)
			opts = []string{lit, lit,
				fmt.Sprintf(`\u%04x\u%04x`, r1, r2), fmt.Sprintf(`\u%04X\u%04X`, r1, r2),
				fmt.Sprintf(`\u%04X\u%04x`, r1, r2)}
		default:
			opts = append([]string{lit, lit, lit, lit, lit, lit, lit, lit}, hex(r)...)
		}
		sb.WriteString(opts[t.pick(len(opts))])
	}
	sb.WriteByte('"')
}

func jspellTo(t jchooser, sb *strings.Builder, v jv) {
	switch v.K {
	case 'n':
		sb.WriteString("null")
	case 't':
		sb.WriteString("true")
	case 'f':
		sb.WriteString("false")
	case 's':
		jspellString(t, sb, v.S)
	case '#':
		if v.S == "0" && t.pick(4) == 0 {
			sb.WriteString("-0")
		} else {
			sb.WriteString(v.S)
		}
	case 'a':
		sb.WriteByte('[')
		jws(t, sb)
		for i, e := range v.A {
			if i > 0 {
				sb.WriteByte(',')
				jws(t, sb)
			}
			jspellTo(t, sb, e)
			jws(t, sb)
		}
		sb.WriteByte(']')
	case 'o':
		ms := append([]jkv(nil), v.O...)
		for i := len(ms) - 1; i > 0; i-- {
			j := t.pick(i + 1)
			ms[i], ms[j] = ms[j], ms[i]
		}
		sb.WriteByte('{')
		jws(t, sb)
		for i, m := range ms {
			if i > 0 {
				sb.WriteByte(',')
				jws(t, sb)
			}
			jspellString(t, sb, m.Key)
			jws(t, sb)
			sb.WriteByte(':')
			jws(t, sb)
			jspellTo(t, sb, m.Val)
			jws(t, sb)
		}
		sb.WriteByte('}')
	}
}

// jplain writes the value compactly with source key order and canonical string spellings but
// WITHOUT sorting (a valid, boring presentation).
func jplain(v jv) string {
	var sb strings.Builder
	var rec func(v jv)
	rec = func(v jv) {
		switch v.K {
		case 'a':
			sb.WriteByte('[')
			for i, e := range v.A {
				if i > 0 {
					sb.WriteByte(',')
				}
				rec(e)
			}
			sb.WriteByte(']')
		case 'o':
			sb.WriteByte('{')
			for i, m := range v.O {
				if i > 0 {
					sb.WriteByte(',')
				}
				jcanonString(&sb, m.Key)
				sb.WriteByte(':')
				rec(m.Val)
			}
			sb.WriteByte('}')
		case '#':
			sb.WriteString(v.S)
		default:
			jcanonTo(&sb, v)
		}
	}
	rec(v)
	return sb.String()
}

// jnontrivialText reports whether canonicalisation has something to do on this text.
func jnontrivialText(text string, v jv, fl jflags) bool {
	if text != jcanon(v) {
		return true
	}
	return fl.NonInt || fl.NegZero || fl.OutOfRange
}
