//go:build verif

// C18 (package spec) — identifiers, sender IDs, server names, base64 and raw JSON values that
// arrive from other servers: parsers return a value or an error, and every accessor of an
// accepted value returns normally.
package spec

import (
	"encoding/json"
	"fmt"
	"os"
	"path/filepath"
	"strings"
	"testing"

	"pgregory.net/rapid"
)

type c18State struct {
	ctx    *vfCtx
	prefix string
	seen   map[string]bool
	ops    int
}

func (s *c18State) call(op string, f func()) (panicked bool) {
	n := len(s.ctx.findings)
	panicked = vfCatch(s.ctx, s.prefix, f)
	s.ops++
	if !panicked || len(s.ctx.findings) <= n {
		return panicked
	}
	fd := s.ctx.findings[len(s.ctx.findings)-1]
	stem := fd.Sig[len(s.prefix)+len("/panic/"):]
	if s.seen[fd.Sig] {
		s.ctx.findings = s.ctx.findings[:n]
		s.ctx.Class("again/" + stem)
		return panicked
	}
	s.seen[fd.Sig] = true
	s.ctx.findings[len(s.ctx.findings)-1].Msg = op + ": " + fd.Msg
	s.ctx.Class("panic/" + stem + "/via/" + op)
	return panicked
}

type c18IDCase struct {
	Text vfBytes `json:"text"`
}

func c18IDCheck(ctx *vfCtx, c c18IDCase) {
	s := &c18State{ctx: ctx, prefix: "C18", seen: map[string]bool{}}
	str := string(c.Text)
	accepted := false

	for _, historical := range []bool{true, false} {
		var u *UserID
		var err error
		s.call("NewUserID", func() { u, err = NewUserID(str, historical) })
		if err == nil && u != nil {
			accepted = true
			ctx.Class("user-id/accepted")
			s.call("UserID.accessors", func() { _ = u.String(); _ = u.Local(); _ = u.Domain() })
			s.call("SenderIDFromUserID", func() { sid := SenderIDFromUserID(*u); _ = sid.IsUserID(); _ = sid.ToUserID() })
		}
	}
	var r *RoomID
	var rerr error
	s.call("NewRoomID", func() { r, rerr = NewRoomID(str) })
	if rerr == nil && r != nil {
		accepted = true
		ctx.Class("room-id/accepted")
		s.call("RoomID.String", func() { _ = r.String() })
		s.call("RoomID.OpaqueID", func() { _ = r.OpaqueID() })
		// Domain() of a domain-less (room version 12) ID panics on purpose ("Called RoomID.Domain() on
		// domain-less room ID"): a documented caller contract of an identifier accessor, not an event
		// accessor the statement speaks of; the library itself never calls it for such IDs (the pre-v12
		// event parsers require the ":"). It is called only where it is defined.
		if strings.Contains(str, ":") {
			s.call("RoomID.Domain", func() { _ = r.Domain() })
		} else {
			ctx.Class("room-id/domainless:Domain-not-called")
		}
	}
	var valid bool
	s.call("ParseAndValidateServerName", func() { _, _, valid = ParseAndValidateServerName(ServerName(str)) })
	if valid {
		accepted = true
		ctx.Class("server-name/accepted")
	}
	s.call("splitServerName", func() { _, _ = splitServerName(ServerName(str)) })

	// Any string is a sender ID (the event parsers check it for user-ID versions only; the
	// pseudo-ID version accepts every string, including the empty one).
	sid := SenderID(str)
	s.call("SenderID.IsUserID", func() { _ = sid.IsUserID() })
	s.call("SenderID.IsPseudoID", func() { _ = sid.IsPseudoID() })
	s.call("SenderID.ToUserID", func() { _ = sid.ToUserID() })
	s.call("SenderID.ToPseudoID", func() { _ = sid.ToPseudoID() })
	s.call("SenderID.RawBytes", func() { _, _ = sid.RawBytes() })

	var b Base64Bytes
	var derr error
	s.call("Base64Bytes.Decode", func() { derr = b.Decode(str) })
	if derr == nil {
		accepted = true
		ctx.Class("base64/accepted")
		s.call("Base64Bytes.Encode", func() { _ = b.Encode(); _, _ = b.MarshalJSON(); _, _ = b.Value(); _, _ = b.MarshalYAML() })
	}
	var b2, b3 Base64Bytes
	s.call("Base64Bytes.UnmarshalJSON", func() {
		if b2.UnmarshalJSON([]byte(c.Text)) == nil {
			accepted = true
			ctx.Class("base64-json/accepted")
		}
	})
	s.call("Base64Bytes.Scan", func() { _ = b3.Scan(str); _ = b3.Scan([]byte(c.Text)); _ = b3.Scan(RawJSON(c.Text)); _ = b3.Scan(5) })
	s.call("Base64Bytes.UnmarshalYAML", func() {
		_ = b3.UnmarshalYAML(func(v interface{}) error { *(v.(*string)) = str; return nil })
	})
	var raw RawJSON
	s.call("RawJSON", func() {
		_ = raw.UnmarshalJSON([]byte(c.Text))
		_, _ = raw.MarshalJSON()
		var w struct {
			A RawJSON     `json:"a"`
			B Base64Bytes `json:"b"`
			T Timestamp   `json:"t"`
		}
		_ = json.Unmarshal([]byte(c.Text), &w)
		_ = w.T.Time()
	})
	var me MatrixError
	s.call("MatrixError", func() { _ = json.Unmarshal([]byte(c.Text), &me); _ = me.Error() })
	if accepted {
		ctx.NonTrivial()
	} else {
		ctx.Class("nothing-accepted")
	}
}

var c18IDHostile = []string{"", "@", "@:", "@a", "@:a", "@a:", "@a:b", "!", "!:", "!a", "!:x", "!a:", "!a:b", "!x", ":", "::", "@a:b:c", "@a:[::1]", "@a:[::1]:80", "@a:[", "@a:]", "@a:[]", "@a:b:",
	"@a:b:99999", "@a:b:-1", "@a:1.2.3.4", "@a:[1.2.3.4]", "@é:b", "@a:é", "@a\x00:b", "@a:b\x00", "@A:b", "@a b:c", "!" + strings.Repeat("B", 43), "!" + strings.Repeat("B", 42), "!" + strings.Repeat("B", 44),
	"!" + strings.Repeat("B", 42) + "+", "!" + strings.Repeat("B", 43) + ":x", "!" + strings.Repeat("a", 300) + ":x", "@" + strings.Repeat("a", 252) + ":x", "@" + strings.Repeat("a", 253) + ":x",
	"AAAA", "AAA", "AA", "A", "A=", "AA==", "A-_A", "A+/A", "A-/A", "!!!", strings.Repeat("A", 43), strings.Repeat("A", 44), `"AAAA"`, `"`, `"\ud800"`, `5`, `null`, `{"a":1,"b":"AAAA","t":-1}`,
	`{"t":18446744073709551615}`, `{"t":1e400}`, `{"errcode":5}`, `{"errcode":"M_X","error":"y"}`, "a.example", "a.example:8448", "[::1]", "[::1]:8448", "[::1", "::1", "1.2.3.4:", ":80", "a..b", "-", "a_b",
	"a.example:08448", "a.example:+80", "[::ffff:1.2.3.4]", "xn--nxasmq6b", strings.Repeat("a", 300)}

func c18GenID(t *rapid.T) c18IDCase {
	var s string
	switch rapid.IntRange(0, 4).Draw(t, "mode") {
	case 0:
		s = rapid.SampledFrom(c18IDHostile).Draw(t, "hostile")
	case 1, 2:
		s = rapid.SampledFrom(c18IDHostile).Draw(t, "hostile")
		n := rapid.IntRange(1, 2).Draw(t, "nmut")
		for i := 0; i < n; i++ {
			pos := rapid.IntRange(0, len(s)).Draw(t, "pos")
			ins := rapid.SampledFrom([]string{"@", "!", ":", "[", "]", ".", "-", "_", "+", "/", "=", "\x00", "é", "a", "0", " ", "\"", "\xff"}).Draw(t, "ins")
			switch rapid.IntRange(0, 2).Draw(t, "how") {
			case 0:
				s = s[:pos] + ins + s[pos:]
			case 1:
				if pos < len(s) {
					s = s[:pos] + s[pos+1:]
				}
			default:
				s = s[:pos]
			}
		}
	case 3:
		s = jgenString(t, "s")
	default:
		sigil := rapid.SampledFrom([]string{"@", "!", ""}).Draw(t, "sigil")
		s = sigil + jgenString(t, "local") + ":" + rapid.SampledFrom([]string{"a.example", "b.example:8448", "[::1]", "1.2.3.4", "", "é", "a b"}).Draw(t, "domain")
	}
	return c18IDCase{Text: vfBytes(s)}
}

func init() {
	vfRapid("C18/spec", "non-trivial = at least one parser (user ID, room ID, server name, base64, base64-in-JSON) accepted the text and the accessors of the accepted value ran; the SenderID methods run on every text (every string is a sender ID in the pseudo-ID room version).", 5000, 200000, 8, c18GenID, c18IDCheck)
}

func FuzzVF_C18_spec_ids(f *testing.F) {
	for _, s := range c18IDHostile {
		f.Add([]byte(s))
	}
	f.Fuzz(func(t *testing.T, data []byte) {
		if len(data) > 1<<16 {
			return
		}
		vfFuzzEval(t, "C18/spec", c18IDCase{Text: data}, c18IDCheck)
	})
}

// TestVF_C18_DumpCorpus writes the hostile constants as Go fuzz corpus files when VF_C18_DUMP names a directory.
func TestVF_C18_DumpCorpus(t *testing.T) {
	dir := os.Getenv("VF_C18_DUMP")
	if dir == "" {
		t.Skip("VF_C18_DUMP not set")
	}
	d := filepath.Join(dir, "FuzzVF_C18_spec_ids")
	if err := os.MkdirAll(d, 0o755); err != nil {
		t.Fatal(err)
	}
	for i, s := range c18IDHostile {
		body := fmt.Sprintf("go test fuzz v1\n[]byte(%q)\n", s)
		if err := os.WriteFile(filepath.Join(d, fmt.Sprintf("seed-%03d", i)), []byte(body), 0o644); err != nil {
			t.Fatal(err)
		}
	}
}
