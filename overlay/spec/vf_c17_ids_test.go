//go:build verif

package spec

import (
	"bytes"
	"encoding/json"
	"fmt"
	"net/netip"
	"strconv"
	"strings"
	"testing"

	"pgregory.net/rapid"
)

// C17 (a)+(b) — identifier grammars (user ID, room ID, server name) and the base64 codec.
//
// The oracle is a set of reference recognisers written from the specification grammar
// (appendices "Server name", "User identifiers", "Room IDs"), NOT from the library:
//
//	server_name = hostname [ ":" port ]          port = 1*5DIGIT, value <= 65535
//	hostname    = IPv4address / "[" IPv6address "]" / dns-name
//	dns-name    = 1*255( ALPHA / DIGIT / "-" / "." )      (IPv4address is a subset of dns-name)
//	IPv6address : decided by net/netip (no zone)
//	user_id     = "@" localpart ":" server_name, <= 255 bytes, localpart 1*[a-z0-9._=/-] ("+" since v1.8)
//	room_id     = "!" opaque ":" server_name, <= 255 bytes  |  "!" 43*43( ALPHA / DIGIT / "-" / "_" )
//
// A reference verdict is accept, reject or unjudged. "unjudged" marks the classes on which the
// specification is itself ambiguous (see c17Ref* below); they are generated, run (no panic is
// required) and counted in evidence, but no accept/reject demand is made.

type c17Verdict int

const (
	c17Reject c17Verdict = iota
	c17Accept
	c17Unjudged
)

type c17ServerRef struct {
	v    c17Verdict
	why  string // stable slug: reason for reject / unjudged
	host string
	port int // -1 = none
}

func c17IsDNSChar(b byte) bool {
	return b >= 'a' && b <= 'z' || b >= 'A' && b <= 'Z' || b >= '0' && b <= '9' || b == '-' || b == '.'
}

// c17RefPort judges the text after the ":".
func c17RefPort(p string) (v c17Verdict, why string, port int) {
	if p == "" {
		return c17Reject, "port-empty", 0
	}
	for i := 0; i < len(p); i++ {
		if p[i] < '0' || p[i] > '9' {
			return c17Reject, "port-not-digits", 0
		}
	}
	sig := strings.TrimLeft(p, "0")
	if len(sig) > 5 {
		return c17Reject, "port-out-of-range", 0
	}
	n := 0
	for i := 0; i < len(sig); i++ {
		n = n*10 + int(sig[i]-'0')
	}
	if n > 65535 {
		return c17Reject, "port-out-of-range", 0
	}
	if len(p) > 5 {
		return c17Unjudged, "port-more-than-5-digits", n
	}
	if len(p) > 1 && p[0] == '0' {
		return c17Unjudged, "port-leading-zeros", n
	}
	return c17Accept, "", n
}

func c17RefServer(s string) c17ServerRef {
	if s == "" {
		return c17ServerRef{v: c17Reject, why: "empty"}
	}
	var host, rest string
	unj := ""
	if s[0] == '[' {
		idx := strings.IndexByte(s, ']')
		if idx < 0 {
			return c17ServerRef{v: c17Reject, why: "unclosed-bracket"}
		}
		inner := s[1:idx]
		host, rest = s[:idx+1], s[idx+1:]
		addr, err := netip.ParseAddr(inner)
		switch {
		case err != nil:
			return c17ServerRef{v: c17Reject, why: "bad-ipv6"}
		case !addr.Is6():
			return c17ServerRef{v: c17Reject, why: "bracketed-non-ipv6"}
		case addr.Zone() != "":
			// the specification's IPv6address is 2*45( HEXDIG / ":" / "." ): a "%zone" is outside it
			return c17ServerRef{v: c17Reject, why: "ipv6-zone"}
		}
	} else {
		if strings.Count(s, ":") > 1 {
			// a host without brackets contains no ":" and there is at most one port
			if addr, err := netip.ParseAddr(s); err == nil && addr.Is6() {
				return c17ServerRef{v: c17Reject, why: "unbracketed-ipv6"}
			}
			if addr, err := netip.ParseAddr(s[:strings.LastIndexByte(s, ':')]); err == nil && addr.Is6() {
				return c17ServerRef{v: c17Reject, why: "unbracketed-ipv6"} // ... followed by ":port"
			}
			return c17ServerRef{v: c17Reject, why: "more-than-one-colon"}
		}
		idx := strings.IndexByte(s, ':')
		if idx < 0 {
			host, rest = s, ""
		} else {
			host, rest = s[:idx], s[idx:]
		}
		if host == "" {
			return c17ServerRef{v: c17Reject, why: "empty-host"}
		}
		for i := 0; i < len(host); i++ {
			if !c17IsDNSChar(host[i]) {
				return c17ServerRef{v: c17Reject, why: "bad-host-char"}
			}
		}
		if len(host) > 255 {
			unj = "host-longer-than-255"
		}
	}
	port := -1
	if rest != "" {
		if rest[0] != ':' {
			return c17ServerRef{v: c17Reject, why: "garbage-after-bracket"}
		}
		pv, why, n := c17RefPort(rest[1:])
		switch pv {
		case c17Reject:
			return c17ServerRef{v: c17Reject, why: why}
		case c17Unjudged:
			if unj == "" {
				unj = why
			}
		}
		port = n
	}
	if unj != "" {
		return c17ServerRef{v: c17Unjudged, why: unj, host: host, port: port}
	}
	return c17ServerRef{v: c17Accept, host: host, port: port}
}

type c17IDRef struct {
	v            c17Verdict
	why          string
	local        string
	domain       string
	domainless   bool
	domainCaused bool // the verdict is reject only because of the server-name part
}

func c17IsStrictLocalChar(b byte) bool {
	return b >= 'a' && b <= 'z' || b >= '0' && b <= '9' || b == '.' || b == '_' || b == '=' || b == '/' || b == '-'
}

func c17RefUserID(s string, historical bool) c17IDRef {
	if s == "" || s[0] != '@' {
		return c17IDRef{v: c17Reject, why: "no-sigil"}
	}
	idx := strings.IndexByte(s, ':')
	if idx < 0 {
		return c17IDRef{v: c17Reject, why: "no-colon"}
	}
	local, domain := s[1:idx], s[idx+1:]
	r := c17IDRef{local: local, domain: domain}
	if len(s) > 255 {
		r.v, r.why = c17Reject, "longer-than-255"
		return r
	}
	sr := c17RefServer(domain)
	// localpart class
	strict, plus := true, false
	for i := 0; i < len(local); i++ {
		if local[i] == '+' {
			plus = true
		} else if !c17IsStrictLocalChar(local[i]) {
			strict = false
		}
	}
	if !historical {
		if local == "" {
			r.v, r.why = c17Reject, "empty-localpart"
			return r
		}
		if !strict {
			r.v, r.why = c17Reject, "bad-localpart-char"
			return r
		}
	}
	if sr.v == c17Reject {
		r.v, r.why, r.domainCaused = c17Reject, sr.why, true
		return r
	}
	switch {
	case historical && (local == "" || !strict):
		// the historical grammar is "whatever was seen in the wild"; the current specification
		// tolerates even the empty localpart. Not judged.
		r.v, r.why = c17Unjudged, "historical-localpart"
	case !historical && plus:
		// "+" was added to the strict grammar in specification v1.8; the library cites v1.4.
		r.v, r.why = c17Unjudged, "plus-in-strict-localpart"
	case sr.v == c17Unjudged:
		r.v, r.why = c17Unjudged, sr.why
	default:
		r.v = c17Accept
	}
	return r
}

func c17IsURLSafeB64Char(b byte) bool {
	return b >= 'a' && b <= 'z' || b >= 'A' && b <= 'Z' || b >= '0' && b <= '9' || b == '-' || b == '_'
}

func c17RefRoomID(s string) c17IDRef {
	if s == "" || s[0] != '!' {
		return c17IDRef{v: c17Reject, why: "no-sigil"}
	}
	idx := strings.IndexByte(s, ':')
	if idx < 0 {
		// domainless form: exactly 43 URL-safe base64 characters
		body := s[1:]
		if len(body) != 43 {
			return c17IDRef{v: c17Reject, why: "domainless-not-43"}
		}
		for i := 0; i < len(body); i++ {
			if !c17IsURLSafeB64Char(body[i]) {
				return c17IDRef{v: c17Reject, why: "domainless-bad-char"}
			}
		}
		return c17IDRef{v: c17Accept, local: body, domainless: true}
	}
	local, domain := s[1:idx], s[idx+1:]
	r := c17IDRef{local: local, domain: domain}
	if local == "" {
		r.v, r.why = c17Reject, "empty-opaque-part"
		return r
	}
	if len(s) > 255 {
		r.v, r.why = c17Reject, "longer-than-255"
		return r
	}
	sr := c17RefServer(domain)
	if sr.v == c17Reject {
		r.v, r.why, r.domainCaused = c17Reject, sr.why, true
		return r
	}
	plain := true
	for i := 0; i < len(local); i++ {
		b := local[i]
		if !(c17IsURLSafeB64Char(b) || b == '.' || b == '=' || b == '/' || b == '+') {
			plain = false
		}
	}
	switch {
	case !plain:
		// which characters an opaque room-ID localpart may contain changed between versions of
		// the specification (NUL, control characters, non-ASCII): not judged.
		r.v, r.why = c17Unjudged, "opaque-part-characters"
	case sr.v == c17Unjudged:
		r.v, r.why = c17Unjudged, sr.why
	default:
		r.v = c17Accept
	}
	return r
}

// ---------------------------------------------------------------------------------------------
// Case + checks

type c17IDCase struct {
	Kind       string  `json:"kind"` // "server" | "user" | "room"
	S          vfBytes `json:"s"`
	Historical bool    `json:"historical,omitempty"` // NewUserID's allowHistoricalIDs
	Gen        string  `json:"gen"`                  // generator class (histogram + non-trivial rule only)
}

func c17NonTrivialGen(g string) bool {
	return g != "bytes" && g != "fuzz" && g != ""
}

func c17CheckID(ctx *vfCtx, c c17IDCase) {
	ctx.Class("gen/" + c.Gen)
	if c17NonTrivialGen(c.Gen) {
		ctx.NonTrivial()
	}
	switch c.Kind {
	case "server":
		c17CheckServer(ctx, c)
	case "user":
		c17CheckUser(ctx, c)
	case "room":
		c17CheckRoom(ctx, c)
	default:
		ctx.Unjudged("unknown kind")
	}
}

func c17CheckServer(ctx *vfCtx, c c17IDCase) {
	s := string(c.S)
	ref := c17RefServer(s)
	var host string
	var port int
	var ok bool
	if vfCatch(ctx, "C17/servername", func() { host, port, ok = ParseAndValidateServerName(ServerName(s)) }) {
		return
	}
	switch ref.v {
	case c17Unjudged:
		ctx.Class("ref/unjudged/" + ref.why)
		ctx.Unjudged("server name: " + ref.why)
	case c17Reject:
		ctx.Class("ref/reject/" + ref.why)
		if ok {
			ctx.Fail("C17/servername/invalid-accepted/"+ref.why, "ParseAndValidateServerName(%q) = (%q, %d, valid) but the grammar rejects it: %s", s, host, port, ref.why)
		}
	case c17Accept:
		ctx.Class("ref/accept")
		if !ok {
			ctx.Fail("C17/servername/valid-rejected", "ParseAndValidateServerName(%q) is invalid but the grammar accepts it (host %q port %d)", s, ref.host, ref.port)
			return
		}
		re := host
		if port != -1 {
			re += ":" + strconv.Itoa(port)
		}
		if host != ref.host || port != ref.port || re != s {
			ctx.Fail("C17/servername/parts", "ParseAndValidateServerName(%q) reports host %q port %d; expected host %q port %d", s, host, port, ref.host, ref.port)
		}
	}
}

// c17DomainSig picks the signature for "an identifier with a bad server name was accepted": if the
// stand-alone server-name parser accepts that server name too, the root cause is there.
func c17DomainSig(kind, domain, why string) string {
	if _, _, ok := ParseAndValidateServerName(ServerName(domain)); ok {
		return "C17/servername/invalid-accepted/" + why
	}
	return "C17/" + kind + "/invalid-accepted/domain-" + why
}

func c17CheckUser(ctx *vfCtx, c c17IDCase) {
	s := string(c.S)
	ref := c17RefUserID(s, c.Historical)
	mode := "strict"
	if c.Historical {
		mode = "historical"
	}
	ctx.Class("mode/" + mode)
	var u *UserID
	var err error
	if vfCatch(ctx, "C17/userid", func() { u, err = NewUserID(s, c.Historical) }) {
		return
	}
	if (u == nil) == (err == nil) {
		ctx.Fail("C17/userid/result-shape", "NewUserID(%q, %v) returned user %v together with error %v", s, c.Historical, u, err)
		return
	}
	// the convenience wrapper accepts exactly what NewUserID accepts under the same grammar (it panics
	// where NewUserID returns an error - its documented contract)
	{
		var pu UserID
		panicked := false
		func() {
			defer func() {
				if recover() != nil {
					panicked = true
				}
			}()
			pu = NewUserIDOrPanic(s, c.Historical)
		}()
		if panicked != (err != nil) {
			ctx.Fail("C17/userid/or-panic-wrapper-disagrees/"+mode, "NewUserID(%q, %v) error: %v; NewUserIDOrPanic(%q, %v) panicked: %v", s, c.Historical, err, s, c.Historical, panicked)
			return
		}
		if !panicked && u != nil && pu.String() != u.String() {
			ctx.Fail("C17/userid/or-panic-wrapper-disagrees/"+mode, "NewUserIDOrPanic(%q) gives %q, NewUserID %q", s, pu.String(), u.String())
			return
		}
	}
	switch ref.v {
	case c17Unjudged:
		ctx.Class("ref/unjudged/" + ref.why)
		ctx.Unjudged("user ID: " + ref.why)
	case c17Reject:
		ctx.Class("ref/reject/" + ref.why)
		if err == nil {
			sig := "C17/userid/invalid-accepted/" + ref.why
			if ref.domainCaused {
				sig = c17DomainSig("userid", ref.domain, ref.why)
			}
			ctx.Fail(sig, "NewUserID(%q, %v) accepted but the grammar rejects it: %s", s, c.Historical, ref.why)
		}
	case c17Accept:
		ctx.Class("ref/accept")
		if err != nil {
			ctx.Fail("C17/userid/valid-rejected/"+mode, "NewUserID(%q, %v) = %v but the grammar accepts it", s, c.Historical, err)
			return
		}
	}
	if err != nil {
		return
	}
	// every accepted identifier (judged or not) must report parts that re-concatenate to the input
	if vfCatch(ctx, "C17/userid", func() {
		re := "@" + u.Local() + ":" + string(u.Domain())
		if u.String() != s || re != s {
			ctx.Fail("C17/userid/parts", "NewUserID(%q) reports String()=%q local %q domain %q (re-concatenated %q)", s, u.String(), u.Local(), u.Domain(), re)
		} else if ref.v == c17Accept && (u.Local() != ref.local || string(u.Domain()) != ref.domain) {
			ctx.Fail("C17/userid/parts", "NewUserID(%q) splits into %q / %q, expected %q / %q", s, u.Local(), u.Domain(), ref.local, ref.domain)
		}
		// senderid.go: a sender ID made from an accepted user ID is that user ID
		sid := SenderIDFromUserID(*u)
		back := sid.ToUserID()
		if string(sid) != s || !sid.IsUserID() || sid.IsPseudoID() || back == nil || back.String() != s {
			ctx.Fail("C17/userid/senderid-roundtrip", "SenderIDFromUserID(%q) = %q, IsUserID %v, ToUserID %v", s, sid, sid.IsUserID(), back)
		}
	}) {
		return
	}
}

func c17CheckRoom(ctx *vfCtx, c c17IDCase) {
	s := string(c.S)
	ref := c17RefRoomID(s)
	var r *RoomID
	var err error
	if vfCatch(ctx, "C17/roomid", func() { r, err = NewRoomID(s) }) {
		return
	}
	if (r == nil) == (err == nil) {
		ctx.Fail("C17/roomid/result-shape", "NewRoomID(%q) returned room %v together with error %v", s, r, err)
		return
	}
	switch ref.v {
	case c17Unjudged:
		ctx.Class("ref/unjudged/" + ref.why)
		ctx.Unjudged("room ID: " + ref.why)
	case c17Reject:
		ctx.Class("ref/reject/" + ref.why)
		if err == nil {
			sig := "C17/roomid/invalid-accepted/" + ref.why
			if ref.domainCaused {
				sig = c17DomainSig("roomid", ref.domain, ref.why)
			}
			ctx.Fail(sig, "NewRoomID(%q) (length %d) accepted but the grammar rejects it: %s", s, len(s), ref.why)
		}
	case c17Accept:
		if ref.domainless {
			ctx.Class("ref/accept/domainless")
		} else {
			ctx.Class("ref/accept/with-domain")
		}
		if err != nil {
			ctx.Fail("C17/roomid/valid-rejected", "NewRoomID(%q) = %v but the grammar accepts it", s, err)
			return
		}
	}
	if err != nil {
		return
	}
	vfCatch(ctx, "C17/roomid", func() {
		domainless := !strings.Contains(s, ":")
		if r.isDomainless != domainless {
			ctx.Fail("C17/roomid/parts", "NewRoomID(%q) isDomainless=%v", s, r.isDomainless)
			return
		}
		re := "!" + r.OpaqueID()
		if !domainless {
			re += ":" + string(r.Domain())
		}
		if r.String() != s || re != s {
			ctx.Fail("C17/roomid/parts", "NewRoomID(%q) reports String()=%q opaque %q (re-concatenated %q)", s, r.String(), r.OpaqueID(), re)
		} else if ref.v == c17Accept && (r.OpaqueID() != ref.local || (!domainless && string(r.Domain()) != ref.domain)) {
			ctx.Fail("C17/roomid/parts", "NewRoomID(%q) splits into %q / %q, expected %q / %q", s, r.OpaqueID(), r.domain, ref.local, ref.domain)
		}
	})
}

// ---------------------------------------------------------------------------------------------
// Generators (all randomness from rapid)

const c17LabelChars = "abcdefghijklmnopqrstuvwxyz0123456789-"

func c17GenLabel(t *rapid.T, max int) string {
	n := rapid.IntRange(1, max).Draw(t, "labelLen")
	b := make([]byte, n)
	for i := range b {
		b[i] = c17LabelChars[rapid.IntRange(0, len(c17LabelChars)-1).Draw(t, "lc")]
	}
	if rapid.IntRange(0, 5).Draw(t, "upper") == 0 {
		return strings.ToUpper(string(b))
	}
	return string(b)
}

var c17IPv6Samples = []string{"::1", "::", "2001:db8::1", "1:2:3:4:5:6:7:8", "::ffff:1.2.3.4", "fe80::1", "2001:DB8::A", "0:0:0:0:0:0:0:1", "1::", "64:ff9b::192.0.2.33", "abcd:ef01:2345:6789:abcd:ef01:2345:6789"}

func c17GenIPv6(t *rapid.T) string {
	switch rapid.IntRange(0, 4).Draw(t, "v6kind") {
	case 0, 1:
		return rapid.SampledFrom(c17IPv6Samples).Draw(t, "v6")
	case 2:
		// IPv4-mapped / IPv4-embedded forms
		return rapid.SampledFrom([]string{"::ffff:", "::FFFF:", "0:0:0:0:0:ffff:", "::", "64:ff9b::"}).Draw(t, "v4prefix") + c17GenIPv4(t)
	}
	// up to 8 groups with one optional "::" gap
	n := rapid.IntRange(1, 8).Draw(t, "groups")
	parts := make([]string, n)
	for i := range parts {
		parts[i] = strconv.FormatUint(uint64(rapid.IntRange(0, 0xffff).Draw(t, "g")), 16)
	}
	if n == 8 {
		return strings.Join(parts, ":")
	}
	cut := rapid.IntRange(0, n).Draw(t, "gap")
	return strings.Join(parts[:cut], ":") + "::" + strings.Join(parts[cut:], ":")
}

func c17GenIPv4(t *rapid.T) string {
	p := make([]string, 4)
	for i := range p {
		p[i] = strconv.Itoa(rapid.IntRange(0, 255).Draw(t, "oct"))
	}
	return strings.Join(p, ".")
}

// c17GenHost draws a grammatical host and names its shape.
func c17GenHost(t *rapid.T) (string, string) {
	switch rapid.IntRange(0, 6).Draw(t, "hostKind") {
	case 0, 1:
		n := rapid.IntRange(1, 4).Draw(t, "labels")
		ls := make([]string, n)
		for i := range ls {
			ls[i] = c17GenLabel(t, 8)
		}
		return strings.Join(ls, "."), "dns"
	case 2:
		return c17GenLabel(t, 12), "single-label"
	case 3:
		return c17GenIPv4(t), "ipv4"
	case 4, 5:
		return "[" + c17GenIPv6(t) + "]", "ipv6"
	default:
		return rapid.SampledFrom([]string{"1.2.3.256", "localhost", "a", "-", ".", "a..b", "-a-", "1.2.3", "999.999.999.999", "01.2.3.4", "0x7f.1", "EXAMPLE.com"}).Draw(t, "odd"), "odd-dns"
	}
}

func c17GenPort(t *rapid.T) string {
	switch rapid.IntRange(0, 5).Draw(t, "portKind") {
	case 0, 1, 2:
		return ""
	case 3:
		return ":" + strconv.Itoa(rapid.SampledFrom([]int{0, 1, 80, 443, 8448, 9999, 10000, 65534, 65535}).Draw(t, "port"))
	default:
		return ":" + strconv.Itoa(rapid.IntRange(0, 65535).Draw(t, "port"))
	}
}

func c17GenServerPos(t *rapid.T) (string, string) {
	h, shape := c17GenHost(t)
	p := c17GenPort(t)
	if p != "" {
		shape += "+port"
	}
	return h + p, shape
}

const c17EditBytes = "abz09AZ-._:[]%/@!+=~ \x00\n\xc3\xa9\xff#$"

// c17ByteEdit applies one byte-level edit (delete / insert / substitute) at a drawn position.
func c17ByteEdit(t *rapid.T, s string) string {
	b := []byte(s)
	x := c17EditBytes[rapid.IntRange(0, len(c17EditBytes)-1).Draw(t, "editByte")]
	if len(b) == 0 {
		return string([]byte{x})
	}
	pos := rapid.IntRange(0, len(b)-1).Draw(t, "editPos")
	switch rapid.IntRange(0, 2).Draw(t, "editOp") {
	case 0:
		return string(append(b[:pos:pos], b[pos+1:]...))
	case 1:
		return string(append(b[:pos:pos], append([]byte{x}, b[pos:]...)...))
	default:
		b[pos] = x
		return string(b)
	}
}

var c17ServerEdits = []string{
	"port-65536", "port-big", "port-empty", "port-nondigit", "port-sign", "two-ports",
	"unbracketed-v6", "unclosed-bracket", "unopened-bracket", "bracketed-v4", "bracketed-garbage", "after-bracket-garbage",
	"bad-host-char", "empty-host", "empty",
	"port-leading-zeros", "port-long", "ipv6-zone", "host-255", "host-256", "byte-edit",
}

// c17GenServerNeg derives a near miss (or an unjudged shape) from a grammatical server name.
func c17GenServerNeg(t *rapid.T) (string, string) {
	h, _ := c17GenHost(t)
	edit := rapid.SampledFrom(c17ServerEdits).Draw(t, "serverEdit")
	switch edit {
	case "port-65536":
		return h + ":65536", edit
	case "port-big":
		return h + ":" + strconv.Itoa(rapid.IntRange(65536, 1000000).Draw(t, "bigPort")), edit
	case "port-empty":
		return h + ":", edit
	case "port-nondigit":
		return h + ":" + rapid.SampledFrom([]string{"8a", "a", "80 ", " 80", "8_0", "0x50", "８０", "80\n", "1e3"}).Draw(t, "p"), edit
	case "port-sign":
		return h + ":" + rapid.SampledFrom([]string{"+80", "-1", "-0", "+0"}).Draw(t, "p"), edit
	case "two-ports":
		return h + ":80:80", edit
	case "unbracketed-v6":
		return c17GenIPv6(t) + c17GenPort(t), edit
	case "unclosed-bracket":
		return "[" + c17GenIPv6(t) + c17GenPort(t), edit
	case "unopened-bracket":
		return c17GenIPv6(t) + "]" + c17GenPort(t), edit
	case "bracketed-v4":
		return "[" + c17GenIPv4(t) + "]" + c17GenPort(t), edit
	case "bracketed-garbage":
		return "[" + rapid.SampledFrom([]string{"", ":", "g::1", "1:2:3:4:5:6:7:8:9", "::1::", "12345::1", "example.com", ":::", "1:2:3:4:5:6:7", "::1 ", "[::1]",
			// zoned (scoped) addresses are not server names
			"fe80::1%eth0", "::1%1", "fe80::1%25eth0", "::1%a b", "::1%/../x", "::%"}).Draw(t, "g") + "]" + c17GenPort(t), edit
	case "after-bracket-garbage":
		return "[" + c17GenIPv6(t) + "]" + rapid.SampledFrom([]string{"x", "80", "]", ".", "[", " :80"}).Draw(t, "g"), edit
	case "bad-host-char":
		bad := rapid.SampledFrom([]string{"_", "~", "!", "@", "#", "$", "%", "^", "&", "*", "(", ")", "+", "=", ",", "/", "\\", " ", "\"", "'", "<", ">", "?", "\x00", "\n", "\t", "é", "\xff", " ", "｡"}).Draw(t, "bad")
		l := c17GenLabel(t, 6)
		pos := rapid.IntRange(0, len(l)).Draw(t, "badPos")
		return l[:pos] + bad + l[pos:] + ".example" + c17GenPort(t), edit
	case "empty-host":
		return ":" + strconv.Itoa(rapid.IntRange(0, 65535).Draw(t, "port")), edit
	case "empty":
		return "", edit
	case "port-leading-zeros":
		return h + ":0" + strconv.Itoa(rapid.IntRange(0, 6553).Draw(t, "port")), edit
	case "port-long":
		return h + ":" + strings.Repeat("0", rapid.IntRange(1, 20).Draw(t, "zeros")) + strconv.Itoa(rapid.IntRange(10000, 65535).Draw(t, "port")), edit
	case "ipv6-zone":
		return "[fe80::" + strconv.FormatUint(uint64(rapid.IntRange(1, 0xffff).Draw(t, "g")), 16) + "%" + rapid.SampledFrom([]string{"eth0", "1", "lo"}).Draw(t, "zone") + "]" + c17GenPort(t), edit
	case "host-255":
		return strings.Repeat("a", 255) + c17GenPort(t), edit
	case "host-256":
		return strings.Repeat("a", 256) + c17GenPort(t), edit
	default:
		s, _ := c17GenServerPos(t)
		return c17ByteEdit(t, s), "byte-edit"
	}
}

func c17GenBytes(t *rapid.T) string {
	if rapid.Bool().Draw(t, "ascii") {
		return rapid.StringOfN(rapid.RuneFrom([]rune("ab0.-:[]@!_ \x00é")), 0, 24, -1).Draw(t, "str")
	}
	return string(rapid.SliceOfN(rapid.Byte(), 0, 24).Draw(t, "raw"))
}

func c17GenServerCase(t *rapid.T) c17IDCase {
	switch rapid.IntRange(0, 9).Draw(t, "class") {
	case 0, 1, 2, 3:
		s, shape := c17GenServerPos(t)
		return c17IDCase{Kind: "server", S: vfBytes(s), Gen: "positive/" + shape}
	case 9:
		return c17IDCase{Kind: "server", S: vfBytes(c17GenBytes(t)), Gen: "bytes"}
	default:
		s, edit := c17GenServerNeg(t)
		return c17IDCase{Kind: "server", S: vfBytes(s), Gen: "edit/" + edit}
	}
}

const c17StrictLocalChars = "abcdefghijklmnopqrstuvwxyz0123456789._=/-"

func c17GenStrictLocal(t *rapid.T, min, max int) string {
	n := rapid.IntRange(min, max).Draw(t, "localLen")
	b := make([]byte, n)
	for i := range b {
		b[i] = c17StrictLocalChars[rapid.IntRange(0, len(c17StrictLocalChars)-1).Draw(t, "lch")]
	}
	return string(b)
}

// c17PadTo returns sigil+local+":"+server with local padded by 'a' so that the whole is n bytes.
func c17PadTo(sigil, local, server string, n int) string {
	need := n - (1 + len(local) + 1 + len(server))
	if need > 0 {
		local += strings.Repeat("a", need)
	}
	return sigil + local + ":" + server
}

var c17UserEdits = []string{
	"no-sigil", "wrong-sigil", "no-colon", "empty-local", "upper-local", "plus-local", "nonascii-local", "punct-local",
	"colon-local", "len-254", "len-255", "len-256", "len-300", "server-edit", "byte-edit", "empty-domain",
	"wide-255", "wide-256", "wide-257", "wide-300",
}

// c17PadWide pads the localpart with multi-byte characters up to n BYTES: far fewer than n code points.
func c17PadWide(sigil, local, server, wide string, n int) string {
	need := n - (1 + len(local) + 1 + len(server))
	for need >= len(wide) {
		local += wide
		need -= len(wide)
	}
	if need > 0 {
		local += strings.Repeat("a", need)
	}
	return sigil + local + ":" + server
}

func c17GenUserCase(t *rapid.T) c17IDCase {
	hist := rapid.Bool().Draw(t, "historical")
	c := c17IDCase{Kind: "user", Historical: hist}
	cls := rapid.IntRange(0, 9).Draw(t, "class")
	if cls == 9 {
		c.S, c.Gen = vfBytes("@"+c17GenBytes(t)), "bytes"
		if rapid.Bool().Draw(t, "nosigil") {
			c.S = vfBytes(c17GenBytes(t))
		}
		return c
	}
	server, shape := c17GenServerPos(t)
	local := c17GenStrictLocal(t, 1, 12)
	if cls <= 3 {
		c.S, c.Gen = vfBytes("@"+local+":"+server), "positive/"+shape
		return c
	}
	edit := rapid.SampledFrom(c17UserEdits).Draw(t, "userEdit")
	c.Gen = "edit/" + edit
	ins := func(x string) string {
		pos := rapid.IntRange(0, len(local)).Draw(t, "insPos")
		return local[:pos] + x + local[pos:]
	}
	var s string
	switch edit {
	case "no-sigil":
		s = local + ":" + server
	case "wrong-sigil":
		s = rapid.SampledFrom([]string{"!", "#", "$", "+", " @", "＠", "@@"}).Draw(t, "sigil") + local + ":" + server
	case "no-colon":
		s = "@" + local + rapid.SampledFrom([]string{"", ".", ";", "："}).Draw(t, "sep") + strings.ReplaceAll(strings.ReplaceAll(server, ":", ""), "[", "")
	case "empty-local":
		s = "@:" + server
	case "upper-local":
		s = "@" + ins(rapid.SampledFrom([]string{"A", "Z", "Q"}).Draw(t, "up")) + ":" + server
	case "plus-local":
		s = "@" + ins("+") + ":" + server
	case "nonascii-local":
		s = "@" + ins(rapid.SampledFrom([]string{"é", "😀", "\xff", " ", "ß"}).Draw(t, "na")) + ":" + server
	case "punct-local":
		s = "@" + ins(rapid.SampledFrom([]string{" ", "!", "\"", "#", "$", "%", "&", "'", "(", ")", "*", ",", ";", "<", ">", "?", "@", "[", "\\", "]", "^", "`", "{", "|", "}", "~", "\x00", "\n", "\x7f"}).Draw(t, "pu")) + ":" + server
	case "colon-local":
		s = "@" + local + ":" + c17GenStrictLocal(t, 1, 4) + ":" + server
	case "len-254", "len-255", "len-256", "len-300":
		n, _ := strconv.Atoi(edit[4:])
		s = c17PadTo("@", local, server, n)
	case "wide-255", "wide-256", "wide-257", "wide-300":
		// the limit is in bytes; these hold at most half as many code points
		n, _ := strconv.Atoi(edit[5:])
		s = c17PadWide("@", local, server, rapid.SampledFrom([]string{"é", "é", "€", "😀"}).Draw(t, "wide"), n)
	case "server-edit":
		bad, e := c17GenServerNeg(t)
		s, c.Gen = "@"+local+":"+bad, "edit/server/"+e
	case "empty-domain":
		s = "@" + local + ":"
	default:
		s = c17ByteEdit(t, "@"+local+":"+server)
	}
	c.S = vfBytes(s)
	return c
}

const c17URLSafe = "ABCDEFGHIJKLMNOPQRSTUVWXYZabcdefghijklmnopqrstuvwxyz0123456789-_"

func c17GenURLSafe(t *rapid.T, n int) string {
	b := make([]byte, n)
	for i := range b {
		b[i] = c17URLSafe[rapid.IntRange(0, 63).Draw(t, "b64c")]
	}
	return string(b)
}

var c17RoomEdits = []string{
	"no-sigil", "wrong-sigil", "empty-opaque", "short-no-colon", "domainless-42", "domainless-44", "domainless-badchar",
	"domainless-std-alphabet", "len-254", "len-255", "len-256", "len-300", "opaque-weird", "server-edit", "byte-edit",
	"byte-edit-domainless", "empty-domain", "domainless-plus-domain",
}

func c17GenRoomCase(t *rapid.T) c17IDCase {
	c := c17IDCase{Kind: "room"}
	cls := rapid.IntRange(0, 9).Draw(t, "class")
	if cls == 9 {
		c.S, c.Gen = vfBytes("!"+c17GenBytes(t)), "bytes"
		if rapid.Bool().Draw(t, "nosigil") {
			c.S = vfBytes(c17GenBytes(t))
		}
		return c
	}
	if cls == 0 || cls == 1 {
		c.S, c.Gen = vfBytes("!"+c17GenURLSafe(t, 43)), "positive/domainless"
		return c
	}
	server, shape := c17GenServerPos(t)
	opaque := c17GenURLSafe(t, rapid.IntRange(1, 20).Draw(t, "opaqueLen"))
	if cls <= 4 {
		c.S, c.Gen = vfBytes("!"+opaque+":"+server), "positive/"+shape
		return c
	}
	edit := rapid.SampledFrom(c17RoomEdits).Draw(t, "roomEdit")
	c.Gen = "edit/" + edit
	var s string
	switch edit {
	case "no-sigil":
		s = opaque + ":" + server
	case "wrong-sigil":
		s = rapid.SampledFrom([]string{"@", "#", "$", "+", " !", "！", "!!"}).Draw(t, "sigil") + opaque + ":" + server
	case "empty-opaque":
		s = "!:" + server
	case "short-no-colon":
		s = "!" + opaque
	case "domainless-42":
		s = "!" + c17GenURLSafe(t, 42)
	case "domainless-44":
		s = "!" + c17GenURLSafe(t, 44)
	case "domainless-badchar":
		b := []byte(c17GenURLSafe(t, 43))
		bad := rapid.SampledFrom([]string{"+", "/", "=", ".", " ", "\x00", "\n", "~", "$", "!"}).Draw(t, "bad")
		pos := rapid.IntRange(0, 42).Draw(t, "pos")
		b[pos] = bad[0]
		s = "!" + string(b)
	case "domainless-std-alphabet":
		b := []byte(c17GenURLSafe(t, 43))
		s = "!" + strings.NewReplacer("-", "+", "_", "/").Replace(string(b))
		if !strings.ContainsAny(s, "+/") {
			b[rapid.IntRange(0, 42).Draw(t, "pos")] = '+'
			s = "!" + string(b)
		}
	case "len-254", "len-255", "len-256", "len-300":
		n, _ := strconv.Atoi(edit[4:])
		s = c17PadTo("!", opaque, server, n)
	case "opaque-weird":
		pos := rapid.IntRange(0, len(opaque)).Draw(t, "pos")
		s = "!" + opaque[:pos] + rapid.SampledFrom([]string{"\x00", "é", "😀", " ", "\n", "\xff", "!", "@", "\x7f", "퟿"}).Draw(t, "w") + opaque[pos:] + ":" + server
	case "server-edit":
		bad, e := c17GenServerNeg(t)
		s, c.Gen = "!"+opaque+":"+bad, "edit/server/"+e
	case "empty-domain":
		s = "!" + opaque + ":"
	case "domainless-plus-domain":
		s = "!" + c17GenURLSafe(t, 43) + ":" + server
	case "byte-edit-domainless":
		s = c17ByteEdit(t, "!"+c17GenURLSafe(t, 43))
	default:
		s = c17ByteEdit(t, "!"+opaque+":"+server)
	}
	c.S = vfBytes(s)
	return c
}

// ---------------------------------------------------------------------------------------------
// base64

const c17StdAlphabet = "ABCDEFGHIJKLMNOPQRSTUVWXYZabcdefghijklmnopqrstuvwxyz0123456789+/"

// c17RefEncode is an independent unpadded base64 encoder over the given 64-symbol alphabet.
func c17RefEncode(b []byte, alpha string) string {
	var out []byte
	for i := 0; i < len(b); i += 3 {
		var v uint32
		n := len(b) - i
		if n > 3 {
			n = 3
		}
		for j := 0; j < 3; j++ {
			v <<= 8
			if j < n {
				v |= uint32(b[i+j])
			}
		}
		out = append(out, alpha[v>>18&63], alpha[v>>12&63])
		if n > 1 {
			out = append(out, alpha[v>>6&63])
		}
		if n > 2 {
			out = append(out, alpha[v&63])
		}
	}
	return string(out)
}

// c17RefDecodeStrict decodes a canonical unpadded text over alpha: only alphabet symbols, length
// not 1 mod 4, unused trailing bits zero. ok=false for anything else.
func c17RefDecodeStrict(s, alpha string) ([]byte, bool) {
	if len(s)%4 == 1 {
		return nil, false
	}
	var out []byte
	var acc uint32
	bits := 0
	for i := 0; i < len(s); i++ {
		k := strings.IndexByte(alpha, s[i])
		if k < 0 {
			return nil, false
		}
		acc = acc<<6 | uint32(k)
		bits += 6
		if bits >= 8 {
			bits -= 8
			out = append(out, byte(acc>>uint(bits)))
			acc &= 1<<uint(bits) - 1
		}
	}
	if acc != 0 {
		return nil, false
	}
	return out, true
}

type c17B64Case struct {
	Mode string  `json:"mode"` // "value": Raw is the byte value; "text": Text is an input to Decode
	Raw  vfBytes `json:"raw,omitempty"`
	Text vfBytes `json:"text,omitempty"`
	Gen  string  `json:"gen"`
}

func c17Decode(ctx *vfCtx, s string) (out Base64Bytes, err error, panicked bool) {
	panicked = vfCatch(ctx, "C17/base64", func() { err = out.Decode(s) })
	return
}

func c17CheckB64(ctx *vfCtx, c c17B64Case) {
	ctx.Class("gen/" + c.Gen)
	if c.Mode == "value" {
		c17CheckB64Value(ctx, c.Raw)
		return
	}
	c17CheckB64Text(ctx, string(c.Text))
}

func c17CheckB64Value(ctx *vfCtx, raw []byte) {
	std, url := c17RefEncode(raw, c17StdAlphabet), c17RefEncode(raw, c17URLSafe)
	if len(raw) > 0 {
		ctx.NonTrivial()
	}
	if std != url {
		ctx.Class("value/alphabets-differ")
	} else {
		ctx.Class("value/alphabets-coincide")
	}
	for _, in := range []struct{ name, text string }{{"standard", std}, {"url-safe", url}} {
		d, err, p := c17Decode(ctx, in.text)
		if p {
			return
		}
		if err != nil || !bytes.Equal(d, raw) {
			ctx.Fail("C17/base64/decode-"+in.name, "Decode(%q) (%s alphabet encoding of %x) = %x, %v", in.text, in.name, raw, []byte(d), err)
		}
		// JSON form
		var j Base64Bytes
		var jerr error
		if vfCatch(ctx, "C17/base64", func() { jerr = json.Unmarshal([]byte(`"`+in.text+`"`), &j) }) {
			return
		}
		if jerr != nil || !bytes.Equal(j, raw) {
			ctx.Fail("C17/base64/json-decode-"+in.name, "json.Unmarshal(%q) = %x, %v; expected %x", `"`+in.text+`"`, []byte(j), jerr, raw)
		}
		// the same JSON string in other spellings: "\/" for the solidus of the standard alphabet
		// (what several encoders emit by default) and a \uXXXX escape for one character
		var spellings []string
		if strings.Contains(in.text, "/") {
			spellings = append(spellings, strings.ReplaceAll(in.text, "/", `\/`))
		}
		if len(in.text) > 0 {
			k := len(raw) % len(in.text)
			spellings = append(spellings, in.text[:k]+fmt.Sprintf(`\u%04x`, in.text[k])+in.text[k+1:])
		}
		for _, sp := range spellings {
			ctx.Class("value/json-string-with-escapes")
			var je Base64Bytes
			if vfCatch(ctx, "C17/base64", func() { jerr = json.Unmarshal([]byte(`"`+sp+`"`), &je) }) {
				return
			}
			if jerr != nil || !bytes.Equal(je, raw) {
				ctx.Fail("C17/base64/json-decode-escaped-"+in.name, "json.Unmarshal(%q) = %x, %v; the JSON string spells %q, expected %x", `"`+sp+`"`, []byte(je), jerr, in.text, raw)
				break
			}
		}
	}
	// a destination that already holds a value (Scan / UnmarshalJSON loops decode into one variable):
	// the result is the new value, and a copy of the previous one kept by the caller is untouched
	for _, prevLen := range []int{len(raw) + 7, len(raw), len(raw) + 1, 64} {
		prev := bytes.Repeat([]byte{0xA5}, prevLen)
		var dst Base64Bytes
		var e1, e2 error
		var kept Base64Bytes
		if vfCatch(ctx, "C17/base64", func() {
			e1 = dst.Decode(c17RefEncode(prev, c17StdAlphabet))
			kept = dst
			e2 = dst.Decode(std)
		}) {
			return
		}
		if e1 != nil || e2 != nil || !bytes.Equal(dst, raw) {
			ctx.Fail("C17/base64/decode-into-used-destination", "Decode(%q) into a destination holding %d bytes = %x (%v, %v), expected %x", std, prevLen, []byte(dst), e1, e2, raw)
			break
		}
		if !bytes.Equal(kept, prev) {
			ctx.Fail("C17/base64/decode-overwrites-previous-value", "after decoding %q into the same variable, the slice obtained from the previous decode changed from %x to %x", std, prev, []byte(kept))
			break
		}
	}
	var enc string
	if vfCatch(ctx, "C17/base64", func() { enc = Base64Bytes(raw).Encode() }) {
		return
	}
	if enc != std && enc != url {
		ctx.Fail("C17/base64/encode", "Encode(%x) = %q, expected the unpadded encoding %q (or %q)", raw, enc, std, url)
	}
	d, err, p := c17Decode(ctx, enc)
	if p {
		return
	}
	if err != nil || !bytes.Equal(d, raw) {
		ctx.Fail("C17/base64/roundtrip", "Decode(Encode(%x)) = %x, %v", raw, []byte(d), err)
	}
	// JSON marshalling round trip, as a value and inside a map (value receiver)
	var js []byte
	var jerr error
	if vfCatch(ctx, "C17/base64", func() { js, jerr = json.Marshal(map[string]Base64Bytes{"k": Base64Bytes(raw)}) }) {
		return
	}
	var back map[string]Base64Bytes
	if jerr == nil {
		if vfCatch(ctx, "C17/base64", func() { jerr = json.Unmarshal(js, &back) }) {
			return
		}
	}
	want := `{"k":"` + enc + `"}`
	if jerr != nil || !bytes.Equal(back["k"], raw) || string(js) != want {
		ctx.Fail("C17/base64/json-roundtrip", "JSON round trip of %x: marshalled %q (expected %q), back %x, err %v", raw, js, want, []byte(back["k"]), jerr)
	}
}

func c17CheckB64Text(ctx *vfCtx, s string) {
	vs, okStd := c17RefDecodeStrict(s, c17StdAlphabet)
	vu, okURL := c17RefDecodeStrict(s, c17URLSafe)
	d, err, p := c17Decode(ctx, s)
	if p {
		return
	}
	switch {
	case okStd || okURL:
		ctx.NonTrivial()
		want := vs
		cls := "standard"
		if !okStd {
			want, cls = vu, "url-safe"
		} else if okURL {
			cls = "both"
		}
		ctx.Class("text/canonical/" + cls)
		if err != nil || !bytes.Equal(d, want) {
			ctx.Fail("C17/base64/decode-"+cls, "Decode(%q) = %x, %v; the canonical %s text denotes %x", s, []byte(d), err, cls, want)
			return
		}
		var enc string
		if vfCatch(ctx, "C17/base64", func() { enc = d.Encode() }) {
			return
		}
		if okStd && enc != s {
			ctx.Fail("C17/base64/reencode", "Encode(Decode(%q)) = %q", s, enc)
		}
	default:
		ctx.Class("text/non-canonical")
		ctx.Unjudged("base64 text outside the two canonical unpadded alphabets (padding, mixed alphabets, stray bits, other bytes): acceptance is not judged")
	}
	if err != nil {
		ctx.Class("text/decode-error")
		return
	}
	// whatever was accepted: Encode(Decode(s)) is canonical and denotes the same value
	var enc string
	if vfCatch(ctx, "C17/base64", func() { enc = d.Encode() }) {
		return
	}
	v2, ok2 := c17RefDecodeStrict(enc, c17StdAlphabet)
	if !ok2 {
		v2, ok2 = c17RefDecodeStrict(enc, c17URLSafe)
	}
	if !ok2 || !bytes.Equal(v2, d) {
		ctx.Fail("C17/base64/reencode-not-canonical", "Decode(%q) = %x but Encode gives %q which is not a canonical encoding of it", s, []byte(d), enc)
		return
	}
	d2, err2, p2 := c17Decode(ctx, enc)
	if p2 {
		return
	}
	if err2 != nil || !bytes.Equal(d2, d) {
		ctx.Fail("C17/base64/roundtrip", "Decode(Encode(Decode(%q))) = %x, %v; first decode gave %x", s, []byte(d2), err2, []byte(d))
	}
}

func c17GenB64Case(t *rapid.T) c17B64Case {
	cls := rapid.IntRange(0, 9).Draw(t, "class")
	genRaw := func() []byte {
		switch rapid.IntRange(0, 3).Draw(t, "rawKind") {
		case 0:
			// bytes that force the distinguishing symbols (62, 63) into the text
			n := rapid.IntRange(1, 12).Draw(t, "n")
			b := make([]byte, n)
			for i := range b {
				b[i] = rapid.SampledFrom([]byte{0xff, 0xfb, 0xfe, 0xef, 0xbf, 0x3e, 0x3f, 0xf8, 0x00}).Draw(t, "hb")
			}
			return b
		case 1:
			return rapid.SliceOfN(rapid.Byte(), 32, 32).Draw(t, "raw32")
		default:
			return rapid.SliceOfN(rapid.Byte(), 0, 70).Draw(t, "raw")
		}
	}
	if cls <= 4 {
		return c17B64Case{Mode: "value", Raw: genRaw(), Gen: "value"}
	}
	raw := genRaw()
	alpha := c17StdAlphabet
	if rapid.Bool().Draw(t, "url") {
		alpha = c17URLSafe
	}
	text := c17RefEncode(raw, alpha)
	switch cls {
	case 5:
		return c17B64Case{Mode: "text", Text: vfBytes(text), Gen: "text/canonical"}
	case 6:
		pad := rapid.SampledFrom([]string{"=", "==", "===", "A=", "\n", "\r\n", " "}).Draw(t, "pad")
		return c17B64Case{Mode: "text", Text: vfBytes(text + pad), Gen: "text/padding-or-space"}
	case 7:
		// mixed alphabets / stray trailing bits / illegal symbol
		b := []byte(text)
		if len(b) == 0 {
			b = []byte("A")
		}
		pos := rapid.IntRange(0, len(b)-1).Draw(t, "pos")
		b[pos] = rapid.SampledFrom([]byte("+/-_ABab01=.~\x00\xff")).Draw(t, "sym")
		return c17B64Case{Mode: "text", Text: vfBytes(b), Gen: "text/one-symbol-substituted"}
	case 8:
		return c17B64Case{Mode: "text", Text: vfBytes(c17ByteEdit(t, text)), Gen: "text/byte-edit"}
	default:
		return c17B64Case{Mode: "text", Text: vfBytes(rapid.StringOfN(rapid.RuneFrom([]rune(c17StdAlphabet+"-_=")), 0, 12, -1).Draw(t, "alnum")), Gen: "text/alphabet-soup"}
	}
}

// c17EnumCodePoints: every Unicode scalar value of the Basic Multilingual Plane (thorough: of every
// plane; quick: a stride through the astral planes) substituted for one character of a valid server
// name, user ID (both grammars) and room ID - in the host, the localpart and the opaque part. The
// reference recognisers decide; what matters is that no character outside the ASCII classes (case
// folding look-alikes such as U+212A KELVIN SIGN or U+0130, full-width digits, other scripts' digits)
// is taken for a letter or digit of the grammar.
func c17EnumCodePoints(size, shard, nshards int, emit func(c17IDCase)) {
	idx := 0
	one := func(r rune) {
		idx++
		if (idx-1)%nshards != shard {
			return
		}
		c := string(r)
		emit(c17IDCase{Kind: "server", S: vfBytes(c + "de.example"), Gen: "codepoint/host-first"})
		emit(c17IDCase{Kind: "server", S: vfBytes("ab" + c + ".example:8448"), Gen: "codepoint/host-inner"})
		emit(c17IDCase{Kind: "server", S: vfBytes("example.org:8" + c + "48"), Gen: "codepoint/port"})
		emit(c17IDCase{Kind: "user", S: vfBytes("@a" + c + "b:example.org"), Gen: "codepoint/localpart"})
		emit(c17IDCase{Kind: "user", S: vfBytes("@a" + c + "b:example.org"), Historical: true, Gen: "codepoint/localpart-historical"})
		emit(c17IDCase{Kind: "user", S: vfBytes("@ab:ex" + c + "mple.org"), Gen: "codepoint/user-domain"})
		emit(c17IDCase{Kind: "room", S: vfBytes("!a" + c + "b:example.org"), Gen: "codepoint/room-opaque"})
		emit(c17IDCase{Kind: "room", S: vfBytes("!ab:ex" + c + "mple.org"), Gen: "codepoint/room-domain"})
		emit(c17IDCase{Kind: "room", S: vfBytes("!" + c + strings.Repeat("A", 42)), Gen: "codepoint/room-domainless"})
	}
	for r := rune(0); r <= 0xffff; r++ {
		if r >= 0xd800 && r <= 0xdfff {
			continue
		}
		one(r)
	}
	step := rune(0x101)
	if size > 1 {
		step = 1
	}
	for r := rune(0x10000); r <= 0x10ffff; r += step {
		one(r)
	}
}

func init() {
	rule := "non-trivial = the string was produced from the grammar (a valid identifier), or differs from a valid identifier by one edit (one part dropped/emptied/replaced, one byte deleted/inserted/substituted, port moved across 65535), or sits on a length boundary (254/255/256, 42/43/44); arbitrary byte strings are judged but not counted. base64: a non-empty byte value, or a canonical unpadded text. distinct = distinct Case JSON."
	vfRapid("C17/servername", rule, 15000, 350000, 8, c17GenServerCase, c17CheckID)
	vfRapid("C17/userid", rule, 15000, 350000, 8, c17GenUserCase, c17CheckID)
	vfRapid("C17/roomid", rule, 15000, 350000, 8, c17GenRoomCase, c17CheckID)
	vfRapid("C17/base64", rule, 8000, 200000, 8, c17GenB64Case, c17CheckB64)
	vfEnum("C17/codepoint-sweep", "every case: one character of a valid identifier is replaced by a Unicode scalar value (whole BMP, astral planes by stride / completely in the thorough tier) in host, port, localpart, opaque part; distinct = distinct Case JSON", 1, 2, 16, c17EnumCodePoints, c17CheckID)
}

// FuzzVF_C17_ids is the coverage-guided byte-level target for all four grammars (thorough tier):
// sel chooses the recogniser, data is the candidate string.
func FuzzVF_C17_ids(f *testing.F) {
	seeds := []string{"example.com", "example.com:8448", "[::1]:8448", "[1.2.3.4]", "1.2.3.4:65535", "h:65536", "h:080", "[fe80::1%eth0]",
		"@alice:example.com", "@:bb", "@a+b:example.com", "@A:example.com", "!abc:example.com", "!:example.com",
		"!" + strings.Repeat("A", 43), "!" + strings.Repeat("a", 300) + ":x", "@" + strings.Repeat("a", 252) + ":x",
		"AAAA", "-_-_", "+/+/", "AB", "AA==", "A", "A\nAAA"}
	for i, s := range seeds {
		f.Add([]byte(s), uint8(i%5))
		f.Add([]byte(s), uint8((i+1)%5))
	}
	f.Fuzz(func(t *testing.T, data []byte, sel uint8) {
		switch sel % 5 {
		case 0:
			vfFuzzEval(t, "C17/servername", c17IDCase{Kind: "server", S: data, Gen: "fuzz"}, c17CheckID)
		case 1:
			vfFuzzEval(t, "C17/userid", c17IDCase{Kind: "user", S: data, Gen: "fuzz"}, c17CheckID)
		case 2:
			vfFuzzEval(t, "C17/userid", c17IDCase{Kind: "user", S: data, Historical: true, Gen: "fuzz"}, c17CheckID)
		case 3:
			vfFuzzEval(t, "C17/roomid", c17IDCase{Kind: "room", S: data, Gen: "fuzz"}, c17CheckID)
		default:
			vfFuzzEval(t, "C17/base64", c17B64Case{Mode: "text", Text: data, Gen: "fuzz"}, c17CheckB64)
			if len(data) <= 96 {
				vfFuzzEval(t, "C17/base64", c17B64Case{Mode: "value", Raw: data, Gen: "fuzz"}, c17CheckB64)
			}
		}
	})
}
