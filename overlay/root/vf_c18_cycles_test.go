//go:build verif

package gomatrixserverlib

// C18 — reference cycles.  In room versions 1 and 2 the event ID is chosen by the sender, so
// auth_events / prev_events of accepted events can cite each other in a cycle (or cite themselves).
// Every graph walker of the library must come back: the resolvers of all three algorithms (a room
// version 2 room runs state resolution v2 with sender-chosen IDs), the topological orderings, the
// auth-chain walkers and the federation response checks.  A walk without a visited set ends in a
// stack overflow, which recover() cannot see: this sub-check relies on the driver's fatal-crash
// watch (the case under evaluation is on disk when the process dies).

import (
	"context"
	"fmt"

	"pgregory.net/rapid"
)

type c18CycleEv struct {
	Role string `json:"role"` // pl | jr | member | topic
	Auth []int  `json:"auth"` // indices of the other cycle events cited in auth_events (may include itself)
	Prev []int  `json:"prev"` // ... in prev_events
	Lvl  int64  `json:"lvl"`
}

type c18CycleCase struct {
	Version string       `json:"version"`
	Events  []c18CycleEv `json:"events"`
	Split   []int        `json:"split"` // which state set (0/1/2 = both) holds event i
}

func c18GenCycle(t *rapid.T) c18CycleCase {
	c := c18CycleCase{Version: rapid.SampledFrom([]string{"1", "2", "2", "2"}).Draw(t, "version")}
	n := rapid.IntRange(1, 5).Draw(t, "n")
	for i := 0; i < n; i++ {
		e := c18CycleEv{Role: rapid.SampledFrom([]string{"pl", "pl", "pl", "jr", "member", "topic"}).Draw(t, fmt.Sprint("role", i)),
			Lvl: int64(rapid.SampledFrom([]int{50, 51, 100}).Draw(t, fmt.Sprint("lvl", i)))}
		e.Auth = rapid.SliceOfNDistinct(rapid.IntRange(0, n-1), 0, n, rapid.ID[int]).Draw(t, fmt.Sprint("auth", i))
		e.Prev = rapid.SliceOfNDistinct(rapid.IntRange(0, n-1), 0, n, rapid.ID[int]).Draw(t, fmt.Sprint("prev", i))
		c.Events = append(c.Events, e)
		c.Split = append(c.Split, rapid.IntRange(0, 2).Draw(t, fmt.Sprint("split", i)))
	}
	// most of the time close at least one cycle by construction: i cites i+1, the last cites the first
	if rapid.IntRange(0, 4).Draw(t, "forceCycle") > 0 {
		for i := range c.Events {
			j := (i + 1) % n
			if !c18Has(c.Events[i].Auth, j) {
				c.Events[i].Auth = append(c.Events[i].Auth, j)
			}
		}
	}
	return c
}

func c18Has(xs []int, x int) bool {
	for _, y := range xs {
		if y == x {
			return true
		}
	}
	return false
}

// c18BuildCycle parses the room state and the cycle events and lays them out as two state sets.
func c18BuildCycle(ctx *vfCtx, s *c18State, c c18CycleCase) (all, evs, setA, setB []PDU, ok bool) {
	room := c18GetRoom(c.Version, "public", "join")
	if room == nil || len(c.Events) == 0 {
		ctx.Unjudged("generator: no room")
		return
	}
	state, err := c18ParseAll(c.Version, room.State)
	if err != nil {
		ctx.Unjudged("generator: " + err.Error())
		return
	}
	impl, err := GetRoomVersion(RoomVersion(c.Version))
	if err != nil {
		ctx.Unjudged("generator: " + err.Error())
		return
	}
	id := func(i int) string { return fmt.Sprintf("$cyc%d:a.example", i) }
	for i, ce := range c.Events {
		role := map[string]string{"pl": "power_levels", "jr": "join_rules", "member": "member", "topic": "history_visibility"}[ce.Role]
		e := c18Base(c.Version, room, role, i)
		e.ID = id(i)
		if ce.Role == "pl" {
			e.Content = c18PLContentFor(c.Version, ce.Lvl)
		}
		e.Auth = []string{room.CreateID, room.IDs["m:"+c07Creator]}
		for _, j := range ce.Auth {
			if j < len(c.Events) {
				e.Auth = append(e.Auth, id(j))
			}
		}
		e.Prev = nil
		for _, j := range ce.Prev {
			if j < len(c.Events) {
				e.Prev = append(e.Prev, id(j))
			}
		}
		if len(e.Prev) == 0 {
			e.Prev = []string{room.CreateID}
		}
		tree := c18Finish(c.Version, raJSON(c.Version, e).without("hashes"), false)
		var p PDU
		var perr error
		if s.call("NewEventFromUntrustedJSON", func() { p, perr = impl.NewEventFromUntrustedJSON([]byte(jplain(tree))) }) {
			return
		}
		if !c18Accepted(perr) || p == nil {
			ctx.Class("cycle-event-rejected-by-parser")
			continue
		}
		evs = append(evs, p)
	}
	if len(evs) == 0 {
		ctx.Unjudged("no cycle event accepted")
		return
	}
	all = append(append([]PDU{}, state...), evs...)
	if c18AuthCycle(s, all) {
		ctx.Class("auth-cycle")
		ctx.NonTrivial()
	} else {
		ctx.Class("acyclic")
	}
	// two state sets: the room's state with the cycle events replacing their slots, split as drawn
	setA, setB = append([]PDU{}, state...), append([]PDU{}, state...)
	for i, p := range evs {
		sp := 2
		if i < len(c.Split) {
			sp = c.Split[i]
		}
		if p.StateKey() == nil {
			continue
		}
		if sp == 0 || sp == 2 {
			setA = c18Replace(s, setA, p)
		}
		if sp == 1 || sp == 2 {
			setB = c18Replace(s, setB, p)
		}
	}
	return all, evs, setA, setB, true
}

func c18CheckCycle(ctx *vfCtx, c c18CycleCase) {
	s := c18NewState(ctx, "C18")
	all, evs, setA, setB, ok := c18BuildCycle(ctx, s, c)
	if !ok {
		return
	}
	q := c18Querier(0)
	s.call("ResolveConflictsNew", func() {
		_, _ = ResolveConflictsNew(RoomVersion(c.Version), [][]PDU{setA, setB}, append([]PDU{}, all...), q, c18NotRejected)
	})
	s.call("ResolveConflicts", func() {
		_, _ = ResolveConflicts(RoomVersion(c.Version), append(append([]PDU{}, setA...), setB...), append([]PDU{}, all...), q, c18NotRejected)
	})
	// (the per-algorithm entry points are reached through the version dispatch above only: state
	// resolution v2.1 belongs to room versions whose event IDs are hashes, where a reference cycle
	// would need a hash collision - giving it sender-chosen IDs directly is outside the statement)
	s.call("ResolveStateConflicts(v1)", func() {
		_ = ResolveStateConflicts(append(append([]PDU{}, setA...), setB...), append([]PDU{}, all...), q)
	})
	s.call("ReverseTopologicalOrdering/auth", func() { _ = ReverseTopologicalOrdering(append([]PDU{}, all...), TopologicalOrderByAuthEvents) })
	s.call("ReverseTopologicalOrdering/prev", func() { _ = ReverseTopologicalOrdering(append([]PDU{}, all...), TopologicalOrderByPrevEvents) })
	s.call("HeaderedReverseTopologicalOrdering/auth", func() {
		_ = HeaderedReverseTopologicalOrdering(append([]PDU{}, all...), TopologicalOrderByAuthEvents)
	})
	pool := c18NewPool(s, all)
	for _, p := range evs {
		s.call("VerifyEventAuthChain", func() { _ = VerifyEventAuthChain(context.Background(), p, pool.Provide, q) })
		s.call("VerifyAuthRulesAtState", func() { _ = VerifyAuthRulesAtState(context.Background(), pool, p, true, q) })
		var prov *AuthEvents
		if !s.call("NewAuthEvents", func() { prov, _ = NewAuthEvents(all) }) && prov != nil {
			s.call("Allowed", func() { _ = Allowed(p, prov, q) })
		}
	}
	// a /state answer made of these events
	var authJ, stateJ []vfBytes
	for _, p := range all {
		authJ = append(authJ, vfBytes(p.JSON()))
	}
	for _, p := range setA {
		stateJ = append(stateJ, vfBytes(p.JSON()))
	}
	resp := &c18StateResp{auth: c18RawList(authJ), state: c18RawList(stateJ)}
	s.call("CheckStateResponse", func() {
		_, _, _ = CheckStateResponse(context.Background(), resp, RoomVersion(c.Version), c18Verifier{}, pool.Provide, q)
	})
	s.call("LineariseStateResponse", func() { _ = LineariseStateResponse(RoomVersion(c.Version), resp) })
}

func init() {
	vfRapid("C18/reference-cycles",
		"non-trivial = the auth_events of the accepted events (sender-chosen event IDs, room versions 1-2) contain a cycle or a self-reference. distinct = distinct Case JSON",
		800, 40000, 8, c18GenCycle, c18CheckCycle)
}
