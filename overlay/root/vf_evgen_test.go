//go:build verif

// G-event, R-redact and the version trait table (DESIGN Appendix C / D), shared by the checks of
// the root package. The reference redaction, content hash and event-ID computations work on jv
// trees with tables transcribed from the specification and share no code with redactevent.go /
// eventcrypto.go.
package gomatrixserverlib

import (
	"context"
	"crypto/ed25519"
	"crypto/sha256"
	"encoding/base64"
	"fmt"
	"strings"
	"time"

	"github.com/matrix-org/gomatrixserverlib/spec"
	"pgregory.net/rapid"
)

// ---------------------------------------------------------------------------------------------
// Version traits (transcribed from the Matrix specification, room versions 1-12; unstable versions:
// the traits of the version they are based on plus what their MSC adds).

type vtrait struct {
	StateRes     int    // 1, 2, 3 (= v2.1)
	Format       int    // 1: event_id + reference tuples; 2: IDs only
	IDFormat     int    // 1: $local:domain, 2: std base64, 3: url-safe base64
	Redaction    string // v1 | v6 | v8 | v9 | v11
	StrictKeys   bool
	Canonical    bool
	IntegerPL    bool
	Knock        bool
	Restricted   bool
	Creators     bool // privileged creators, domainless room IDs (create event ID is the room ID)
	Stable       bool
	NotifLevels  bool // notifications levels are checked (v6+)
	AliasRule    bool // m.room.aliases special auth rule (v1-5)
	CreatorField bool // create event requires content.creator (v1-10)
}

var vtraits = map[string]vtrait{
	"1":  {StateRes: 1, Format: 1, IDFormat: 1, Redaction: "v1", Stable: true, AliasRule: true, CreatorField: true},
	"2":  {StateRes: 2, Format: 1, IDFormat: 1, Redaction: "v1", Stable: true, AliasRule: true, CreatorField: true},
	"3":  {StateRes: 2, Format: 2, IDFormat: 2, Redaction: "v1", Stable: true, AliasRule: true, CreatorField: true},
	"4":  {StateRes: 2, Format: 2, IDFormat: 3, Redaction: "v1", Stable: true, AliasRule: true, CreatorField: true},
	"5":  {StateRes: 2, Format: 2, IDFormat: 3, Redaction: "v1", StrictKeys: true, Stable: true, AliasRule: true, CreatorField: true},
	"6":  {StateRes: 2, Format: 2, IDFormat: 3, Redaction: "v6", StrictKeys: true, Canonical: true, Stable: true, NotifLevels: true, CreatorField: true},
	"7":  {StateRes: 2, Format: 2, IDFormat: 3, Redaction: "v6", StrictKeys: true, Canonical: true, Knock: true, Stable: true, NotifLevels: true, CreatorField: true},
	"8":  {StateRes: 2, Format: 2, IDFormat: 3, Redaction: "v8", StrictKeys: true, Canonical: true, Knock: true, Restricted: true, Stable: true, NotifLevels: true, CreatorField: true},
	"9":  {StateRes: 2, Format: 2, IDFormat: 3, Redaction: "v9", StrictKeys: true, Canonical: true, Knock: true, Restricted: true, Stable: true, NotifLevels: true, CreatorField: true},
	"10": {StateRes: 2, Format: 2, IDFormat: 3, Redaction: "v9", StrictKeys: true, Canonical: true, IntegerPL: true, Knock: true, Restricted: true, Stable: true, NotifLevels: true, CreatorField: true},
	"11": {StateRes: 2, Format: 2, IDFormat: 3, Redaction: "v11", StrictKeys: true, Canonical: true, IntegerPL: true, Knock: true, Restricted: true, Stable: true, NotifLevels: true},
	"12": {StateRes: 3, Format: 2, IDFormat: 3, Redaction: "v11", StrictKeys: true, Canonical: true, IntegerPL: true, Knock: true, Restricted: true, Creators: true, Stable: true, NotifLevels: true},
	// based on 7 (MSC3667: integer power levels)
	"org.matrix.msc3667": {StateRes: 2, Format: 2, IDFormat: 3, Redaction: "v6", StrictKeys: true, Canonical: true, IntegerPL: true, Knock: true, NotifLevels: true, CreatorField: true},
	// based on 9 (MSC3787: knock_restricted)
	"org.matrix.msc3787": {StateRes: 2, Format: 2, IDFormat: 3, Redaction: "v9", StrictKeys: true, Canonical: true, Knock: true, Restricted: true, NotifLevels: true, CreatorField: true},
	// based on 10 (MSC4014: pseudo IDs)
	"org.matrix.msc4014": {StateRes: 2, Format: 2, IDFormat: 3, Redaction: "v9", StrictKeys: true, Canonical: true, IntegerPL: true, Knock: true, Restricted: true, NotifLevels: true, CreatorField: true},
	// based on 11 (hydra: v12 preview)
	"org.matrix.hydra.11": {StateRes: 3, Format: 2, IDFormat: 3, Redaction: "v11", StrictKeys: true, Canonical: true, IntegerPL: true, Knock: true, Restricted: true, Creators: true, NotifLevels: true},
}

var vfVersions = []string{"1", "2", "3", "4", "5", "6", "7", "8", "9", "10", "11", "12",
	"org.matrix.msc3667", "org.matrix.msc3787", "org.matrix.msc4014", "org.matrix.hydra.11"}

// ---------------------------------------------------------------------------------------------
// R-redact: keep-lists transcribed from the specification's "Redactions" sections.

var rredactTopV1 = []string{"event_id", "type", "room_id", "sender", "state_key", "content", "hashes", "signatures",
	"depth", "prev_events", "prev_state", "auth_events", "origin", "origin_server_ts", "membership"}
var rredactTopV11 = []string{"event_id", "type", "room_id", "sender", "state_key", "content", "hashes", "signatures",
	"depth", "prev_events", "auth_events", "origin_server_ts"}

var rredactPL = []string{"ban", "events", "events_default", "kick", "redact", "state_default", "users", "users_default"}

// rredactContentKeys returns (keys kept, keepAll, nested "third_party_invite.signed" kept).
func rredactContentKeys(algo, typ string) (keys []string, all bool, tpiSigned bool) {
	switch typ {
	case "m.room.member":
		keys = []string{"membership"}
		if algo == "v9" || algo == "v11" {
			keys = append(keys, "join_authorised_via_users_server")
		}
		if algo == "v11" {
			tpiSigned = true
		}
	case "m.room.create":
		if algo == "v11" {
			all = true
		} else {
			keys = []string{"creator"}
		}
	case "m.room.join_rules":
		keys = []string{"join_rule"}
		if algo == "v8" || algo == "v9" || algo == "v11" {
			keys = append(keys, "allow")
		}
	case "m.room.power_levels":
		keys = append([]string{}, rredactPL...)
		if algo == "v11" {
			keys = append(keys, "invite")
		}
	case "m.room.aliases":
		if algo == "v1" {
			keys = []string{"aliases"}
		}
	case "m.room.history_visibility":
		keys = []string{"history_visibility"}
	case "m.room.redaction":
		if algo == "v11" {
			keys = []string{"redacts"}
		}
	}
	return
}

func rredact(version string, ev jv) jv {
	algo := vtraits[version].Redaction
	top := rredactTopV1
	if algo == "v11" {
		top = rredactTopV11
	}
	out := jv{K: 'o'}
	typ := ""
	if t, ok := ev.get("type"); ok && t.K == 's' {
		typ = t.S
	}
	for _, m := range ev.O {
		keep := false
		for _, k := range top {
			if m.Key == k {
				keep = true
			}
		}
		if !keep {
			continue
		}
		if m.Key != "content" {
			out.O = append(out.O, m)
			continue
		}
		keys, all, tpi := rredactContentKeys(algo, typ)
		if all || m.Val.K != 'o' {
			if m.Val.K != 'o' {
				out.O = append(out.O, jkv{"content", jv{K: 'o'}})
			} else {
				out.O = append(out.O, m)
			}
			continue
		}
		nc := jv{K: 'o'}
		for _, cm := range m.Val.O {
			for _, k := range keys {
				if cm.Key == k {
					nc.O = append(nc.O, cm)
				}
			}
			if tpi && cm.Key == "third_party_invite" && cm.Val.K == 'o' {
				if sg, ok := cm.Val.get("signed"); ok {
					nc.O = append(nc.O, jkv{"third_party_invite", jobj("signed", sg)})
				}
			}
		}
		out.O = append(out.O, jkv{"content", nc})
	}
	return out
}

// rcontentHash is the reference content hash: sha256 over the canonical form of the event minus
// signatures, unsigned and hashes.
func rcontentHash(ev jv) string {
	sum := sha256.Sum256([]byte(jcanon(ev.without("signatures", "unsigned", "hashes"))))
	return base64.RawStdEncoding.EncodeToString(sum[:])
}

// rreferenceHash: sha256 over the canonical form of the redacted event minus signatures/unsigned.
func rreferenceHash(version string, ev jv) []byte {
	red := rredact(version, ev).without("signatures", "unsigned")
	// age_ts is not in any keep-list; nothing else to strip
	sum := sha256.Sum256([]byte(jcanon(red)))
	return sum[:]
}

// reventID is the reference event ID for format-2 room versions.
func reventID(version string, ev jv) string {
	h := rreferenceHash(version, ev)
	if vtraits[version].IDFormat == 2 {
		return "$" + base64.RawStdEncoding.EncodeToString(h)
	}
	return "$" + base64.RawURLEncoding.EncodeToString(h)
}

// rsign adds a reference signature (ed25519 over the canonical redacted event minus
// signatures/unsigned) by name/keyID to the event tree.
func rsign(version string, ev jv, name, keyID string, priv ed25519.PrivateKey) jv {
	red := rredact(version, ev).without("signatures", "unsigned")
	sig := base64.RawStdEncoding.EncodeToString(ed25519.Sign(priv, []byte(jcanon(red))))
	sigs, _ := ev.get("signatures")
	if sigs.K != 'o' {
		sigs = jv{K: 'o'}
	}
	ent, _ := sigs.get(name)
	if ent.K != 'o' {
		ent = jv{K: 'o'}
	}
	return ev.with("signatures", sigs.with(name, ent.with(keyID, jstr(sig))))
}

// rverify checks a signature on an event tree against the reference projection.
func rverify(version string, ev jv, name, keyID string, pub ed25519.PublicKey) bool {
	s, ok := c02SigOfTree(ev, name, keyID)
	if !ok {
		return false
	}
	raw, err := base64.RawStdEncoding.DecodeString(s)
	if err != nil {
		return false
	}
	red := rredact(version, ev).without("signatures", "unsigned")
	return ed25519.Verify(pub, []byte(jcanon(red)), raw)
}

func c02SigOfTree(v jv, name, keyID string) (string, bool) {
	sigs, ok := v.get("signatures")
	if !ok || sigs.K != 'o' {
		return "", false
	}
	ent, ok := sigs.get(name)
	if !ok || ent.K != 'o' {
		return "", false
	}
	s, ok := ent.get(keyID)
	if !ok || s.K != 's' {
		return "", false
	}
	return s.S, true
}

// rfinish sets hashes.sha256 and a reference signature on an event tree (used to produce wire
// events independently of EventBuilder).
func rfinish(version string, ev jv, name, keyID string, priv ed25519.PrivateKey) jv {
	ev = ev.without("hashes", "signatures")
	ev = ev.with("hashes", jobj("sha256", jstr(rcontentHash(ev))))
	return rsign(version, ev, name, keyID, priv)
}

// ---------------------------------------------------------------------------------------------
// G-event

type evProto struct {
	Version  string   `json:"version"`
	Type     string   `json:"type"`
	Sender   string   `json:"sender"`
	RoomID   string   `json:"room_id"`
	StateKey *string  `json:"state_key"`
	Content  vfBytes  `json:"content"`
	Prev     []string `json:"prev_events"`
	Auth     []string `json:"auth_events"`
	Depth    int64    `json:"depth"`
	TS       int64    `json:"ts"`
	Redacts  string   `json:"redacts,omitempty"`
	Unsigned vfBytes  `json:"unsigned,omitempty"`
	Origin   string   `json:"origin"`
	KeyID    string   `json:"key_id"`
	Key      string   `json:"key"`
}

func (p evProto) isV12Create() bool {
	return vtraits[p.Version].Creators && p.Type == "m.room.create" && p.StateKey != nil && *p.StateKey == ""
}

// evBuild builds the proto-event through the library's EventBuilder.
func evBuild(p evProto) (PDU, error) {
	impl, err := GetRoomVersion(RoomVersion(p.Version))
	if err != nil {
		return nil, err
	}
	pe := &ProtoEvent{
		SenderID: p.Sender, RoomID: p.RoomID, Type: p.Type, StateKey: p.StateKey,
		Redacts: p.Redacts, Depth: p.Depth, Content: spec.RawJSON(p.Content),
	}
	if len(p.Unsigned) > 0 {
		pe.Unsigned = spec.RawJSON(p.Unsigned)
	}
	pe.PrevEvents = append([]string{}, p.Prev...)
	pe.AuthEvents = append([]string{}, p.Auth...)
	eb := impl.NewEventBuilderFromProtoEvent(pe)
	_, priv := vfKeyFor(p.Key)
	return eb.Build(time.UnixMilli(p.TS), spec.ServerName(p.Origin), KeyID(p.KeyID), priv)
}

var evTypes = []string{
	"m.room.create", "m.room.member", "m.room.member", "m.room.power_levels", "m.room.join_rules", "m.room.aliases",
	"m.room.history_visibility", "m.room.redaction", "m.room.third_party_invite", "m.room.message", "m.room.topic",
	"org.example.custom",
}

// keys that appear in some version's keep-list for some type
var evInterestingContentKeys = []string{
	"membership", "join_authorised_via_users_server", "third_party_invite", "creator", "room_version", "join_rule", "allow",
	"ban", "events", "events_default", "kick", "redact", "state_default", "users", "users_default", "invite", "notifications",
	"aliases", "history_visibility", "redacts", "body", "msgtype", "displayname", "m.federate", "additional_creators",
	// names that only LOOK like keep-list entries (dotted paths, prefixes, different case)
	"third_party_invite.signed", "membership.x", "users.@alice:a.example", "content.membership", "Membership", "join_rule ", "signed",
	// names of the envelope and of the headered form, as content keys
	"_room_version", "_event_id", "_", "event_id", "type", "sender", "room_id", "state_key", "unsigned", "hashes", "signatures", "content", "depth", "origin",
}

func evFakeID(t *rapid.T, version, label string) string {
	n := rapid.IntRange(0, 30).Draw(t, label)
	switch vtraits[version].IDFormat {
	case 1:
		return fmt.Sprintf("$ev%d:%s", n, "a.example")
	case 2:
		sum := sha256.Sum256([]byte(fmt.Sprint("id", n)))
		return "$" + base64.RawStdEncoding.EncodeToString(sum[:])
	default:
		sum := sha256.Sum256([]byte(fmt.Sprint("id", n)))
		return "$" + base64.RawURLEncoding.EncodeToString(sum[:])
	}
}

func evGenContentValue(t *rapid.T, version, key string) jv {
	// numbers in event content stay within the statement's domain (integers within +/-(2^53-1));
	// floats below v6 are injected separately where a check wants them
	o := jgenOpts{MaxDepth: 2, MaxWidth: 3, IntsOnly: true}
	switch key {
	case "membership":
		return jstr(rapid.SampledFrom([]string{"join", "leave", "invite", "ban", "knock"}).Draw(t, "mem"))
	case "join_rule":
		return jstr(rapid.SampledFrom([]string{"public", "invite", "knock", "restricted", "knock_restricted", "private"}).Draw(t, "jr"))
	case "join_authorised_via_users_server", "creator":
		return jstr(rapid.SampledFrom([]string{"@alice:a.example", "@bob:b.example", "@carol:c.example"}).Draw(t, "uid"))
	case "third_party_invite":
		if rapid.Bool().Draw(t, "tpiSigned") {
			return jobj("display_name", jstr("x"), "signed", jobj("mxid", jstr("@bob:b.example"), "token", jstr("tok"),
				"signatures", jobj("id.example", jobj("ed25519:0", jstr("AAAA")))))
		}
		return jobj("display_name", jstr("x"))
	case "users", "events", "notifications":
		v := jv{K: 'o'}
		n := rapid.IntRange(0, 3).Draw(t, "nmap")
		for i := 0; i < n; i++ {
			k := rapid.SampledFrom([]string{"@alice:a.example", "@bob:b.example", "m.room.name", "room", "m.room.power_levels"}).Draw(t, "mapk")
			v = v.with(k, jnum(int64(rapid.IntRange(-10, 110).Draw(t, "lvl"))))
		}
		return v
	case "ban", "kick", "redact", "invite", "events_default", "state_default", "users_default":
		return jnum(int64(rapid.IntRange(-10, 110).Draw(t, "lvl")))
	case "redacts":
		return jstr(evFakeID(t, version, "redactsid"))
	case "m.federate":
		return jv{K: 't'}
	}
	return jgenValue(t, o, 1, "cv")
}

func evGenContent(t *rapid.T, version, typ string) jv {
	c := jv{K: 'o'}
	n := rapid.IntRange(0, 5).Draw(t, "ncontent")
	for i := 0; i < n; i++ {
		var k string
		if rapid.IntRange(0, 4).Draw(t, "ck") > 0 {
			k = rapid.SampledFrom(evInterestingContentKeys).Draw(t, "ckey")
		} else {
			k = jgenString(t, "ckeyr")
		}
		c = c.with(k, evGenContentValue(t, version, k))
	}
	// make sure the type's own keys are often present
	keys, _, _ := rredactContentKeys("v11", typ)
	for _, k := range keys {
		if rapid.IntRange(0, 2).Draw(t, "own") > 0 {
			c = c.with(k, evGenContentValue(t, version, k))
		}
	}
	if typ == "m.room.member" && rapid.IntRange(0, 2).Draw(t, "tpi") == 0 {
		c = c.with("third_party_invite", evGenContentValue(t, version, "third_party_invite"))
	}
	if rapid.IntRange(0, 11).Draw(t, "backslashText") == 0 {
		// TEXT that reads like an escape: a backslash followed by u and four hex digits is, on the
		// wire, an escaped backslash and six ordinary characters — not an escape of anything
		c = c.with(rapid.SampledFrom([]string{"body", "path", `k\ud83d`}).Draw(t, "backslashKey"),
			jstr(rapid.SampledFrom([]string{`C:\docs\udd12`, `the escape \ud83d\ude00 is a smiley`, `\udead`, `\\ud800`, `x\u0041\udc00`, `\ud83d`}).Draw(t, "backslashVal")))
	}
	if names, ok := evRuleContentKeys[typ]; ok && rapid.IntRange(0, 9).Draw(t, "lookAlike") == 0 {
		// a key that differs from one the rules read for this type only in letter case: Build and the
		// untrusted parsers must agree about it (both refuse), whatever the state key
		n := rapid.SampledFrom(names).Draw(t, "lookAlikeOf")
		k := rapid.SampledFrom([]string{strings.ToUpper(n[:1]) + n[1:], strings.ToUpper(n), n[:len(n)-1] + strings.ToUpper(n[len(n)-1:])}).Draw(t, "lookAlikeKey")
		if k != n {
			c = c.with(k, evGenContentValue(t, version, n))
		}
	}
	return c
}

var evUsers = []string{"@alice:a.example", "@bob:b.example", "@carol:c.example", "@dave:a.example"}

// evGenProto draws a proto-event for the given version that EventBuilder.Build accepts.
func evGenProto(t *rapid.T, version string) evProto {
	tr := vtraits[version]
	p := evProto{Version: version}
	p.Type = rapid.SampledFrom(evTypes).Draw(t, "type")
	p.Sender = rapid.SampledFrom(evUsers).Draw(t, "sender")
	p.Origin = strings.SplitN(p.Sender, ":", 2)[1]
	p.KeyID = vfGenKeyID(t, "kid")
	p.Key = "origin:" + p.Origin
	if tr.Creators {
		sum := sha256.Sum256([]byte(fmt.Sprint("room", rapid.IntRange(0, 3).Draw(t, "room"))))
		p.RoomID = "!" + base64.RawURLEncoding.EncodeToString(sum[:])
	} else {
		p.RoomID = rapid.SampledFrom([]string{"!room:a.example", "!r2:b.example:8448", "!x:c.example"}).Draw(t, "room")
	}
	switch p.Type {
	case "m.room.create", "m.room.power_levels", "m.room.join_rules", "m.room.history_visibility", "m.room.topic":
		sk := ""
		p.StateKey = &sk
	case "m.room.member":
		sk := rapid.SampledFrom(evUsers).Draw(t, "target")
		p.StateKey = &sk
	case "m.room.aliases":
		sk := p.Origin
		p.StateKey = &sk
	case "m.room.third_party_invite":
		sk := "tok" + fmt.Sprint(rapid.IntRange(0, 3).Draw(t, "tok"))
		p.StateKey = &sk
	case "org.example.custom":
		switch rapid.IntRange(0, 2).Draw(t, "skKind") {
		case 0:
		case 1:
			sk := ""
			p.StateKey = &sk
		default:
			sk := jgenString(t, "sk")
			p.StateKey = &sk
		}
	}
	// occasionally give ANY type an unusual state key shape (none / "" / other): e.g. a non-state
	// event of type m.room.create, a member event with an empty state key
	if rapid.IntRange(0, 7).Draw(t, "oddStateKey") == 0 {
		switch rapid.IntRange(0, 2).Draw(t, "oddStateKeyKind") {
		case 0:
			p.StateKey = nil
		case 1:
			sk := ""
			p.StateKey = &sk
		default:
			sk := "x" + jgenString(t, "osk")
			p.StateKey = &sk
		}
	}
	if p.isV12Create() {
		p.RoomID = ""
	}
	p.Content = vfBytes(jplain(evGenContent(t, version, p.Type)))
	if p.Type == "m.room.redaction" {
		p.Redacts = evFakeID(t, version, "redacts")
	}
	if !(p.Type == "m.room.create" && rapid.Bool().Draw(t, "createNoPrev")) {
		np := rapid.IntRange(0, 3).Draw(t, "nprev")
		for i := 0; i < np; i++ {
			p.Prev = append(p.Prev, evFakeID(t, version, "prev"))
		}
		na := rapid.IntRange(0, 4).Draw(t, "nauth")
		for i := 0; i < na; i++ {
			p.Auth = append(p.Auth, evFakeID(t, version, "auth"))
		}
	}
	if tr.Creators && !p.isV12Create() && p.RoomID != "" && rapid.IntRange(0, 5).Draw(t, "nameCreate") == 0 {
		// the sender lists the create event itself, at a random position
		pos := rapid.IntRange(0, len(p.Auth)).Draw(t, "createPos")
		p.Auth = append(p.Auth[:pos:pos], append([]string{"$" + p.RoomID[1:]}, p.Auth[pos:]...)...)
	}
	p.Depth = int64(rapid.IntRange(0, 1000).Draw(t, "depth"))
	p.TS = rapid.Int64Range(0, 1900000000000).Draw(t, "ts")
	if rapid.IntRange(0, 2).Draw(t, "hasUnsigned") == 0 {
		o := jgenOpts{MaxDepth: 2, MaxWidth: 3, IntsOnly: true}
		p.Unsigned = vfBytes(jplain(jgenObject(t, o, 0, "unsigned")))
	}
	return p
}

func evGenVersion(t *rapid.T) string { return rapid.SampledFrom(vfVersions).Draw(t, "version") }

// evParse parses the JSON of a PDU with the reference parser (harness error if it fails).
func evTree(raw []byte) (jv, error) {
	v, fl, err := jparse(raw)
	if err != nil {
		return v, err
	}
	if v.K != 'o' || fl.DupKeys {
		return v, fmt.Errorf("event JSON is not a well-formed object")
	}
	return v, nil
}

func evStr(v jv, key string) string {
	if m, ok := v.get(key); ok && m.K == 's' {
		return m.S
	}
	return ""
}

// evKnownClass names the known-finding class an event falls into ("" if none). It is appended to
// violation signatures so that exactly that class can be listed in KNOWN_FINDINGS.txt while every
// other violation of the same relation is still reported.
func evKnownClass(version string, ev jv) string {
	if vtraits[version].Redaction == "v11" && evStr(ev, "type") == "m.room.member" {
		if ct, ok := ev.get("content"); ok && ct.K == 'o' {
			if tpi, ok := ct.get("third_party_invite"); ok && tpi.K == 'o' {
				if _, ok := tpi.get("signed"); ok {
					return "/v11-member-third_party_invite.signed"
				}
			}
		}
	}
	return ""
}

// ---------------------------------------------------------------------------------------------
// A recording JSONVerifier that answers by real ed25519 verification against a scripted key table
// (independent of KeyRing). A key is (server, keyID) -> label of vfKeyFor; an optional per-key
// validity window [from, until] in ms is honoured through the request's ValidityCheckingFunc-free
// rule: valid iff from <= AtTS <= until (0,0 = always).

type vfStubKey struct {
	Label       string
	From, Until int64
}

type vfStubVerifier struct {
	Keys  map[string]map[string]vfStubKey // server -> keyID -> key
	Asked []string
	Err   error
}

func (s *vfStubVerifier) VerifyJSONs(ctx context.Context, reqs []VerifyJSONRequest) ([]VerifyJSONResult, error) {
	if s.Err != nil {
		return nil, s.Err
	}
	out := make([]VerifyJSONResult, len(reqs))
	for i, r := range reqs {
		s.Asked = append(s.Asked, string(r.ServerName))
		ids, err := ListKeyIDs(string(r.ServerName), r.Message)
		if err != nil {
			out[i].Error = err
			continue
		}
		out[i].Error = fmt.Errorf("no valid signature from %s", r.ServerName)
		for _, id := range ids {
			k, ok := s.Keys[string(r.ServerName)][string(id)]
			if !ok {
				continue
			}
			if (k.From != 0 || k.Until != 0) && (int64(r.AtTS) < k.From || int64(r.AtTS) > k.Until) {
				continue
			}
			pub, _ := vfKeyFor(k.Label)
			if VerifyJSON(string(r.ServerName), id, pub, r.Message) == nil {
				out[i].Error = nil
				break
			}
		}
	}
	return out, nil
}

// vfUserIDForSender is the identity mapping used by non-pseudo-ID room versions.
func vfUserIDForSender(roomID spec.RoomID, senderID spec.SenderID) (*spec.UserID, error) {
	return spec.NewUserID(string(senderID), true)
}

// evLookAlikeContentKey: does the content of an event of this type have a key, at any depth (outside
// the objects keyed by identifiers), that differs from a key the rules read for that type only in
// letter case / case folding? Such events are refused by the untrusted parsers and by Build since
// the repair of the case-folding defect (DESIGN 9.2); the table is transcribed from the
// specification's content definitions, not from the library.
var evRuleContentKeys = map[string][]string{
	"m.room.create":             {"additional_creators", "creator", "event_id", "m.federate", "predecessor", "room_id", "room_version", "type"},
	"m.room.member":             {"avatar_url", "display_name", "displayname", "is_direct", "join_authorised_via_users_server", "membership", "mxid", "mxid_mapping", "reason", "signatures", "signed", "third_party_invite", "token", "user_id", "user_room_key"},
	"m.room.power_levels":       {"ban", "events", "events_default", "invite", "kick", "notifications", "redact", "state_default", "users", "users_default"},
	"m.room.join_rules":         {"allow", "join_rule", "room_id", "type"},
	"m.room.third_party_invite": {"display_name", "key_validity_url", "public_key", "public_keys"},
	"m.room.redaction":          {"reason", "redacts"},
}

func evLookAlikeContentKey(typ string, v jv) bool {
	names, ok := evRuleContentKeys[typ]
	if !ok {
		return false
	}
	switch v.K {
	case 'a':
		for _, e := range v.A {
			if evLookAlikeContentKey(typ, e) {
				return true
			}
		}
	case 'o':
		for _, m := range v.O {
			for _, n := range names {
				if m.Key != n && strings.EqualFold(m.Key, n) {
					return true
				}
			}
			switch m.Key {
			case "users", "events", "notifications", "signatures":
				continue
			}
			if evLookAlikeContentKey(typ, m.Val) {
				return true
			}
		}
	}
	return false
}
