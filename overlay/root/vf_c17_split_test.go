//go:build verif

package gomatrixserverlib

// C17/split-id — SplitID, the root package's splitter for user IDs, room IDs, aliases and v1 event
// IDs: an identifier that starts with the sigil and has a ':' is split at the FIRST ':' after the
// sigil, and the parts re-concatenate to the input (sigil + local + ":" + domain); anything else is an
// error. Enumerated (the same cases at every seed): sigils x localparts (empty, plain, starting with
// the sigil itself, with other sigils, multi-byte) x domains (plain, port, IPv6 literal, empty,
// several colons) plus the strings without sigil / colon.

import (
	"fmt"
)

type c17SplitCase struct {
	Sigil string `json:"sigil"`
	ID    string `json:"id"`
}

func c17SplitEnum(size, shard, nshards int, emit func(c17SplitCase)) {
	idx := 0
	put := func(c c17SplitCase) {
		if idx%nshards == shard {
			emit(c)
		}
		idx++
	}
	for _, sigil := range []string{"@", "!", "$", "#", "+"} {
		locals := []string{"", "bob", "Bob", sigil + "bob", sigil + sigil + "bob", sigil, "b" + sigil + "b", "@x", "!x", "$x", "#x", "a.b=c/d-e_f", "bøb", "b b", "0"}
		domains := []string{"example.org", "example.org:8448", "[2001:db8::1]:8448", "[::1]", "1.2.3.4:1", "", ":", "a:b:c", "example.org:", sigil + "x"}
		for _, l := range locals {
			for _, d := range domains {
				put(c17SplitCase{Sigil: sigil, ID: sigil + l + ":" + d})
			}
			put(c17SplitCase{Sigil: sigil, ID: sigil + l}) // no colon at all
			put(c17SplitCase{Sigil: sigil, ID: l + ":example.org"})
		}
		put(c17SplitCase{Sigil: sigil, ID: ""})
		put(c17SplitCase{Sigil: sigil, ID: ":"})
		put(c17SplitCase{Sigil: sigil, ID: ":" + sigil + "a:b"})
	}
}

func c17SplitCheck(ctx *vfCtx, c c17SplitCase) {
	sigil := c.Sigil[0]
	// reference
	wantOK := len(c.ID) > 0 && c.ID[0] == sigil
	colon := -1
	if wantOK {
		for i := 1; i < len(c.ID); i++ {
			if c.ID[i] == ':' {
				colon = i
				break
			}
		}
		wantOK = colon >= 0
	}
	var local string
	var domain string
	var err error
	if vfCatch(ctx, "C17/split-id", func() {
		l, d, e := SplitID(sigil, c.ID)
		local, domain, err = l, string(d), e
	}) {
		return
	}
	ctx.NonTrivial()
	if !wantOK {
		ctx.Class("not-an-identifier-of-this-sigil")
		if err == nil {
			ctx.Fail("C17/split-id/invalid-accepted", "SplitID(%q, %q) = (%q, %q) without error; the string does not start with the sigil or has no ':'", c.Sigil, c.ID, local, domain)
		}
		return
	}
	ctx.Class("splittable")
	if len(c.ID) > 1 && c.ID[1] == sigil {
		ctx.Class("splittable/localpart-starts-with-the-sigil")
	}
	if err != nil {
		ctx.Fail("C17/split-id/valid-rejected", "SplitID(%q, %q) fails: %v", c.Sigil, c.ID, err)
		return
	}
	if got := fmt.Sprintf("%c%s:%s", sigil, local, domain); got != c.ID || local != c.ID[1:colon] || domain != c.ID[colon+1:] {
		ctx.Fail("C17/split-id/parts-do-not-reconcatenate", "SplitID(%q, %q) = (%q, %q): sigil + local + \":\" + domain = %q; want (%q, %q)", c.Sigil, c.ID, local, domain, got, c.ID[1:colon], c.ID[colon+1:])
	}
}

func init() {
	vfEnum("C17/split-id", "every case (the string is split, or refused, by SplitID). distinct = distinct Case JSON", 1, 1, 1, c17SplitEnum, c17SplitCheck)
}
