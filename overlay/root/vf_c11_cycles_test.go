//go:build verif

package gomatrixserverlib

// C11/cyclic-auth-events — in room versions 1 and 2 the event ID is chosen by the sender, so the
// auth_events of accepted events can cite each other in a cycle. Whatever the resolvers make of such
// state sets, they make the same of them on every run and for both orders of the sets. The inputs
// are those of C18/reference-cycles (which only asks that the resolvers come back).

import (
	"strings"
)

func c11CheckCycle(ctx *vfCtx, c c18CycleCase) {
	s := c18NewState(ctx, "C11")
	all, _, setA, setB, ok := c18BuildCycle(ctx, s, c)
	if !ok {
		return
	}
	q := c18Querier(0)
	run := func(label string, f func() ([]PDU, error)) {
		first := ""
		for i := 0; i < 12; i++ {
			var got []PDU
			var err error
			if vfCatch(ctx, "C11/cyclic-auth-events/"+label, func() { got, err = f() }) {
				return
			}
			ids := "error"
			if err == nil {
				ids = strings.Join(grIDs(got), ",")
			}
			if i == 0 {
				first = ids
			} else if ids != first {
				ctx.Fail("C11/cyclic-auth-events/run-dependent/"+label, "run %d of the same resolution gives %s, the first run gave %s", i+1, ids, first)
				return
			}
		}
	}
	run("new", func() ([]PDU, error) {
		return ResolveConflictsNew(RoomVersion(c.Version), [][]PDU{append([]PDU{}, setA...), append([]PDU{}, setB...)}, append([]PDU{}, all...), q, c18NotRejected)
	})
	run("new-sets-swapped", func() ([]PDU, error) {
		return ResolveConflictsNew(RoomVersion(c.Version), [][]PDU{append([]PDU{}, setB...), append([]PDU{}, setA...)}, append([]PDU{}, all...), q, c18NotRejected)
	})
	run("deprecated", func() ([]PDU, error) {
		return ResolveConflicts(RoomVersion(c.Version), append(append([]PDU{}, setA...), setB...), append([]PDU{}, all...), q, c18NotRejected)
	})
}

func init() {
	vfRapid("C11/cyclic-auth-events",
		"non-trivial = the auth_events of the accepted events (sender-chosen event IDs, room versions 1-2) contain a cycle or a self-reference; each resolution is run 12 times. distinct = distinct Case JSON",
		300, 12000, 4, c18GenCycle, c11CheckCycle)
}
