//go:build verif

package gomatrixserverlib

import (
	"context"
	"crypto/ed25519"
	"fmt"
	"io"

	"github.com/matrix-org/gomatrixserverlib/spec"
	"github.com/matrix-org/util"
	"github.com/sirupsen/logrus"
	"pgregory.net/rapid"
)

// C18/perform-invite — the inviting side of the invite handshake. PerformInvite builds the invite
// locally and, for a remote invitee, hands it to the federation client; what comes back is an event
// chosen by the invited user's server (the federation client has only parsed it). Whatever that event
// is - another type, no state key, another room, odd content - PerformInvite returns an event or an
// error. The federated state provider (LookupState / LookupStateIDs answers) is driven from the same
// case.

type c18InviteCase struct {
	Version     string  `json:"version"`
	TargetLocal bool    `json:"target_local"`
	Mode        string  `json:"mode"`   // echo | hostile | error (a client never answers (nil, nil): its contract)
	Answer      vfBytes `json:"answer"` // hostile: the event the remote answers with
	Querier     int     `json:"querier,omitempty"`
	NoStripped  bool    `json:"no_stripped,omitempty"`
}

// c18QuietCtx carries a logger that writes nowhere (PerformInvite logs every refusal).
func c18QuietCtx() context.Context {
	l := logrus.New()
	l.SetOutput(io.Discard)
	return util.ContextWithLogger(context.Background(), logrus.NewEntry(l))
}

type c18NoMembership struct{}

func (c18NoMembership) CurrentMembership(ctx context.Context, roomID spec.RoomID, senderID spec.SenderID) (string, error) {
	return "", nil
}

type c18StateQ struct{ state []PDU }

func (q c18StateQ) GetAuthEvents(ctx context.Context, event PDU) (AuthEventProvider, error) {
	return NewAuthEvents(q.state)
}
func (q c18StateQ) GetState(ctx context.Context, roomID spec.RoomID, want []StateKeyTuple) ([]PDU, error) {
	var out []PDU
	for _, e := range q.state {
		for _, w := range want {
			if e.Type() == w.EventType && e.StateKeyEquals(w.StateKey) {
				out = append(out, e)
			}
		}
	}
	return out, nil
}

type c18InviteClient struct {
	s      *c18State
	c      c18InviteCase
	invite string // the invited user's server
	asked  int
}

func (f *c18InviteClient) answer(sent PDU) (PDU, error) {
	f.asked++
	switch f.c.Mode {
	case "error":
		return nil, fmt.Errorf("c18: the remote refuses")
	case "echo":
		if sent == nil {
			return nil, fmt.Errorf("c18: nothing to echo")
		}
		_, k := vfKeyFor("origin:" + f.invite)
		return sent.Sign(f.invite, "ed25519:1", k), nil
	}
	impl, err := GetRoomVersion(RoomVersion(f.c.Version))
	if err != nil {
		return nil, err
	}
	var ev PDU
	if f.s.call("remote-answer/NewEventFromUntrustedJSON", func() { ev, err = impl.NewEventFromUntrustedJSON(c18Copy(f.c.Answer)) }) {
		return nil, fmt.Errorf("c18: parser panicked")
	}
	if err != nil {
		if verr, ok := err.(EventValidationError); !ok || !verr.Persistable || ev == nil {
			return nil, fmt.Errorf("c18: the remote's answer does not parse")
		}
	}
	return ev, nil
}

func (f *c18InviteClient) SendInvite(ctx context.Context, event PDU, stripped []InviteStrippedState) (PDU, error) {
	return f.answer(event)
}
func (f *c18InviteClient) SendInviteV3(ctx context.Context, event ProtoEvent, userID spec.UserID, roomVersion RoomVersion, stripped []InviteStrippedState) (PDU, error) {
	return f.answer(nil)
}

// c18StateClient answers LookupState / LookupStateIDs for the FederatedStateProvider.
type c18StateClient struct {
	state, auth EventJSONs
	ids         []string
}

type c18FedStateResp struct{ c *c18StateClient }

func (r c18FedStateResp) GetStateEvents() EventJSONs { return r.c.state }
func (r c18FedStateResp) GetAuthEvents() EventJSONs  { return r.c.auth }

type c18FedStateIDResp struct{ c *c18StateClient }

func (r c18FedStateIDResp) GetStateEventIDs() []string { return r.c.ids }
func (r c18FedStateIDResp) GetAuthEventIDs() []string  { return r.c.ids }

func (c *c18StateClient) LookupState(ctx context.Context, origin, s spec.ServerName, roomID, eventID string, roomVersion RoomVersion) (StateResponse, error) {
	return c18FedStateResp{c}, nil
}
func (c *c18StateClient) LookupStateIDs(ctx context.Context, origin, s spec.ServerName, roomID, eventID string) (StateIDResponse, error) {
	return c18FedStateIDResp{c}, nil
}

func c18InviteCheck(ctx *vfCtx, c c18InviteCase) {
	s := c18NewState(ctx, "C18")
	room := c18GetRoom(c.Version, "public", "-")
	if room == nil {
		ctx.Unjudged("generator: unknown version")
		return
	}
	state, err := c18ParseAll(c.Version, room.State)
	if err != nil {
		ctx.Unjudged("generator: room state does not parse")
		return
	}
	rid, rerr := spec.NewRoomID(room.RoomID)
	inviter, ierr := spec.NewUserID(c07Creator, true)
	inviteeName := "@zed:z.example"
	if c.TargetLocal {
		inviteeName = "@zed:" + string(inviter.Domain())
	}
	invitee, zerr := spec.NewUserID(inviteeName, true)
	if rerr != nil || ierr != nil || zerr != nil {
		ctx.Unjudged("generator: local identifiers")
		return
	}
	pseudo := c.Version == "org.matrix.msc4014"
	sender := c07Creator
	_, key := vfKeyFor("origin:" + string(inviter.Domain()))
	var signing ed25519.PrivateKey = key
	if pseudo {
		// the creator's per-room key, as the small room was built
		for _, e := range state {
			if e.Type() == spec.MRoomCreate {
				sender = string(e.SenderID())
			}
		}
		for _, label := range []string{"creator", "alice", "bob"} {
			if c18PseudoKey(label) == sender {
				_, signing = vfKeyFor("pseudo:" + label)
			}
		}
	}
	sk := invitee.String()
	proto := ProtoEvent{SenderID: sender, RoomID: room.RoomID, Type: spec.MRoomMember, StateKey: &sk, Content: spec.RawJSON(`{"membership":"invite"}`)}
	var stripped []InviteStrippedState
	if !c.NoStripped {
		for _, e := range state {
			if e.Type() == spec.MRoomCreate || e.Type() == spec.MRoomJoinRules {
				stripped = append(stripped, NewInviteStrippedState(e))
			}
		}
	}
	client := &c18InviteClient{s: s, c: c, invite: string(invitee.Domain())}
	input := PerformInviteInput{
		RoomID: *rid, RoomVersion: RoomVersion(c.Version), Inviter: *inviter, Invitee: *invitee, IsTargetLocal: c.TargetLocal,
		EventTemplate: proto, StrippedState: stripped, KeyID: "ed25519:1", SigningKey: signing, EventTime: c18Received,
		MembershipQuerier: c18NoMembership{}, StateQuerier: c18StateQ{state: state}, UserIDQuerier: c18Querier(c.Querier),
		SenderIDQuerier: func(roomID spec.RoomID, userID spec.UserID) (*spec.SenderID, error) {
			if pseudo && userID.String() != inviter.String() {
				return nil, nil
			}
			id := spec.SenderID(userID.String())
			if pseudo {
				id = spec.SenderID(sender)
			}
			return &id, nil
		},
		SenderIDCreator: func(ctx context.Context, userID spec.UserID, roomID spec.RoomID, roomVersion string) (spec.SenderID, ed25519.PrivateKey, error) {
			_, k := vfKeyFor("pseudo:zed")
			return spec.SenderID(c18PseudoKey("zed")), k, nil
		},
		EventQuerier: func(ctx context.Context, roomID spec.RoomID, needed []StateKeyTuple) (LatestEvents, error) {
			st, _ := c18StateQ{state: state}.GetState(ctx, roomID, needed)
			return LatestEvents{RoomExists: true, StateEvents: st, PrevEventIDs: []string{room.last}, Depth: room.depth + 1}, nil
		},
		StoreSenderIDFromPublicID: func(ctx context.Context, senderID spec.SenderID, userID string, id spec.RoomID) error { return nil },
	}
	var out PDU
	var perr error
	s.call("PerformInvite", func() { out, perr = PerformInvite(c18QuietCtx(), input, client) })
	ctx.Class("mode/" + c.Mode)
	ctx.Class(fmt.Sprintf("target-local=%v", c.TargetLocal))
	if client.asked > 0 {
		ctx.Class("remote-was-asked")
		ctx.NonTrivial()
	}
	switch {
	case perr == nil && out != nil:
		ctx.Class("perform-invite/returned-an-event")
		c18Light(s, out, "invited", false)
	case perr != nil:
		ctx.Class("perform-invite/refused")
	}

	// the federated state provider over the same remote material
	if c.Mode == "hostile" && len(state) > 0 {
		sc := &c18StateClient{state: EventJSONs{spec.RawJSON(c18Copy(c.Answer))}, auth: EventJSONs{spec.RawJSON(c18Copy(c.Answer)), spec.RawJSON("null")}, ids: []string{"$x", "", room.last}}
		for _, e := range state {
			sc.state = append(sc.state, spec.RawJSON(e.JSON()))
		}
		fp := &FederatedStateProvider{FedClient: sc, RememberAuthEvents: true, Server: "z.example", Origin: "a.example",
			EventToAuthEventIDs: map[string][]string{}, AuthEventMap: map[string]PDU{}}
		at := state[len(state)-1]
		s.call("FederatedStateProvider.StateIDsBeforeEvent", func() { _, _ = fp.StateIDsBeforeEvent(context.Background(), at) })
		var got map[string]PDU
		s.call("FederatedStateProvider.StateBeforeEvent", func() { got, _ = fp.StateBeforeEvent(context.Background(), RoomVersion(c.Version), at, nil) })
		for _, e := range got {
			if e == nil {
				ctx.Fail("C18/federated-state-provider/nil-event", "StateBeforeEvent returned a nil event")
				break
			}
		}
		if len(got) > len(state) {
			ctx.Class("state-provider/kept-the-remote-event")
		}
	}
}

func c18GenInvite(t *rapid.T) c18InviteCase {
	c := c18InviteCase{Version: evGenVersion(t), TargetLocal: rapid.IntRange(0, 3).Draw(t, "local") == 0}
	if rapid.IntRange(0, 3).Draw(t, "pseudoRoom") == 0 {
		// rooms with pseudo IDs have a handshake of their own (SendInviteV3, a self-verifying answer):
		// a quarter of the cases, not one in sixteen
		c.Version = "org.matrix.msc4014"
	}
	c.Mode = rapid.SampledFrom([]string{"hostile", "hostile", "hostile", "hostile", "echo", "error"}).Draw(t, "mode")
	c.NoStripped = rapid.IntRange(0, 3).Draw(t, "noStripped") == 0
	if c.Version == "org.matrix.msc4014" && rapid.Bool().Draw(t, "nilQuerier") {
		c.Querier = 1
	}
	if c.Mode == "hostile" {
		// an event of the same room version: one the hostile-event generator makes (any role, mutated
		// content / identifiers), often WITHOUT a state key or of another type than m.room.member
		for i := 0; i < 8; i++ {
			e := c18GenEvent(t)
			if e.Version == c.Version || i == 7 {
				c.Answer = e.Event
				if e.Version != c.Version {
					c.Version = e.Version
				}
				break
			}
		}
	}
	return c
}

func init() {
	vfRapid("C18/perform-invite", "non-trivial = PerformInvite got as far as asking the invited user's server, whose answer (an event of its choosing) then went through the rest of the handshake.", 1500, 60000, 8, c18GenInvite, c18InviteCheck)
}
