//go:build verif

// C14/load-and-verify: EventsLoader.LoadAndVerify (and RequestBackfill on top of it) on backfill
// answers built from signed room histories x event-level faults x the same PDU twice x event-provider
// and state-provider scripts.
package gomatrixserverlib

import (
	"context"
	"encoding/json"
	"fmt"
	"sort"
	"strings"

	"github.com/matrix-org/gomatrixserverlib/spec"
	"pgregory.net/rapid"
)

type c14LoadState struct {
	At      int    `json:"at"` // room event index
	State   []int  `json:"state"`
	IDsMode string `json:"ids_mode"`
	EvMode  string `json:"state_mode"`
}

type c14LoadCase struct {
	SoftFailFlag bool           `json:"soft_fail_flag,omitempty"`
	Version      string         `json:"version"`
	Events       []vfBytes      `json:"events"`
	Rejected     []int          `json:"rejected,omitempty"`
	Input        []int          `json:"input"` // the PDUs of the answer in wire order; a repeated index is the same PDU twice
	Faults       []c14Fault     `json:"faults,omitempty"`
	Prov         c14Script      `json:"provider"`
	States       []c14LoadState `json:"states"` // what the state provider reports before each input event
	Order        string         `json:"order"`  // prev | auth
	// Split > 0 (C11/ordering/backfill only): the answer is served by two servers, the first one
	// with the inputs from position Split on (descendants first), the second one with the rest
	Split int `json:"split,omitempty"`
}

func init() {
	// C11: "every ordering the library returns ... by prev events" - RequestBackfill returns its
	// events in that order also when it had to ask several servers (same generator, other oracle)
	vfRapid("C11/ordering/backfill", "non-trivial = both servers contribute at least one returned event and some returned event has a prev event among the returned events. distinct = distinct Case JSON",
		600, 12000, 8, func(t *rapid.T) c14LoadCase {
			c := c14GenLoad(t)
			c.Faults = nil
			c.Order = "prev"
			if len(c.Input) >= 2 {
				c.Split = rapid.IntRange(1, len(c.Input)-1).Draw(t, "split")
			}
			return c
		}, c14CheckLoad)
	// ... and LoadAndVerify itself documents that the loaded events are sorted by the ordering asked for
	vfRapid("C11/ordering/load-and-verify", "non-trivial = as C14/load-and-verify (some input fails a stage, some passes); here the ORDER of the results is what is judged. distinct = distinct Case JSON",
		600, 12000, 8, c14GenLoad, c14CheckLoad)
	vfRapid("C14/load-and-verify", "at least one input fails a stage (parse, signature, auth chain, auth at state) or is listed twice, and at least one input passes every stage", 900, 16000, 8, c14GenLoad, c14CheckLoad)
}

var c14LoadFaultKinds = []string{
	"sig-corrupt", "sig-wrong-key", "sig-drop", "sig-extra", "wire-padded", "disallow", "disallow", "other-room", "strip-state-key",
	"truncate", "malformed", "null", "long-room-id", "type-cp", "type-bytes", "big-event",
}

func c14GenLoad(t *rapid.T) c14LoadCase {
	w := c14GenWorld(t, 5, 22)
	r := w.r
	c := c14LoadCase{Version: r.Version, SoftFailFlag: rapid.IntRange(0, 2).Draw(t, "softFailFlag") == 0}
	n := rapid.IntRange(1, 6).Draw(t, "nInput")
	var pref []int
	for _, e := range r.Events {
		if w.tainted[e.Idx] || e.Rejected {
			pref = append(pref, e.Idx)
		}
	}
	for k := 0; k < n; k++ {
		var i int
		if len(pref) > 0 && c14Chance(t, "inputPref", 20) {
			i = rapid.SampledFrom(pref).Draw(t, "input")
		} else {
			i = rapid.IntRange(0, len(r.Events)-1).Draw(t, "input")
		}
		if c14Has(c.Input, i) && !c14Chance(t, "allowDup", 10) {
			continue
		}
		c.Input = append(c.Input, i)
	}
	if c14Chance(t, "dupPDU", 15) {
		c.Input = append(c.Input, rapid.SampledFrom(c.Input).Draw(t, "dupOf"))
	}
	nf := rapid.SampledFrom([]int{0, 0, 1, 1, 1, 2, 3}).Draw(t, "nFaults")
	used := map[int]bool{}
	for k := 0; k < nf; k++ {
		f := c14Fault{Kind: rapid.SampledFrom(c14LoadFaultKinds).Draw(t, "faultKind"), At: rapid.SampledFrom(c.Input).Draw(t, "faultAt"), Arg: rapid.IntRange(0, 47).Draw(t, "faultArg")}
		isCreate := r.Events[f.At].Type == "m.room.create"
		tr := vtraits[r.Version]
		if (f.Kind == "disallow" && isCreate) || (tr.Creators && (f.Kind == "long-room-id" || (f.Kind == "other-room" && isCreate))) {
			f.Kind = "sig-corrupt"
		}
		if f.Kind == "strip-state-key" && r.Events[f.At].Type == "m.room.member" {
			f.Kind = "sig-wrong-key" // see the unjudged class in c14CheckLoad
		}
		if used[f.At] {
			continue
		}
		used[f.At] = true
		c.Faults = append(c.Faults, f)
	}
	c.Prov.Default = rapid.SampledFrom([]string{"event", "event", "event", "event", "event", "event", "event", "event", "event", "event", "none", "error"}).Draw(t, "provDefault")
	chain := w.authClosure(c.Input)
	if len(chain) > 0 {
		modes := []string{"none", "error", "event"}
		if vtraits[r.Version].Format == 1 {
			modes = append(modes, "swap", "swap")
		}
		no := rapid.SampledFrom([]int{0, 0, 0, 0, 1, 1, 2}).Draw(t, "provOver")
		for k := 0; k < no; k++ {
			c.Prov.Over = append(c.Prov.Over, c14Prov{At: rapid.SampledFrom(chain).Draw(t, "provAt"), Mode: rapid.SampledFrom(modes).Draw(t, "provMode")})
		}
	}
	seen := map[int]bool{}
	for _, i := range c.Input {
		if seen[i] {
			continue
		}
		seen[i] = true
		s := c14LoadState{At: i, IDsMode: "ok", EvMode: "ok"}
		if c14Chance(t, "stateTrue", 60) {
			s.State = c14SortedVals(w.before[i])
		} else {
			s.State = c14GenStateFor(t, w, i)
		}
		switch rapid.IntRange(0, 15).Draw(t, "stateMode") {
		case 0:
			s.IDsMode = "error"
		case 1:
			s.EvMode = "error"
		}
		c.States = append(c.States, s)
	}
	c.Order = rapid.SampledFrom([]string{"prev", "auth"}).Draw(t, "order")
	c.Events = w.signedEvents()
	c.Rejected = w.rejected()
	return c
}

func c14ResultClass(r EventLoadResult) string {
	switch r.Error.(type) {
	case nil:
		return "ok"
	case SignatureErr:
		return "signature"
	case AuthChainErr:
		return "auth-chain"
	case AuthRulesErr:
		return "auth-rules"
	}
	return "other-error"
}

// c14Backfiller is the BackfillRequester handed to RequestBackfill: one server, which answers with the
// case's PDUs; state and events come from the scripted providers.
type c14Backfiller struct {
	*c14StateProvider
	pdus  []json.RawMessage
	prov  EventProvider
	split int
}

func (b *c14Backfiller) Backfill(ctx context.Context, origin, server spec.ServerName, roomID string, limit int, fromEventIDs []string) (Transaction, error) {
	if b.split > 0 {
		if server == "b.example" {
			return Transaction{Origin: server, PDUs: b.pdus[b.split:]}, nil
		}
		return Transaction{Origin: server, PDUs: b.pdus[:b.split]}, nil
	}
	return Transaction{Origin: server, PDUs: b.pdus}, nil
}

func (b *c14Backfiller) ServersAtEvent(ctx context.Context, roomID, eventID string) []spec.ServerName {
	if b.split > 0 {
		return []spec.ServerName{"b.example", "c.example"}
	}
	return []spec.ServerName{"b.example"}
}

func (b *c14Backfiller) ProvideEvents(roomVer RoomVersion, eventIDs []string) ([]PDU, error) {
	return b.prov(roomVer, eventIDs)
}

func c14CheckLoad(ctx *vfCtx, c c14LoadCase) {
	room := c14LoadRoom(c.Version, c.Events)
	if len(c.Input) == 0 {
		panic("c14 harness: empty input")
	}
	ctx.Class(c14VersionClass(c.Version))
	ctx.Class("provider:" + c.Prov.Default)
	ctx.Class("order:" + c.Order)
	evFault := map[int]*c14Fault{}
	for i := range c.Faults {
		f := &c.Faults[i]
		if room.ok(f.At) && c14IsEventFault(f.Kind) && evFault[f.At] == nil {
			evFault[f.At] = f
			ctx.Class("fault:" + f.Kind)
		}
	}
	states := map[int]c14LoadState{}
	for _, s := range c.States {
		states[s.At] = s
	}
	// the wire items and, per distinct event, the expected class
	items := make([]c14Item, 0, len(c.Input))
	made := map[int]c14Item{}
	for _, i := range c.Input {
		if !room.ok(i) {
			panic("c14 harness: bad input index")
		}
		it, ok := made[i]
		if !ok {
			it = c14MakeItem(room, i, evFault[i])
			made[i] = it
		}
		items = append(items, it)
	}
	for _, it := range items {
		if it.Kind == "strip-state-key" && evStr(it.Tree, "type") == "m.room.member" {
			// the library reports a signature failure ("missing state key") for validly signed events
			// of type m.room.member without a state key; which servers must sign such a non-membership
			// event is outside the statement (the auth stage refuses it in any case)
			ctx.Unjudged("m.room.member event without a state key: signature stage or auth stage")
			return
		}
	}
	sp := &c14StateProvider{room: room, by: map[string]c14SPEntry{}}
	expect := map[string]string{}    // event ID -> class
	namedOnly := map[string]string{} // event ID -> class under the known defect of VerifyAuthRulesAtState, where it can differ
	occurs := map[string]int{}
	parseFails := 0
	dup := false
	for _, it := range items {
		if it.Class != c14ClassOK {
			parseFails++
			continue
		}
		occurs[it.ID]++
		if occurs[it.ID] > 1 {
			dup = true
			continue
		}
		s := states[it.Src]
		entry := c14SPEntry{State: s.State, IDsMode: s.IDsMode, EvMode: s.EvMode}
		sp.by[it.ID] = entry
		switch {
		case !it.SigOK:
			expect[it.ID] = "signature"
		default:
			cv := c14ChainModel(room, it.Tree, c.Prov)
			if cv.Unjudged != "" {
				ctx.Unjudged("an auth state R-auth does not judge")
				return
			}
			if !cv.Accept {
				expect[it.ID] = "auth-chain"
				why := cv.Why
				if i := strings.IndexByte(why, ':'); i >= 0 {
					why = why[:i]
				}
				ctx.Class("auth-chain:" + why)
				break
			}
			ok, why, unj := c14AtStateModel(room, it.Tree, entry, true)
			if unj != "" {
				ctx.Unjudged("an auth state R-auth does not judge")
				return
			}
			if (why == "allowed-by-state" || strings.HasPrefix(why, "forbidden-by-state")) && c14AuthVsState(room, it.Tree, entry.State) != "all-in-state" {
				// the known defect of VerifyAuthRulesAtState (see C14/auth-at-state) would report this
				if c14NamedOnlyVerdict(room, it.Tree, entry.State) {
					namedOnly[it.ID] = "ok"
				} else {
					namedOnly[it.ID] = "auth-rules"
				}
			}
			if !ok {
				expect[it.ID] = "auth-rules"
			} else {
				expect[it.ID] = "ok"
			}
		}
	}
	if dup {
		ctx.Class("input:same-pdu-twice")
	}
	nOK, nBad := 0, parseFails
	for i := 0; i < parseFails; i++ {
		ctx.Class("expect:parse")
	}
	for _, id := range c14SortedKeys(occurs) {
		ctx.Class("expect:" + expect[id])
		if expect[id] == "ok" {
			nOK++
		} else {
			nBad++
		}
	}
	if nOK > 0 && (nBad > 0 || dup) {
		ctx.NonTrivial()
	}

	raws := make([]json.RawMessage, 0, len(items))
	copies := map[string]int{}
	for _, it := range items {
		raw := append(json.RawMessage{}, it.Raw...)
		if it.Class == c14ClassOK && it.ID != "" {
			copies[it.ID]++
			if n := copies[it.ID]; n > 1 && n%2 == 0 && it.Tree.K == 'o' {
				// every other repeat of a PDU arrives as other BYTES of the same event (servers attach their
				// own unsigned section, which is neither hashed nor signed nor part of the event ID)
				raw = json.RawMessage(jplain(it.Tree.with("unsigned", jobj("age", jnum(int64(1000+n))))))
				ctx.Class("input:same-pdu-twice/other-bytes")
			}
		}
		raws = append(raws, raw)
	}
	lists := [2][]c14Item{items, nil}
	order := TopologicalOrderByPrevEvents
	if c.Order == "auth" {
		order = TopologicalOrderByAuthEvents
	}
	var asked []string
	prov := c14LibProvider(room, c.Prov, &asked)
	// (the last argument asks for a soft-fail check the library documents as not implemented: it changes no verdict)
	loader := NewEventsLoader(RoomVersion(c.Version), c14Verifier(), sp, prov, c.SoftFailFlag)
	if c.SoftFailFlag {
		ctx.Class("loader/soft-fail-check-requested")
	}
	var results []EventLoadResult
	var err error
	panicked := c14Catch(ctx, "C14/load-and-verify", lists, false, func() {
		results, err = loader.LoadAndVerify(context.Background(), raws, order, vfUserIDForSender)
	})
	if panicked {
		return
	}
	if c.Split > 0 && c.Split < len(raws) {
		// C11/ordering/backfill: two servers, limit = everything, so that the second one is asked too
		bf := &c14Backfiller{c14StateProvider: &c14StateProvider{room: room, by: sp.by}, pdus: raws, prov: c14LibProvider(room, c.Prov, &asked), split: c.Split}
		var got []PDU
		if c14Catch(ctx, "C11/ordering/backfill", lists, false, func() {
			got, _ = RequestBackfill(context.Background(), "a.example", bf, c14Verifier(), "!room:a.example", RoomVersion(c.Version), []string{"$from"}, len(raws), vfUserIDForSender)
		}) {
			return
		}
		pos := map[string]int{}
		for i, p := range got {
			if p != nil {
				pos[p.EventID()] = i
			}
		}
		first, second, edge := false, false, false
		for i, it := range items {
			if _, ok := pos[it.ID]; ok {
				if i >= c.Split {
					first = true
				} else {
					second = true
				}
			}
		}
		for _, p := range got {
			if p == nil {
				continue
			}
			for _, prev := range p.PrevEventIDs() {
				if pp, ok := pos[prev]; ok {
					edge = true
					if pp > pos[p.EventID()] {
						ctx.Fail("C11/ordering/backfill/ancestor-after-descendant", "RequestBackfill (two servers) returned %s at position %d before its prev event %s at position %d", p.EventID(), pos[p.EventID()], prev, pp)
						return
					}
				}
			}
		}
		if first && second && edge {
			ctx.NonTrivial()
		}
		ctx.Class(fmt.Sprintf("backfill/returned=%d-of-%d", min(len(got), 9), min(len(raws), 9)))
		return
	}
	c14JudgeLoad(ctx, c, items, expect, namedOnly, occurs, parseFails, dup, results, err)
	if ctx.Failed() {
		return
	}
	// the same loader used again for the same answer (a caller that keeps one loader per room): every
	// input is classified as before - a loader carries nothing over from one call to the next
	if c.Split == 0 {
		var again []EventLoadResult
		var aerr error
		if c14Catch(ctx, "C14/load-and-verify/loader-reused", lists, false, func() {
			again, aerr = loader.LoadAndVerify(context.Background(), raws, order, vfUserIDForSender)
		}) {
			return
		}
		ctx.Class("loader-reused")
		if (aerr == nil) != (err == nil) || len(again) != len(results) {
			ctx.Fail("C14/load-and-verify/loader-reused/differs", "first call: %d results, error %v; second call on the same loader: %d results, error %v", len(results), err, len(again), aerr)
			return
		}
		for i := range results {
			a, b := results[i], again[i]
			aid, bid := "", ""
			if a.Event != nil {
				aid = a.Event.EventID()
			}
			if b.Event != nil {
				bid = b.Event.EventID()
			}
			if aid != bid || (a.Error == nil) != (b.Error == nil) || fmt.Sprintf("%T", a.Error) != fmt.Sprintf("%T", b.Error) {
				ctx.Fail("C14/load-and-verify/loader-reused/differs", "result %d: first call %q / %v, second call on the same loader %q / %v", i, aid, a.Error, bid, b.Error)
				return
			}
		}
	}
	// C11: the loaded events come back in the ordering asked for - each after the ancestors (prev /
	// auth events) it names among the loaded events - whether or not they passed the checks
	{
		pos := map[string]int{}
		for i, r := range results {
			if r.Event != nil {
				pos[r.Event.EventID()] = i
			}
		}
		for _, r := range results {
			if r.Event == nil {
				continue
			}
			refs := r.Event.PrevEventIDs()
			if c.Order == "auth" {
				refs = r.Event.AuthEventIDs()
			}
			for _, ref := range refs {
				if pp, ok := pos[ref]; ok && pp > pos[r.Event.EventID()] {
					ctx.Fail("C11/ordering/load-and-verify/ancestor-after-descendant", "LoadAndVerify (order by %s events) returned %s at position %d before the event %s it refers to at position %d", c.Order, r.Event.EventID(), pos[r.Event.EventID()], ref, pp)
					return
				}
			}
		}
	}
	// RequestBackfill on the same answer: the statement does not speak about it beyond LoadAndVerify,
	// so only a crash is judged (it dereferences a result that has neither an event nor an error).
	bf := &c14Backfiller{c14StateProvider: &c14StateProvider{room: room, by: sp.by}, pdus: raws, prov: c14LibProvider(room, c.Prov, &asked)}
	var got []PDU
	var berr error
	pfx := "C14/backfill"
	if dup {
		pfx = "C14/backfill/same-pdu-twice"
	}
	if c14Catch(ctx, pfx, lists, false, func() {
		got, berr = RequestBackfill(context.Background(), "a.example", bf, c14Verifier(), "!room:a.example", RoomVersion(c.Version), []string{"$from"}, 100, vfUserIDForSender)
	}) {
		return
	}
	_ = berr
	for _, p := range got {
		if p == nil {
			continue
		}
		if expect[p.EventID()] == "signature" {
			ctx.Class("backfill:returns-event-whose-signature-check-failed")
			ctx.Unjudged("RequestBackfill passes on events whose signature check failed (deliberate, see its comment); the statement speaks about LoadAndVerify's classification only")
			break
		}
	}
}

func c14JudgeLoad(ctx *vfCtx, c c14LoadCase, items []c14Item, expect, namedOnly map[string]string, occurs map[string]int, parseFails int, dup bool, results []EventLoadResult, err error) {
	const pfx = "C14/load-and-verify/"
	suffix := ""
	if dup {
		suffix = "/same-pdu-twice"
	}
	if err != nil {
		ctx.Fail(pfx+"unexpected-error", "LoadAndVerify failed as a whole: %v", err)
		return
	}
	if len(results) != len(items) {
		ctx.Fail(pfx+"length-mismatch"+suffix, "%d inputs, %d results", len(items), len(results))
		return
	}
	seen := map[string]int{}
	eventless := 0
	hole := false
	for i, r := range results {
		if r.Event == nil && r.Error == nil {
			if !hole {
				ctx.Fail(pfx+"result-without-event-or-error"+suffix, "result %d of %d has neither an event nor an error", i, len(results))
			}
			hole = true
			continue
		}
		if r.Event == nil {
			eventless++
			if cl := c14ResultClass(r); cl != "other-error" {
				ctx.Fail(pfx+"wrong-class/parse-reported-as-"+cl, "result %d has no event but the error class %s", i, cl)
				return
			}
			continue
		}
		id := r.Event.EventID()
		want, known := expect[id]
		if !known {
			// an event that parses with an error (persistable size error) must be reported as a parse failure
			ctx.Fail(pfx+"unknown-or-unparsed-event-in-results", "result %d carries event %s which is not a cleanly parsed input", i, id)
			return
		}
		seen[id]++
		if got := c14ResultClass(r); got != want && namedOnly[id] == got {
			ctx.Fail(pfx+"wrong-class/auth-at-state-judged-by-named-auth-events-only", "event %s: by the state before it the class is %q, reported %q (%v)", id, want, got, r.Error)
		} else if got != want {
			ctx.Fail(pfx+"wrong-class/"+want+"-reported-as-"+got, "event %s: first failing stage is %q, reported %q (%v)", id, want, got, r.Error)
			return
		}
	}
	if hole {
		return
	}
	ids := make([]string, 0, len(occurs))
	for id := range occurs {
		ids = append(ids, id)
	}
	sort.Strings(ids)
	spare := 0
	for _, id := range ids {
		switch {
		case seen[id] == 0:
			ctx.Fail(pfx+"event-missing-from-results"+suffix, "input event %s (expected class %s) has no result", id, expect[id])
			return
		case seen[id] > occurs[id]:
			ctx.Fail(pfx+"event-reported-more-often-than-sent", "event %s sent %d times, reported %d times", id, occurs[id], seen[id])
			return
		}
		spare += occurs[id] - seen[id]
	}
	if eventless < parseFails || eventless > parseFails+spare {
		ctx.Fail(pfx+"parse-failure-count"+suffix, "%d inputs do not parse, %d results carry only an error (repeated PDUs unaccounted for: %d)", parseFails, eventless, spare)
	}
	_ = fmt.Sprint
}
