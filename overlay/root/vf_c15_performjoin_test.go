//go:build verif

package gomatrixserverlib

import (
	"context"
	"crypto/ed25519"
	"encoding/json"
	"fmt"
	"strings"

	"github.com/matrix-org/gomatrixserverlib/spec"
	"pgregory.net/rapid"
)

// C15/perform-join: PerformJoin (run by remote.example for @rita) returns a join only if the
// resident server's send_join response passes the federation-response checks and contains a create
// event of a known room version.
//
// The resident server is a stub FederatedJoinClient scripted by the Case: it serves a make_join
// template built from a small signed room history and answers send_join with that history's auth
// chain and current state, with one scripted fault. Oracle (all computed from the Case with the
// reference signature check and R-auth, never with the library's own checks). A join is returned
// only if
//   - make_join and send_join succeeded and the reported room version is known,
//   - the response's auth chain contains an m.room.create event (state key "") whose room_version is
//     absent or registered ("contains a create event of a known room version"; read as the library
//     documents it: the auth chain is inspected),
//   - every event in the response has a state key and the state has no duplicate (type, state_key),
//   - the returned join event passes R-auth both on those of its auth events and on that part of the
//     state which survive the checks (valid signatures of the required servers, allowed by their own
//     auth events),
//   - it is an m.room.member join of the user in the room;
// and the returned state snapshot contains no event that fails those checks. With a fault-free
// response the join must be returned.

type c15PJCase struct {
	Version           string `json:"version"`
	RespVersion       string `json:"resp_version"` // "=" | "" (make_join names no version) | literal
	MakeErr           bool   `json:"make_err,omitempty"`
	SendErr           bool   `json:"send_err,omitempty"`
	JoinRule          string `json:"join_rule"`           // public | invite | invited
	CreateWhere       string `json:"create_where"`        // both | state-only | auth-only | none
	CreateRoomVersion string `json:"create_room_version"` // "=" | "-" | literal
	Fault             string `json:"fault"`               // "" | badsig | disallowed | no-state-key | duplicate
	FaultTarget       string `json:"fault_target"`        // badsig: create | creator | pl | jr | lara | topic ; others: state | auth
	Echo              string `json:"echo"`                // "" | echo | other | other-bad-sender | garbage
	TemplateOdd       string `json:"template_odd"`        // "" | type | room | redacts | few-auth
	Unsigned          bool   `json:"unsigned"`
	// MembersOmitted: the answer is flagged as partial state; the checks on what it does contain are the same
	MembersOmitted bool `json:"members_omitted,omitempty"`
}

type c15MakeJoinResp struct {
	version RoomVersion
	proto   ProtoEvent
}

func (r *c15MakeJoinResp) GetJoinEvent() ProtoEvent    { return r.proto }
func (r *c15MakeJoinResp) GetRoomVersion() RoomVersion { return r.version }

type c15SendJoinResp struct {
	auth, state EventJSONs
	event       spec.RawJSON
	omitted     bool
}

func (r *c15SendJoinResp) GetAuthEvents() EventJSONs  { return r.auth }
func (r *c15SendJoinResp) GetStateEvents() EventJSONs { return r.state }
func (r *c15SendJoinResp) GetOrigin() spec.ServerName { return c15Local }
func (r *c15SendJoinResp) GetJoinEvent() spec.RawJSON { return r.event }
func (r *c15SendJoinResp) GetMembersOmitted() bool    { return r.omitted }
func (r *c15SendJoinResp) GetServersInRoom() []string { return []string{c15Local} }

type c15JoinClient struct {
	c           c15PJCase
	room        string
	template    []byte
	auth, state []jv
	makeCalls   int
	sendCalls   int
	sent        []byte
	otherEvent  func(badSender bool) jv
	harnessNote string
}

func (f *c15JoinClient) MakeJoin(ctx context.Context, origin, s spec.ServerName, roomID, userID string) (MakeJoinResponse, error) {
	f.makeCalls++
	if f.c.MakeErr {
		return nil, fmt.Errorf("c15 scripted make_join failure")
	}
	var proto ProtoEvent
	if err := json.Unmarshal(f.template, &proto); err != nil {
		f.harnessNote = "template does not decode: " + err.Error()
		return nil, err
	}
	v := f.c.RespVersion
	if v == "=" {
		v = f.c.Version
	}
	return &c15MakeJoinResp{version: RoomVersion(v), proto: proto}, nil
}

func (f *c15JoinClient) SendJoin(ctx context.Context, origin, s spec.ServerName, event PDU) (SendJoinResponse, error) {
	f.sendCalls++
	f.sent = append([]byte{}, event.JSON()...)
	if f.c.SendErr {
		return nil, fmt.Errorf("c15 scripted send_join failure")
	}
	r := &c15SendJoinResp{omitted: f.c.MembersOmitted}
	for _, e := range f.auth {
		r.auth = append(r.auth, spec.RawJSON(jplain(e)))
	}
	for _, e := range f.state {
		r.state = append(r.state, spec.RawJSON(jplain(e)))
	}
	switch f.c.Echo {
	case "echo":
		if t, err := evTree(f.sent); err == nil {
			r.event = spec.RawJSON(jplain(c15Sign(f.c.Version, t, c15Local)))
		}
	case "other":
		r.event = spec.RawJSON(jplain(f.otherEvent(false)))
	case "other-bad-sender":
		r.event = spec.RawJSON(jplain(f.otherEvent(true)))
	case "garbage":
		r.event = spec.RawJSON(`{"x":1}`)
	}
	return r, nil
}

func c15AuthIDs(version string, ev jv) []string {
	var out []string
	if vtraits[version].Creators && !(evStr(ev, "type") == "m.room.create") {
		if r := evStr(ev, "room_id"); len(r) > 1 {
			out = append(out, "$"+r[1:])
		}
	}
	if ae, ok := ev.get("auth_events"); ok && ae.K == 'a' {
		for _, x := range ae.A {
			if x.K == 's' {
				out = append(out, x.S)
			} else if x.K == 'a' && len(x.A) > 0 && x.A[0].K == 's' {
				out = append(out, x.A[0].S)
			}
		}
	}
	return out
}

// c15RequiredSigned: the servers the protocol requires have validly signed the event.
func c15RequiredSigned(version string, ev jv, keys []c15Key) bool {
	sender := evStr(ev, "sender")
	if !c15SignedBy(version, ev, c15Domain(sender), keys) {
		return false
	}
	if evStr(ev, "type") == "m.room.member" {
		ct, _ := ev.get("content")
		if m, _ := raStr(ct, "membership"); m == "invite" {
			if sk, ok := raStr(ev, "state_key"); ok && c15Domain(sk) != c15Domain(sender) {
				return c15SignedBy(version, ev, c15Domain(sk), keys)
			}
		}
	}
	return true
}

func c15CorruptSig(ev jv, server string) jv {
	s, ok := c02SigOfTree(ev, server, c15KeyID)
	if !ok {
		return ev
	}
	b := []byte(s)
	if b[5] == 'A' {
		b[5] = 'B'
	} else {
		b[5] = 'A'
	}
	sigs, _ := ev.get("signatures")
	ent, _ := sigs.get(server)
	return ev.with("signatures", sigs.with(server, ent.with(c15KeyID, jstr(string(b)))))
}

func c15PJCheck(ctx *vfCtx, c c15PJCase) {
	version := c.Version
	keys := c15GoodKeys()
	b := c15NewRoom(version, nil, c.CreateRoomVersion)
	b.addPL(0, map[string]int64{c15Lara: 50}, []string{c15Creator})
	b.add(raEv{Type: "m.room.join_rules", Sender: c15Creator, StateKey: raSK(""), Content: jobj("join_rule", jstr("public"))})
	b.add(raEv{Type: "m.room.member", Sender: c15Lara, StateKey: raSK(c15Lara), Content: jobj("membership", jstr("join"))})
	b.add(raEv{Type: "m.room.topic", Sender: c15Creator, StateKey: raSK(""), Content: jobj("topic", jstr("c15"))})
	if c.JoinRule != "public" {
		b.add(raEv{Type: "m.room.join_rules", Sender: c15Creator, StateKey: raSK(""), Content: jobj("join_rule", jstr("invite"))})
	}
	if c.JoinRule == "invited" {
		b.add(raEv{Type: "m.room.member", Sender: c15Creator, StateKey: raSK(c15Rita), Content: jobj("membership", jstr("invite"))})
	}
	// the template the resident server offers
	var tmplAuth []string
	if c.TemplateOdd == "few-auth" { // the template cites the create and power-level events only
		tmplAuth = []string{}
		if id, ok := b.stateID("m.room.create", ""); ok && !vtraits[version].Creators {
			tmplAuth = append(tmplAuth, id)
		}
		if id, ok := b.stateID("m.room.power_levels", ""); ok {
			tmplAuth = append(tmplAuth, id)
		}
	}
	tmplTree := c15MemberTreeAuth(b, "m.room.member", c15Rita, raSK(c15Rita), b.RoomID, jobj("membership", jstr("join")), tmplAuth).without("hashes", "origin_server_ts", "event_id")
	switch c.TemplateOdd {
	case "type":
		tmplTree = tmplTree.with("type", jstr("m.room.message"))
	case "room":
		tmplTree = tmplTree.with("room_id", jstr(c15PlainRoomID(version, "elsewhere")))
	case "redacts":
		tmplTree = tmplTree.with("redacts", jstr(c15FakeEventID(version, "victim")))
	case "membership-leave", "membership-ban", "membership-invite", "membership-knock":
		// a template whose content asks for something other than a join: what is built, signed and
		// returned is a join all the same (the rest of the template's content is the resident's to choose)
		tmplTree = tmplTree.with("content", jobj("membership", jstr(strings.TrimPrefix(c.TemplateOdd, "membership-")), "displayname", jstr("from the template")))
	}
	// the response lists
	var auth, state []jv
	for i, ev := range b.Events {
		typ := evStr(ev, "type")
		isCreate := typ == "m.room.create"
		sk, _ := raStr(ev, "state_key")
		current := b.State[c15Tuple(typ, sk)] == i
		inAuth := typ != "m.room.topic"
		inState := current
		if isCreate {
			inAuth = c.CreateWhere == "both" || c.CreateWhere == "auth-only"
			inState = c.CreateWhere == "both" || c.CreateWhere == "state-only"
		}
		if c.Fault == "badsig" {
			name := map[string]string{"m.room.create": "create", "m.room.power_levels": "pl", "m.room.join_rules": "jr", "m.room.topic": "topic"}[typ]
			if typ == "m.room.member" {
				name = map[string]string{c15Creator: "creator", c15Lara: "lara", c15Rita: "rita-invite"}[sk]
			}
			if name == c.FaultTarget && current {
				ev = c15CorruptSig(ev, c15Domain(evStr(ev, "sender")))
			}
		}
		if inAuth {
			auth = append(auth, ev)
		}
		if inState {
			state = append(state, ev)
		}
	}
	extraTo := func(ev jv) {
		if c.FaultTarget == "auth" {
			auth = append(auth, ev)
		} else {
			state = append(state, ev)
		}
	}
	switch c.Fault {
	case "disallowed": // a state event by a user who is not in the room, properly signed
		cp := *b
		extraTo(c15Sign(version, cp.tree(raEv{Type: "m.room.name", Sender: c15Otto, StateKey: raSK(""), Content: jobj("name", jstr("mine now"))}), c15Other))
	case "no-state-key":
		cp := *b
		extraTo(c15Sign(version, cp.tree(raEv{Type: "m.room.message", Sender: c15Creator, Content: jobj("body", jstr("hi"))}), c15Local))
	case "duplicate":
		cp := *b
		state = append(state, c15Sign(version, cp.tree(raEv{Type: "m.room.topic", Sender: c15Creator, StateKey: raSK(""), Content: jobj("topic", jstr("second"))}), c15Local))
	}

	// ---- oracle part 1: the response
	effVersion := c.RespVersion
	if effVersion == "=" || effVersion == "" {
		effVersion = version
	}
	_, gVersion := vtraits[effVersion]
	gCreate := false
	for _, ev := range auth {
		if sk, ok := raStr(ev, "state_key"); evStr(ev, "type") == "m.room.create" && ok && sk == "" {
			ct, _ := ev.get("content")
			rv, has := ct.get("room_version")
			if !has || rv.K == 'n' {
				gCreate = true
			} else if rv.K == 's' {
				_, gCreate = vtraits[rv.S]
			}
			break
		}
	}
	gShape := true
	tuples := map[string]bool{}
	for _, ev := range auth {
		if _, ok := raStr(ev, "state_key"); !ok {
			gShape = false
		}
	}
	for _, ev := range state {
		sk, ok := raStr(ev, "state_key")
		if !ok {
			gShape = false
			continue
		}
		if tuples[c15Tuple(evStr(ev, "type"), sk)] {
			gShape = false
		}
		tuples[c15Tuple(evStr(ev, "type"), sk)] = true
	}
	signedByID := map[string]jv{}
	all := append(append([]jv{}, auth...), state...)
	for _, ev := range all {
		if c15RequiredSigned(version, ev, keys) {
			signedByID[raEventID(version, ev)] = ev
		}
	}
	survives := map[string]bool{}
	for _, ev := range all {
		id := raEventID(version, ev)
		if _, ok := signedByID[id]; !ok {
			continue
		}
		var aevs []jv
		for _, a := range c15AuthIDs(version, ev) {
			if t, ok := signedByID[a]; ok {
				aevs = append(aevs, t)
			}
		}
		if ok, _ := rauth(version, raBuildState(version, aevs), ev); ok {
			survives[id] = true
		}
	}
	faultless := c.Fault == "" && c.CreateWhere == "both" && c.CreateRoomVersion == "=" && !c.MakeErr && !c.SendErr && gVersion && c.JoinRule != "invite" && c.Echo != "other-bad-sender" && c.TemplateOdd != "few-auth"
	if faultless {
		ctx.Class("all-guards-hold")
	}
	if c.Fault != "" {
		ctx.Class("fault/" + c.Fault + "/" + c.FaultTarget)
	}
	if c.CreateWhere != "both" || c.CreateRoomVersion != "=" {
		ctx.Class("create/" + c.CreateWhere + "/room_version" + c.CreateRoomVersion)
	}
	if c.MakeErr || c.SendErr {
		ctx.Class("fault/request-failed")
	}
	if !gVersion {
		ctx.Class("fault/unknown-version")
	}
	if c.RespVersion == "" {
		ctx.Class("make-join-names-no-version")
	}
	ctx.Class("rule/" + c.JoinRule)
	ctx.Class("echo/" + c.Echo)
	ctx.Class("template/" + c.TemplateOdd)
	nfaults := 0
	for _, f := range []bool{c.Fault != "", c.CreateWhere != "both", c.CreateRoomVersion != "=", c.MakeErr, c.SendErr, !gVersion, c.JoinRule == "invite", c.Echo == "other-bad-sender", c.TemplateOdd == "few-auth"} {
		if f {
			nfaults++
		}
	}
	if nfaults <= 1 {
		ctx.NonTrivial()
	}

	// ---- run
	user, err1 := spec.NewUserID(c15Rita, true)
	roomID, err2 := spec.NewRoomID(b.RoomID)
	if err1 != nil || err2 != nil {
		ctx.Unjudged("generator: IDs do not parse")
		return
	}
	client := &c15JoinClient{c: c, room: b.RoomID, template: []byte(jplain(tmplTree)), auth: auth, state: state}
	client.otherEvent = func(badSender bool) jv {
		sender := c15Rita
		if badSender {
			sender = c15Creator
		}
		ev := c15MemberTree(b, "m.room.member", sender, raSK(c15Rita), b.RoomID, jobj("membership", jstr("join"), "displayname", jstr("chosen by the resident server")))
		return c15Sign(version, ev, c15Local)
	}
	_, priv := vfKeyFor(c15KeyLabel(c15Remote))
	input := PerformJoinInput{
		UserID: user, RoomID: roomID, ServerName: c15Local, PrivateKey: priv, KeyID: c15KeyID, KeyRing: c15Ring(keys),
		EventProvider: func(roomVer RoomVersion, eventIDs []string) ([]PDU, error) { return nil, nil },
		UserIDQuerier: vfUserIDForSender,
		GetOrCreateSenderID: func(ctx context.Context, userID spec.UserID, roomID spec.RoomID, roomVersion string) (spec.SenderID, ed25519.PrivateKey, error) {
			return "", nil, fmt.Errorf("c15: no pseudo IDs here")
		},
		StoreSenderIDFromPublicID: c15NoStore,
	}
	if c.Unsigned {
		input.Unsigned = map[string]interface{}{"c15": "local note"}
	}
	var resp *PerformJoinResponse
	var ferr *FederationError
	if vfCatch(ctx, "C15/perform-join", func() {
		resp, ferr = PerformJoin(c15Quiet(), client, input)
	}) {
		return
	}
	if client.harnessNote != "" {
		ctx.Unjudged("generator: " + client.harnessNote)
		return
	}
	returned := ferr == nil && resp != nil && resp.JoinEvent != nil
	if returned {
		ctx.Class("outcome/join")
		if !faultless {
			ctx.Class("outcome/join-with-tolerated-fault/" + c.Fault + "/" + c.FaultTarget)
		}
	} else {
		ctx.Class("outcome/error")
	}
	if ferr == nil && !returned {
		ctx.Fail("C15/perform-join/no-error-no-join", "PerformJoin returned neither an error nor a join event")
		return
	}
	if faultless && !returned {
		ctx.Fail("C15/perform-join/refused-although-all-guards-hold", "PerformJoin failed (%v) on a fault-free response; case=%+v", ferr, c)
	}
	if !returned {
		return
	}
	// ---- soundness
	fail := func(guard, format string, a ...any) {
		ctx.Fail("C15/perform-join/join-despite/"+guard, "PerformJoin returned a join although %s; case=%+v", fmt.Sprintf(format, a...), c)
	}
	if c.MakeErr || c.SendErr {
		fail("federation-request-failed", "make_join / send_join failed")
	}
	if !gVersion {
		fail("unknown-room-version", "make_join named room version %q", c.RespVersion)
	}
	if !gCreate {
		fail("no-create-event-of-known-version", "the response's auth chain has no create event of a known room version (create in %s, room_version %q)", c.CreateWhere, c.CreateRoomVersion)
	}
	if !gShape {
		fail("malformed-state", "the response has an event without a state key or a duplicate (type, state_key)")
	}
	jt, err := evTree(resp.JoinEvent.JSON())
	if err != nil {
		ctx.Fail("C15/perform-join/returned-event-malformed", "returned join event is not a well-formed JSON object: %v", err)
		return
	}
	jc, _ := jt.get("content")
	jm, _ := raStr(jc, "membership")
	if jsk, _ := raStr(jt, "state_key"); evStr(jt, "type") != "m.room.member" || jm != "join" || jsk != c15Rita || evStr(jt, "room_id") != b.RoomID {
		ctx.Fail("C15/perform-join/returned-event-not-the-join", "returned event is not an m.room.member join of %s in %s: %s", c15Rita, b.RoomID, resp.JoinEvent.JSON())
	}
	if gVersion && effVersion == version {
		var byAuth, byState []jv
		for _, a := range c15AuthIDs(version, jt) {
			if t, ok := signedByID[a]; ok && survives[a] {
				byAuth = append(byAuth, t)
			}
		}
		for _, ev := range state {
			if survives[raEventID(version, ev)] {
				byState = append(byState, ev)
			}
		}
		if ok, rule := rauth(version, raBuildState(version, byAuth), jt); !ok && !strings.Contains(rule, "(unjudged)") {
			fail("join-refused-by-its-auth-events", "the join event is refused (%s) by those of its auth events that pass the checks", rule)
		}
		if ok, rule := rauth(version, raBuildState(version, byState), jt); !ok && !strings.Contains(rule, "(unjudged)") {
			fail("join-refused-by-the-state", "the join event is refused (%s) by the part of the state that passes the checks", rule)
		}
		if resp.StateSnapshot != nil {
			for _, list := range []EventJSONs{resp.StateSnapshot.GetAuthEvents(), resp.StateSnapshot.GetStateEvents()} {
				for _, raw := range list {
					t, err := evTree(raw)
					if err != nil {
						continue
					}
					if id := raEventID(version, t); !survives[id] {
						ctx.Fail("C15/perform-join/snapshot-keeps-failed-event", "the returned state snapshot contains event %s (%s) which fails the signature / auth checks", id, evStr(t, "type"))
					}
				}
			}
		}
	}
}

func c15PJGen(t *rapid.T) c15PJCase {
	c := c15PJCase{RespVersion: "=", CreateWhere: "both", CreateRoomVersion: "="}
	c.Version = rapid.SampledFrom(c15Versions).Draw(t, "version")
	c.JoinRule = rapid.SampledFrom([]string{"public", "public", "invited"}).Draw(t, "joinRule")
	c.Echo = rapid.SampledFrom([]string{"", "echo", "echo", "other", "garbage"}).Draw(t, "echo")
	c.TemplateOdd = rapid.SampledFrom([]string{"", "", "", "type", "room", "redacts", "few-auth", "membership-leave", "membership-ban", "membership-invite", "membership-knock"}).Draw(t, "templateOdd")
	c.Unsigned = rapid.Bool().Draw(t, "unsigned")
	c.MembersOmitted = rapid.Bool().Draw(t, "membersOmitted")
	if (c.Version == "1" || c.Version == "4") && rapid.IntRange(0, 3).Draw(t, "noVersion") == 0 {
		c.RespVersion = ""
	}
	nf := rapid.SampledFrom([]int{0, 0, 1, 1, 1, 2}).Draw(t, "nFaults")
	for i := 0; i < nf; i++ {
		switch rapid.SampledFrom([]string{"version", "make-err", "send-err", "create-where", "create-version", "badsig", "badsig", "disallowed", "no-state-key", "duplicate", "rule", "echo-bad"}).Draw(t, "fault") {
		case "version":
			c.RespVersion = rapid.SampledFrom([]string{"99", "org.example.unknown", "10 "}).Draw(t, "badVersion")
		case "make-err":
			c.MakeErr = true
		case "send-err":
			c.SendErr = true
		case "create-where":
			c.CreateWhere = rapid.SampledFrom([]string{"state-only", "state-only", "auth-only", "none"}).Draw(t, "createWhere")
		case "create-version":
			c.CreateRoomVersion = rapid.SampledFrom([]string{"99", "org.example.unknown", "-"}).Draw(t, "createVersion")
		case "badsig":
			c.Fault = "badsig"
			targets := []string{"create", "creator", "pl", "jr", "lara", "topic"}
			if c.JoinRule == "invited" {
				targets = append(targets, "rita-invite")
			}
			c.FaultTarget = rapid.SampledFrom(targets).Draw(t, "badsigTarget")
		case "disallowed":
			c.Fault = "disallowed"
			c.FaultTarget = rapid.SampledFrom([]string{"state", "auth"}).Draw(t, "extraWhere")
		case "no-state-key":
			c.Fault = "no-state-key"
			c.FaultTarget = rapid.SampledFrom([]string{"state", "auth"}).Draw(t, "extraWhere")
		case "duplicate":
			c.Fault, c.FaultTarget = "duplicate", "state"
		case "rule":
			c.JoinRule = "invite"
		case "echo-bad":
			c.Echo = "other-bad-sender"
		}
	}
	return c
}

func init() {
	vfRapid("C15/perform-join",
		"non-trivial = at most one scripted fault (unknown version, failed request, create event missing from the auth chain / of unknown version, one event with a bad signature / disallowed / without state key / duplicate, join not allowed by the state); distinct = distinct Case JSON",
		800, 20000, 8, c15PJGen, c15PJCheck)
}
