//go:build verif

package gomatrixserverlib

import (
	"context"
	"crypto/ed25519"
	"encoding/base64"
	"fmt"
	"strings"
	"time"

	"github.com/matrix-org/gomatrixserverlib/spec"
	"pgregory.net/rapid"
)

// C15/send-join: HandleSendJoin accepts an event only if it is a join (m.room.member, membership
// join) whose sender equals its state key, whose room and event ID match the request, whose sender
// belongs to the requesting server, which that server has validly signed (strict rule), whose sender
// is not banned and whose authorising user (if any) is local. What it returns carries a valid
// signature of the local server over the unmodified event (and keeps the signatures it came with).
// All guards are computed from the event's JSON with the reference parser / event-ID / signature
// code; when every guard holds the event must be accepted.

type c15SendJoinCase struct {
	Version     string   `json:"version"`
	Origin      string   `json:"origin"`
	ReqRoom     string   `json:"req_room"`
	ReqEventID  string   `json:"req_event_id"`
	Event       vfBytes  `json:"event"`
	Keys        []c15Key `json:"keys"`
	Existing    string   `json:"existing_membership"`
	ExistingErr bool     `json:"existing_err,omitempty"`
	Faults      []string `json:"faults"` // what the generator did (informational; the oracle reads the event)
	// VerifierErr: the key verifier itself fails (returns an error and no results): nothing may be
	// accepted, and nothing need be
	VerifierErr bool `json:"verifier_err,omitempty"`
	// UnknownVersion: the request names a room version the library does not know
	UnknownVersion bool `json:"unknown_version,omitempty"`
}

// c15FailingVerifier is a JSONVerifier whose lookups fail altogether.
type c15FailingVerifier struct{}

func (c15FailingVerifier) VerifyJSONs(ctx context.Context, reqs []VerifyJSONRequest) ([]VerifyJSONResult, error) {
	return nil, fmt.Errorf("c15 scripted verifier failure")
}

type c15Membership struct {
	answer string
	err    bool
	asked  []string
	// forSender: memberships are kept per sender ID (in pseudo-ID rooms the per-room key, not the
	// user ID); the scripted answer is the membership of THIS sender ID, anyone else has none
	forSender string
}

func (m *c15Membership) CurrentMembership(ctx context.Context, roomID spec.RoomID, senderID spec.SenderID) (string, error) {
	m.asked = append(m.asked, roomID.String()+"|"+string(senderID))
	if m.err {
		return "", fmt.Errorf("c15 scripted membership querier error")
	}
	if m.forSender != "" && string(senderID) != m.forSender {
		return "", nil
	}
	return m.answer, nil
}

func c15NoStore(ctx context.Context, senderID spec.SenderID, userID string, id spec.RoomID) error {
	return nil
}

// c15CheckCountersigned judges what a handler returned: local signature valid over the event, event
// unmodified (signatures / unsigned aside), original signatures kept.
func c15CheckCountersigned(ctx *vfCtx, api, version string, in jv, out []byte, signer, keyID, keyLabel string) {
	ot, err := evTree(out)
	if err != nil {
		ctx.Fail("C15/"+api+"/returned-event-malformed", "returned event is not a well-formed JSON object: %v: %s", err, out)
		return
	}
	pub, _ := vfKeyFor(keyLabel)
	if !rverify(version, ot, signer, keyID, pub) {
		ctx.Fail("C15/"+api+"/local-signature-invalid", "returned event carries no valid signature of %s/%s over the event: %s", signer, keyID, out)
	}
	aside := []string{"signatures", "unsigned"}
	if vtraits[version].Format == 2 {
		aside = append(aside, "event_id") // not a member of this event format: dropped on receipt, like unsigned
	}
	if !jequal(ot.without(aside...), in.without(aside...)) {
		ctx.Fail("C15/"+api+"/event-modified", "returned event differs from the input event beyond signatures/unsigned:\n in=%s\nout=%s", jplain(in), out)
	}
	if isigs, ok := in.get("signatures"); ok && isigs.K == 'o' {
		for _, ent := range isigs.O {
			if ent.Val.K != 'o' {
				continue
			}
			for _, sg := range ent.Val.O {
				if ent.Key == signer && sg.Key == keyID {
					continue // the slot the local server's own signature goes into
				}
				got, ok := c02SigOfTree(ot, ent.Key, sg.Key)
				if !ok || sg.Val.K != 's' || got != sg.Val.S {
					ctx.Fail("C15/"+api+"/original-signature-dropped", "signature %s/%s of the input event is missing from the returned event", ent.Key, sg.Key)
				}
			}
		}
	}
}

func c15SendJoinCheck(ctx *vfCtx, c c15SendJoinCase) {
	ev, err := evTree(c.Event)
	if err != nil {
		ctx.Unjudged("generator: malformed event")
		return
	}
	if vtraits[c.Version].Format == 2 {
		// (a member of the older event format that this one does not have: dropped on receipt with unsigned;
		// the event judged - ID, signatures - is the one without it)
		ev = ev.without("event_id")
	}
	roomID, err := spec.NewRoomID(c.ReqRoom)
	if err != nil {
		ctx.Unjudged("generator: request room ID does not parse")
		return
	}
	content, _ := ev.get("content")
	typ := evStr(ev, "type")
	sender := evStr(ev, "sender")
	membership, _ := raStr(content, "membership")
	sk, hasSK := ev.get("state_key")

	gMember := typ == "m.room.member"
	gJoin := membership == "join"
	gStateKey := hasSK && sk.K == 's' && sk.S == sender
	gRoom := evStr(ev, "room_id") == c.ReqRoom
	gEventID := raEventID(c.Version, ev) == c.ReqEventID
	gOrigin := c15UserOK(sender) && c15Domain(sender) == c.Origin
	gSigned := c15SignedBy(c.Version, ev, c.Origin, c.Keys)
	gNotBanned := c.Existing != "ban"
	gVia := true
	viaClass := "absent"
	if v, ok := content.get("join_authorised_via_users_server"); ok && v.K != 'n' {
		switch {
		case v.K != 's':
			ctx.Unjudged("join_authorised_via_users_server is not a string")
			return
		case v.S == "":
			viaClass = "empty"
		default:
			gVia = c15UserOK(v.S) && c15Domain(v.S) == c15Local
			viaClass = "local"
			if !gVia {
				viaClass = "not-local"
			}
		}
	}
	guards := []struct {
		ok   bool
		name string
	}{
		{gMember, "not-a-member-event"}, {gJoin, "membership-not-join"}, {gStateKey, "sender-not-state-key"}, {gRoom, "room-mismatch"},
		{gEventID, "event-id-mismatch"}, {gOrigin, "sender-not-of-origin"}, {gSigned, "not-validly-signed-by-origin"}, {gNotBanned, "banned"},
		{gVia, "authoriser-not-local"},
	}
	violated := 0
	for _, g := range guards {
		if !g.ok {
			violated++
			ctx.Class("violated/" + g.name)
		}
	}
	allGood := violated == 0 && !c.ExistingErr && !c.VerifierErr && !c.UnknownVersion
	if allGood {
		ctx.Class("all-guards-hold")
	}
	if c.VerifierErr {
		ctx.Class("verifier-fails")
	}
	if c.UnknownVersion {
		ctx.Class("unknown-room-version")
	}
	ctx.Class("via/" + viaClass)
	ctx.Class("existing/" + c.Existing)
	if c.Origin == c15Local {
		ctx.Class(fmt.Sprintf("origin-is-local-server/validly-signed=%v", gSigned))
	}
	for _, f := range c.Faults {
		ctx.Class("gen/" + f)
	}
	if violated <= 1 {
		ctx.NonTrivial()
	}

	_, priv := vfKeyFor(c15KeyLabel(c15Local))
	mq := &c15Membership{answer: c.Existing, err: c.ExistingErr, forSender: sender}
	var resp *HandleSendJoinResponse
	var herr error
	var verifier JSONVerifier = c15Ring(c.Keys)
	if c.VerifierErr {
		verifier = c15FailingVerifier{}
	}
	reqVersion := RoomVersion(c.Version)
	if c.UnknownVersion {
		reqVersion = "org.example.c15.unknown"
	}
	if vfCatch(ctx, "C15/send-join", func() {
		resp, herr = HandleSendJoin(HandleSendJoinInput{
			Context: c15Quiet(), RoomID: *roomID, EventID: c.ReqEventID, JoinEvent: spec.RawJSON(c.Event), RoomVersion: reqVersion,
			RequestOrigin: spec.ServerName(c.Origin), LocalServerName: c15Local, KeyID: c15KeyID, PrivateKey: priv,
			Verifier: verifier, MembershipQuerier: mq, UserIDQuerier: vfUserIDForSender, StoreSenderIDFromPublicID: c15NoStore,
		})
	}) {
		return
	}
	accepted := herr == nil && resp != nil && resp.JoinEvent != nil
	if accepted {
		ctx.Class("outcome/accepted")
	} else {
		ctx.Class("outcome/refused")
	}
	if herr == nil && !accepted {
		ctx.Fail("C15/send-join/no-error-no-event", "HandleSendJoin returned neither an error nor an event")
		return
	}
	if accepted && c.VerifierErr {
		ctx.Fail("C15/send-join/accepted-despite/verifier-failure", "HandleSendJoin accepted an event although the key verifier failed (no signature was checked): %s", c.Event)
	}
	if accepted && c.UnknownVersion {
		ctx.Fail("C15/send-join/accepted-despite/unknown-room-version", "HandleSendJoin accepted an event for a room version it does not know")
	}
	if accepted {
		for _, g := range guards {
			if !g.ok {
				ctx.Fail("C15/send-join/accepted-despite/"+g.name, "HandleSendJoin accepted and counter-signed an event although guard %q is violated: origin=%s room=%s event_id=%s existing=%q event=%s",
					g.name, c.Origin, c.ReqRoom, c.ReqEventID, c.Existing, c.Event)
			}
		}
		c15CheckCountersigned(ctx, "send-join", c.Version, ev, resp.JoinEvent.JSON(), c15Local, c15KeyID, c15KeyLabel(c15Local))
	}
	if allGood && !accepted {
		ctx.Fail("C15/send-join/refused-although-all-guards-hold", "HandleSendJoin refused (%v) an event for which every guard holds: %s", herr, c.Event)
	}
}

func c15SendJoinGen(t *rapid.T) c15SendJoinCase {
	c := c15SendJoinCase{Origin: c15Remote}
	c.Version = rapid.SampledFrom(c15Versions).Draw(t, "version")
	room := c15PlainRoomID(c.Version, "room")
	c.ReqRoom = room
	typ, membership, sender := "m.room.member", "join", c15Rita
	stateKey := raSK(c15Rita)
	evRoom := room
	via := rapid.SampledFrom([]string{"-", "-", "", c15Lara, c15Creator}).Draw(t, "via")
	c.Existing = rapid.SampledFrom([]string{"", "leave", "invite", "join", "knock"}).Draw(t, "existing")
	sigFault := ""
	senderAlsoSigns := rapid.Bool().Draw(t, "senderAlsoSigns")
	badEventID := false
	// the requesting server may be the local server itself (a join "from" one of our own users): the
	// handler's own counter-signature must not be able to stand in for the origin's signature
	if rapid.IntRange(0, 5).Draw(t, "localOrigin") == 0 {
		c.Origin, sender, stateKey = c15Local, c15Leo, raSK(c15Leo)
		c.Faults = append(c.Faults, "origin-is-local-server")
		if rapid.IntRange(0, 2).Draw(t, "localSigFaulty") > 0 {
			sigFault = rapid.SampledFrom(c15SigFaults).Draw(t, "localSigFault")
			c.Faults = append(c.Faults, "sig")
		}
	}
	nf := rapid.SampledFrom([]int{0, 0, 1, 1, 1, 1, 2}).Draw(t, "nFaults")
	for i := 0; i < nf; i++ {
		f := rapid.SampledFrom([]string{"type", "membership", "state-key", "room", "event-id", "origin", "sender-other", "sender-malformed", "sig", "sig", "banned", "via", "querier"}).Draw(t, "fault")
		c.Faults = append(c.Faults, f)
		switch f {
		case "type":
			typ = rapid.SampledFrom([]string{"m.room.topic", "org.example.custom", "m.room.message", "m.room.create", "m.room.third_party_invite"}).Draw(t, "otherType")
		case "membership":
			membership = rapid.SampledFrom([]string{"leave", "invite", "ban", "knock", "-", "JOIN"}).Draw(t, "otherMembership")
		case "state-key":
			switch rapid.IntRange(0, 5).Draw(t, "skKind") {
			case 0:
				stateKey = nil
			case 1:
				stateKey = raSK("")
			case 2:
				stateKey = raSK(c15Otto)
			case 3:
				stateKey = raSK(c15Lara)
			default:
				// another user whose ID is a near miss of the sender's (user IDs are case-sensitive)
				near := []string{"@" + strings.ToUpper(sender[1:2]) + sender[2:], strings.ToUpper(sender), sender + " ", " " + sender, sender + ":8448", sender[:len(sender)-1]}
				stateKey = raSK(rapid.SampledFrom(near).Draw(t, "skNear"))
			}
		case "room":
			if rapid.Bool().Draw(t, "roomWhich") {
				evRoom = c15OtherRoom(t, c.Version)
			} else {
				c.ReqRoom = c15OtherRoom(t, c.Version)
			}
		case "event-id":
			badEventID = true
		case "origin":
			c.Origin = rapid.SampledFrom([]string{c15Other, c15Local}).Draw(t, "badOrigin")
		case "sender-other":
			sender = c15Otto
			stateKey = raSK(c15Otto)
		case "sender-malformed":
			sender = rapid.SampledFrom([]string{"rita:remote.example", "@rita", "remote.example"}).Draw(t, "badSender")
			stateKey = raSK(sender)
		case "sig":
			sigFault = rapid.SampledFrom(c15SigFaults).Draw(t, "sigFault")
		case "banned":
			c.Existing = "ban"
		case "via":
			via = rapid.SampledFrom([]string{c15Otto, c15Rita, "not-a-user-id", "lara:local.example", "@lara:local.example:8448"}).Draw(t, "badVia")
		case "querier":
			c.ExistingErr = true
		}
	}
	content := jv{K: 'o'}
	if membership != "-" {
		content = content.with("membership", jstr(membership))
	}
	if via != "-" {
		content = content.with("join_authorised_via_users_server", jstr(via))
	}
	if rapid.Bool().Draw(t, "displayname") {
		content = content.with("displayname", jstr("Rita"))
	}
	e := raEv{Type: typ, Sender: sender, Room: evRoom, StateKey: stateKey, Content: content,
		Prev: []string{c15FakeEventID(c.Version, "prev")}, Auth: []string{c15FakeEventID(c.Version, "auth1"), c15FakeEventID(c.Version, "auth2")},
		Depth: 7, TS: c15TS, ID: "$c15join:" + c15Remote}
	ev := raJSON(c.Version, e)
	// signatures: the requesting server signs (with the drawn fault); when the sender belongs to another
	// server that server may sign as well (a good signature), so that "sender of origin" can be the only
	// violated guard
	ev, c.Keys = c15ApplySigFault(c.Version, ev, c.Origin, sigFault)
	if c15Domain(sender) != c.Origin && senderAlsoSigns {
		ev = c15Sign(c.Version, ev, c15Domain(sender))
	}
	if c.Origin != c15Local && c15Domain(sender) != c15Local && rapid.IntRange(0, 5).Draw(t, "localEntry") == 0 {
		// the join already lists a value under the local server's name and key ID (not its signature)
		kind := rapid.SampledFrom([]string{"junk", "stale", "other-key"}).Draw(t, "localEntryKind")
		ev = c15WithLocalEntry(c.Version, ev, c15Local, kind)
		c.Faults = append(c.Faults, "local-signature-entry-present/"+kind)
	}
	if rapid.IntRange(0, 3).Draw(t, "unsigned") == 0 {
		ev = ev.with("unsigned", jobj("age", jnum(5)))
	}
	c.ReqEventID = raEventID(c.Version, ev)
	if badEventID {
		c.ReqEventID = c15FakeEventID(c.Version, "someotherevent")
	}
	if vtraits[c.Version].Format == 2 && rapid.IntRange(0, 3).Draw(t, "strayEventID") == 0 {
		// the body names its own ID (senders that keep the member of the older event format): dropped on
		// receipt like unsigned, it changes nothing about what was signed
		ev = ev.with("event_id", jstr(raEventID(c.Version, ev)))
		c.Faults = append(c.Faults, "body-carries-event_id")
	}
	c.Event = vfBytes(jplain(ev))
	switch rapid.IntRange(0, 19).Draw(t, "infraFault") {
	case 0:
		c.VerifierErr = true
	case 1:
		c.UnknownVersion = true
	}
	return c
}

func init() {
	vfRapid("C15/send-join",
		"non-trivial = at most one of the guards (member event, membership join, sender = state key, room matches, event ID matches, sender of origin, validly signed by origin, not banned, authoriser local) is violated; distinct = distinct Case JSON",
		2500, 80000, 8, c15SendJoinGen, c15SendJoinCheck)
}

// ---------------------------------------------------------------------------------------------
// C15/send-join-pseudo — HandleSendJoin in pseudo-ID rooms (org.matrix.msc4014). The sender is a
// base64 ed25519 room key that signs the event itself (key ID ed25519:1); content.mxid_mapping
// {user_room_key, user_id, signatures} binds it to a user. Reading of the statement for these rooms
// (the same as C06/pseudo): "sender belongs to the requesting server" = the mapping names the sender's
// key and a user of the requesting server; "that server has validly signed" = the requesting server
// has validly signed the mapping (strict rule, at the event's timestamp) and the sender key has
// validly signed the event.

const c15PseudoVersion = "org.matrix.msc4014"

type c15SJPCase struct {
	Origin      string   `json:"origin"`
	ReqRoom     string   `json:"req_room"`
	ReqEventID  string   `json:"req_event_id"`
	Event       vfBytes  `json:"event"`
	Keys        []c15Key `json:"keys"`
	Existing    string   `json:"existing_membership"`
	ExistingErr bool     `json:"existing_err,omitempty"`
	StoreErr    bool     `json:"store_err,omitempty"`
	Faults      []string `json:"faults"`
}

func c15StdPseudoID(label string) (string, ed25519.PrivateKey) {
	pub, priv := vfKeyFor("c15:pseudo:" + label)
	return base64.RawStdEncoding.EncodeToString(pub), priv
}

// c15MappingSignedBy: reference check of the mapping's signature by a server (strict rule at ts).
func c15MappingSignedBy(mapping jv, server string, keys []c15Key, ts int64) bool {
	sigs, ok := mapping.get("signatures")
	if !ok || sigs.K != 'o' {
		return false
	}
	ent, ok := sigs.get(server)
	if !ok || ent.K != 'o' {
		return false
	}
	msg := []byte(jcanon(mapping.without("signatures", "unsigned")))
	limit := time.Now().Add(7 * 24 * time.Hour).UnixMilli()
	for _, m := range ent.O {
		if !strings.HasPrefix(m.Key, "ed25519:") || m.Val.K != 's' {
			continue
		}
		raw, err := base64.RawStdEncoding.DecodeString(m.Val.S)
		if err != nil {
			continue
		}
		for _, k := range keys {
			if k.Server != server || k.KeyID != m.Key {
				continue
			}
			if k.Expired != 0 {
				if ts >= k.Expired {
					continue
				}
			} else {
				until := k.ValidUntil
				if until > limit {
					until = limit
				}
				if k.ValidUntil == 0 || ts > until {
					continue
				}
			}
			pub, _ := vfKeyFor(k.Label)
			if ed25519.Verify(pub, msg, raw) {
				return true
			}
		}
	}
	return false
}

func c15SJPCheck(ctx *vfCtx, c c15SJPCase) {
	ev, err := evTree(c.Event)
	if err != nil {
		ctx.Unjudged("generator: malformed event")
		return
	}
	roomID, err := spec.NewRoomID(c.ReqRoom)
	if err != nil {
		ctx.Unjudged("generator: request room ID does not parse")
		return
	}
	content, _ := ev.get("content")
	typ := evStr(ev, "type")
	sender := evStr(ev, "sender")
	membership, _ := raStr(content, "membership")
	sk, hasSK := ev.get("state_key")
	ts := int64(-1)
	if t, ok := ev.get("origin_server_ts"); ok && t.K == '#' {
		fmt.Sscan(t.S, &ts)
	}
	mapping, hasMapping := content.get("mxid_mapping")
	mapKey, _ := raStr(mapping, "user_room_key")
	mapUser, _ := raStr(mapping, "user_id")

	gMember := typ == "m.room.member"
	gJoin := membership == "join"
	gStateKey := hasSK && sk.K == 's' && sk.S == sender
	gRoom := evStr(ev, "room_id") == c.ReqRoom
	gEventID := raEventID(c15PseudoVersion, ev) == c.ReqEventID
	gOrigin := hasMapping && mapping.K == 'o' && mapKey == sender && c15UserOK(mapUser) && c15Domain(mapUser) == c.Origin
	selfSigned := false
	if raw, err := base64.RawStdEncoding.DecodeString(sender); err == nil && len(raw) == ed25519.PublicKeySize {
		selfSigned = rverify(c15PseudoVersion, ev, sender, "ed25519:1", ed25519.PublicKey(raw))
	}
	gSigned := selfSigned && hasMapping && mapping.K == 'o' && c15MappingSignedBy(mapping, c.Origin, c.Keys, ts)
	gNotBanned := c.Existing != "ban"
	gVia := true
	if v, ok := content.get("join_authorised_via_users_server"); ok && v.K == 's' && v.S != "" {
		gVia = c15UserOK(v.S) && c15Domain(v.S) == c15Local
	}
	guards := []struct {
		ok   bool
		name string
	}{
		{gMember, "not-a-member-event"}, {gJoin, "membership-not-join"}, {gStateKey, "sender-not-state-key"}, {gRoom, "room-mismatch"},
		{gEventID, "event-id-mismatch"}, {gOrigin, "sender-not-of-origin"}, {gSigned, "not-validly-signed-by-origin"}, {gNotBanned, "banned"},
		{gVia, "authoriser-not-local"},
	}
	violated := 0
	for _, g := range guards {
		if !g.ok {
			violated++
			ctx.Class("violated/" + g.name)
		}
	}
	allGood := violated == 0 && !c.ExistingErr && !c.StoreErr
	if allGood {
		ctx.Class("all-guards-hold")
	}
	for _, f := range c.Faults {
		ctx.Class("gen/" + f)
	}
	if violated <= 1 {
		ctx.NonTrivial()
	}

	_, priv := vfKeyFor(c15KeyLabel(c15Local))
	mq := &c15Membership{answer: c.Existing, err: c.ExistingErr, forSender: sender}
	stored := map[string]string{}
	var resp *HandleSendJoinResponse
	var herr error
	if vfCatch(ctx, "C15/send-join-pseudo", func() {
		resp, herr = HandleSendJoin(HandleSendJoinInput{
			Context: c15Quiet(), RoomID: *roomID, EventID: c.ReqEventID, JoinEvent: spec.RawJSON(c.Event), RoomVersion: RoomVersion(c15PseudoVersion),
			RequestOrigin: spec.ServerName(c.Origin), LocalServerName: c15Local, KeyID: c15KeyID, PrivateKey: priv,
			Verifier: c15Ring(c.Keys), MembershipQuerier: mq,
			UserIDQuerier: func(roomID spec.RoomID, senderID spec.SenderID) (*spec.UserID, error) {
				u, ok := stored[string(senderID)]
				if !ok {
					return nil, fmt.Errorf("c15: no user known for sender ID %q", senderID)
				}
				return spec.NewUserID(u, true)
			},
			StoreSenderIDFromPublicID: func(ctx context.Context, senderID spec.SenderID, userID string, id spec.RoomID) error {
				if c.StoreErr {
					return fmt.Errorf("c15 scripted store error")
				}
				stored[string(senderID)] = userID
				return nil
			},
		})
	}) {
		return
	}
	accepted := herr == nil && resp != nil && resp.JoinEvent != nil
	if accepted {
		ctx.Class("outcome/accepted")
	} else {
		ctx.Class("outcome/refused")
	}
	if herr == nil && !accepted {
		ctx.Fail("C15/send-join-pseudo/no-error-no-event", "HandleSendJoin returned neither an error nor an event")
		return
	}
	if accepted {
		for _, g := range guards {
			if !g.ok {
				ctx.Fail("C15/send-join-pseudo/accepted-despite/"+g.name, "HandleSendJoin (pseudo IDs) accepted and counter-signed an event although guard %q is violated: origin=%s room=%s event_id=%s existing=%q event=%s",
					g.name, c.Origin, c.ReqRoom, c.ReqEventID, c.Existing, c.Event)
			}
		}
		c15CheckCountersigned(ctx, "send-join-pseudo", c15PseudoVersion, ev, resp.JoinEvent.JSON(), c15Local, c15KeyID, c15KeyLabel(c15Local))
	}
	if allGood && !accepted {
		ctx.Fail("C15/send-join-pseudo/refused-although-all-guards-hold", "HandleSendJoin (pseudo IDs) refused (%v) an event for which every guard holds: %s", herr, c.Event)
	}
}

func c15SJPGen(t *rapid.T) c15SJPCase {
	c := c15SJPCase{Origin: c15Remote}
	version := c15PseudoVersion
	room := c15PlainRoomID(version, "room")
	c.ReqRoom = room
	sender, senderPriv := c15StdPseudoID("rita")
	otherID, _ := c15StdPseudoID("someone-else")
	typ, membership := "m.room.member", "join"
	stateKey := raSK(sender)
	evRoom := room
	via := rapid.SampledFrom([]string{"-", "-", "", c15Lara}).Draw(t, "via")
	c.Existing = rapid.SampledFrom([]string{"", "leave", "invite", "join", "knock"}).Draw(t, "existing")
	mapUser, mapKey, mapSigner := c15Rita, sender, c15Remote
	hasMapping := true
	mapFault, selfFault := "", ""
	badEventID := false
	nf := rapid.SampledFrom([]int{0, 0, 1, 1, 1, 1, 2}).Draw(t, "nFaults")
	for i := 0; i < nf; i++ {
		f := rapid.SampledFrom([]string{"type", "membership", "state-key", "room", "event-id", "origin", "mapping-user-other", "mapping-key-mismatch", "mapping-absent",
			"mapping-sig", "mapping-sig", "self-sig", "banned", "via", "querier", "store"}).Draw(t, "fault")
		c.Faults = append(c.Faults, f)
		switch f {
		case "type":
			typ = rapid.SampledFrom([]string{"m.room.topic", "org.example.custom", "m.room.message"}).Draw(t, "otherType")
		case "membership":
			membership = rapid.SampledFrom([]string{"leave", "invite", "ban", "knock", "-"}).Draw(t, "otherMembership")
		case "state-key":
			switch rapid.IntRange(0, 2).Draw(t, "skKind") {
			case 0:
				stateKey = nil
			case 1:
				stateKey = raSK("")
			default:
				stateKey = raSK(otherID)
			}
		case "room":
			if rapid.Bool().Draw(t, "roomWhich") {
				evRoom = c15OtherRoom(t, version)
			} else {
				c.ReqRoom = c15OtherRoom(t, version)
			}
		case "event-id":
			badEventID = true
		case "origin":
			c.Origin = rapid.SampledFrom([]string{c15Other, c15Local}).Draw(t, "badOrigin")
			if rapid.Bool().Draw(t, "originSignsMapping") {
				mapSigner = c.Origin
			}
		case "mapping-user-other":
			mapUser = c15Otto
			if rapid.Bool().Draw(t, "userServerSigns") {
				mapSigner = c15Other
			}
		case "mapping-key-mismatch":
			mapKey = otherID
		case "mapping-absent":
			hasMapping = false
		case "mapping-sig":
			mapFault = rapid.SampledFrom(c15SigFaults).Draw(t, "mapFault")
		case "self-sig":
			selfFault = rapid.SampledFrom([]string{"absent", "corrupt", "wrong-key"}).Draw(t, "selfFault")
		case "banned":
			c.Existing = "ban"
		case "via":
			via = rapid.SampledFrom([]string{c15Otto, "not-a-user-id", "@lara:local.example:8448"}).Draw(t, "badVia")
		case "querier":
			c.ExistingErr = true
		case "store":
			c.StoreErr = true
		}
	}
	// the mapping, signed by mapSigner with the drawn fault (mapping signatures are plain JSON
	// signatures over the canonical mapping without its signatures)
	c.Keys = c15GoodKeys()
	mapping := jobj("user_room_key", jstr(mapKey), "user_id", jstr(mapUser))
	msg := []byte(jcanon(mapping))
	signMap := func(server, keyID, label string, corrupt bool) {
		_, priv := vfKeyFor(label)
		raw := ed25519.Sign(priv, msg)
		if corrupt {
			raw[9] ^= 0x10
		}
		sigs, _ := mapping.get("signatures")
		if sigs.K != 'o' {
			sigs = jv{K: 'o'}
		}
		mapping = mapping.with("signatures", sigs.with(server, jobj(keyID, jstr(base64.RawStdEncoding.EncodeToString(raw)))))
	}
	switch mapFault {
	case "":
		signMap(mapSigner, c15KeyID, c15KeyLabel(mapSigner), false)
	case "absent":
		mapping = mapping.with("signatures", jv{K: 'o'})
	case "other-server-only":
		o := c15Other
		if mapSigner == c15Other {
			o = c15Remote
		}
		signMap(o, c15KeyID, c15KeyLabel(o), false)
	case "corrupt":
		signMap(mapSigner, c15KeyID, c15KeyLabel(mapSigner), true)
	case "wrong-key":
		signMap(mapSigner, c15KeyID, "c15:impostor", false)
	case "unknown-key-id":
		signMap(mapSigner, "ed25519:unpublished", c15KeyLabel(mapSigner), false)
	case "expired", "key-expired-ts":
		for i := range c.Keys {
			if c.Keys[i].Server == mapSigner {
				if mapFault == "expired" {
					c.Keys[i].ValidUntil = c15TS - 60000
				} else {
					c.Keys[i].Expired = c15TS - 60000
				}
			}
		}
		signMap(mapSigner, c15KeyID, c15KeyLabel(mapSigner), false)
	}
	content := jv{K: 'o'}
	if membership != "-" {
		content = content.with("membership", jstr(membership))
	}
	if via != "-" {
		content = content.with("join_authorised_via_users_server", jstr(via))
	}
	if hasMapping {
		content = content.with("mxid_mapping", mapping)
	}
	e := raEv{Type: typ, Sender: sender, Room: evRoom, StateKey: stateKey, Content: content,
		Prev: []string{c15FakeEventID(version, "prev")}, Auth: []string{c15FakeEventID(version, "auth1")}, Depth: 7, TS: c15TS}
	ev := raJSON(version, e)
	switch selfFault {
	case "":
		ev = rsign(version, ev, sender, "ed25519:1", senderPriv)
	case "corrupt":
		ev = rsign(version, ev, sender, "ed25519:1", senderPriv)
		s, _ := c02SigOfTree(ev, sender, "ed25519:1")
		raw, _ := base64.RawStdEncoding.DecodeString(s)
		raw[3] ^= 0x08
		sigs, _ := ev.get("signatures")
		ev = ev.with("signatures", sigs.with(sender, jobj("ed25519:1", jstr(base64.RawStdEncoding.EncodeToString(raw)))))
	case "wrong-key":
		_, p := vfKeyFor("c15:impostor")
		ev = rsign(version, ev, sender, "ed25519:1", p)
	}
	c.ReqEventID = raEventID(version, ev)
	if badEventID {
		c.ReqEventID = c15FakeEventID(version, "someotherevent")
	}
	c.Event = vfBytes(jplain(ev))
	return c
}

func init() {
	vfRapid("C15/send-join-pseudo",
		"non-trivial = at most one of the guards (as C15/send-join, with the mxid_mapping standing for 'sender of origin' and the mapping's + the sender key's signatures for 'validly signed') is violated; distinct = distinct Case JSON",
		600, 15000, 4, c15SJPGen, c15SJPCheck)
}
