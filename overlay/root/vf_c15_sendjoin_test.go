//go:build verif

package gomatrixserverlib

import (
	"context"
	"fmt"

	"github.com/matrix-org/gomatrixserverlib/spec"
	"pgregory.net/rapid"
)

// C15/send-join: HandleSendJoin accepts an event only if it is a join (m.room.member, membership
// join) whose sender equals its state key, whose room and event ID match the request, whose sender
// belongs to the requesting server, which that server has validly signed (strict rule), whose sender
// is not banned and whose authorising user (if any) is local. What it returns carries a valid
// signature of the local server over the unmodified event (and keeps the signatures it came with).
// All guards are computed from the event's JSON with the reference parser / event-ID / signature
// code; when every guard holds the event must be accepted.

type c15SendJoinCase struct {
	Version     string   `json:"version"`
	Origin      string   `json:"origin"`
	ReqRoom     string   `json:"req_room"`
	ReqEventID  string   `json:"req_event_id"`
	Event       vfBytes  `json:"event"`
	Keys        []c15Key `json:"keys"`
	Existing    string   `json:"existing_membership"`
	ExistingErr bool     `json:"existing_err,omitempty"`
	Faults      []string `json:"faults"` // what the generator did (informational; the oracle reads the event)
}

type c15Membership struct {
	answer string
	err    bool
	asked  []string
}

func (m *c15Membership) CurrentMembership(ctx context.Context, roomID spec.RoomID, senderID spec.SenderID) (string, error) {
	m.asked = append(m.asked, roomID.String()+"|"+string(senderID))
	if m.err {
		return "", fmt.Errorf("c15 scripted membership querier error")
	}
	return m.answer, nil
}

func c15NoStore(ctx context.Context, senderID spec.SenderID, userID string, id spec.RoomID) error {
	return nil
}

// c15CheckCountersigned judges what a handler returned: local signature valid over the event, event
// unmodified (signatures / unsigned aside), original signatures kept.
func c15CheckCountersigned(ctx *vfCtx, api, version string, in jv, out []byte, signer, keyID, keyLabel string) {
	ot, err := evTree(out)
	if err != nil {
		ctx.Fail("C15/"+api+"/returned-event-malformed", "returned event is not a well-formed JSON object: %v: %s", err, out)
		return
	}
	pub, _ := vfKeyFor(keyLabel)
	if !rverify(version, ot, signer, keyID, pub) {
		ctx.Fail("C15/"+api+"/local-signature-invalid", "returned event carries no valid signature of %s/%s over the event: %s", signer, keyID, out)
	}
	if !jequal(ot.without("signatures", "unsigned"), in.without("signatures", "unsigned")) {
		ctx.Fail("C15/"+api+"/event-modified", "returned event differs from the input event beyond signatures/unsigned:\n in=%s\nout=%s", jplain(in), out)
	}
	if isigs, ok := in.get("signatures"); ok && isigs.K == 'o' {
		for _, ent := range isigs.O {
			if ent.Val.K != 'o' {
				continue
			}
			for _, sg := range ent.Val.O {
				got, ok := c02SigOfTree(ot, ent.Key, sg.Key)
				if !ok || sg.Val.K != 's' || got != sg.Val.S {
					ctx.Fail("C15/"+api+"/original-signature-dropped", "signature %s/%s of the input event is missing from the returned event", ent.Key, sg.Key)
				}
			}
		}
	}
}

func c15SendJoinCheck(ctx *vfCtx, c c15SendJoinCase) {
	ev, err := evTree(c.Event)
	if err != nil {
		ctx.Unjudged("generator: malformed event")
		return
	}
	roomID, err := spec.NewRoomID(c.ReqRoom)
	if err != nil {
		ctx.Unjudged("generator: request room ID does not parse")
		return
	}
	content, _ := ev.get("content")
	typ := evStr(ev, "type")
	sender := evStr(ev, "sender")
	membership, _ := raStr(content, "membership")
	sk, hasSK := ev.get("state_key")

	gMember := typ == "m.room.member"
	gJoin := membership == "join"
	gStateKey := hasSK && sk.K == 's' && sk.S == sender
	gRoom := evStr(ev, "room_id") == c.ReqRoom
	gEventID := raEventID(c.Version, ev) == c.ReqEventID
	gOrigin := raValidUserID(sender) && c15Domain(sender) == c.Origin
	gSigned := c15SignedBy(c.Version, ev, c.Origin, c.Keys)
	gNotBanned := c.Existing != "ban"
	gVia := true
	viaClass := "absent"
	if v, ok := content.get("join_authorised_via_users_server"); ok && v.K != 'n' {
		switch {
		case v.K != 's':
			ctx.Unjudged("join_authorised_via_users_server is not a string")
			return
		case v.S == "":
			viaClass = "empty"
		default:
			gVia = raValidUserID(v.S) && c15Domain(v.S) == c15Local
			viaClass = "local"
			if !gVia {
				viaClass = "not-local"
			}
		}
	}
	guards := []struct {
		ok   bool
		name string
	}{
		{gMember, "not-a-member-event"}, {gJoin, "membership-not-join"}, {gStateKey, "sender-not-state-key"}, {gRoom, "room-mismatch"},
		{gEventID, "event-id-mismatch"}, {gOrigin, "sender-not-of-origin"}, {gSigned, "not-validly-signed-by-origin"}, {gNotBanned, "banned"},
		{gVia, "authoriser-not-local"},
	}
	violated := 0
	for _, g := range guards {
		if !g.ok {
			violated++
			ctx.Class("violated/" + g.name)
		}
	}
	allGood := violated == 0 && !c.ExistingErr
	if allGood {
		ctx.Class("all-guards-hold")
	}
	ctx.Class("via/" + viaClass)
	ctx.Class("existing/" + c.Existing)
	for _, f := range c.Faults {
		ctx.Class("gen/" + f)
	}
	if violated <= 1 {
		ctx.NonTrivial()
	}

	_, priv := vfKeyFor(c15KeyLabel(c15Local))
	mq := &c15Membership{answer: c.Existing, err: c.ExistingErr}
	var resp *HandleSendJoinResponse
	var herr error
	if vfCatch(ctx, "C15/send-join", func() {
		resp, herr = HandleSendJoin(HandleSendJoinInput{
			Context: c15Quiet(), RoomID: *roomID, EventID: c.ReqEventID, JoinEvent: spec.RawJSON(c.Event), RoomVersion: RoomVersion(c.Version),
			RequestOrigin: spec.ServerName(c.Origin), LocalServerName: c15Local, KeyID: c15KeyID, PrivateKey: priv,
			Verifier: c15Ring(c.Keys), MembershipQuerier: mq, UserIDQuerier: vfUserIDForSender, StoreSenderIDFromPublicID: c15NoStore,
		})
	}) {
		return
	}
	accepted := herr == nil && resp != nil && resp.JoinEvent != nil
	if accepted {
		ctx.Class("outcome/accepted")
	} else {
		ctx.Class("outcome/refused")
	}
	if herr == nil && !accepted {
		ctx.Fail("C15/send-join/no-error-no-event", "HandleSendJoin returned neither an error nor an event")
		return
	}
	if accepted {
		for _, g := range guards {
			if !g.ok {
				ctx.Fail("C15/send-join/accepted-despite/"+g.name, "HandleSendJoin accepted and counter-signed an event although guard %q is violated: origin=%s room=%s event_id=%s existing=%q event=%s",
					g.name, c.Origin, c.ReqRoom, c.ReqEventID, c.Existing, c.Event)
			}
		}
		c15CheckCountersigned(ctx, "send-join", c.Version, ev, resp.JoinEvent.JSON(), c15Local, c15KeyID, c15KeyLabel(c15Local))
	}
	if allGood && !accepted {
		ctx.Fail("C15/send-join/refused-although-all-guards-hold", "HandleSendJoin refused (%v) an event for which every guard holds: %s", herr, c.Event)
	}
}

func c15SendJoinGen(t *rapid.T) c15SendJoinCase {
	c := c15SendJoinCase{Origin: c15Remote}
	c.Version = rapid.SampledFrom(c15Versions).Draw(t, "version")
	room := c15PlainRoomID(c.Version, "room")
	c.ReqRoom = room
	typ, membership, sender := "m.room.member", "join", c15Rita
	stateKey := raSK(c15Rita)
	evRoom := room
	via := rapid.SampledFrom([]string{"-", "-", "", c15Lara, c15Creator}).Draw(t, "via")
	c.Existing = rapid.SampledFrom([]string{"", "leave", "invite", "join", "knock"}).Draw(t, "existing")
	sigFault := ""
	senderAlsoSigns := rapid.Bool().Draw(t, "senderAlsoSigns")
	badEventID := false
	nf := rapid.SampledFrom([]int{0, 0, 1, 1, 1, 1, 2}).Draw(t, "nFaults")
	for i := 0; i < nf; i++ {
		f := rapid.SampledFrom([]string{"type", "membership", "state-key", "room", "event-id", "origin", "sender-other", "sig", "sig", "banned", "via", "querier"}).Draw(t, "fault")
		c.Faults = append(c.Faults, f)
		switch f {
		case "type":
			typ = rapid.SampledFrom([]string{"m.room.topic", "org.example.custom", "m.room.message", "m.room.create", "m.room.third_party_invite"}).Draw(t, "otherType")
		case "membership":
			membership = rapid.SampledFrom([]string{"leave", "invite", "ban", "knock", "-", "JOIN"}).Draw(t, "otherMembership")
		case "state-key":
			switch rapid.IntRange(0, 3).Draw(t, "skKind") {
			case 0:
				stateKey = nil
			case 1:
				stateKey = raSK("")
			case 2:
				stateKey = raSK(c15Otto)
			default:
				stateKey = raSK(c15Lara)
			}
		case "room":
			if rapid.Bool().Draw(t, "roomWhich") {
				evRoom = c15PlainRoomID(c.Version, "elsewhere")
			} else {
				c.ReqRoom = c15PlainRoomID(c.Version, "elsewhere")
			}
		case "event-id":
			badEventID = true
		case "origin":
			c.Origin = rapid.SampledFrom([]string{c15Other, c15Local}).Draw(t, "badOrigin")
		case "sender-other":
			sender = c15Otto
			stateKey = raSK(c15Otto)
		case "sig":
			sigFault = rapid.SampledFrom(c15SigFaults).Draw(t, "sigFault")
		case "banned":
			c.Existing = "ban"
		case "via":
			via = rapid.SampledFrom([]string{c15Otto, c15Rita, "not-a-user-id", "lara:local.example", "@lara:local.example:8448"}).Draw(t, "badVia")
		case "querier":
			c.ExistingErr = true
		}
	}
	content := jv{K: 'o'}
	if membership != "-" {
		content = content.with("membership", jstr(membership))
	}
	if via != "-" {
		content = content.with("join_authorised_via_users_server", jstr(via))
	}
	if rapid.Bool().Draw(t, "displayname") {
		content = content.with("displayname", jstr("Rita"))
	}
	e := raEv{Type: typ, Sender: sender, Room: evRoom, StateKey: stateKey, Content: content,
		Prev: []string{c15FakeEventID(c.Version, "prev")}, Auth: []string{c15FakeEventID(c.Version, "auth1"), c15FakeEventID(c.Version, "auth2")},
		Depth: 7, TS: c15TS, ID: "$c15join:" + c15Domain(sender)}
	ev := raJSON(c.Version, e)
	// signatures: the requesting server signs (with the drawn fault); when the sender belongs to another
	// server that server may sign as well (a good signature), so that "sender of origin" can be the only
	// violated guard
	ev, c.Keys = c15ApplySigFault(c.Version, ev, c.Origin, sigFault)
	if c15Domain(sender) != c.Origin && senderAlsoSigns {
		ev = c15Sign(c.Version, ev, c15Domain(sender))
	}
	if rapid.IntRange(0, 3).Draw(t, "unsigned") == 0 {
		ev = ev.with("unsigned", jobj("age", jnum(5)))
	}
	c.ReqEventID = raEventID(c.Version, ev)
	if badEventID {
		c.ReqEventID = c15FakeEventID(c.Version, "someotherevent")
	}
	c.Event = vfBytes(jplain(ev))
	return c
}

func init() {
	vfRapid("C15/send-join",
		"non-trivial = at most one of the guards (member event, membership join, sender = state key, room matches, event ID matches, sender of origin, validly signed by origin, not banned, authoriser local) is violated; distinct = distinct Case JSON",
		1500, 40000, 8, c15SendJoinGen, c15SendJoinCheck)
}
