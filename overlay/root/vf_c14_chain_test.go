//go:build verif

// C14/auth-chain (VerifyEventAuthChain) and C14/auth-at-state (VerifyAuthRulesAtState).
package gomatrixserverlib

import (
	"context"
	"fmt"
	"sort"
	"strings"

	"pgregory.net/rapid"
)

// ---------------------------------------------------------------------------------------------
// auth-chain

type c14ChainCase struct {
	Version  string    `json:"version"`
	Events   []vfBytes `json:"events"`
	Rejected []int     `json:"rejected,omitempty"`
	Target   int       `json:"target"`
	Prov     c14Script `json:"provider"`
}

const c14RuleChain = "the event itself is allowed by the auth events the provider returns for it, and its auth chain contains a faulted event: one the auth rules reject, one the provider fails on, one the provider does not have, or a substituted one"

func init() {
	vfRapid("C14/auth-chain", c14RuleChain, 1200, 24000, 8, c14GenChain, c14CheckChain)
	vfRapid("C14/auth-at-state", "the event's auth events are not all part of the provided state (or the short-circuit is not permitted), so the state before the event decides", 1200, 24000, 8, c14GenAtState, c14CheckAtState)
}

func c14GenChain(t *rapid.T) c14ChainCase {
	w := c14GenWorld(t, 5, 24)
	r := w.r
	c := c14ChainCase{Version: r.Version}
	// targets: prefer events of the tainted branch that their own auth events allow
	var pref, rej []int
	for _, e := range r.Events {
		if w.tainted[e.Idx] && !e.Rejected {
			pref = append(pref, e.Idx)
		} else if e.Rejected {
			rej = append(rej, e.Idx)
		}
	}
	switch k := rapid.IntRange(0, 9).Draw(t, "targetKind"); {
	case k < 5 && len(pref) > 0:
		c.Target = rapid.SampledFrom(pref).Draw(t, "target")
	case k == 5 && len(rej) > 0:
		c.Target = rapid.SampledFrom(rej).Draw(t, "target")
	default:
		c.Target = rapid.IntRange(0, len(r.Events)-1).Draw(t, "target")
	}
	c.Prov.Default = rapid.SampledFrom([]string{"event", "event", "event", "event", "event", "event", "event", "event", "none", "error"}).Draw(t, "provDefault")
	chain := w.authClosure([]int{c.Target})
	var deep []int // chain events the target does not name itself
	for _, i := range chain {
		if !c14Has(r.Events[c.Target].Auth, i) {
			deep = append(deep, i)
		}
	}
	if len(chain) > 0 {
		modes := []string{"none", "error", "event"}
		if vtraits[r.Version].Format == 1 {
			modes = append(modes, "swap", "swap", "swap")
		}
		n := rapid.SampledFrom([]int{0, 0, 0, 1, 1, 1, 2}).Draw(t, "provOver")
		for k := 0; k < n; k++ {
			from := chain
			if len(deep) > 0 && c14Chance(t, "provDeep", 60) {
				from = deep
			}
			c.Prov.Over = append(c.Prov.Over, c14Prov{At: rapid.SampledFrom(from).Draw(t, "provAt"), Mode: rapid.SampledFrom(modes).Draw(t, "provMode")})
		}
	}
	c.Prov.PartialWithError = rapid.Bool().Draw(t, "provPartialWithError")
	c.Events = w.signedEvents()
	c.Rejected = w.rejected()
	return c
}

// c14ChainModel: accept iff no event reachable through fetched auth events names an auth event the
// provider fails on, and every reachable event (the event itself included) is allowed by R-auth against
// the auth events the provider returned for it.
type c14ChainVerdict struct {
	Accept    bool
	Why       string // first reason in a deterministic (breadth-first) walk
	SelfOK    bool   // the event itself is allowed by its fetched auth events
	Unjudged  string
	Reached   int
	Missing   bool // some named auth event was not provided
	BadInside bool // a fetched event (not the target) is disallowed, or the provider failed
}

func c14ChainModel(room *c14Room, target jv, script c14Script) c14ChainVerdict {
	v := c14ChainVerdict{Accept: true, SelfOK: true}
	type node struct {
		tree jv
		self bool
	}
	queue := []node{{target, true}}
	seen := map[string]bool{raEventID(room.Version, target): true}
	for len(queue) > 0 {
		n := queue[0]
		queue = queue[1:]
		v.Reached++
		var auth []jv
		for _, id := range c14AuthIDs(room.Version, n.tree) {
			t, m := script.lookup(room, id)
			switch m {
			case "error":
				if v.Accept {
					v.Accept, v.Why = false, "provider-error"
				}
				v.BadInside = true
			case "event":
				auth = append(auth, t)
				if tid := raEventID(room.Version, t); !seen[tid] {
					seen[tid] = true
					queue = append(queue, node{t, false})
				}
			default:
				v.Missing = true
			}
		}
		ok, rule, unj := c14Allowed(room.Version, n.tree, auth)
		if unj != "" {
			v.Unjudged = unj
			return v
		}
		if !ok {
			if v.Accept {
				v.Accept = false
				if n.self {
					v.Why = "event-disallowed:" + rule
				} else {
					v.Why = "chain-event-disallowed:" + rule
				}
			}
			if n.self {
				v.SelfOK = false
			} else {
				v.BadInside = true
			}
		}
	}
	return v
}

func c14CheckChain(ctx *vfCtx, c c14ChainCase) {
	room := c14LoadRoom(c.Version, c.Events)
	if !room.ok(c.Target) {
		panic("c14 harness: bad target")
	}
	ctx.Class(c14VersionClass(c.Version))
	ctx.Class("provider:" + c.Prov.Default)
	for _, o := range c.Prov.Over {
		ctx.Class("provider-override:" + o.Mode)
	}
	target := room.Trees[c.Target]
	v := c14ChainModel(room, target, c.Prov)
	if v.Unjudged != "" {
		ctx.Unjudged("an auth state R-auth does not judge")
		return
	}
	var asked []string
	prov := c14LibProvider(room, c.Prov, &asked)
	pdu := c14PDU(c.Version, target)
	var err error
	if vfCatch(ctx, "C14/auth-chain", func() {
		err = VerifyEventAuthChain(context.Background(), pdu, prov, vfUserIDForSender)
	}) {
		return
	}
	if v.SelfOK && v.BadInside {
		ctx.NonTrivial()
		ctx.Class("event-allowed-by-its-auth-events-but-chain-faulted")
	}
	if v.Accept {
		ctx.Class("expect:accept")
		if v.Missing {
			ctx.Class("expect:accept-with-an-auth-event-the-provider-does-not-have")
			ctx.Unjudged("the doc comment says that failing to provide a requested event fails the function; the statement judges the event by the auth events that were fetched")
		}
		if err != nil {
			ctx.Fail("C14/auth-chain/rejected-although-all-allowed", "the event and every fetched auth event (%d events) are allowed by their auth events, no provider error, but: %v", v.Reached, err)
		}
		return
	}
	why := v.Why
	for i := 0; i < len(why); i++ {
		if why[i] == ':' {
			why = why[:i]
			break
		}
	}
	ctx.Class("expect:reject:" + why)
	if strings.HasSuffix(v.Why, "A0.auth-event-is-not-a-state-event") {
		ctx.Class("expect:reject:" + why + "/names-a-non-state-auth-event")
	}
	if err == nil {
		ctx.Fail("C14/auth-chain/accepted-although/"+why, "accepted although %s", v.Why)
	}
}

// ---------------------------------------------------------------------------------------------
// auth-at-state

type c14AtStateCase struct {
	Version  string    `json:"version"`
	Events   []vfBytes `json:"events"`
	Rejected []int     `json:"rejected,omitempty"`
	Target   int       `json:"target"`
	State    []int     `json:"state"`      // the state before the event, as the state provider reports it
	IDsMode  string    `json:"ids_mode"`   // ok | error (StateIDsBeforeEvent)
	EvMode   string    `json:"state_mode"` // ok | error (StateBeforeEvent)
	Permit   bool      `json:"allow_validation"`
}

// c14StateProvider is the scripted StateProvider: per event ID a list of state event indices and the
// failure modes of the two calls.
type c14SPEntry struct {
	State   []int
	IDsMode string
	EvMode  string
}

type c14StateProvider struct {
	room  *c14Room
	by    map[string]c14SPEntry
	calls []string
}

func (p *c14StateProvider) StateIDsBeforeEvent(ctx context.Context, event PDU) ([]string, error) {
	p.calls = append(p.calls, "ids:"+event.EventID())
	e, ok := p.by[event.EventID()]
	if !ok || e.IDsMode == "error" {
		return nil, fmt.Errorf("c14: scripted state-ID failure")
	}
	out := []string{}
	for _, i := range e.State {
		out = append(out, p.room.IDs[i])
	}
	return out, nil
}

func (p *c14StateProvider) StateBeforeEvent(ctx context.Context, roomVer RoomVersion, event PDU, eventIDs []string) (map[string]PDU, error) {
	p.calls = append(p.calls, "state:"+event.EventID())
	e, ok := p.by[event.EventID()]
	if !ok || e.EvMode == "error" {
		return nil, fmt.Errorf("c14: scripted state failure")
	}
	out := map[string]PDU{}
	for _, i := range e.State {
		out[p.room.IDs[i]] = c14PDU(p.room.Version, p.room.Trees[i])
	}
	return out, nil
}

// c14AtStateModel: the reference verdict of "allowed at the state before the event".
func c14AtStateModel(room *c14Room, target jv, e c14SPEntry, permit bool) (accept bool, why string, unjudged string) {
	if e.IDsMode == "error" {
		return false, "state-ids-error", ""
	}
	in := map[string]bool{}
	var trees []jv
	for _, i := range e.State {
		in[room.IDs[i]] = true
		trees = append(trees, room.Trees[i])
	}
	if permit {
		all := true
		for _, id := range c14AuthIDs(room.Version, target) {
			all = all && in[id]
		}
		if all {
			return true, "short-circuit", ""
		}
	}
	if e.EvMode == "error" {
		return false, "state-error", ""
	}
	ok, rule, unj := c14Allowed(room.Version, target, trees)
	if unj != "" {
		return false, "", unj
	}
	if ok {
		return true, "allowed-by-state", ""
	}
	return false, "forbidden-by-state:" + rule, ""
}

// c14GenStateFor draws the "state before" that the provider will report for an event: mostly the true
// one, otherwise the state at another point of the room, possibly with one entry removed or replaced
// by a rejected event.
func c14GenStateFor(t *rapid.T, w *c14World, target int) []int {
	r := w.r
	st := c14CopyState(w.before[target])
	switch rapid.IntRange(0, 9).Draw(t, "stateKind") {
	case 0, 1, 2, 3:
	case 4, 5, 6, 7:
		at := rapid.IntRange(0, len(r.Events)-1).Draw(t, "stateAt")
		st = c14CopyState(r.Events[at].State)
	case 8:
		if keys := c14SortedKeys(st); len(keys) > 0 {
			delete(st, rapid.SampledFrom(keys).Draw(t, "stateDrop"))
		}
	default:
		var bad []int
		for _, e := range r.Events {
			if e.StateKey != nil && e.Rejected && e.Idx != target {
				bad = append(bad, e.Idx)
			}
		}
		if len(bad) > 0 {
			e := r.Events[rapid.SampledFrom(bad).Draw(t, "stateBad")]
			st[grKey(e.Type, *e.StateKey)] = e.Idx
		}
	}
	return c14SortedVals(st)
}

func c14SortedKeys(st map[string]int) []string {
	out := make([]string, 0, len(st))
	for k := range st {
		out = append(out, k)
	}
	sort.Strings(out)
	return out
}

func c14GenAtState(t *rapid.T) c14AtStateCase {
	w := c14GenWorld(t, 5, 24)
	r := w.r
	c := c14AtStateCase{Version: r.Version}
	c.Target = rapid.IntRange(0, len(r.Events)-1).Draw(t, "target")
	c.State = c14GenStateFor(t, w, c.Target)
	c.IDsMode = rapid.SampledFrom([]string{"ok", "ok", "ok", "ok", "ok", "ok", "ok", "error"}).Draw(t, "idsMode")
	c.EvMode = rapid.SampledFrom([]string{"ok", "ok", "ok", "ok", "ok", "ok", "error"}).Draw(t, "evMode")
	c.Permit = rapid.Bool().Draw(t, "permit")
	c.Events = w.signedEvents()
	c.Rejected = w.rejected()
	return c
}

func c14CheckAtState(ctx *vfCtx, c c14AtStateCase) {
	room := c14LoadRoom(c.Version, c.Events)
	if !room.ok(c.Target) {
		panic("c14 harness: bad target")
	}
	for _, i := range c.State {
		if !room.ok(i) {
			panic("c14 harness: bad state index")
		}
	}
	ctx.Class(c14VersionClass(c.Version))
	ctx.Class(fmt.Sprintf("short-circuit-permitted:%v", c.Permit))
	target := room.Trees[c.Target]
	entry := c14SPEntry{State: c.State, IDsMode: c.IDsMode, EvMode: c.EvMode}
	accept, why, unj := c14AtStateModel(room, target, entry, c.Permit)
	if unj != "" {
		ctx.Unjudged("an auth state R-auth does not judge")
		return
	}
	pdu := c14PDU(c.Version, target)
	sp := &c14StateProvider{room: room, by: map[string]c14SPEntry{pdu.EventID(): entry}}
	var err error
	if vfCatch(ctx, "C14/auth-at-state", func() {
		err = VerifyAuthRulesAtState(context.Background(), sp, pdu, c.Permit, vfUserIDForSender)
	}) {
		return
	}
	short := why
	for i := 0; i < len(short); i++ {
		if short[i] == ':' {
			short = short[:i]
			break
		}
	}
	ctx.Class("expect:" + short)
	if why != "short-circuit" && why != "state-ids-error" && why != "state-error" {
		ctx.NonTrivial()
	}
	// how the event's own auth events relate to the provided state (the class of a disagreement)
	rel := c14AuthVsState(room, target, c.State)
	ctx.Class("auth-events-vs-state:" + rel)
	if accept == (err == nil) {
		return
	}
	// The disagreement is classified by what the library is known to do instead (DESIGN.md 2.6): it
	// judges the event by those of ITS OWN auth events that are part of the state, not by the state.
	// Only a disagreement that this explains carries the signature that can be listed as known.
	explained := "unexplained"
	if short == "allowed-by-state" || short == "forbidden-by-state" {
		if c14NamedOnlyVerdict(room, target, c.State) == (err == nil) && rel != "all-in-state" {
			explained = "judged-by-named-auth-events-only"
		}
	}
	switch {
	case accept && why == "short-circuit":
		ctx.Fail("C14/auth-at-state/rejected-despite-permitted-short-circuit", "all auth events belong to the state and the short-circuit is permitted, but: %v", err)
	case accept:
		ctx.Fail("C14/auth-at-state/rejected-although-state-allows/"+explained, "the state before the event allows it (auth events vs state: %s), but: %v", rel, err)
	case short == "state-ids-error" || short == "state-error":
		ctx.Fail("C14/auth-at-state/accepted-despite-"+short, "accepted although the state provider failed")
	default:
		ctx.Fail("C14/auth-at-state/accepted-although-state-forbids/"+explained, "accepted although the state before the event forbids it: %s (auth events vs state: %s)", why, rel)
	}
}

// c14NamedOnlyVerdict: what the library is known to compute in place of "allowed by the state before
// the event": R-auth against those of the event's OWN auth events that are part of the state.
func c14NamedOnlyVerdict(room *c14Room, target jv, state []int) bool {
	in := map[string]bool{}
	for _, i := range state {
		in[room.IDs[i]] = true
	}
	var named []jv
	for _, id := range c14AuthIDs(room.Version, target) {
		if i, ok := room.ByID[id]; ok && in[id] {
			named = append(named, room.Trees[i])
		}
	}
	ok, _, _ := c14Allowed(room.Version, target, named)
	return ok
}

// c14AuthVsState classifies how the event's auth events relate to the provided state.
func c14AuthVsState(room *c14Room, target jv, state []int) string {
	in := map[string]bool{}
	tuple := map[string]string{} // tuple -> event ID in state
	for _, i := range state {
		in[room.IDs[i]] = true
		sk, _ := room.Trees[i].get("state_key")
		tuple[grKey(evStr(room.Trees[i], "type"), sk.S)] = room.IDs[i]
	}
	outside, replaced := false, false
	cited := map[string]bool{}
	for _, id := range c14AuthIDs(room.Version, target) {
		if in[id] {
			if i, ok := room.ByID[id]; ok {
				sk, _ := room.Trees[i].get("state_key")
				cited[grKey(evStr(room.Trees[i], "type"), sk.S)] = true
			}
			continue
		}
		outside = true
		if i, ok := room.ByID[id]; ok {
			sk, _ := room.Trees[i].get("state_key")
			k := grKey(evStr(room.Trees[i], "type"), sk.S)
			cited[k] = true
			if _, has := tuple[k]; has {
				replaced = true
			}
		}
	}
	// a state entry the selection rule would pick for this event that the event does not name
	uncited := false
	var skp *string
	if sk, ok := target.get("state_key"); ok && sk.K == 's' {
		skp = &sk.S
	}
	ct, _ := target.get("content")
	for _, k := range grAuthKeys(room.Version, evStr(target, "type"), evStr(target, "sender"), skp, ct) {
		if _, has := tuple[k]; has && !cited[k] {
			uncited = true
		}
	}
	switch {
	case replaced:
		return "names-event-the-state-has-replaced"
	case outside && uncited:
		return "names-event-outside-state-and-omits-relevant-state"
	case outside:
		return "names-event-outside-state"
	case uncited:
		return "omits-relevant-state"
	}
	return "all-in-state"
}
