//go:build verif

// G-room: a room-history simulator. Events are real wire-format JSON (built with raJSON, IDs by the
// reference computation); auth_events are selected from the state at the event's parent by the
// specification's selection rule; each event is flagged rejected if R-auth refuses it against its
// own auth events. The DAG is a tree by prev_events (forks of arbitrary shape, no merges), so
// the state after every event is known without state resolution.
package gomatrixserverlib

import (
	"fmt"
	"math"
	"sort"
	"strings"

	"pgregory.net/rapid"
)

type grEvent struct {
	Idx      int
	Tree     jv
	ID       string
	Type     string
	StateKey *string
	Sender   string
	Parent   int
	Auth     []int
	Rejected bool
	Depth    int64
	TS       int64
	State    map[string]int // state AFTER this event: "type\x00state_key" -> event index
}

type grRoom struct {
	Version   string
	Events    []*grEvent
	RoomID    string
	byID      map[string]int
	mergePrev []string    // extra prev_events for the event being added (merges)
	pdus      map[int]PDU // parsed events (for merges, which need the reference resolver)
	Merges    int
}

func (r *grRoom) pdu(i int) PDU {
	if r.pdus == nil {
		r.pdus = map[int]PDU{}
	}
	if p, ok := r.pdus[i]; ok {
		return p
	}
	p, err := raParsePDU(r.Version, r.Events[i].Tree)
	if err != nil {
		return nil
	}
	r.pdus[i] = p
	return p
}

// mergedState resolves the states after events a and b with the REFERENCE resolver (the merge
// event's state-before); nil if something does not parse.
func (r *grRoom) mergedState(a, b int) map[string]int {
	var all []PDU
	rejected := map[string]bool{}
	for _, e := range r.Events {
		p := r.pdu(e.Idx)
		if p == nil {
			return nil
		}
		all = append(all, p)
		if e.Rejected {
			rejected[e.ID] = true
		}
	}
	set := func(i int) []PDU {
		var out []PDU
		for _, idx := range r.stateSet(i) {
			out = append(out, r.pdu(idx))
		}
		return out
	}
	sets := [][]PDU{set(a), set(b)}
	auth := all
	if vtraits[r.Version].StateRes == 1 {
		auth = rrUnconflictedAuthV1(sets)
	}
	res, _ := rres(r.Version, sets, auth, rejected)
	out := map[string]int{}
	for _, e := range res {
		if e.StateKey() == nil {
			continue
		}
		idx, ok := r.byID[e.EventID()]
		if !ok {
			return nil
		}
		out[grKey(e.Type(), *e.StateKey())] = idx
	}
	return out
}

// addMerge appends an event whose prev_events are a and b (a merge of two forks).
func (r *grRoom) addMerge(a, b int, typ, sender string, stateKey *string, content jv, idHint int) *grEvent {
	st := r.mergedState(a, b)
	if st == nil {
		return nil
	}
	// temporarily present the merged state as the state of a synthetic parent: reuse add() by
	// swapping the parent's state, then fix prev_events / depth / ts
	pa, pb := r.Events[a], r.Events[b]
	saved := pa.State
	savedDepth, savedTS := pa.Depth, pa.TS
	pa.State = st
	if pb.Depth > pa.Depth {
		pa.Depth = pb.Depth
	}
	if pb.TS > pa.TS {
		pa.TS = pb.TS
	}
	r.mergePrev = []string{pb.ID}
	e := r.add(a, typ, sender, stateKey, content, 1, idHint)
	r.mergePrev = nil
	pa.State, pa.Depth, pa.TS = saved, savedDepth, savedTS
	r.Merges++
	return e
}

func grKey(typ, sk string) string { return typ + "\x00" + sk }

var grUsers = []string{"@creator:a.example", "@alice:a.example", "@bob:b.example", "@carol:c.example", "@dave:b.example"}

func (r *grRoom) stateTrees(state map[string]int, keys ...string) []jv {
	var out []jv
	for _, k := range keys {
		if i, ok := state[k]; ok {
			out = append(out, r.Events[i].Tree)
		}
	}
	return out
}

// grAuthKeys is the specification's auth-event selection for an event.
func grAuthKeys(version, typ, sender string, stateKey *string, content jv) []string {
	if typ == "m.room.create" {
		return nil
	}
	keys := []string{grKey("m.room.create", ""), grKey("m.room.power_levels", ""), grKey("m.room.member", sender)}
	if typ == "m.room.member" && stateKey != nil {
		if *stateKey != sender {
			keys = append(keys, grKey("m.room.member", *stateKey))
		}
		mem := evStr(content, "membership")
		if mem == "join" || mem == "invite" || mem == "knock" {
			keys = append(keys, grKey("m.room.join_rules", ""))
		}
		if via := evStr(content, "join_authorised_via_users_server"); via != "" && via != sender && via != *stateKey {
			keys = append(keys, grKey("m.room.member", via))
		}
		if tpi, ok := content.get("third_party_invite"); ok {
			if sg, ok := tpi.get("signed"); ok {
				if tok := evStr(sg, "token"); tok != "" {
					keys = append(keys, grKey("m.room.third_party_invite", tok))
				}
			}
		}
	}
	return keys
}

// add appends an event on top of parent; returns it (flagged rejected if R-auth refuses it).
const grHugeTS = math.MinInt64

func (r *grRoom) add(parent int, typ, sender string, stateKey *string, content jv, tsDelta int64, idHint int) *grEvent {
	tr := vtraits[r.Version]
	e := &grEvent{Idx: len(r.Events), Type: typ, StateKey: stateKey, Sender: sender, Parent: parent}
	var parentState map[string]int
	spec := raEv{Type: typ, Sender: sender, StateKey: stateKey, Content: content, Room: r.RoomID}
	if parent >= 0 {
		p := r.Events[parent]
		parentState = p.State
		e.Depth, e.TS = p.Depth+1, p.TS+tsDelta
		if tsDelta == grHugeTS {
			// a timestamp at or beyond 2^63 (see raTS), from here on down this branch
			e.TS = math.MinInt64 + p.TS%1000
		}
		spec.Prev = append([]string{p.ID}, r.mergePrev...)
	} else {
		parentState = map[string]int{}
		e.Depth, e.TS = 1, 1000
	}
	keys := grAuthKeys(r.Version, typ, sender, stateKey, content)
	var authTrees []jv
	for _, k := range keys {
		if i, ok := parentState[k]; ok {
			e.Auth = append(e.Auth, i)
			authTrees = append(authTrees, r.Events[i].Tree)
			if !(tr.Creators && k == grKey("m.room.create", "")) {
				spec.Auth = append(spec.Auth, r.Events[i].ID)
			}
		}
	}
	spec.Depth, spec.TS = e.Depth, e.TS
	dom := "a.example"
	if i := strings.IndexByte(sender, ':'); i >= 0 {
		dom = sender[i+1:]
	}
	spec.ID = fmt.Sprintf("$e%d_%d:%s", idHint, e.Idx, dom)
	if typ == "m.room.create" && tr.Creators {
		spec.Room = ""
	}
	e.Tree = raJSON(r.Version, spec)
	e.ID = raEventID(r.Version, e.Tree)
	if typ == "m.room.create" && parent < 0 {
		if tr.Creators {
			r.RoomID = "!" + e.ID[1:]
		}
	}
	allow, _ := rauth(r.Version, raBuildState(r.Version, authTrees), e.Tree)
	e.Rejected = !allow
	e.State = parentState
	if !e.Rejected && stateKey != nil {
		ns := make(map[string]int, len(parentState)+1)
		for k, v := range parentState {
			ns[k] = v
		}
		ns[grKey(typ, *stateKey)] = e.Idx
		e.State = ns
	}
	r.Events = append(r.Events, e)
	if r.byID == nil {
		r.byID = map[string]int{}
	}
	r.byID[e.ID] = e.Idx
	return e
}

func (r *grRoom) memOf(state map[string]int, u string) string {
	if i, ok := state[grKey("m.room.member", u)]; ok {
		ct, _ := r.Events[i].Tree.get("content")
		return evStr(ct, "membership")
	}
	return "leave"
}

// grGen draws a room history.
// grGen draws a history that is a tree by prev_events (no merge events).
func grGen(t *rapid.T, version string, minEvents, maxEvents int) *grRoom {
	return grGenWith(t, version, minEvents, maxEvents, grOpts{})
}

type grOpts struct {
	Merges  bool // allow merge events (state-before by the reference resolver)
	PLHeavy bool // mostly power-level changes and plain state events, many forks, everyone joined
	// OddShapes: unusual but legal shapes — an event listing its prev event twice; power-levels /
	// join-rules typed state events under a NON-empty state key (ordinary state, not the room's levels
	// or rule: they neither are control events nor fill the resolver's power-levels / join-rules slot)
	OddShapes bool
}

func grGenWith(t *rapid.T, version string, minEvents, maxEvents int, opts grOpts) *grRoom {
	tr := vtraits[version]
	r := &grRoom{Version: version, RoomID: "!room:a.example"}
	cc := jobj("room_version", jstr(version))
	if tr.CreatorField {
		cc = cc.with("creator", jstr(grUsers[0]))
	}
	if tr.Creators && rapid.IntRange(0, 3).Draw(t, "addCreators") == 0 {
		cc = cc.with("additional_creators", jarr(jstr(grUsers[1])))
	}
	r.add(-1, "m.room.create", grUsers[0], raSK(""), cc, 0, 0)
	r.add(0, "m.room.member", grUsers[0], raSK(grUsers[0]), jobj("membership", jstr("join")), 1, 0)
	// initial power levels and join rules (linear prefix)
	users := jv{K: 'o'}
	if !tr.Creators {
		users = users.with(grUsers[0], jnum(100))
	}
	if rapid.Bool().Draw(t, "aliceMod") {
		users = users.with(grUsers[1], jnum(int64(rapid.SampledFrom([]int{50, 100}).Draw(t, "aliceLvl"))))
	}
	if rapid.IntRange(0, 4).Draw(t, "initialPL") > 0 {
		r.add(len(r.Events)-1, "m.room.power_levels", grUsers[0], raSK(""), jobj("users", users, "users_default", jnum(int64(rapid.SampledFrom([]int{0, 0, 0, 25, 40, 50}).Draw(t, "usersDefault"))), "events_default", jnum(0), "state_default", jnum(int64(rapid.SampledFrom([]int{0, 50}).Draw(t, "sd"))), "ban", jnum(50), "kick", jnum(50), "invite", jnum(0)), 1, 0)
	}
	r.add(len(r.Events)-1, "m.room.join_rules", grUsers[0], raSK(""), jobj("join_rule", jstr(rapid.SampledFrom([]string{"public", "public", "invite", "knock", "restricted"}).Draw(t, "jr0"))), 1, 0)
	if opts.PLHeavy {
		for _, u := range grUsers[1:] {
			r.add(len(r.Events)-1, "m.room.member", u, raSK(u), jobj("membership", jstr("join")), 1, 0)
		}
	}
	n := rapid.IntRange(minEvents, maxEvents).Draw(t, "nEvents")
	tries := 0
	for len(r.Events) < n && tries < 4*n {
		tries++
		parent := len(r.Events) - 1
		forkBelow := 3
		if opts.PLHeavy {
			forkBelow = 5
		}
		if rapid.IntRange(0, 9).Draw(t, "fork") < forkBelow {
			parent = rapid.IntRange(1, len(r.Events)-1).Draw(t, "parent")
		}
		st := r.Events[parent].State
		actor := rapid.SampledFrom(grUsers).Draw(t, "actor")
		target := rapid.SampledFrom(grUsers[1:]).Draw(t, "target")
		tsDelta := int64(rapid.SampledFrom([]int{0, 0, 1, 1, 5, -2, -15}).Draw(t, "ts")) // (negative: a server whose clock is behind)
		if !tr.Canonical && r.Events[parent].TS >= 0 && rapid.IntRange(0, 24).Draw(t, "hugeTS") == 0 {
			tsDelta = grHugeTS
		}
		idHint := rapid.IntRange(0, 9).Draw(t, "idHint")
		var typ string
		var sk *string
		var content jv
		action := rapid.IntRange(0, 13).Draw(t, "action")
		if opts.PLHeavy {
			// 0-4 -> power levels, 5-9 -> topic / custom state, else as drawn
			switch h := rapid.IntRange(0, 11).Draw(t, "plHeavy"); {
			case h <= 4:
				action = 8
			case h <= 7:
				action = 11
			case h <= 9:
				action = 13
			case h == 10:
				action = 10 // join rules changed by whoever holds the power at that point of the fork
			}
		}
		switch action {
		case 0, 1, 2:
			typ, sk, content = "m.room.member", raSK(actor), jobj("membership", jstr("join"))
			if r.jrOf(st) == "restricted" && rapid.Bool().Draw(t, "via") {
				content = content.with("join_authorised_via_users_server", jstr(grUsers[0]))
			}
		case 3:
			typ, sk, content = "m.room.member", raSK(actor), jobj("membership", jstr("leave"))
		case 4:
			typ, sk, content = "m.room.member", raSK(target), jobj("membership", jstr("invite"))
		case 5:
			typ, sk, content = "m.room.member", raSK(target), jobj("membership", jstr("leave")) // kick / unban
		case 6:
			typ, sk, content = "m.room.member", raSK(target), jobj("membership", jstr("ban"))
		case 7:
			typ, sk, content = "m.room.member", raSK(actor), jobj("membership", jstr("knock"))
		case 8, 9:
			// power level change derived from the current one
			cur := jobj("users", jv{K: 'o'})
			if i, ok := st[grKey("m.room.power_levels", "")]; ok {
				cur, _ = r.Events[i].Tree.get("content")
			}
			us, _ := cur.get("users")
			if us.K != 'o' {
				us = jv{K: 'o'}
			}
			who := rapid.SampledFrom(grUsers[1:]).Draw(t, "plWho")
			// (the last two: the edges of the integer range events may carry)
			lvl := rapid.SampledFrom([]int64{0, 25, 50, 50, 100, 0, 25, 50, 50, 100, 30, 30, -1, -1, 9007199254740991, -9007199254740991}).Draw(t, "plLvl")
			if !(tr.Creators && who == grUsers[1] && strings.Contains(jcanon(r.Events[0].Tree), "additional_creators")) {
				us = us.with(who, jnum(lvl))
			}
			cur = cur.with("users", us)
			if rapid.IntRange(0, 3).Draw(t, "plThreshold") == 0 {
				cur = cur.with(rapid.SampledFrom([]string{"ban", "kick", "invite", "state_default", "events_default", "users_default", "users_default"}).Draw(t, "plKey"), jnum(int64(rapid.SampledFrom([]int{0, 50, 100, 25, 40}).Draw(t, "plVal"))))
			}
			typ, sk, content = "m.room.power_levels", raSK(""), cur
		case 10:
			typ, sk, content = "m.room.join_rules", raSK(""), jobj("join_rule", jstr(rapid.SampledFrom([]string{"public", "invite", "knock", "restricted"}).Draw(t, "jr")))
		case 11, 12:
			typ, sk, content = "m.room.topic", raSK(""), jobj("topic", jstr(fmt.Sprint("t", rapid.IntRange(0, 5).Draw(t, "topic"))))
		default:
			typ, sk, content = "org.example.state", raSK(rapid.SampledFrom([]string{"", "k1", actor}).Draw(t, "csk")), jobj("v", jnum(int64(rapid.IntRange(0, 9).Draw(t, "cv"))))
		}
		if opts.OddShapes && rapid.IntRange(0, 7).Draw(t, "oddTyped") == 0 {
			osk := rapid.SampledFrom([]string{"backup", actor, "x"}).Draw(t, "oddSK")
			if rapid.Bool().Draw(t, "oddPL") {
				cur := jobj("users", jv{K: 'o'})
				if i, ok := st[grKey("m.room.power_levels", "")]; ok {
					cur, _ = r.Events[i].Tree.get("content")
				}
				typ, sk, content = "m.room.power_levels", raSK(osk), cur
			} else {
				typ, sk, content = "m.room.join_rules", raSK(osk), jobj("join_rule", jstr(rapid.SampledFrom([]string{"public", "invite"}).Draw(t, "oddJR")))
			}
		}
		var e *grEvent
		if leaves := r.leaves(); opts.Merges && len(leaves) >= 2 && rapid.IntRange(0, 9).Draw(t, "merge") == 0 {
			// merge two fork tips: the event's state-before is the reference resolution of both
			i := rapid.IntRange(0, len(leaves)-1).Draw(t, "mergeA")
			j := rapid.IntRange(0, len(leaves)-2).Draw(t, "mergeB")
			if j >= i {
				j++
			}
			e = r.addMerge(leaves[i], leaves[j], typ, actor, sk, content, idHint)
		}
		if e == nil {
			if opts.OddShapes && rapid.IntRange(0, 11).Draw(t, "dupPrev") == 0 {
				// the event lists its prev event twice (legal remote input; means nothing to the rules)
				r.mergePrev = []string{r.Events[parent].ID}
			}
			e = r.add(parent, typ, actor, sk, content, tsDelta, idHint)
			r.mergePrev = nil
		}
		if e.Rejected && rapid.IntRange(0, 3).Draw(t, "keepRejected") > 0 {
			// drop most rejected events so that histories stay mostly valid
			r.Events = r.Events[:len(r.Events)-1]
			delete(r.byID, e.ID)
			delete(r.pdus, e.Idx)
		}
	}
	return r
}

func (r *grRoom) jrOf(state map[string]int) string {
	if i, ok := state[grKey("m.room.join_rules", "")]; ok {
		ct, _ := r.Events[i].Tree.get("content")
		return evStr(ct, "join_rule")
	}
	return "invite"
}

// leaves returns indices of events that no other event has as parent.
func (r *grRoom) leaves() []int {
	hasChild := map[int]bool{}
	for _, e := range r.Events {
		if e.Parent >= 0 {
			hasChild[e.Parent] = true
		}
	}
	var out []int
	for _, e := range r.Events {
		if !hasChild[e.Idx] {
			out = append(out, e.Idx)
		}
	}
	return out
}

// stateSet returns the event indices of the state after event i, sorted.
func (r *grRoom) stateSet(i int) []int {
	var out []int
	for _, idx := range r.Events[i].State {
		out = append(out, idx)
	}
	sort.Ints(out)
	return out
}

// grCase is the serialisable form used by C10/C11/C14.
type grCase struct {
	Version  string    `json:"version"`
	Events   []vfBytes `json:"events"`   // every event of the room, creation order
	Sets     [][]int   `json:"sets"`     // state sets (indices into Events)
	Rejected []int     `json:"rejected"` // indices of events the auth rules reject
	// AuthChainsOnly: the auth events handed to the resolvers are the auth chains proper (the events
	// somebody cites as an auth event), not every event of the room: a state event nobody cites - a topic,
	// the latest power levels - is then NOT among them
	AuthChainsOnly bool `json:"auth_chains_only,omitempty"`
}

func grGenCase(t *rapid.T, version string, minEvents, maxEvents int) grCase {
	opts := grOpts{Merges: rapid.IntRange(0, 2).Draw(t, "allowMerges") > 0, PLHeavy: rapid.IntRange(0, 2).Draw(t, "plHeavyMode") == 0,
		OddShapes: rapid.IntRange(0, 2).Draw(t, "oddShapes") == 0}
	r := grGenWith(t, version, minEvents, maxEvents, opts)
	c := grCase{Version: version, AuthChainsOnly: rapid.IntRange(0, 2).Draw(t, "authChainsOnly") == 0}
	for _, e := range r.Events {
		c.Events = append(c.Events, vfBytes(jplain(e.Tree)))
		if e.Rejected {
			c.Rejected = append(c.Rejected, e.Idx)
		}
	}
	// the rejected-event oracle is an input of the resolvers: besides the events the rules reject, the
	// caller's oracle may name any other event (a server that disagrees about an event, a soft failure)
	if rapid.IntRange(0, 2).Draw(t, "oracleExtra") == 0 && len(r.Events) > 2 {
		n := rapid.IntRange(1, 3).Draw(t, "oracleExtraN")
		for k := 0; k < n; k++ {
			i := rapid.IntRange(1, len(r.Events)-1).Draw(t, "oracleExtraAt")
			dup := false
			for _, j := range c.Rejected {
				dup = dup || j == i
			}
			if !dup {
				c.Rejected = append(c.Rejected, i)
			}
		}
		sort.Ints(c.Rejected)
	}
	leaves := r.leaves()
	nsets := rapid.IntRange(2, 4).Draw(t, "nsets")
	seen := map[int]bool{}
	for len(c.Sets) < nsets {
		var tip int
		if len(leaves) > 0 && rapid.IntRange(0, 3).Draw(t, "tipLeaf") > 0 {
			tip = rapid.SampledFrom(leaves).Draw(t, "leaf")
		} else {
			tip = rapid.IntRange(1, len(r.Events)-1).Draw(t, "tip")
		}
		if seen[tip] && len(seen) < len(r.Events)-1 && rapid.IntRange(0, 4).Draw(t, "dupTip") > 0 {
			if len(seen) >= len(leaves)+2 {
				break
			}
			continue
		}
		seen[tip] = true
		c.Sets = append(c.Sets, r.stateSet(tip))
	}
	for len(c.Sets) < 2 {
		c.Sets = append(c.Sets, r.stateSet(len(r.Events)-1))
	}
	return c
}

// grParsed is a grCase with PDUs.
type grParsed struct {
	AuthChainsOnly bool
	PDUs           []PDU
	Trees          []jv
	Sets           [][]PDU
	Rejected       map[string]bool
	ByID           map[string]PDU
}

func grParse(c grCase) (*grParsed, error) {
	p := &grParsed{Rejected: map[string]bool{}, ByID: map[string]PDU{}, AuthChainsOnly: c.AuthChainsOnly}
	for _, raw := range c.Events {
		t, err := evTree(raw)
		if err != nil {
			return nil, err
		}
		pdu, err := raParsePDU(c.Version, t)
		if err != nil {
			return nil, err
		}
		p.Trees = append(p.Trees, t)
		p.PDUs = append(p.PDUs, pdu)
		p.ByID[pdu.EventID()] = pdu
	}
	for _, i := range c.Rejected {
		if i >= 0 && i < len(p.PDUs) {
			p.Rejected[p.PDUs[i].EventID()] = true
		}
	}
	for _, s := range c.Sets {
		var set []PDU
		for _, i := range s {
			if i < 0 || i >= len(p.PDUs) {
				return nil, fmt.Errorf("bad index")
			}
			set = append(set, p.PDUs[i])
		}
		p.Sets = append(p.Sets, set)
	}
	return p, nil
}

func grIDs(events []PDU) []string {
	out := make([]string, 0, len(events))
	for _, e := range events {
		out = append(out, e.EventID())
	}
	sort.Strings(out)
	return out
}
