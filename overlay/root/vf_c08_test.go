//go:build verif

package gomatrixserverlib

import (
	"crypto/sha256"
	"encoding/base64"
	"fmt"
	"sort"
	"strings"

	"pgregory.net/rapid"
)

// C08 — power-level changes can never escalate privilege. The invariant is computed directly
// from the old and new contents (it does not use R-auth's P rules, only the effective-level helper).

var c08EventKeys = []string{"m.room.message", "m.room.topic", "m.room.power_levels", "m.room.third_party_invite", "org.example.custom",
	// event types spelled like the named levels, like users / like map names (name-space collisions)
	"users_default", "ban", "state_default", "events_default", "invite", "kick", "redact", "users", "events", "notifications", "room"}

// c08GenNewPL draws a proposed power-levels content derived from the room's current one.
func c08GenNewPL(t *rapid.T, version string, r c07Room, sender string) jv {
	b := c07Build(r)
	st := raBuildState(version, b.Auth)
	L := st.pl(sender)
	if L > 1000 {
		L = 100
	}
	cur := jv{K: 'o'}
	if r.HasPL {
		cur = r.PL
	}
	lvl := func(label string) jv {
		switch rapid.IntRange(0, 11).Draw(t, label+"_k") {
		case 0, 1:
			return jnum(L - 1)
		case 2, 3, 4:
			return jnum(L)
		case 5, 6:
			return jnum(L + 1)
		case 7:
			return jnum(0)
		case 8:
			return jnum(100)
		case 9:
			return jnum(9007199254740991)
		case 10:
			return jnum(-1)
		default:
			// non-integer spellings
			return rapid.SampledFrom([]jv{jstr(fmt.Sprint(L)), jstr(" 50 "), {K: '#', S: "50.0"}, {K: '#', S: "5e1"}, {K: 'n'}, {K: 't'}, jstr("abc"), {K: '#', S: "50.5"}}).Draw(t, label+"_odd")
		}
	}
	sub := func(c jv, key string) jv {
		m, ok := c.get(key)
		if !ok || m.K != 'o' {
			return jv{K: 'o'}
		}
		return m
	}
	n := rapid.IntRange(0, 3).Draw(t, "nedits")
	for i := 0; i < n; i++ {
		switch rapid.IntRange(0, 9).Draw(t, "edit") {
		case 0, 1:
			cur = cur.with(rapid.SampledFrom(raNamed).Draw(t, "named"), lvl("namedv"))
		case 2:
			cur = cur.without(rapid.SampledFrom(raNamed).Draw(t, "namedDel"))
		case 3, 4:
			u := rapid.SampledFrom(append([]string{"notauser"}, c07Users...)).Draw(t, "user")
			cur = cur.with("users", sub(cur, "users").with(u, lvl("userv")))
		case 5:
			u := rapid.SampledFrom(c07Users).Draw(t, "userDel")
			cur = cur.with("users", sub(cur, "users").without(u))
		case 6:
			k := rapid.SampledFrom(c08EventKeys).Draw(t, "evk")
			cur = cur.with("events", sub(cur, "events").with(k, lvl("evv")))
		case 7:
			k := rapid.SampledFrom(c08EventKeys).Draw(t, "evDel")
			cur = cur.with("events", sub(cur, "events").without(k))
		case 8:
			k := rapid.SampledFrom([]string{"room", "other"}).Draw(t, "nk")
			cur = cur.with("notifications", sub(cur, "notifications").with(k, lvl("nv")))
		default:
			if rapid.Bool().Draw(t, "ndelAll") {
				cur = cur.without("notifications")
			} else {
				cur = cur.with("notifications", sub(cur, "notifications").without("room"))
			}
		}
	}
	return cur
}

func c08GenRoom(t *rapid.T, version string) (c07Room, string) {
	r := c07GenRoom(t, version)
	sender := rapid.SampledFrom(c07Users).Draw(t, "sender")
	if rapid.IntRange(0, 9).Draw(t, "senderJoined") > 0 {
		r.Members[sender] = "join"
	}
	if r.HasPL && rapid.Bool().Draw(t, "withNotif") {
		r.PL = r.PL.with("notifications", jobj("room", jnum(rapid.SampledFrom(c07Levels).Draw(t, "notifRoom"))))
	}
	return r, sender
}

func c08GenCase(t *rapid.T) c07Case {
	version := evGenVersion(t)
	r, sender := c08GenRoom(t, version)
	content := c08GenNewPL(t, version, r, sender)
	b := c07Build(r)
	cs := c07Finish(version, b, raEv{Type: "m.room.power_levels", Sender: sender, StateKey: raSK(""), Content: content, Prev: []string{evFakeID(t, version, "prev")}})
	cs.RedactedState = rapid.IntRange(0, 9).Draw(t, "redactedState") == 0
	return cs
}

// c08Level reads a level for the invariant: integer literals only; anything else is "not an
// integer" (ok=false).
func c08Int(v jv) (int64, bool) {
	if v.K != '#' || strings.ContainsAny(v.S, ".eE") {
		return 0, false
	}
	var n int64
	_, err := fmt.Sscan(v.S, &n)
	return n, err == nil
}

// c08Invariant checks the no-escalation invariant for an ACCEPTED event. old may be nil.
func c08Invariant(ctx *vfCtx, version string, st raState, sender string, newContent jv, band string) {
	tr := vtraits[version]
	L := st.pl(sender)
	np, ok := raParsePL(version, newContent)
	if !ok {
		// the library accepted content that the version's parsing rule refuses
		sig := "C08/accepted-unparseable-levels/" + band
		if tr.IntegerPL {
			sig = "C08/accepted-non-integer-level/" + c08OddKind(newContent) + "/" + band
		}
		ctx.Fail(sig, "accepted power-levels content that is invalid for version %s: %s", version, jcanon(newContent))
		return
	}
	if tr.IntegerPL {
		// every level must be a JSON integer literal
		bad := ""
		var walk func(path string, v jv)
		walk = func(path string, v jv) {
			if v.K == 'o' {
				for _, m := range v.O {
					walk(path+"."+m.Key, m.Val)
				}
				return
			}
			if _, ok := c08Int(v); !ok {
				bad = path
			}
		}
		for _, k := range raNamed {
			if v, ok := newContent.get(k); ok {
				walk(k, v)
			}
		}
		for _, k := range []string{"users", "events", "notifications"} {
			if v, ok := newContent.get(k); ok {
				walk(k, v)
			}
		}
		if bad != "" {
			ctx.Fail("C08/accepted-non-integer-level/"+c08OddKind(newContent)+"/"+band, "version %s accepted a non-integer level at %s: %s", version, bad, jcanon(newContent))
		}
	}
	old := &raPL{Named: map[string]int64{}, Users: map[string]int64{}, Events: map[string]int64{}, Notif: map[string]int64{}}
	if st.HasPL {
		old = st.PL
	} else {
		old.Users[st.CreateSender] = raInf - 1
	}
	for _, k := range raNamed {
		o, n := old.named(k), np.named(k)
		if o != n && (o > L || n > L) {
			ctx.Fail("C08/escalation/"+k+"/"+band, "accepted: %s changed %d -> %d by %s whose level is %d (version %s) new=%s", k, o, n, sender, L, version, jcanon(newContent))
		}
	}
	get := func(m map[string]int64, k string, def int64) int64 {
		if v, ok := m[k]; ok {
			return v
		}
		return def
	}
	union := func(a, b map[string]int64) []string {
		s := map[string]bool{}
		for k := range a {
			s[k] = true
		}
		for k := range b {
			s[k] = true
		}
		var out []string
		for k := range s {
			out = append(out, k)
		}
		sort.Strings(out)
		return out
	}
	for _, k := range union(old.Events, np.Events) {
		o, n := get(old.Events, k, old.named("events_default")), get(np.Events, k, np.named("events_default"))
		if o != n && (o > L || n > L) {
			tag := "events"
			if k == "m.room.third_party_invite" {
				tag = "events[m.room.third_party_invite]"
			}
			ctx.Fail("C08/escalation/"+tag+"/"+band, "accepted: events[%s] changed %d -> %d by %s whose level is %d (version %s)", k, o, n, sender, L, version)
		}
	}
	if tr.NotifLevels {
		for _, k := range union(old.Notif, np.Notif) {
			o, n := get(old.Notif, k, 50), get(np.Notif, k, 50)
			if o != n && (o > L || n > L) {
				ctx.Fail("C08/escalation/notifications/"+band, "accepted: notifications[%s] changed %d -> %d by %s whose level is %d (version %s)", k, o, n, sender, L, version)
			}
		}
	}
	for _, u := range union(old.Users, np.Users) {
		o, n := get(old.Users, u, old.named("users_default")), get(np.Users, u, np.named("users_default"))
		if o == n {
			continue
		}
		if n > L {
			ctx.Fail("C08/escalation/user-raised-above-sender/"+band, "accepted: users[%s] changed %d -> %d by %s whose level is %d (version %s)", u, o, n, sender, L, version)
		}
		if u != sender && o >= L {
			ctx.Fail("C08/escalation/peer-or-superior-changed/"+band, "accepted: users[%s] changed %d -> %d by %s whose level is only %d (version %s)", u, o, n, sender, L, version)
		}
	}
	if tr.Creators {
		for u := range np.Users {
			if st.isCreator(u) {
				ctx.Fail("C08/creator-in-users/"+band, "version %s accepted a power-levels event naming creator %s", version, u)
			}
		}
	}
}

func c08OddKind(content jv) string {
	kind := "other"
	var walk func(v jv)
	walk = func(v jv) {
		switch v.K {
		case 'o':
			for _, m := range v.O {
				walk(m.Val)
			}
		case 'n':
			kind = "null"
		case 's':
			if kind != "null" {
				kind = "string"
			}
		case '#':
			if strings.ContainsAny(v.S, ".eE") && kind == "other" {
				kind = "float"
			}
		case 't', 'f':
			if kind == "other" {
				kind = "bool"
			}
		}
	}
	for _, k := range append(append([]string{}, raNamed...), "users", "events", "notifications") {
		if v, ok := content.get(k); ok {
			walk(v)
		}
	}
	return kind
}

func c08Check(ctx *vfCtx, c c07Case) {
	evT, err := evTree(c.Event)
	if err != nil {
		ctx.Unjudged("generator: malformed event")
		return
	}
	var trees []jv
	var pdus []PDU
	for _, a := range c.Auth {
		t, err := evTree(a)
		if err != nil {
			ctx.Unjudged("generator: malformed auth event")
			return
		}
		p, err := raParsePDU(c.Version, t)
		if err != nil {
			ctx.Unjudged("generator: auth event does not parse")
			return
		}
		if c.RedactedState && evStr(t, "type") != "m.room.create" {
			// the current events have been redacted: what they still say (levels and thresholds survive
			// redaction) is what the sender is measured against
			t = rredact(c.Version, t)
			if vfCatch(ctx, "C08/redact-state", func() { p.Redact() }) {
				return
			}
		}
		trees = append(trees, t)
		pdus = append(pdus, p)
	}
	if c.RedactedState {
		ctx.Class("state-of-redacted-events")
	}
	st := raBuildState(c.Version, trees)
	if why := raUnjudged(st); why != "" {
		ctx.Unjudged(why)
		return
	}
	ev, err := raParsePDU(c.Version, evT)
	if err != nil {
		ctx.Unjudged("generator: event does not parse")
		return
	}
	var aerr error
	if vfCatch(ctx, "C08", func() {
		provider, perr := NewAuthEvents(pdus)
		if perr != nil {
			aerr = perr
			return
		}
		aerr = Allowed(ev, provider, vfUserIDForSender)
	}) {
		return
	}
	sender := evStr(evT, "sender")
	content, _ := evT.get("content")
	band := c07Band(c.Version)
	if aerr != nil {
		ctx.Class("rejected")
		if st.mem(sender) == "join" && st.eventLevel("m.room.power_levels", true) <= st.pl(sender) {
			ctx.Class("rejected-by-power-level-rule")
			ctx.NonTrivial()
		}
		return
	}
	ctx.Class("accepted")
	oldC := "{}"
	if st.HasPL {
		for _, t := range trees {
			if evStr(t, "type") == "m.room.power_levels" {
				oc, _ := t.get("content")
				oldC = jcanon(oc)
			}
		}
	}
	if jcanon(content) != oldC {
		ctx.Class("accepted-with-change")
		ctx.NonTrivial()
	}
	c08Invariant(ctx, c.Version, st, sender, content, band)
}

// ---------------------------------------------------------------------------------------------
// Histories: sequences of power-level events; every accepted one becomes the current state.

type c08Step struct {
	Sender  string  `json:"sender"`
	Content vfBytes `json:"content"`
}

type c08History struct {
	Version string    `json:"version"`
	Auth    []vfBytes `json:"auth"` // initial state
	Steps   []c08Step `json:"steps"`
}

func c08GenHistory(t *rapid.T) c08History {
	version := evGenVersion(t)
	r, _ := c08GenRoom(t, version)
	for _, u := range c07Users {
		if rapid.IntRange(0, 3).Draw(t, "join") > 0 {
			r.Members[u] = "join"
		}
	}
	b := c07Build(r)
	h := c08History{Version: version}
	for _, a := range b.Auth {
		h.Auth = append(h.Auth, vfBytes(jplain(a)))
	}
	n := rapid.IntRange(2, 8).Draw(t, "nsteps")
	cur := r
	for i := 0; i < n; i++ {
		sender := rapid.SampledFrom(c07Users).Draw(t, "stepSender")
		content := c08GenNewPL(t, version, cur, sender)
		h.Steps = append(h.Steps, c08Step{Sender: sender, Content: vfBytes(jplain(content))})
		// optimistic model for generation only: assume it may have been accepted half the time
		if rapid.Bool().Draw(t, "assumeAccepted") {
			if _, ok := raParsePL(version, content); ok {
				cur.HasPL, cur.PL = true, content
			}
		}
	}
	return h
}

func c08CheckHistory(ctx *vfCtx, h c08History) {
	var trees []jv
	for _, a := range h.Auth {
		t, err := evTree(a)
		if err != nil {
			ctx.Unjudged("generator: malformed auth event")
			return
		}
		trees = append(trees, t)
	}
	band := c07Band(h.Version)
	accepted := 0
	room := ""
	createID := ""
	for _, t := range trees {
		if evStr(t, "type") == "m.room.create" {
			room = raRoomID(h.Version, t)
			createID = raEventID(h.Version, t)
		}
	}
	// one checker object for the whole history, as state resolution keeps one: its provider follows the
	// room's state, every event is put to it twice (re-authorisation puts events to it again), and
	// whatever IT accepts is an accepted power-levels event too
	var reProv *AuthEvents
	var reCtx *allowerContext
	reusedAlive := true
	for i, s := range h.Steps {
		st := raBuildState(h.Version, trees)
		if raUnjudged(st) != "" {
			ctx.Unjudged(raUnjudged(st))
			return
		}
		content, _, err := jparse(s.Content)
		if err != nil {
			return
		}
		e := raEv{Type: "m.room.power_levels", Sender: s.Sender, StateKey: raSK(""), Content: content, Room: room, Depth: int64(100 + i), TS: int64(9000 + i), Prev: []string{createID}, ID: fmt.Sprintf("$pl%d:a.example", i)}
		et := raJSON(h.Version, e)
		ev, err := raParsePDU(h.Version, et)
		if err != nil {
			ctx.Unjudged("generator: event does not parse")
			return
		}
		var pdus []PDU
		for _, t := range trees {
			p, err := raParsePDU(h.Version, t)
			if err != nil {
				ctx.Unjudged("generator: auth event does not parse")
				return
			}
			pdus = append(pdus, p)
		}
		var aerr error
		if vfCatch(ctx, "C08", func() {
			provider, _ := NewAuthEvents(pdus)
			aerr = Allowed(ev, provider, vfUserIDForSender)
		}) {
			return
		}
		if reusedAlive {
			var r1, r2 error
			if vfCatch(ctx, "C08/reused-checker", func() {
				if reProv == nil {
					reProv, _ = NewAuthEvents(pdus)
					reCtx = newAllowerContext(reProv, vfUserIDForSender, ev.RoomID())
				}
				reCtx.update(reProv)
				r1 = reCtx.allowed(ev)
				reCtx.update(reProv)
				r2 = reCtx.allowed(ev)
			}) {
				return
			}
			if aerr != nil && (r1 == nil || r2 == nil) {
				ctx.Class("reused-checker-accepts-what-a-fresh-check-refuses")
				c08Invariant(ctx, h.Version, st, s.Sender, content, band+"/by-the-reused-checker")
				if ctx.Failed() {
					return
				}
				reusedAlive = false // the two have parted ways (C09's matter): nothing more to learn here
			}
		}
		if aerr != nil {
			// refused by Allowed: state resolution, offered the event as the other candidate for the room's
			// power levels, must not pick it either if it breaks the invariant
			if vtraits[h.Version].StateRes >= 2 && st.HasPL {
				c08ResolveLeg(ctx, h.Version, trees, pdus, st, e, s.Sender, content, band)
				if ctx.Failed() {
					return
				}
			}
			continue
		}
		accepted++
		c08Invariant(ctx, h.Version, st, s.Sender, content, band)
		if ctx.Failed() {
			return
		}
		if reProv != nil && reusedAlive {
			_ = reProv.AddEvent(ev)
		}
		// the accepted event becomes the room's power levels
		var next []jv
		for _, t := range trees {
			if evStr(t, "type") != "m.room.power_levels" {
				next = append(next, t)
			}
		}
		trees = append(next, et)
	}
	ctx.Class(fmt.Sprintf("accepted-steps/%d", accepted))
	if accepted >= 2 {
		ctx.NonTrivial()
	}
}

// c08ResolveLeg offers a power-levels event that Allowed refuses to state resolution as the second of two
// candidates (state set A = the current state, state set B = the same with the event in place of the
// current power levels; the event cites the create event, the current power levels and its sender's
// membership, so it is judged against the levels the invariant is computed from). If resolution
// returns it as the room's power levels it has been accepted, and the invariant must hold.
func c08ResolveLeg(ctx *vfCtx, version string, trees []jv, pdus []PDU, st raState, e raEv, sender string, content jv, band string) {
	var auth []string
	var setA, setB []PDU
	for i, t := range trees {
		typ := evStr(t, "type")
		sk, _ := raStr(t, "state_key")
		switch {
		case typ == "m.room.create":
			if !vtraits[version].Creators {
				auth = append(auth, pdus[i].EventID())
			}
		case typ == "m.room.power_levels", typ == "m.room.member" && sk == sender:
			// (the ID the library gives the parsed event: below version 6 a level written 50.0 is hashed as 50)
			auth = append(auth, pdus[i].EventID())
		}
		setA = append(setA, pdus[i])
		if typ != "m.room.power_levels" {
			setB = append(setB, pdus[i])
		}
	}
	e.Auth = auth
	cand, err := raParsePDU(version, raJSON(version, e))
	if err != nil {
		return
	}
	setB = append(setB, cand)
	var got []PDU
	var rerr error
	if vfCatch(ctx, "C08/resolve", func() {
		got, rerr = ResolveConflictsNew(RoomVersion(version), [][]PDU{setA, setB}, append(append([]PDU(nil), pdus...), cand), vfUserIDForSender, func(string) bool { return false })
	}) || rerr != nil {
		return
	}
	ctx.Class("refused-event-offered-to-state-resolution")
	for _, g := range got {
		if g.Type() == "m.room.power_levels" && g.StateKeyEquals("") && g.EventID() == cand.EventID() {
			ctx.Class("state-resolution-picks-what-a-fresh-check-refuses")
			c08Invariant(ctx, version, st, sender, content, band+"/by-state-resolution")
		}
	}
}

func init() {
	rule := "non-trivial = the power-levels event is accepted and differs from the current content, or is rejected although the sender is joined and has the level to send power-levels events (i.e. rejected by a power-level rule); histories: at least two accepted steps. distinct = distinct Case JSON"
	vfRapid("C08/pairs", rule, 5000, 600000, 16, c08GenCase, c08Check)
	vfRapid("C08/histories", rule, 400, 40000, 16, c08GenHistory, c08CheckHistory)
	vfRapid("C07/power-levels", "same generator as C08/pairs, judged against R-auth (accept AND reject direction); non-trivial = decided by a type-specific rule", 5000, 600000, 16, c08GenCase, c07Check)
}

// ---------------------------------------------------------------------------------------------
// Bounded-exhaustive product over edits of one level map (users / events / notifications) and of
// the named levels: for a sender at level L, an existing entry at {L-1, L, L+1} is kept / removed /
// set to {L-1, L, L+1}, while another entry is optionally added (at L-1 / L / L+1) and a third one
// optionally removed — so that additions and removals in ONE event (map size unchanged) are covered.

// c08EnumLevelTypes: a creator-level sender re-sends the current power levels with ONE level given in a
// spelling that is not a plain integer. Whether such an event may be accepted depends on the room
// version only (strict integers from version 10); everything else about the event is permitted.
func c08EnumLevelTypes(size, shard, nshards int, emit func(c07Case)) {
	odd := []jv{{K: 'n'}, jstr("50"), jstr(" 50 "), jstr(""), jstr("abc"), {K: '#', S: "50.0"}, {K: '#', S: "5e1"}, {K: '#', S: "50.5"}, {K: '#', S: "-0"},
		{K: 't'}, {K: 'f'}, {K: 'a'}, {K: 'o'}, {K: '#', S: "9007199254740992"}, {K: '#', S: "1e400"}}
	type pos struct{ mapKey, key string }
	var places []pos
	for _, n := range raNamed {
		places = append(places, pos{"", n})
	}
	places = append(places, pos{"users", c07Bob}, pos{"users", "@new:n.example"}, pos{"events", "m.room.topic"}, pos{"events", "org.example.new"},
		pos{"notifications", "room"}, pos{"notifications", "other"})
	idx := 0
	for _, version := range vfVersions {
		for _, hasOld := range []bool{true, false} {
			for _, pl := range places {
				for _, v := range odd {
					// which of the other maps the proposed content leaves out altogether (a scan over the
					// maps must not stop at an absent one)
					for _, drop := range [][]string{nil, {"users"}, {"events"}, {"users", "events"}, {"users", "events", "notifications"}} {
						idx++
						if idx%nshards != shard {
							continue
						}
						sender := c07Creator
						users := map[string]int64{c07Bob: 50}
						if !vtraits[version].Creators {
							users[c07Creator] = 100
						}
						r := c07Room{Version: version, HasPL: hasOld, JoinRule: "public", Members: map[string]string{c07Creator: "join", c07Bob: "join"}}
						cur := c07PLContent(users, map[string]int64{"users_default": 0, "events_default": 0, "state_default": 50, "ban": 50, "kick": 50, "redact": 50, "invite": 0},
							map[string]int64{"m.room.topic": 50}, map[string]int64{"room": 50})
						r.PL = cur
						nc := cur
						if pl.mapKey == "" {
							nc = nc.with(pl.key, v)
						} else {
							m, _ := nc.get(pl.mapKey)
							if m.K != 'o' {
								m = jv{K: 'o'}
							}
							nc = nc.with(pl.mapKey, m.with(pl.key, v))
						}
						for _, d := range drop {
							if d != pl.mapKey {
								nc = nc.without(d)
							}
						}
						b := c07Build(r)
						e := raEv{Type: "m.room.power_levels", Sender: sender, StateKey: raSK(""), Content: nc, Prev: []string{"$p:a.example"}}
						if vtraits[version].Format == 2 {
							e.Prev = []string{"$" + strings.Repeat("P", 43)}
						}
						emit(c07Finish(version, b, e))
					}
				}
			}
		}
	}
}

// c08EnumFirstPL: the room has NO power-levels event yet (the levels in force are the defaults, the
// creator at 100 before v12); somebody proposes the first one. Sender: creator / ordinary member /
// member who is not joined. Content: every named threshold drawn from {omitted, -1, 0, 50, 100} along
// a few diagonals, with a users map that lists nobody / the sender / the creator.
func c08EnumFirstPL(size, shard, nshards int, emit func(c07Case)) {
	idx := 0
	named := []string{"ban", "kick", "redact", "invite", "state_default", "events_default", "users_default"}
	for _, version := range vfVersions {
		for _, sender := range []string{c07Creator, c07Bob, c07Carol} {
			for _, lvl := range []int64{99, -1, 0, 50, 100} {
				for _, except := range append([]string{""}, named...) {
					for _, usersKind := range []string{"none", "sender-0", "sender-100", "creator-100", "creator-0"} {
						idx++
						if idx%nshards != shard || !c07Pick(idx, size) {
							continue
						}
						r := c07Room{Version: version, HasPL: false, JoinRule: "public", Members: map[string]string{c07Creator: "join", c07Bob: "join", c07Carol: "leave"}}
						nc := jv{K: 'o'}
						for _, n := range named {
							// `except` stays at its default by being left out
							if lvl != 99 && n != except {
								nc = nc.with(n, jnum(lvl))
							}
						}
						switch usersKind {
						case "sender-0":
							nc = nc.with("users", jobj(sender, jnum(0)))
						case "sender-100":
							nc = nc.with("users", jobj(sender, jnum(100)))
						case "creator-100":
							nc = nc.with("users", jobj(c07Creator, jnum(100)))
						case "creator-0":
							nc = nc.with("users", jobj(c07Creator, jnum(0)))
						}
						b := c07Build(r)
						e := raEv{Type: "m.room.power_levels", Sender: sender, StateKey: raSK(""), Content: nc, Prev: []string{"$p:a.example"}}
						if vtraits[version].Format == 2 {
							e.Prev = []string{"$" + strings.Repeat("P", 43)}
						}
						emit(c07Finish(version, b, e))
					}
				}
			}
		}
	}
}

func c08EnumEdits(size, shard, nshards int, emit func(c07Case)) {
	idx := 0
	type entryOp struct {
		name string
		old  int64 // offset from L; 99 = absent
		new  int64 // offset from L; 99 = absent
	}
	var ops []entryOp
	for _, o := range []int64{99, -1, 0, 1} {
		for _, n := range []int64{99, -1, 0, 1} {
			if o == 99 && n == 99 {
				continue
			}
			ops = append(ops, entryOp{fmt.Sprintf("%d->%d", o, n), o, n})
		}
	}
	for _, version := range vfVersions {
		for _, L := range []int64{50, 100} {
			for _, which := range []string{"users", "events", "notifications", "named", "named-shadowed"} {
				for _, op := range ops {
					for _, added := range []int64{99, -1, 0, 1} {
						for _, removed := range []int64{99, -1, 0, 1} {
							for _, self := range []string{"keep", "remove", "lower", "raise", "via-default"} {
								// "via-default": the sender is not listed at all, its level L is the room's
								// users_default (in v12 the users map is then EMPTY: creators are never listed)
								if (which != "users" && self != "keep" && self != "via-default") || (which == "users" && self == "via-default") {
									continue
								}
								idx++
								if idx%nshards != shard || !c07Pick(idx, size) {
									continue
								}
								emit(c08EditCase(version, L, which, op.old, op.new, added, removed, self))
							}
						}
					}
				}
			}
		}
	}
}

func c08EditCase(version string, L int64, which string, oldOff, newOff, added, removed int64, self string) c07Case {
	sender := c07Alice
	users := map[string]int64{c07Alice: L}
	if !vtraits[version].Creators {
		users[c07Creator] = 100
	}
	r := c07Room{Version: version, HasPL: true, JoinRule: "public", Members: map[string]string{c07Creator: "join", c07Alice: "join", c07Bob: "join", c07Carol: "join"}}
	named := map[string]int64{"state_default": 50}
	if self == "via-default" {
		delete(users, c07Alice)
		named["users_default"] = L
	}
	oldC := c07PLContent(users, named, nil, nil)
	newC := oldC
	set := func(c jv, mapKey, k string, off int64) jv {
		if off == 99 {
			return c
		}
		m, ok := c.get(mapKey)
		if !ok || m.K != 'o' {
			m = jv{K: 'o'}
		}
		return c.with(mapKey, m.with(k, jnum(L+off)))
	}
	var k1, k2, k3 string
	switch which {
	case "users":
		k1, k2, k3 = c07Bob, c07Carol, "@dave:b.example"
	case "events":
		k1, k2, k3 = "m.room.topic", "m.room.name", "org.example.custom"
	case "notifications":
		k1, k2, k3 = "room", "other", "third"
	}
	if which == "named-shadowed" {
		// as "named", plus an UNCHANGED events entry whose event type is spelled like the named level
		which = "named"
		oldC = oldC.with("events", jobj("ban", jnum(L-1), "users_default", jnum(L-1), "invite", jnum(L-1)))
	}
	if which == "named" {
		if oldOff != 99 {
			oldC = oldC.with("ban", jnum(L+oldOff))
		}
		newC = oldC.without("ban")
		if newOff != 99 {
			newC = newC.with("ban", jnum(L+newOff))
		}
		if added != 99 {
			newC = newC.with("users_default", jnum(L+added))
		}
		if removed != 99 {
			oldC = oldC.with("invite", jnum(L+removed))
			newC = newC.without("invite")
		}
	} else {
		oldC = set(oldC, which, k1, oldOff)
		oldC = set(oldC, which, k3, removed)
		newC = oldC
		if m, ok := newC.get(which); ok {
			newC = newC.with(which, m.without(k1, k3))
		}
		newC = set(newC, which, k1, newOff)
		newC = set(newC, which, k2, added)
	}
	if which == "users" {
		um, _ := newC.get("users")
		switch self {
		case "remove":
			newC = newC.with("users", um.without(c07Alice))
		case "lower":
			newC = newC.with("users", um.with(c07Alice, jnum(L-1)))
		case "raise":
			newC = newC.with("users", um.with(c07Alice, jnum(L+1)))
		}
	}
	r.PL = oldC
	b := c07Build(r)
	prev := "$p:a.example"
	if vtraits[version].Format == 2 {
		prev = "$" + strings.Repeat("P", 43)
	}
	return c07Finish(version, b, raEv{Type: "m.room.power_levels", Sender: sender, StateKey: raSK(""), Content: newC, Prev: []string{prev}})
}

// c08EnumOmitted: a sender BELOW the default thresholds (level 10 / 30 / 49; power-levels events
// need exactly that level in this room) proposes the current content with one named level LEFT OUT.
// A level that is left out takes its default (50 for ban / kick / redact / state_default, 0 for the
// others) once the event is current: where that is above the sender, the event sets a threshold
// above the sender's level.
func c08EnumOmitted(size, shard, nshards int, emit func(c07Case)) {
	idx := 0
	for _, version := range vfVersions {
		for _, L := range []int64{10, 30, 49} {
			for _, key := range []string{"ban", "kick", "redact", "state_default", "invite", "events_default", "users_default"} {
				for _, old := range []int64{99, 0, L} { // 99: the current content leaves it out too
					for _, alsoUsers := range []bool{false, true} {
						idx++
						if idx%nshards != shard {
							continue
						}
						users := map[string]int64{c07Alice: L}
						if !vtraits[version].Creators {
							users[c07Creator] = 100
						}
						r := c07Room{Version: version, HasPL: true, JoinRule: "public", Members: map[string]string{c07Creator: "join", c07Alice: "join", c07Bob: "join"}}
						named := map[string]int64{"state_default": L, "ban": L, "kick": L, "redact": L, "invite": 0, "events_default": 0, "users_default": 0}
						if old == 99 {
							delete(named, key)
						} else {
							named[key] = old
						}
						oldC := c07PLContent(users, named, map[string]int64{"m.room.power_levels": L}, nil)
						newC := oldC.without(key)
						if alsoUsers {
							// ... together with an ordinary, permitted change
							um, _ := newC.get("users")
							newC = newC.with("users", um.with(c07Bob, jnum(L-1)))
						}
						r.PL = oldC
						b := c07Build(r)
						prev := "$p:a.example"
						if vtraits[version].Format == 2 {
							prev = "$" + strings.Repeat("P", 43)
						}
						emit(c07Finish(version, b, raEv{Type: "m.room.power_levels", Sender: c07Alice, StateKey: raSK(""), Content: newC, Prev: []string{prev}}))
					}
				}
			}
		}
	}
}

func init() {
	vfEnum("C08/omitted-thresholds", "every case: a sender at level 10 / 30 / 49 proposes the current power levels with one named level left out (16 versions x 7 levels x current value absent / 0 / L x with or without another permitted change); non-trivial as for C08/pairs", 1, 1, 4, c08EnumOmitted, c08Check)
	vfEnum("C07/omitted-thresholds", "the same cases judged against R-auth in both directions", 1, 1, 4, c08EnumOmitted, c07Check)
	rule := "bounded-exhaustive product: 16 versions x sender level {50,100} x {users, events, notifications, named levels} x (existing entry at L-1/L/L+1/absent -> absent/L-1/L/L+1) x another entry added (none/L-1/L/L+1) x a third entry removed (none/L-1/L/L+1) x own entry kept/removed/lowered/raised; size = sampling stride (1 = complete); non-trivial as for C08/pairs"
	vfEnum("C08/level-types", rule+" Here: one level of an otherwise unchanged, permitted power-levels event (each named level, a users / events / notifications entry) is replaced by each non-integer spelling (null, numeric string, padded string, float with zero fraction, exponent, fraction, boolean, array, object, huge integer), in every room version.", 1, 1, 4, c08EnumLevelTypes, c08Check)
	vfEnum("C07/power-level-types", rule+" (the same cases judged against R-auth in both directions)", 1, 1, 4, c08EnumLevelTypes, c07Check)
	vfEnum("C08/first-power-levels", rule+" Here: a room without a power-levels event; creator / member / non-member proposes the first one: 5 values for all named thresholds (one of them optionally left at its default) x 5 users maps x 16 versions.", 2, 1, 4, c08EnumFirstPL, c08Check)
	vfEnum("C07/first-power-levels", rule+" (the same cases judged against R-auth in both directions)", 2, 1, 4, c08EnumFirstPL, c07Check)
	vfEnum("C08/edit-product", rule, 6, 1, 8, c08EnumEdits, c08Check)
	vfEnum("C07/power-level-edit-product", rule+" (judged against R-auth in both directions)", 6, 1, 8, c08EnumEdits, c07Check)
}

// ---------------------------------------------------------------------------------------------
// C08/repeated-sections — power-levels events as another server can send them (the content text
// byte for byte, through NewEventFromUntrustedJSON) whose content names a section or a level TWICE,
// the second time possibly under another JSON spelling of the same name (\uXXXX escapes), with a level
// that is not an integer in one of the two. JSON does not say which of two equal names counts and the
// decoders in use differ (first / last / merged); the statement does not care either: an ACCEPTED
// power-levels event of a version with integer-only levels contains no other kind of level - under
// any member of its content, however spelled. Refusing the event when it is parsed is the usual sound
// outcome.

type c08RepCase struct {
	Version string    `json:"version"`
	Content string    `json:"content"` // the content object as text
	Shape   string    `json:"shape"`
	Auth    []vfBytes `json:"auth"`
	Proto   vfBytes   `json:"proto"` // the event with a placeholder content
}

const c08RepPlaceholder = `{"c08-placeholder":1}`

func c08RepSpell(name, how string) string {
	esc := func(i int, upper bool) string {
		h := fmt.Sprintf("%04x", name[i])
		if upper {
			h = strings.ToUpper(h)
		}
		return name[:i] + `\u` + h + name[i+1:]
	}
	switch how {
	case "escaped-first":
		return esc(0, false)
	case "escaped-last":
		return esc(len(name)-1, true)
	case "escaped-all":
		out := ""
		for i := 0; i < len(name); i++ {
			out += fmt.Sprintf(`\u%04x`, name[i])
		}
		return out
	}
	return name
}

func c08EnumRepeated(size, shard, nshards int, emit func(c08RepCase)) {
	odds := []string{"null", `"50"`, "50.5", "true", `{}`}
	idx := 0
	for _, version := range vfVersions {
		users := map[string]int64{c07Bob: 50}
		creatorEntry := ""
		if !vtraits[version].Creators {
			users[c07Creator] = 100
			creatorEntry = jplain(jstr(c07Creator)) + `:100,`
		}
		r := c07Room{Version: version, HasPL: true, JoinRule: "public", Members: map[string]string{c07Creator: "join", c07Bob: "join"}}
		r.PL = c07PLContent(users, map[string]int64{"ban": 50}, map[string]int64{"m.room.topic": 50}, map[string]int64{"room": 50})
		b := c07Build(r)
		e := raEv{Type: "m.room.power_levels", Sender: c07Creator, StateKey: raSK(""), Prev: []string{"$p:a.example"}}
		if vtraits[version].Format == 2 {
			e.Prev = []string{"$" + strings.Repeat("P", 43)}
		}
		ph, _, _ := jparse([]byte(c08RepPlaceholder))
		e.Content = ph
		base := c07Finish(version, b, e)
		usersText := `"users":{` + creatorEntry + jplain(jstr(c07Bob)) + `:50}`
		// controls: the same machinery on content that repeats nothing (all integers: accepted; one null: the rules' matter)
		idx++
		if idx%nshards == shard {
			emit(c08RepCase{Version: version, Content: `{"ban":50,"kick":50,` + usersText + `}`, Auth: base.Auth, Proto: base.Event, Shape: "control/no-repeat"})
			emit(c08RepCase{Version: version, Content: `{"ban":null,"kick":50,` + usersText + `}`, Auth: base.Auth, Proto: base.Event, Shape: "control/no-repeat-null-level"})
		}
		for _, key := range []string{"users", "events", "notifications", "ban", "users_default"} {
			for _, odd := range odds {
				for _, how := range []string{"plain", "escaped-first", "escaped-last", "escaped-all"} {
					for _, oddFirst := range []bool{true, false} {
						for _, escapedFirst := range []bool{false, true} {
							idx++
							if idx%nshards != shard {
								continue
							}
							var good, bad string
							switch key {
							case "users":
								good = `{` + creatorEntry + jplain(jstr(c07Bob)) + `:50}`
								bad = `{` + creatorEntry + jplain(jstr(c07Bob)) + `:50,"@eve:e.example":` + odd + `}`
							case "events":
								good, bad = `{"m.room.topic":50}`, `{"m.room.topic":50,"m.room.name":`+odd+`}`
							case "notifications":
								good, bad = `{"room":50}`, `{"room":50,"other":`+odd+`}`
							default:
								good, bad = "50", odd
							}
							n1, n2 := `"`+key+`"`, `"`+c08RepSpell(key, how)+`"`
							if escapedFirst {
								n1, n2 = n2, n1
							}
							v1, v2 := good, bad
							if oddFirst {
								v1, v2 = bad, good
							}
							parts := []string{n1 + ":" + v1, `"kick":50`, n2 + ":" + v2}
							if key != "users" {
								parts = append(parts, usersText)
							}
							emit(c08RepCase{Version: version, Content: "{" + strings.Join(parts, ",") + "}", Auth: base.Auth, Proto: base.Event,
								Shape: fmt.Sprintf("%s/%s/odd-%s", key, how, map[bool]string{true: "first", false: "second"}[oddFirst])})
						}
					}
				}
			}
		}
	}
}

// c08RepOddLevel walks the content as text and names the first level, under any member spelled like a
// section or a named level, that is not an integer literal.
func c08RepOddLevel(content jv) string {
	if content.K != 'o' {
		return ""
	}
	named := map[string]bool{}
	for _, n := range raNamed {
		named[n] = true
	}
	for _, m := range content.O {
		switch {
		case named[m.Key]:
			if _, ok := c08Int(m.Val); !ok {
				return m.Key + " = " + jplain(m.Val)
			}
		case m.Key == "users" || m.Key == "events" || m.Key == "notifications":
			if m.Val.K != 'o' {
				continue
			}
			for _, ent := range m.Val.O {
				if _, ok := c08Int(ent.Val); !ok {
					return m.Key + "[" + ent.Key + "] = " + jplain(ent.Val)
				}
			}
		}
	}
	return ""
}

func c08RepCheck(ctx *vfCtx, c c08RepCase) {
	impl, err := GetRoomVersion(RoomVersion(c.Version))
	if err != nil {
		ctx.Unjudged("unknown room version")
		return
	}
	var pdus []PDU
	for _, a := range c.Auth {
		t, err := evTree(a)
		if err != nil {
			ctx.Unjudged("generator: malformed auth event")
			return
		}
		p, err := raParsePDU(c.Version, t)
		if err != nil {
			ctx.Unjudged("generator: auth event does not parse")
			return
		}
		pdus = append(pdus, p)
	}
	pt, err := evTree(c.Proto)
	if err != nil {
		ctx.Unjudged("generator: malformed event")
		return
	}
	body := jplain(pt.without("hashes", "signatures", "unsigned"))
	if strings.Count(body, c08RepPlaceholder) != 1 {
		ctx.Unjudged("generator: placeholder not found")
		return
	}
	body = strings.Replace(body, c08RepPlaceholder, c.Content, 1)
	var canon []byte
	if vfCatch(ctx, "C08/repeated-sections/canonical", func() { canon, err = CanonicalJSON([]byte(body)) }) {
		return
	}
	if err != nil {
		ctx.Unjudged("the library cannot canonicalise the text: " + err.Error())
		return
	}
	sum := sha256.Sum256(canon)
	wire := []byte(`{"hashes":{"sha256":"` + base64.RawStdEncoding.EncodeToString(sum[:]) + `"},` + body[1:])
	ctx.Class("shape/" + c.Shape)
	ctx.NonTrivial()
	var ev PDU
	if vfCatch(ctx, "C08/repeated-sections/parse", func() { ev, err = impl.NewEventFromUntrustedJSON(wire) }) {
		return
	}
	if err != nil {
		ctx.Class("outcome/refused-when-parsed")
		if c.Shape == "control/no-repeat" {
			ctx.Fail("C08/repeated-sections/ordinary-event-refused", "version %s: an ordinary power-levels event (%s) is refused when parsed: %v", c.Version, c.Content, err)
		}
		return
	}
	if ev.Redacted() {
		ctx.Class("parsed-as-redacted")
	}
	var aerr error
	if vfCatch(ctx, "C08/repeated-sections/allowed", func() {
		provider, perr := NewAuthEvents(pdus)
		if perr != nil {
			aerr = perr
			return
		}
		aerr = Allowed(ev, provider, vfUserIDForSender)
	}) {
		return
	}
	if aerr != nil {
		ctx.Class("outcome/refused-by-the-rules")
		if c.Shape == "control/no-repeat" {
			ctx.Fail("C08/repeated-sections/ordinary-event-refused", "version %s: an ordinary power-levels event of the creator (%s) is refused: %v", c.Version, c.Content, aerr)
		}
		return
	}
	ctx.Class("outcome/accepted")
	if !vtraits[c.Version].IntegerPL {
		ctx.Unjudged("accepted in a room version whose levels need not be integer literals")
		return
	}
	kept, _, perr := jparse(ev.Content())
	if perr != nil {
		ctx.Unjudged("content of the accepted event is not readable")
		return
	}
	if odd := c08RepOddLevel(kept); odd != "" {
		ctx.Fail("C08/accepted-non-integer-level/behind-a-repeated-key/"+c07Band(c.Version), "version %s: power-levels event accepted (parsed as untrusted input, then Allowed) although its content has the level %s; content as sent %s, as kept %s", c.Version, odd, c.Content, ev.Content())
	}
}

func init() {
	vfEnum("C08/repeated-sections", "every case: a power-levels event by the room's creator whose content names a section (users / events / notifications) or a named level twice - the second time plainly or under a \\uXXXX spelling of the same name - with a non-integer level in one of the two occurrences; sent through the untrusted parser, then Allowed. distinct = distinct Case JSON", 1, 1, 4, c08EnumRepeated, c08RepCheck)
}
