//go:build verif

package gomatrixserverlib

import (
	"crypto/ed25519"
	"encoding/base64"
	"fmt"
	"strings"
	"time"
	"unicode/utf16"

	"pgregory.net/rapid"
)

// C05 — redaction follows the room version's algorithm, is idempotent, keeps signatures.

type c05Case struct {
	Version string  `json:"version"`
	Event   vfBytes `json:"event"`  // wire JSON, hashed and signed by the reference signer
	Origin  string  `json:"origin"` // signer 1 (name, key label "origin:<name>", key id ed25519:1)
	Other   string  `json:"other"`  // signer 2, optional
	Floats  bool    `json:"floats,omitempty"`
}

var c05TopExtras = []string{"origin", "membership", "prev_state", "redacts", "unsigned", "age_ts", "foo", "outlier", "destinations", "replaces_state", "event_id", "sticky", "msc4354_sticky"}

func c05Check(ctx *vfCtx, c c05Case) {
	impl, err := GetRoomVersion(RoomVersion(c.Version))
	if err != nil {
		ctx.Fail("C05/unknown-version", "version %q", c.Version)
		return
	}
	tree, terr := evTree(c.Event)
	if terr != nil {
		ctx.Unjudged("generator: malformed event")
		return
	}
	typ := evStr(tree, "type")
	want := rredact(c.Version, tree)
	kc := evKnownClass(c.Version, tree)
	ctx.Class("algo/" + vtraits[c.Version].Redaction + "/" + typ)
	if kc != "" {
		ctx.Class("known-class" + kc)
	}
	// non-trivial: something removed and something kept
	removed := len(want.O) < len(tree.O)
	wc, _ := want.get("content")
	tc, _ := tree.get("content")
	if len(wc.O) < len(tc.O) {
		removed = true
	}
	if removed && len(wc.O) > 0 {
		ctx.NonTrivial()
	}

	// redactions that FAIL half-way come first (events the algorithm cannot process: content that is
	// not an object, a number no float holds) - carrying every protected key, so that anything a failed
	// call leaves behind would show in the redaction judged next
	if len(c.Event)%2 == 0 {
		ctx.Class("after-failed-redactions")
		for _, bad := range []string{
			`{"type":"m.room.member","content":[],"state_key":"c05-left-behind","origin":"left.behind.example","prev_state":[["$left:behind",{}]],"membership":"ban","sender":"@left:behind.example","room_id":"!left:behind.example","redacts":"$left:behind","depth":77,"origin_server_ts":77,"prev_events":[],"auth_events":[],"hashes":{"sha256":"x"},"signatures":{}}`,
			`{"type":"m.room.member","content":{"membership":"join","join_authorised_via_users_server":"@left:behind.example","third_party_invite":{"signed":{"token":"left-behind"}},"x":1e999},"state_key":"c05-left-behind","sender":"@left:behind.example","room_id":"!left:behind.example","depth":77,"origin_server_ts":77,"prev_events":[],"auth_events":[],"hashes":{"sha256":"x"},"signatures":{}}`,
			`{"type":"m.room.power_levels","content":{"users":{"@left:behind.example":100},"ban":1e999,"invite":77,"notifications":{"room":77}},"state_key":"","sender":"@left:behind.example","room_id":"!left:behind.example","depth":77,"origin_server_ts":77,"prev_events":[],"auth_events":[],"hashes":{"sha256":"x"},"signatures":{}}`,
		} {
			if vfCatch(ctx, "C05/failed-redaction", func() { _, _ = impl.RedactEventJSON([]byte(bad)) }) {
				return
			}
		}
	}
	var red []byte
	handed := append([]byte(nil), c.Event...)
	defer func() {
		if string(handed) != string(c.Event) && !ctx.Failed() {
			ctx.Fail("C05/input-overwritten", "RedactEventJSON changed the JSON it was given: %q now reads %q", c.Event, handed)
		}
	}()
	if vfCatch(ctx, "C05", func() { red, err = impl.RedactEventJSON(handed) }) {
		return
	}
	if err != nil {
		ctx.Fail("C05/redact-error", "RedactEventJSON failed on a well-formed event: %v; %q", err, c.Event)
		return
	}
	got, gerr := evTree(red)
	if gerr != nil {
		ctx.Fail("C05/redacted-json-malformed", "RedactEventJSON output malformed: %v: %q", gerr, red)
		return
	}
	if !jequal(got, want) {
		ctx.Fail("C05/redaction-differs"+kc+c05DiffTag(got, want), "RedactEventJSON(v%s, %q)\n = %s\nwant %s", c.Version, c.Event, jcanon(got), jcanon(want))
	}
	// idempotent
	var red2 []byte
	if vfCatch(ctx, "C05", func() { red2, err = impl.RedactEventJSON(append([]byte(nil), red...)) }) {
		return
	}
	if g2, e2 := evTree(red2); err != nil || e2 != nil || !jequal(g2, got) {
		ctx.Fail("C05/not-idempotent", "redacting twice differs: %q -> %q (err %v)", red, red2, err)
	}

	// PDU path
	var ev PDU
	if vfCatch(ctx, "C05", func() { ev, err = impl.NewEventFromTrustedJSON(append([]byte(nil), c.Event...), false) }) {
		return
	}
	if err != nil {
		ctx.Fail("C05/parse-error", "trusted parse failed: %v; %q", err, c.Event)
		return
	}
	var before, after c03View
	var ok bool
	if before, ok = c03ViewOf(ctx, "before", ev); !ok {
		return
	}
	if vfCatch(ctx, "C05", func() { ev.Redact() }) {
		return
	}
	if after, ok = c03ViewOf(ctx, "after", ev); !ok {
		return
	}
	if !after.Redacted {
		ctx.Fail("C05/redacted-flag", "Redacted() is false after Redact()")
	}
	if before.Type != after.Type || before.Sender != after.Sender || before.RoomID != after.RoomID || c03SK(before.StateKey) != c03SK(after.StateKey) {
		ctx.Fail("C05/redact-changed-identity-fields", "Redact() changed type/sender/room/state key: %v -> %v", before, after)
	}
	if vtraits[c.Version].Format == 2 && before.EventID != after.EventID {
		ctx.Fail("C05/redact-changed-event-id", "Redact() changed the event ID %s -> %s", before.EventID, after.EventID)
	}
	if vtraits[c.Version].Format == 2 {
		// a fresh parse of the redacted JSON (no cached ID) has the same ID
		var fid string
		if !vfCatch(ctx, "C05", func() {
			f, e := impl.NewEventFromTrustedJSON(append([]byte(nil), ev.JSON()...), true)
			if e == nil {
				fid = f.EventID()
			}
		}) && fid != before.EventID {
			ctx.Fail("C05/redact-changed-event-id/fresh", "event ID of the redacted JSON %s != original %s", fid, before.EventID)
		}
	}
	pj, perr := evTree(ev.JSON())
	if perr != nil || !jequal(pj, want) {
		ctx.Fail("C05/pdu-redaction-differs"+kc+c05DiffTag(pj, want), "PDU.Redact() JSON = %q, want %s", ev.JSON(), jcanon(want))
	}
	if cj, _, cerr := jparse(ev.Content()); cerr != nil || !jequal(cj, wc) {
		ctx.Fail("C05/pdu-content-differs"+kc, "Content() after Redact() = %q, want %s", ev.Content(), jcanon(wc))
	}
	j1 := append([]byte(nil), ev.JSON()...)
	if vfCatch(ctx, "C05", func() { ev.Redact() }) {
		return
	}
	if string(j1) != string(ev.JSON()) {
		ctx.Fail("C05/not-idempotent/pdu", "second Redact() changed the JSON")
	}

	// the PDU after Redact() is the PDU a fresh parse of its JSON gives: no accessor still answers from
	// what redaction removed (top-level redacts, unsigned, sticky markers, ...)
	{
		var fresh PDU
		var ferr error
		if !vfCatch(ctx, "C05/fresh", func() { fresh, ferr = impl.NewEventFromTrustedJSON(append([]byte(nil), ev.JSON()...), true) }) && ferr == nil && fresh != nil {
			type extra struct {
				Redacts, Unsigned string
				Sticky            bool
				StickyEnd         int64
			}
			get := func(label string, e PDU) (x extra, ok bool) {
				ok = !vfCatch(ctx, "C05/"+label, func() {
					now := time.UnixMilli(int64(e.OriginServerTS()) + 1000)
					x.Redacts = e.Redacts()
					x.Unsigned = string(e.Unsigned())
					x.Sticky = e.IsSticky(now, now)
					if t := e.StickyEndTime(now); !t.IsZero() {
						x.StickyEnd = t.UnixMilli()
					}
				})
				return
			}
			a, ok1 := get("after-redact", ev)
			f, ok2 := get("fresh-parse", fresh)
			if ok1 && ok2 && a != f {
				ctx.Fail("C05/pdu-after-redact-differs-from-its-json"+kc, "after Redact() the accessors answer %+v, a fresh parse of the same JSON answers %+v; json=%q", a, f, ev.JSON())
			}
		}
	}

	// signatures survive (events are signed by the reference signer over R-canon(R-redact(event)))
	if c.Floats {
		ctx.Class("floats(no signature demand)")
		return
	}
	for _, who := range []string{c.Origin, c.Other} {
		if who == "" {
			continue
		}
		pub, _ := vfKeyFor("origin:" + who)
		if !rverify(c.Version, tree, who, "ed25519:1", pub) {
			ctx.Unjudged("generator: reference signature missing")
			continue
		}
		for label, msg := range map[string][]byte{"redacted": red, "pdu": j1} {
			var verr error
			if vfCatch(ctx, "C05", func() { verr = VerifyJSON(who, "ed25519:1", pub, msg) }) {
				return
			}
			if verr != nil {
				ctx.Fail("C05/signature-lost"+kc+"/"+label, "signature of %s valid on the event does not verify on its redaction (%s): %v; event=%q redacted=%q", who, label, verr, c.Event, msg)
			}
		}
		// independent verification of the library's redacted bytes
		if s, ok := c02SigOfTree(got, who, "ed25519:1"); ok {
			raw, _ := base64.RawStdEncoding.DecodeString(s)
			if !ed25519.Verify(pub, []byte(jcanon(got.without("signatures", "unsigned"))), raw) {
				ctx.Fail("C05/signature-lost"+kc+"/independent", "signature of %s does not verify (independent ed25519) over the library's redaction %q", who, red)
			}
		} else {
			ctx.Fail("C05/signature-dropped"+kc, "signature of %s missing from the redacted event %q", who, red)
		}
	}

	// a signature made by the library itself (PDU.Sign, what Build and HandleInvite use) on the
	// unredacted event survives Redact(): it covers the redacted form
	var signed PDU
	lpub, lpriv := vfKeyFor("c05:lib-signer")
	if vfCatch(ctx, "C05/lib-sign", func() {
		fresh, e := impl.NewEventFromTrustedJSON(append([]byte(nil), c.Event...), false)
		if e == nil {
			signed = fresh.Sign("lib.example", "ed25519:lib", lpriv)
		}
	}) || signed == nil {
		return
	}
	ctx.Class("lib-signed")
	st, serr := evTree(signed.JSON())
	if serr != nil {
		ctx.Fail("C05/lib-sign/malformed", "Sign() produced malformed JSON %q", signed.JSON())
		return
	}
	if sg, ok := c02SigOfTree(st, "lib.example", "ed25519:lib"); ok {
		raw, _ := base64.RawStdEncoding.DecodeString(sg)
		if !ed25519.Verify(lpub, []byte(jcanon(rredact(c.Version, st).without("signatures", "unsigned"))), raw) {
			ctx.Fail("C05/lib-signature-not-over-redacted-form"+kc, "PDU.Sign() signature does not verify (independent ed25519) over the redacted form of the event %q", signed.JSON())
		}
	} else {
		ctx.Fail("C05/lib-sign/no-signature", "Sign() added no signature: %q", signed.JSON())
		return
	}
	if vfCatch(ctx, "C05/lib-sign", func() { signed.Redact() }) {
		return
	}
	var verr error
	if vfCatch(ctx, "C05/lib-sign", func() { verr = VerifyJSON("lib.example", "ed25519:lib", lpub, signed.JSON()) }) {
		return
	}
	if verr != nil {
		ctx.Fail("C05/lib-signature-lost-by-redaction"+kc, "a signature made with PDU.Sign() no longer verifies after Redact(): %v; redacted=%q", verr, signed.JSON())
	}
	// the same for an event that came in through the UNTRUSTED parser (an invite that the invited
	// server counter-signs): whatever the parser kept of it, a signature added afterwards is there,
	// and valid, after Redact()
	var usigned PDU
	if vfCatch(ctx, "C05/lib-sign/untrusted", func() {
		fresh, e := impl.NewEventFromUntrustedJSON(append([]byte(nil), c.Event...))
		if e == nil && fresh != nil {
			usigned = fresh.Sign("lib.example", "ed25519:lib", lpriv)
		}
	}) || usigned == nil {
		return
	}
	ctx.Class("lib-signed/after-untrusted-parse")
	if vfCatch(ctx, "C05/lib-sign/untrusted", func() { usigned.Redact() }) {
		return
	}
	if vfCatch(ctx, "C05/lib-sign/untrusted", func() { verr = VerifyJSON("lib.example", "ed25519:lib", lpub, usigned.JSON()) }) {
		return
	}
	if verr != nil {
		ctx.Fail("C05/lib-signature-lost-by-redaction"+kc+"/after-untrusted-parse", "a signature made with PDU.Sign() on an event from the untrusted parser no longer verifies after Redact(): %v; redacted=%q", verr, usigned.JSON())
	}
}

// c05DiffTag names the first differing key (stable signature component).
func c05DiffTag(got, want jv) string {
	for _, m := range want.O {
		g, ok := got.get(m.Key)
		if !ok {
			return "/missing-" + m.Key
		}
		if m.Key == "content" && !jequal(g, m.Val) {
			for _, cm := range m.Val.O {
				gc, ok := g.get(cm.Key)
				if !ok {
					return "/content-missing-" + cm.Key
				}
				if !jequal(gc, cm.Val) {
					return "/content-changed-" + cm.Key
				}
			}
			for _, cm := range g.O {
				if _, ok := m.Val.get(cm.Key); !ok {
					return "/content-extra-" + cm.Key
				}
			}
		}
		if !jequal(g, m.Val) {
			return "/changed-" + m.Key
		}
	}
	for _, m := range got.O {
		if _, ok := want.get(m.Key); !ok {
			return "/extra-" + m.Key
		}
	}
	return ""
}

// c05Wire turns a proto-event into wire JSON via the reference (not EventBuilder), adds extras.
func c05Wire(p evProto, extras jv, origin, other string) vfBytes {
	tr := vtraits[p.Version]
	ev := jv{K: 'o'}
	ev = ev.with("type", jstr(p.Type)).with("sender", jstr(p.Sender))
	if p.RoomID != "" {
		ev = ev.with("room_id", jstr(p.RoomID))
	}
	if p.StateKey != nil {
		ev = ev.with("state_key", jstr(*p.StateKey))
	}
	ct, _, _ := jparse(p.Content)
	ev = ev.with("content", ct).with("depth", jnum(p.Depth)).with("origin_server_ts", jnum(p.TS))
	ids := func(l []string) jv {
		a := jv{K: 'a', A: []jv{}}
		for _, id := range l {
			if tr.Format == 1 {
				a.A = append(a.A, jarr(jstr(id), jobj("sha256", jstr("47DEQpj8HBSa+/TImW+5JCeuQeRkm5NMpJWZG3hSuFU"))))
			} else {
				a.A = append(a.A, jstr(id))
			}
		}
		return a
	}
	ev = ev.with("prev_events", ids(p.Prev)).with("auth_events", ids(p.Auth))
	if tr.Format == 1 {
		ev = ev.with("event_id", jstr(fmt.Sprintf("$e%d:%s", p.Depth, origin)))
	}
	if p.Redacts != "" {
		ev = ev.with("redacts", jstr(p.Redacts))
	}
	for _, m := range extras.O {
		ev = ev.with(m.Key, m.Val)
	}
	_, priv := vfKeyFor("origin:" + origin)
	ev = rfinish(p.Version, ev, origin, "ed25519:1", priv)
	if other != "" {
		_, priv2 := vfKeyFor("origin:" + other)
		ev = rsign(p.Version, ev, other, "ed25519:1", priv2)
	}
	return vfBytes(jplain(ev))
}

func c05Gen(t *rapid.T) c05Case {
	version := evGenVersion(t)
	p := evGenProto(t, version)
	c := c05Case{Version: version, Origin: p.Origin}
	if rapid.Bool().Draw(t, "other") {
		c.Other = rapid.SampledFrom([]string{"b.example", "c.example", "other.example:8448"}).Draw(t, "otherName")
		if c.Other == c.Origin {
			c.Other = ""
		}
	}
	extras := jv{K: 'o'}
	o := jgenOpts{MaxDepth: 2, MaxWidth: 3, IntsOnly: true}
	n := rapid.IntRange(0, 4).Draw(t, "nextras")
	for i := 0; i < n; i++ {
		k := rapid.SampledFrom(c05TopExtras).Draw(t, "extraKey")
		if rapid.IntRange(0, 5).Draw(t, "randKey") == 0 {
			k = "x" + jgenString(t, "xk")
		}
		if k == "redacts" {
			extras = extras.with(k, jstr(evFakeID(t, version, "xredacts"))) // top-level redacts is a string field
		} else if k == "event_id" {
			if vtraits[version].Format == 1 {
				continue // format-1 events carry their real event_id
			}
			extras = extras.with(k, jstr("$stale:other.example")) // a stray key in format-2 events
		} else if k == "sticky" || k == "msc4354_sticky" {
			extras = extras.with(k, jobj("duration_ms", jnum(600000))) // the field is an object with a duration
		} else if k == "unsigned" {
			extras = extras.with(k, jobj("age", jnum(5), "prev_content", jobj("body", jstr("before")))) // an object, as SetUnsigned writes it
		} else {
			extras = extras.with(k, jgenValue(t, o, 1, "extraVal"))
		}
	}
	if !vtraits[version].Canonical && rapid.IntRange(0, 5).Draw(t, "floats") == 0 {
		// floats are legal below v6: value equality only
		ct, _, _ := jparse(p.Content)
		k := rapid.SampledFrom([]string{"ban", "membership", "users", "zz"}).Draw(t, "fkey")
		ct = ct.with(k, jv{K: '#', S: rapid.SampledFrom([]string{"0.5", "1.5e3", "-2.25", "1e2", "100.0"}).Draw(t, "fval")})
		p.Content = vfBytes(jplain(ct))
		c.Floats = true
	}
	c.Event = c05Wire(p, extras, c.Origin, c.Other)
	if !c.Floats && rapid.IntRange(0, 3).Draw(t, "respelt") == 0 {
		// the same event in another spelling (escapes in keys and strings — the "type" among them —,
		// key order, whitespace): RedactEventJSON and the trusted constructors take any JSON text
		if tr, err := evTree(c.Event); err == nil {
			c.Event = vfBytes(c05Respell(tr, rapid.IntRange(0, 3).Draw(t, "respellShift")))
		}
	}
	return c
}

// c05Respell writes the tree with one character of every key and string value as a \uXXXX escape
// (surrogate pair for astral characters), "/" as "\/", and blanks after separators. Numbers are left
// as they are.
func c05Respell(v jv, shift int) string {
	var sb strings.Builder
	str := func(x string) {
		rs := []rune(x)
		sb.WriteByte('"')
		for i, r := range rs {
			switch {
			case len(rs) > 0 && i == (len(rs)+shift)%len(rs) && r >= 0x10000:
				r1, r2 := utf16.EncodeRune(r)
				fmt.Fprintf(&sb, "\\u%04x\\u%04X", r1, r2)
			case len(rs) > 0 && i == (len(rs)+shift)%len(rs) && r != 0xFFFD:
				fmt.Fprintf(&sb, "\\u%04x", r)
			case r == '/':
				sb.WriteString(`\/`)
			default:
				q := jplain(jstr(string(r)))
				sb.WriteString(q[1 : len(q)-1])
			}
		}
		sb.WriteByte('"')
	}
	var walk func(x jv)
	walk = func(x jv) {
		switch x.K {
		case 'o':
			sb.WriteString("{ ")
			for i, m := range x.O {
				if i > 0 {
					sb.WriteString(" ,")
				}
				str(m.Key)
				sb.WriteString(" : ")
				walk(m.Val)
			}
			sb.WriteString("}")
		case 'a':
			sb.WriteString("[")
			for i, e := range x.A {
				if i > 0 {
					sb.WriteString(", ")
				}
				walk(e)
			}
			sb.WriteString(" ]")
		case 's':
			str(x.S)
		default:
			sb.WriteString(jplain(x))
		}
	}
	walk(v)
	return sb.String()
}

var c05Types = []string{"m.room.member", "m.room.create", "m.room.join_rules", "m.room.power_levels", "m.room.aliases",
	"m.room.history_visibility", "m.room.redaction", "m.room.third_party_invite", "m.room.message"}

// c05EnumTable: version x type x (all keys present | each single key present), content and top level.
func c05EnumTable(size, shard, nshards int, emit func(c05Case)) {
	idx := 0
	val := func(k string) jv {
		switch k {
		case "third_party_invite":
			return jobj("display_name", jstr("d"), "signed", jobj("mxid", jstr("@b:b.example"), "token", jstr("t")))
		case "users", "events", "notifications":
			return jobj("@a:a.example", jnum(100))
		case "allow", "aliases", "additional_creators":
			return jarr(jstr("x"))
		case "sticky", "msc4354_sticky":
			return jobj("duration_ms", jnum(600000))
		case "unsigned":
			return jobj("age", jnum(5), "prev_content", jobj("body", jstr("before")))
		}
		return jstr("v-" + k)
	}
	for _, version := range vfVersions {
		for _, typ := range c05Types {
			sk := ""
			base := evProto{Version: version, Type: typ, Sender: "@alice:a.example", RoomID: "!room:a.example", StateKey: &sk,
				Depth: 7, TS: 1234, Prev: []string{}, Auth: []string{}}
			if vtraits[version].Creators {
				base.RoomID = "!RpiB8FvrJ5sePFMDD2Xzh4Uss0wKg1GnUj3vVfmTm9s"
				if typ == "m.room.create" {
					base.RoomID = ""
				}
			}
			variants := []struct{ content, extras jv }{}
			all := jv{K: 'o'}
			for _, k := range evInterestingContentKeys {
				all = all.with(k, val(k))
			}
			allTop := jv{K: 'o'}
			for _, k := range c05TopExtras {
				allTop = allTop.with(k, val(k))
			}
			variants = append(variants, struct{ content, extras jv }{all, allTop})
			for _, k := range evInterestingContentKeys {
				variants = append(variants, struct{ content, extras jv }{jobj(k, val(k)), jv{K: 'o'}})
			}
			for _, k := range c05TopExtras {
				variants = append(variants, struct{ content, extras jv }{jobj("membership", jstr("join"), "body", jstr("b")), jobj(k, val(k))})
			}
			for _, v := range variants {
				if idx%nshards == shard {
					p := base
					p.Content = vfBytes(jplain(v.content))
					emit(c05Case{Version: version, Origin: "a.example", Other: "b.example", Event: c05Wire(p, v.extras, "a.example", "b.example")})
				}
				idx++
			}
		}
	}
}

func init() {
	rule := "non-trivial = the event has at least one key (top-level or content) that the version's algorithm removes and at least one content key it keeps; distinct = distinct Case JSON"
	vfRapid("C05/redact", rule, 2000, 160000, 16, c05Gen, c05Check)
	vfEnum("C05/keep-list-table", rule+"; complete table: 16 versions x 9 event types x (all listed keys present | each listed content key alone | each listed top-level key alone)", 1, 1, 4, c05EnumTable, c05Check)
}
