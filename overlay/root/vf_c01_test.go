//go:build verif

package gomatrixserverlib

import (
	"bytes"
	"fmt"
	"strings"
	"testing"
	"unicode/utf16"
	"unicode/utf8"

	"pgregory.net/rapid"
)

// C01 — canonical JSON is a value-preserving, unique, idempotent normal form.

// vfEnforcingVersions is transcribed from the specification (DESIGN Appendix C): canonical JSON
// is enforced from room version 6, and by the unstable versions (all based on >= 7).
var vfAllVersions = []string{"1", "2", "3", "4", "5", "6", "7", "8", "9", "10", "11", "12",
	"org.matrix.msc3667", "org.matrix.msc3787", "org.matrix.msc4014", "org.matrix.hydra.11"}

func vfEnforcesCanonical(v string) bool {
	switch v {
	case "1", "2", "3", "4", "5":
		return false
	}
	return true
}

type c01Case struct {
	Text     vfBytes  `json:"text"`
	Alt      vfBytes  `json:"alt,omitempty"`      // another presentation of the same value (optional)
	Versions []string `json:"versions,omitempty"` // room versions for the enforced variant
	Near     bool     `json:"near,omitempty"`     // produced by damaging a valid text with <= 2 edits
}

func c01KeyNeedsEscape(v jv) bool {
	switch v.K {
	case 'a':
		for _, e := range v.A {
			if c01KeyNeedsEscape(e) {
				return true
			}
		}
	case 'o':
		for _, m := range v.O {
			for _, r := range m.Key {
				if r == '"' || r == '\\' || r < 0x20 {
					return true
				}
			}
			if c01KeyNeedsEscape(m.Val) {
				return true
			}
		}
	}
	return false
}

func c01HasNegZeroPrefixedNonZero(v jv) bool {
	switch v.K {
	case '#':
		return strings.HasPrefix(v.S, "-0") && v.S != "-0" && !jnumIsZero(v.S)
	case 'a':
		for _, e := range v.A {
			if c01HasNegZeroPrefixedNonZero(e) {
				return true
			}
		}
	case 'o':
		for _, m := range v.O {
			if c01HasNegZeroPrefixedNonZero(m.Val) {
				return true
			}
		}
	}
	return false
}

func c01Check(ctx *vfCtx, c c01Case) {
	text := []byte(c.Text)
	v, fl, perr := jparse(text)

	var out []byte
	var err error
	// (texts that are refused, or odd, come first: the verdict on THIS text does not depend on them)
	if len(text)%2 == 0 {
		ctx.Class("after-other-texts")
		if vfCatch(ctx, "C01/other-text", func() {
			_, _ = CanonicalJSON([]byte(`{"left":"behind","n":[1.5,-0,1e999],}`))
			_, _ = CanonicalJSON([]byte(`{"left":"behind","z":{"b":2,"a":1}}`))
			_, _ = EnforcedCanonicalJSON([]byte(`{"left":1.5}`), "10")
		}) {
			return
		}
	}
	given := append([]byte(nil), text...)
	if vfCatch(ctx, "C01", func() { out, err = CanonicalJSON(given) }) {
		return
	}
	// the text handed over is the caller's and reads as before (the result is a value of its own)
	if !bytes.Equal(given, text) {
		ctx.Fail("C01/input-overwritten", "CanonicalJSON changed the text it was given: %q now reads %q", text, given)
		return
	}

	if perr != nil {
		// ---- invalid text ----
		if fl.Depth > 40000 {
			// the reference parser stops following the nesting there; whether such a text is valid is
			// not judged (encoding/json has a limit of its own, 10000 levels): no panic is all that is asked
			ctx.Class("nested-deeper-than-40000(unjudged)")
			ctx.Unjudged("nested deeper than the reference parser follows")
			return
		}
		if !utf8ValidBytes(text) {
			ctx.Class("invalid-utf8(unjudged)")
			ctx.Unjudged("invalid UTF-8 bytes: RFC 8259 and encoding/json disagree; only no-panic is required")
			return
		}
		ctx.Class("invalid")
		if c.Near {
			ctx.NonTrivial()
		}
		if err == nil {
			ctx.Fail("C01/invalid-accepted", "invalid JSON %q (%v) was canonicalised to %q without error", text, perr, out)
		}
		for _, ver := range c.Versions {
			var eerr error
			if vfCatch(ctx, "C01", func() { _, eerr = EnforcedCanonicalJSON(append([]byte(nil), text...), RoomVersion(ver)) }) {
				return
			}
			if eerr == nil {
				ctx.Fail("C01/invalid-accepted/enforced", "invalid JSON %q accepted by EnforcedCanonicalJSON(%s)", text, ver)
			}
		}
		return
	}
	if fl.DupKeys {
		ctx.Class("dupkeys(unjudged)")
		ctx.Unjudged("duplicate object keys: outside the statement's domain; only no-panic is required")
		return
	}
	if fl.LoneSurrogate {
		ctx.Class("lone-surrogate(unjudged)")
		ctx.Unjudged("ill-formed Unicode (lone surrogate escape): only no-panic is required")
		return
	}

	// ---- valid text ----
	want := jcanon(v)
	if string(text) != want || fl.NonInt || fl.NegZero || fl.OutOfRange || len(c.Alt) > 0 {
		ctx.NonTrivial()
	}
	ctx.Class("valid")
	if fl.NonInt {
		ctx.Class("valid/non-integer-number")
	}
	if fl.NegZero {
		ctx.Class("valid/negative-zero")
	}
	keyEsc := c01KeyNeedsEscape(v)
	if keyEsc {
		ctx.Class("valid/key-needs-escape")
	}
	cause := ""
	switch {
	case keyEsc:
		cause = "/key-needs-escape"
	case c01HasNegZeroPrefixedNonZero(v):
		cause = "/minus-zero-prefix"
	}

	if err != nil {
		ctx.Fail("C01/valid-rejected", "valid JSON %q rejected: %v", text, err)
		return
	}
	vo, _, oerr := jparse(out)
	if oerr != nil {
		ctx.Fail("C01/output-invalid"+cause, "CanonicalJSON(%q) = %q which is not valid JSON: %v", text, out, oerr)
		return
	}
	if !jequal(v, vo) {
		ctx.Fail("C01/value-changed"+cause, "CanonicalJSON(%q) = %q denotes a different value", text, out)
		return
	}
	if fl.NegZeroFrac {
		ctx.Unjudged("spelling of a zero written -0.x / -0eN: statement fixes only -0 -> 0")
	} else if string(out) != want {
		ctx.Fail("C01/not-canonical"+cause, "CanonicalJSON(%q) = %q, canonical form is %q", text, out, want)
		return
	}
	// the result belongs to the caller: later canonicalisations of other texts do not change it
	kept := string(out)
	if vfCatch(ctx, "C01", func() {
		_, _ = CanonicalJSON([]byte(`[7,"another text, canonicalised after the first result was returned",-0,[{"b":1,"a":2}]]`))
		_, _ = CanonicalJSON([]byte(`"x"`))
		_ = CanonicalJSONAssumeValid([]byte(`{"k":[1,2,3],"a":"` + strings.Repeat("z", len(out)+8) + `"}`))
	}) {
		return
	}
	if string(out) != kept {
		ctx.Fail("C01/result-overwritten-by-later-call", "CanonicalJSON(%q) returned %q; after canonicalising other texts the same slice reads %q", text, kept, out)
		return
	}
	// the caller's buffer is the caller's: the same backing array, refilled in place with a damaged
	// copy of the text (a read buffer that is reused), is judged as what it holds now
	if len(text) >= 2 {
		buf := append([]byte(nil), text...)
		var e1, e2 error
		var o2 []byte
		broken := append([]byte(nil), text...)
		switch last := broken[len(broken)-1]; last {
		case '}', ']', '"':
			broken[len(broken)-1] = ','
		default:
			broken[0] = ']'
		}
		if _, _, berr := jparse(broken); berr != nil {
			if vfCatch(ctx, "C01", func() {
				_, e1 = CanonicalJSON(buf)
				copy(buf, broken)
				o2, e2 = CanonicalJSON(buf)
			}) {
				return
			}
			if e1 == nil && e2 == nil {
				ctx.Fail("C01/invalid-accepted/reused-input-buffer", "CanonicalJSON accepted %q (-> %q) handed over in the buffer that held the valid text %q a call earlier", broken, o2, text)
				return
			}
		}
	}
	var again []byte
	if vfCatch(ctx, "C01", func() { again, err = CanonicalJSON(append([]byte(nil), out...)) }) {
		return
	}
	if err != nil || !bytes.Equal(again, out) {
		ctx.Fail("C01/not-idempotent"+cause, "CanonicalJSON(CanonicalJSON(%q)) = %q (err %v), first pass gave %q", text, again, err, out)
	}
	var av []byte
	if vfCatch(ctx, "C01", func() { av = CanonicalJSONAssumeValid(append([]byte(nil), text...)) }) {
		return
	}
	if !bytes.Equal(av, out) {
		ctx.Fail("C01/assume-valid-differs", "CanonicalJSONAssumeValid(%q) = %q but CanonicalJSON gives %q", text, av, out)
	}

	if len(c.Alt) > 0 {
		va, afl, aerr := jparse(c.Alt)
		if aerr != nil || afl.DupKeys || afl.LoneSurrogate || jcanon(va) != want {
			// generator self-check: Alt must be another presentation of the same value
			ctx.Unjudged("alt presentation is not the same value (generator)")
		} else {
			ctx.Class("valid/two-presentations")
			var o2 []byte
			if vfCatch(ctx, "C01", func() { o2, err = CanonicalJSON(append([]byte(nil), c.Alt...)) }) {
				return
			}
			if err != nil || !bytes.Equal(o2, out) {
				ctx.Fail("C01/presentations-differ"+cause, "two presentations of one value canonicalise differently: %q -> %q, %q -> %q (err %v)", text, out, c.Alt, o2, err)
			}
		}
	}

	// ---- enforced variant ----
	for _, ver := range c.Versions {
		var eo []byte
		var eerr error
		if vfCatch(ctx, "C01", func() { eo, eerr = EnforcedCanonicalJSON(append([]byte(nil), text...), RoomVersion(ver)) }) {
			return
		}
		impl, gerr := GetRoomVersion(RoomVersion(ver))
		var cerr error
		if gerr == nil {
			if vfCatch(ctx, "C01", func() { cerr = impl.CheckCanonicalJSON(append([]byte(nil), text...)) }) {
				return
			}
		}
		if !vfEnforcesCanonical(ver) {
			if eerr != nil || !bytes.Equal(eo, out) {
				ctx.Fail("C01/enforced-differs/pre-v6", "EnforcedCanonicalJSON(%q, %s) = %q, %v; CanonicalJSON gives %q", text, ver, eo, eerr, out)
			}
			continue
		}
		mustReject := fl.NonInt || fl.OutOfRange
		switch {
		case mustReject:
			ctx.Class("enforced/must-reject")
			if eerr == nil {
				ctx.Fail("C01/enforced-accepts-non-integer", "EnforcedCanonicalJSON(%q, %s) accepted a number that is not an integer literal within +/-(2^53-1): %q", text, ver, eo)
			} else if cerr == nil {
				ctx.Fail("C01/enforced-accepts-non-integer/CheckCanonicalJSON", "CheckCanonicalJSON(%q) (version %s) accepted a non-integer number", text, ver)
			}
		case fl.NegZero:
			ctx.Class("enforced/negative-zero(unjudged)")
			ctx.Unjudged("-0 under the enforced variant: statement does not say whether -0 is an integer literal")
		default:
			ctx.Class("enforced/must-accept")
			if eerr != nil || !bytes.Equal(eo, out) {
				ctx.Fail("C01/enforced-rejects-valid", "EnforcedCanonicalJSON(%q, %s) = %q, %v; all numbers are in-range integer literals, expected %q", text, ver, eo, eerr, out)
			}
		}
	}
}

func utf8ValidBytes(b []byte) bool { return utf8.Valid(b) }

// ---- generators ----

func c01GenValue(t *rapid.T) c01Case {
	o := jgenOpts{MaxDepth: rapid.IntRange(1, 4).Draw(t, "depth"), MaxWidth: rapid.IntRange(1, 5).Draw(t, "width")}
	o.IntsOnly = rapid.Bool().Draw(t, "intsOnly")
	var v jv
	if rapid.Bool().Draw(t, "topObject") {
		v = jgenObject(t, o, 0, "v")
	} else {
		v = jgenValue(t, o, 0, "v")
	}
	v = jgenWrap(t, v, "wrap")
	if rapid.IntRange(0, 3).Draw(t, "envelope") == 0 {
		// the value sits under a member that events carry (the canonical-JSON rules know no member names:
		// a number under `unsigned` is judged like a number anywhere else)
		name := rapid.SampledFrom([]string{"unsigned", "unsigned", "signatures", "content", "hashes", "prev_events", "age_ts", "depth", "origin_server_ts"}).Draw(t, "envelopeName")
		if rapid.Bool().Draw(t, "envelopeAlone") {
			v = jobj(name, v)
		} else {
			v = jobj("type", jstr("m.x"), name, v, "room_id", jstr("!r:x"))
		}
	}
	c := c01Case{Text: vfBytes(jspell(t, v, "p1"))}
	switch rapid.IntRange(0, 3).Draw(t, "altKind") {
	case 0:
		c.Alt = vfBytes(jplain(v))
	case 1, 2:
		c.Alt = vfBytes(jspell(t, v, "p2"))
	}
	nv := rapid.IntRange(0, 3).Draw(t, "nver")
	for i := 0; i < nv; i++ {
		c.Versions = append(c.Versions, rapid.SampledFrom(vfAllVersions).Draw(t, "ver"))
	}
	return c
}

var c01Alphabet = []byte(`{}[]"\:,-01.eEua tn9/`)

// c01GenMutated takes a valid presentation and damages it (or not): truncation, deletion,
// insertion, substitution, raw control characters, lone surrogates, duplicated keys.
func c01GenMutated(t *rapid.T) c01Case {
	o := jgenOpts{MaxDepth: 3, MaxWidth: 3, IntsOnly: rapid.Bool().Draw(t, "intsOnly")}
	v := jgenValue(t, o, 0, "v")
	text := []byte(jspell(t, v, "p"))
	nm := rapid.IntRange(1, 2).Draw(t, "nmut")
	for i := 0; i < nm && len(text) > 0; i++ {
		pos := rapid.IntRange(0, len(text)-1).Draw(t, "pos")
		switch rapid.IntRange(0, 6).Draw(t, "mut") {
		case 0:
			text = text[:pos]
		case 1:
			text = append(text[:pos:pos], text[pos+1:]...)
		case 2:
			b := rapid.SampledFrom(c01Alphabet).Draw(t, "ins")
			text = append(text[:pos:pos], append([]byte{b}, text[pos:]...)...)
		case 3:
			text[pos] = rapid.SampledFrom(c01Alphabet).Draw(t, "sub")
		case 4:
			text = append(text[:pos:pos], append([]byte{byte(rapid.IntRange(0, 0x1f).Draw(t, "ctl"))}, text[pos:]...)...)
		case 5:
			esc := rapid.SampledFrom([]string{`\ud800`, `\udc00`, `\ud800A`, `\uD83D`, `\u12`, `\x41`, `\u00zz`}).Draw(t, "esc")
			text = append(text[:pos:pos], append([]byte(esc), text[pos:]...)...)
		case 6:
			text = append(text, rapid.SampledFrom([]string{",", "]", "}", " x", "1", "\"\""}).Draw(t, "trail")...)
		}
	}
	c := c01Case{Text: vfBytes(text), Near: true}
	if rapid.Bool().Draw(t, "enforced") {
		c.Versions = []string{rapid.SampledFrom(vfAllVersions).Draw(t, "ver")}
	}
	return c
}

// c01EnumShort enumerates every text of length <= size over a 16-symbol alphabet.
var c01EnumAlphabet = []byte(`{}[]"\:,-01.eEu a`)

func c01EnumShort(size, shard, nshards int, emit func(c01Case)) {
	buf := make([]byte, 0, size)
	idx := 0
	var rec func(n int)
	rec = func(n int) {
		if len(buf) > 0 {
			if idx%nshards == shard {
				emit(c01Case{Text: append(vfBytes(nil), buf...), Versions: []string{"5", "10"}})
			}
			idx++
		}
		if n == 0 {
			return
		}
		for _, b := range c01EnumAlphabet {
			buf = append(buf, b)
			rec(n - 1)
			buf = buf[:len(buf)-1]
		}
	}
	rec(size)
}

// c01EnumEscapes: every scalar value of the Basic Multilingual Plane (and a stride through the
// astral planes as surrogate pairs) written as a \uXXXX escape, lower- or upper-case hex, as object
// key and as string value, against the same value written literally.
func c01EnumEscapes(size, shard, nshards int, emit func(c01Case)) {
	idx := 0
	one := func(r rune) {
		if idx%nshards != shard {
			idx++
			return
		}
		idx++
		esc := func(upper bool) string {
			f := "\\u%04x"
			if upper {
				f = "\\u%04X"
			}
			if r >= 0x10000 {
				hi, lo := utf16.EncodeRune(r)
				return fmt.Sprintf(f+f, hi, lo)
			}
			return fmt.Sprintf(f, r)
		}
		lit := string(r)
		switch {
		case r == '"' || r == '\\':
			lit = "\\" + string(r)
		case r < 0x20:
			lit = "" // control characters have no literal spelling
		}
		for _, upper := range []bool{false, true} {
			c := c01Case{Text: vfBytes(`{"k` + esc(upper) + `":["` + esc(upper) + `x"]}`)}
			if lit != "" {
				c.Alt = vfBytes(`{"k` + lit + `":["` + lit + `x"]}`)
			}
			emit(c)
		}
	}
	for r := rune(0); r <= 0xffff; r++ {
		if r >= 0xd800 && r <= 0xdfff {
			continue
		}
		one(r)
	}
	step := rune(0x1000)
	if size > 1 {
		step = 0x10
	}
	for r := rune(0x10000); r <= 0x10ffff; r += step {
		one(r)
		one(r + step - 1)
	}
}

// c01EnumDeep: a number (plain, or one the enforced variant must refuse) below n nested containers;
// n crosses every power of two up to 4096 and their neighbours (recursion guards, fixed-size stacks).
func c01EnumDeep(size, shard, nshards int, emit func(c01Case)) {
	depths := []int{1, 2, 3, 7, 8, 9, 15, 16, 17, 31, 32, 33, 63, 64, 65, 66, 67, 100, 127, 128, 129, 255, 256, 257, 500, 1000}
	// (10000 is where encoding/json's own scanner gives up; an event of 64 KiB holds about 32000 levels)
	depths = append(depths, 10001)
	if size > 1 {
		depths = append(depths, 1023, 1024, 1025, 2047, 2048, 2049, 4096, 4999, 5000, 9999, 10000, 20000, 32000)
	}
	idx := 0
	for _, d := range depths {
		for _, leaf := range []string{"1", "-0", "1.5", "1e3", "9007199254740992", `"\u00e9"`, `{"b":1,"a":-0}`} {
			for _, shape := range []string{"[", "{", "[{"} {
				if d > 5000 && !(shape == "[" && (leaf == "1" || leaf == "1.5")) {
					continue // beyond 5000 levels: two array-only texts per depth (the library's work grows with the square of the depth)
				}
				if idx%nshards == shard {
					var open, close strings.Builder
					for i := 0; i < d; i++ {
						switch {
						case shape == "[" || (shape == "[{" && i%2 == 0):
							open.WriteString("[")
							close.WriteString("]")
						default:
							open.WriteString(`{"k":`)
							close.WriteString("}")
						}
					}
					cl := []byte(close.String())
					for i, j := 0, len(cl)-1; i < j; i, j = i+1, j-1 {
						cl[i], cl[j] = cl[j], cl[i]
					}
					emit(c01Case{Text: vfBytes(open.String() + leaf + string(cl)), Versions: []string{"5", "6", "12", "org.matrix.msc3667"}})
				}
				idx++
			}
		}
	}
}

// c01EnumLong: texts around and beyond the size of the largest event (65536 bytes) - padded with
// white space, a long string or a long array - holding one number of each kind. The rules know no size:
// an offending number is refused by the enforced variant however long the text is.
func c01EnumLong(size, shard, nshards int, emit func(c01Case)) {
	idx := 0
	for _, n := range []int{65530, 65536, 65537, 66000, 140000} {
		for _, pad := range []string{"space", "string", "array"} {
			for _, leaf := range []string{"1", "-0", "1.5", "1e3", "9007199254740992"} {
				idx++
				if (idx-1)%nshards != shard {
					continue
				}
				var text string
				switch pad {
				case "space":
					text = `{"n":` + leaf + `,` + strings.Repeat(" ", n) + `"a":[1,2]}`
				case "string":
					text = `{"n":` + leaf + `,"a":"` + strings.Repeat("x", n) + `"}`
				default:
					text = `{"n":` + leaf + `,"a":[` + strings.Repeat("7,", n/2) + `7]}`
				}
				emit(c01Case{Text: vfBytes(text), Versions: []string{"5", "6", "10", "12", "org.matrix.msc4014"}})
			}
		}
	}
}

func init() {
	vfEnum("C01/long-texts", "every case: a text of 65 530 ... 140 000 bytes (white space / one long string / one long array) with one number of each kind, plain and enforced variants; distinct = distinct Case JSON", 1, 1, 4, c01EnumLong, c01Check)
	rule := "non-trivial = valid text whose bytes differ from its canonical form (unsorted keys, alternative escape spelling, whitespace, -0) or that contains a fraction/exponent/out-of-range number or that comes with a second presentation; or an invalid text within two byte edits of a valid one (must be rejected; the enumerated invalid texts are judged but not counted as non-trivial). distinct = distinct Case JSON."
	vfRapid("C01/values", rule, 3000, 100000, 16, c01GenValue, c01Check)
	vfRapid("C01/mutated", rule, 3000, 100000, 16, c01GenMutated, c01Check)
	vfEnum("C01/escape-sweep", rule+" Enumerates every BMP scalar value (and a stride of astral ones) as \\uXXXX escape in key and value position, against its literal spelling.", 1, 2, 16, c01EnumEscapes, c01Check)
	vfEnum("C01/deep-nesting", rule+" Enumerates 7 leaves (plain, -0, fraction, exponent, out-of-range, escaped string, unsorted object) below 1..10001 (thorough: ..32000; judged up to 40000 levels) nested arrays / objects, for the plain and the enforced variants.", 1, 2, 8, c01EnumDeep, c01Check)
	vfEnum("C01/short-texts", rule+" Enumerates every text up to the size bound over the alphabet `{}[]\"\\:,-01.eEu a` (17 symbols).", 4, 6, 16, c01EnumShort, c01Check)
}

// FuzzVF_C01 is the coverage-guided byte-level target (thorough tier).
func FuzzVF_C01(f *testing.F) {
	for _, s := range []string{`{"a\"b":1}`, `[-0.5]`, `[0.0]`, `[1E2]`, `"\ud800"`, `{"b":1,"a":[-0,"é\/"]}`, `"😀"`, `[1e400]`} {
		f.Add([]byte(s))
	}
	f.Fuzz(func(t *testing.T, data []byte) {
		vfFuzzEval(t, "C01/values", c01Case{Text: data, Versions: []string{"4", "11"}}, c01Check)
	})
}
