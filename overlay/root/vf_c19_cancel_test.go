//go:build verif

package gomatrixserverlib

// C19/keys-cancel — the caller's context is cancelled while key requests are in flight. FetchKeys
// hands its result map to the caller; it must not do so while a worker can still write to it, and
// what it returns is still the union of the per-server results that succeeded (the key client of
// this scenario ignores the context, as a client that already holds the response does).
//
// Real goroutines, no scheduler: the key client blocks every GetServerKeys call until the harness
// releases it. On a correct tree FetchKeys cannot return before the release, so the grace period
// after the cancellation never produces a verdict by timing; a premature return is deterministic.

import (
	"context"
	"encoding/json"
	"fmt"
	"sync"
	"sync/atomic"
	"time"

	"crypto/ed25519"

	"github.com/matrix-org/gomatrixserverlib/spec"
	"pgregory.net/rapid"
)

type c19CancelCase struct {
	Servers []c19KeySrv `json:"servers"`
	// CancelAfter: how many key requests are blocked in the client when the context is cancelled
	// (capped by the number of non-local servers)
	CancelAfter int `json:"cancel_after"`
}

type c19BlockingClient struct {
	w       *c19KeysWorld
	blocked atomic.Int64
	done    atomic.Int64
	release chan struct{}
}

func (k *c19BlockingClient) GetServerKeys(ctx context.Context, server spec.ServerName) (ServerKeys, error) {
	k.blocked.Add(1)
	<-k.release
	c19Beat()
	r, _ := k.w.direct(string(server))
	k.done.Add(1)
	return r.keys, r.err
}

func (k *c19BlockingClient) LookupServerKeys(ctx context.Context, server spec.ServerName, _ map[PublicKeyLookupRequest]spec.Timestamp) ([]ServerKeys, error) {
	c19Beat()
	r := k.w.notary(string(server))
	return r.list, r.err
}

func c19CancelGen(t *rapid.T) c19CancelCase {
	var c c19CancelCase
	ns := rapid.IntRange(1, 6).Draw(t, "nservers")
	for i := 0; i < ns; i++ {
		c.Servers = append(c.Servers, c19KeySrv{
			Fault: rapid.SampledFrom(c19KeyFaults).Draw(t, "fault"),
			NKeys: rapid.IntRange(1, 2).Draw(t, "nkeys"),
			Old:   rapid.IntRange(0, 3).Draw(t, "old") == 0,
		})
	}
	// 0 = the context has already ended when FetchKeys is entered
	c.CancelAfter = rapid.IntRange(0, ns).Draw(t, "cancelAfter")
	return c
}

func c19CancelRun(out *c19Out, raw []byte) {
	var c c19CancelCase
	if err := json.Unmarshal(raw, &c); err != nil {
		out.Fail("C19/harness/bad-case", "%v", err)
		return
	}
	if len(c.Servers) == 0 {
		out.Unjudged("keys-cancel/outside-domain")
		return
	}
	w := c19NewKeysWorld(c19KeysCase{Servers: c.Servers})
	client := &c19BlockingClient{w: w, release: make(chan struct{})}
	fetcher := &DirectKeyFetcher{
		Client:            client,
		IsLocalServerName: func(spec.ServerName) bool { return false },
		LocalPublicKey:    spec.Base64Bytes(w.local.Public().(ed25519.PublicKey)),
	}
	var items []c19KeyItem
	for i := range c.Servers {
		items = append(items, c19KeyItem{Srv: i, Key: 0, Sig: "good"})
	}
	requests := w.fetchRequest(items)
	ctx, cancel := context.WithCancel(context.Background())
	defer cancel()

	type ret struct {
		res map[PublicKeyLookupRequest]PublicKeyLookupResult
		err error
	}
	done := make(chan ret, 1)
	var mu sync.Mutex // orders the harness's reads of the returned map after the call (not the workers' writes)
	if c.CancelAfter == 0 {
		cancel()
	}
	go func() {
		res, err := fetcher.FetchKeys(ctx, requests)
		mu.Lock()
		mu.Unlock()
		done <- ret{res, err}
	}()
	// wait until the wanted number of requests is in flight
	wantBlocked := int64(c.CancelAfter)
	deadline := time.Now().Add(5 * time.Second)
	for client.blocked.Load() < wantBlocked && time.Now().Before(deadline) {
		time.Sleep(time.Millisecond)
		c19Beat()
	}
	if client.blocked.Load() < wantBlocked {
		out.Unjudged("keys-cancel/requests-did-not-start")
		close(client.release)
		return
	}
	if c.CancelAfter == 0 {
		// nothing has to be in flight: the call may return at once or ask the servers anyway, but it
		// has to RETURN once whatever it started has been answered
		out.Class("keys-cancel/context-ended-before-the-call")
		time.Sleep(50 * time.Millisecond)
		close(client.release)
		select {
		case <-done:
			out.NonTrivial()
		case <-time.After(8 * time.Second):
			out.Fail("C19/keys-cancel/fetch-never-returned", "FetchKeys, entered with a context that had already ended, did not return within 8 s although every key request it made was answered")
		}
		return
	}
	out.Class(fmt.Sprintf("keys-cancel/in-flight=%d-of-%d", wantBlocked, len(c.Servers)))
	cancel()
	var got ret
	early := false
	select {
	case got = <-done:
		early = true
	case <-time.After(120 * time.Millisecond):
	}
	c19Beat()
	before := -1
	if early {
		before = len(got.res)
	}
	close(client.release)
	if !early {
		select {
		case got = <-done:
		case <-time.After(8 * time.Second):
			out.Fail("C19/keys-cancel/fetch-never-returned", "FetchKeys did not return within 8 s after every key request had been answered")
			return
		}
	}
	// let every released worker finish (they must have, unless the call returned early)
	deadline = time.Now().Add(5 * time.Second)
	for client.done.Load() < client.blocked.Load() && time.Now().Before(deadline) {
		time.Sleep(time.Millisecond)
		c19Beat()
	}
	time.Sleep(20 * time.Millisecond)
	out.NonTrivial()
	if early {
		out.Fail("C19/keys-cancel/returned-while-requests-in-flight", "FetchKeys returned its result map (%d entries) while %d key requests were still in flight; the map has %d entries after they were answered",
			before, client.blocked.Load(), len(got.res))
		return
	}
	if got.err != nil {
		out.Class("keys-cancel/call-error")
		return
	}
	flat := c19Flatten(got.res)
	for i := range c.Servers {
		if !w.obtainable(i) {
			continue
		}
		for k, v := range w.expectedFor(i) {
			if g, ok := flat[k]; !ok || g != v {
				out.Fail("C19/keys-cancel/result-lacks-a-succeeded-servers-key", "after the cancellation every request was answered, %s succeeded, but the result lacks %v (got %v)", c19SrvName(i), k, flat)
				return
			}
		}
	}
}

func c19CancelCheck(ctx *vfCtx, c c19CancelCase) { c19Check(ctx, "keys-cancel", c) }

func init() {
	c19Scenarios["keys-cancel"] = c19CancelRun
	vfRapid("C19/keys-cancel",
		"every case: the context of a FetchKeys call is cancelled while 1..n key requests are blocked in the key client, which answers them afterwards",
		40, 1500, 8, c19CancelGen, c19CancelCheck)
}
