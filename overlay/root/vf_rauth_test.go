//go:build verif

// R-auth: a reference implementation of the Matrix authorisation rules (room versions 1-12 and
// the registered unstable versions), transcribed from the specification with the documented
// departures D1-D13 of DESIGN.md section 5.1 as part of the rules. It works on jv trees of the
// event JSON and does not call into eventauth.go / eventcontent.go.
package gomatrixserverlib

import (
	"crypto/ed25519"
	"encoding/base64"
	"fmt"
	"math"
	"strconv"
	"strings"

	"github.com/matrix-org/gomatrixserverlib/spec"
)

const raInf = int64(1) << 53 // creators in v12 ("infinite")

type raPL struct {
	Named  map[string]int64 // ban kick redact invite events_default state_default users_default (explicit only)
	Users  map[string]int64
	Events map[string]int64
	Notif  map[string]int64
}

var raDefaults = map[string]int64{"ban": 50, "kick": 50, "redact": 50, "invite": 0, "events_default": 0, "state_default": 50, "users_default": 0}
var raNamed = []string{"ban", "kick", "redact", "invite", "events_default", "state_default", "users_default"}

func (p *raPL) named(k string) int64 {
	if p != nil {
		if v, ok := p.Named[k]; ok {
			return v
		}
	}
	return raDefaults[k]
}

// raLevel parses one power level value by the version's rule. ok=false: the content is invalid.
func raLevel(integerOnly bool, v jv) (int64, bool) {
	switch v.K {
	case '#':
		isInt := !strings.ContainsAny(v.S, ".eE")
		if isInt {
			n, err := strconv.ParseInt(v.S, 10, 64)
			if err == nil {
				return n, true
			}
		}
		if integerOnly {
			return 0, false
		}
		f, err := strconv.ParseFloat(v.S, 64)
		if err != nil || math.IsInf(f, 0) || math.IsNaN(f) {
			return 0, false
		}
		return int64(f), true // D11: python int() truncation
	case 's':
		if integerOnly {
			return 0, false
		}
		n, err := strconv.ParseInt(strings.TrimSpace(v.S), 10, 64)
		return n, err == nil
	}
	return 0, false
}

// raParsePL parses power-levels content. ok=false: invalid under the version's rules.
func raParsePL(version string, content jv) (*raPL, bool) {
	integerOnly := vtraits[version].IntegerPL
	if content.K != 'o' {
		return nil, false
	}
	p := &raPL{Named: map[string]int64{}, Users: map[string]int64{}, Events: map[string]int64{}, Notif: map[string]int64{}}
	for _, k := range raNamed {
		if v, ok := content.get(k); ok {
			n, ok := raLevel(integerOnly, v)
			if !ok {
				return nil, false
			}
			p.Named[k] = n
		}
	}
	for key, dst := range map[string]map[string]int64{"users": p.Users, "events": p.Events, "notifications": p.Notif} {
		if m, ok := content.get(key); ok {
			if m.K != 'o' {
				return nil, false
			}
			for _, e := range m.O {
				n, ok := raLevel(integerOnly, e.Val)
				if !ok {
					return nil, false
				}
				dst[e.Key] = n
			}
		}
	}
	return p, true
}

type raTPI struct {
	Sender string
	Keys   [][]byte // public_key and public_keys[].public_key, decoded
}

type raState struct {
	Version       string
	CreatePresent bool
	CreateOK      bool // create content parses (creator string / additional_creators list of strings ...)
	CreateSender  string
	CreateRoom    string
	CreateID      string
	Federate      bool
	Creators      []string // v12: sender + additional_creators
	HasPL         bool
	PLOK          bool
	PL            *raPL
	HasJoinRule   bool
	JoinRule      string
	JoinRuleOK    bool
	Members       map[string]string // user -> membership ("" content unparseable => MembersOK false)
	MembersOK     bool
	TPI           map[string]raTPI
	Rooms         map[string]bool
}

func raDomain(id string) (string, bool) {
	i := strings.IndexByte(id, ':')
	if i < 0 {
		return "", false
	}
	return id[i+1:], true
}

func raEventID(version string, ev jv) string {
	if vtraits[version].Format == 1 {
		return evStr(ev, "event_id")
	}
	return reventID(version, ev)
}

func raRoomID(version string, ev jv) string {
	if vtraits[version].Creators && evStr(ev, "type") == "m.room.create" {
		if sk, ok := ev.get("state_key"); ok && sk.K == 's' && sk.S == "" {
			return "!" + raEventID(version, ev)[1:]
		}
	}
	return evStr(ev, "room_id")
}

func raBuildState(version string, auth []jv) raState {
	st := raState{Version: version, Federate: true, Members: map[string]string{}, MembersOK: true, TPI: map[string]raTPI{}, Rooms: map[string]bool{}, JoinRule: "invite", JoinRuleOK: true, PLOK: true}
	// a list that names one (type, state_key) twice stands for the state holding the LATER event
	// (AuthEvents.AddEvent's documented replacement); the replaced event is not part of the state
	last := map[string]int{}
	for i, e := range auth {
		if sk, ok := e.get("state_key"); ok && sk.K == 's' {
			last[evStr(e, "type")+"\x00"+sk.S] = i
		}
	}
	for i, e := range auth {
		sk, hasSK := e.get("state_key")
		if !hasSK || sk.K != 's' {
			continue
		}
		if last[evStr(e, "type")+"\x00"+sk.S] != i {
			continue
		}
		st.Rooms[raRoomID(version, e)] = true
		ct, _ := e.get("content")
		switch evStr(e, "type") {
		case "m.room.create":
			if sk.S != "" {
				continue
			}
			st.CreatePresent = true
			st.CreateOK = true
			st.CreateSender = evStr(e, "sender")
			st.CreateRoom = raRoomID(version, e)
			st.CreateID = raEventID(version, e)
			st.Creators = []string{st.CreateSender}
			st.Federate = true
			if f, ok := ct.get("m.federate"); ok {
				switch f.K {
				case 'f':
					st.Federate = false
				case 't', 'n':
				default:
					st.CreateOK = false
				}
			}
			if ac, ok := ct.get("additional_creators"); ok && ac.K == 'a' {
				for _, x := range ac.A {
					if x.K == 's' {
						st.Creators = append(st.Creators, x.S)
					} else {
						st.CreateOK = false
					}
				}
			} else if ok && ac.K != 'n' {
				st.CreateOK = false
			}
			for _, k := range []string{"creator", "room_version", "type"} {
				if v, ok := ct.get(k); ok && v.K != 's' && v.K != 'n' {
					st.CreateOK = false
				}
			}
			if v, ok := ct.get("predecessor"); ok && v.K != 'o' && v.K != 'n' {
				st.CreateOK = false
			}
		case "m.room.power_levels":
			if sk.S != "" {
				continue
			}
			st.HasPL = true
			st.PL, st.PLOK = raParsePL(version, ct)
		case "m.room.join_rules":
			if sk.S != "" {
				continue
			}
			st.HasJoinRule = true
			st.JoinRule = "invite"
			if jr, ok := ct.get("join_rule"); ok {
				if jr.K == 's' {
					st.JoinRule = jr.S
				} else if jr.K != 'n' {
					st.JoinRuleOK = false
				}
			}
			if al, ok := ct.get("allow"); ok && al.K != 'a' && al.K != 'n' {
				st.JoinRuleOK = false
			}
		case "m.room.member":
			m, ok := ct.get("membership")
			if ok && m.K == 's' {
				st.Members[sk.S] = m.S
			} else if !ok || m.K == 'n' {
				st.Members[sk.S] = ""
			} else {
				st.MembersOK = false
			}
		case "m.room.third_party_invite":
			t := raTPI{Sender: evStr(e, "sender")}
			if pk, ok := ct.get("public_key"); ok && pk.K == 's' {
				if raw, err := raB64(pk.S); err == nil {
					t.Keys = append(t.Keys, raw)
				}
			}
			if pks, ok := ct.get("public_keys"); ok && pks.K == 'a' {
				for _, x := range pks.A {
					if pk, ok := x.get("public_key"); ok && pk.K == 's' {
						if raw, err := raB64(pk.S); err == nil {
							t.Keys = append(t.Keys, raw)
						}
					}
				}
			}
			st.TPI[sk.S] = t
		}
	}
	return st
}

func raB64(s string) ([]byte, error) {
	s = strings.TrimRight(s, "=")
	if raw, err := base64.RawStdEncoding.DecodeString(s); err == nil {
		return raw, nil
	}
	return base64.RawURLEncoding.DecodeString(s)
}

func (st *raState) mem(u string) string {
	if m, ok := st.Members[u]; ok {
		return m
	}
	return "leave"
}

func (st *raState) isCreator(u string) bool {
	for _, c := range st.Creators {
		if c == u {
			return true
		}
	}
	return false
}

// pl is the effective power level of a user.
func (st *raState) pl(u string) int64 {
	if vtraits[st.Version].Creators && st.isCreator(u) {
		return raInf
	}
	if !st.HasPL {
		if u == st.CreateSender {
			return raInf - 1 // D2
		}
		return 0
	}
	if v, ok := st.PL.Users[u]; ok {
		return v
	}
	return st.PL.named("users_default")
}

func (st *raState) threshold(k string) int64 {
	if !st.HasPL {
		return raDefaults[k] // D13: state_default 50 also without a power-levels event
	}
	return st.PL.named(k)
}

func (st *raState) eventLevel(typ string, isState bool) int64 {
	if typ == "m.room.third_party_invite" {
		return st.threshold("invite")
	}
	if st.HasPL {
		if v, ok := st.PL.Events[typ]; ok {
			return v
		}
	}
	if isState {
		return st.threshold("state_default")
	}
	return st.threshold("events_default")
}

// raUnjudged explains why a (state, event) pair is outside the judged domain ("" = judged).
func raUnjudged(st raState) string {
	switch {
	case st.CreatePresent && !st.CreateOK:
		return "create event in the auth state has content that does not parse"
	case st.HasPL && !st.PLOK:
		return "power-levels event in the auth state has content that is invalid for the room version (it could not itself have been accepted)"
	case !st.JoinRuleOK:
		return "join-rules event in the auth state has non-string join_rule"
	case !st.MembersOK:
		return "member event in the auth state has non-string membership"
	}
	return ""
}

func raStr(v jv, k string) (string, bool) {
	m, ok := v.get(k)
	if !ok || m.K != 's' {
		return "", false
	}
	return m.S, true
}

// raValidUserID: the reference accepts "@local:domain" with non-empty parts (D10).
func raValidUserID(s string) bool {
	if len(s) < 4 || s[0] != '@' {
		return false
	}
	i := strings.IndexByte(s, ':')
	return i > 1 && i < len(s)-1
}

// rauth decides whether the event is allowed by the auth state. rule names the deciding rule.
func rauth(version string, st raState, ev jv) (allow bool, rule string) {
	tr := vtraits[version]
	typ := evStr(ev, "type")
	sender := evStr(ev, "sender")
	content, _ := ev.get("content")
	var stateKey *string
	if sk, ok := ev.get("state_key"); ok && sk.K == 's' {
		stateKey = &sk.S
	}
	room := raRoomID(version, ev)
	nprev := 0
	var prevIDs []string
	if pe, ok := ev.get("prev_events"); ok {
		nprev = len(pe.A)
		for _, x := range pe.A {
			if x.K == 's' {
				prevIDs = append(prevIDs, x.S)
			} else if x.K == 'a' && len(x.A) > 0 {
				prevIDs = append(prevIDs, x.A[0].S)
			}
		}
	}
	senderDomain, _ := raDomain(sender)

	if len(st.Rooms) > 1 {
		return false, "A0.auth-events-from-different-rooms"
	}
	// A1 create
	if typ == "m.room.create" {
		if stateKey == nil || *stateKey != "" {
			return false, "A1.1.state-key"
		}
		if nprev > 0 {
			return false, "A1.2.prev-events"
		}
		if !tr.Creators {
			rd, _ := raDomain(room)
			if rd != senderDomain {
				return false, "A1.3.room-domain"
			}
		}
		if rv, ok := content.get("room_version"); ok && rv.K != 'n' {
			if rv.K != 's' {
				return false, "A1.4.room-version-type"
			}
			if _, known := vtraits[rv.S]; !known {
				return false, "A1.4.room-version-unknown"
			}
		}
		if tr.CreatorField {
			if c, ok := content.get("creator"); !ok || c.K == 'n' {
				return false, "A1.5.no-creator"
			} else if c.K != 's' {
				return false, "A1.5.creator-type"
			}
		}
		if tr.Creators {
			if _, has := ev.get("room_id"); has && evStr(ev, "room_id") != "" {
				return false, "A1.6.v12-room-id"
			}
			if ac, ok := content.get("additional_creators"); ok && ac.K != 'n' {
				if ac.K != 'a' {
					return false, "A1.7.additional-creators"
				}
				for _, x := range ac.A {
					if x.K != 's' || !raValidUserID(x.S) {
						return false, "A1.7.additional-creators"
					}
				}
			}
		}
		return true, "A1.8.create-ok"
	}
	// A2
	if !st.CreatePresent || st.CreateRoom != room {
		return false, "A2.no-create-or-other-room"
	}
	createDomain, _ := raDomain(st.CreateSender)
	federateOK := st.Federate || senderDomain == createDomain
	// A4 aliases (v1-5)
	if typ == "m.room.aliases" && tr.AliasRule {
		if !federateOK {
			return false, "A3.federate"
		}
		if stateKey == nil || *stateKey != senderDomain {
			return false, "A4.1.alias-state-key"
		}
		return true, "A4.2.alias-ok"
	}
	if !federateOK {
		return false, "A3.federate"
	}
	if typ == "m.room.member" {
		return rauthMember(version, st, ev, sender, stateKey, content, prevIDs)
	}
	// A6
	if st.mem(sender) != "join" {
		return false, "A6.sender-not-joined"
	}
	// A7/A8
	if st.eventLevel(typ, stateKey != nil) > st.pl(sender) {
		return false, "A8.level"
	}
	// A9
	if stateKey != nil && strings.HasPrefix(*stateKey, "@") && *stateKey != sender {
		return false, "A9.at-state-key"
	}
	if typ == "m.room.power_levels" {
		return rauthPowerLevels(version, st, sender, content)
	}
	if typ == "m.room.redaction" && (version == "1" || version == "2") {
		rd, ok := raDomain(evStr(ev, "redacts"))
		if !ok {
			return false, "A11.redacts-invalid"
		}
		if rd == senderDomain {
			return true, "A11.R1.same-domain"
		}
		if st.pl(sender) >= st.threshold("redact") {
			return true, "A11.R2.level"
		}
		return false, "A11.R2.level"
	}
	return true, "A12.allow"
}

func rauthMember(version string, st raState, ev jv, sender string, stateKey *string, content jv, prevIDs []string) (bool, string) {
	tr := vtraits[version]
	if stateKey == nil {
		return false, "A5.1.no-state-key"
	}
	target := *stateKey
	mv, ok := content.get("membership")
	if !ok || mv.K == 'n' {
		return false, "A5.1.no-membership"
	}
	if mv.K != 's' {
		return false, "A5.1.membership-type"
	}
	membership := mv.S
	tpi, hasTPI := content.get("third_party_invite")
	if hasTPI && tpi.K == 'n' {
		hasTPI = false
	}
	switch membership {
	case "join":
		// J1 (D5)
		if len(prevIDs) == 1 && prevIDs[0] == st.CreateID && target == st.CreateSender && sender == target {
			return true, "A5.J1.first-join"
		}
		if sender != target {
			return false, "A5.J2.sender-not-target"
		}
		if st.mem(sender) == "ban" {
			return false, "A5.J3.banned"
		}
		jr := st.JoinRule
		if jr == "restricted" || jr == "knock_restricted" { // D7
			if !tr.Restricted {
				return false, "A5.J5.restricted-unsupported"
			}
			if m := st.mem(target); m == "join" || m == "invite" {
				return true, "A5.J5.already-in"
			}
			via, okVia := raStr(content, "join_authorised_via_users_server")
			if !okVia || via == "" {
				return false, "A5.J5.no-authoriser"
			}
			if version != "org.matrix.msc4014" {
				if !strings.HasPrefix(via, "@") || !strings.Contains(via, ":") {
					return false, "A5.J5.authoriser-invalid"
				}
			}
			if m, present := st.Members[via]; !present || m != "join" {
				return false, "A5.J5.authoriser-not-joined"
			}
			if st.pl(via) < st.threshold("invite") {
				return false, "A5.J5.authoriser-level"
			}
			return true, "A5.J5.authorised"
		}
		if m := st.mem(target); m == "invite" || m == "join" {
			return true, "A5.J4.invited-or-joined" // D12: regardless of the join rule
		}
		if jr == "public" {
			return true, "A5.J6.public"
		}
		return false, "A5.J7.join-rule"
	case "invite":
		if hasTPI {
			if st.mem(target) == "ban" {
				return false, "A5.I3.1.target-banned"
			}
			signed, ok := tpi.get("signed")
			if tpi.K != 'o' || !ok || signed.K != 'o' {
				return false, "A5.I3.2.no-signed"
			}
			mxid, ok1 := raStr(signed, "mxid")
			token, ok2 := raStr(signed, "token")
			if !ok1 || !ok2 || token == "" {
				return false, "A5.I3.3.no-mxid-or-token"
			}
			if mxid != target {
				return false, "A5.I3.4.mxid-mismatch"
			}
			t, ok := st.TPI[token]
			if !ok {
				return false, "A5.I3.5.no-third-party-invite-event"
			}
			if t.Sender != sender {
				return false, "A5.I3.6.sender-mismatch"
			}
			msg := []byte(jcanon(signed.without("signatures", "unsigned")))
			if sigs, ok := signed.get("signatures"); ok && sigs.K == 'o' {
				for _, ent := range sigs.O {
					for _, sg := range ent.Val.O {
						if !strings.HasPrefix(sg.Key, "ed25519") || sg.Val.K != 's' {
							continue
						}
						raw, err := raB64(sg.Val.S)
						if err != nil || len(raw) != ed25519.SignatureSize {
							continue
						}
						for _, k := range t.Keys {
							if len(k) == ed25519.PublicKeySize && ed25519.Verify(ed25519.PublicKey(k), msg, raw) {
								return true, "A5.I3.7.signature-ok"
							}
						}
					}
				}
			}
			return false, "A5.I3.8.no-valid-signature"
		}
		if st.mem(sender) != "join" {
			return false, "A5.I4.sender-not-joined"
		}
		if m := st.mem(target); m == "join" || m == "ban" {
			return false, "A5.I5.target-joined-or-banned"
		}
		if sender == target {
			return false, "A5.I5.self-invite" // follows from I4+I5
		}
		if st.pl(sender) >= st.threshold("invite") {
			return true, "A5.I6.level"
		}
		return false, "A5.I6.level"
	case "leave":
		if sender == target {
			switch m := st.mem(sender); {
			case m == "invite" || m == "join":
				return true, "A5.L1.self-leave"
			case m == "knock" && tr.Knock:
				return true, "A5.L1.self-leave-knock"
			case m == "knock":
				return true, "A5.L1.self-leave-knock-unsupported-version(unjudged)"
			case m == "leave":
				return true, "A5.L1.leave-to-leave" // D1
			default:
				return false, "A5.L1.self-leave"
			}
		}
		if st.mem(sender) != "join" {
			return false, "A5.L2.sender-not-joined"
		}
		if st.mem(target) == "ban" {
			if st.pl(sender) >= st.threshold("ban") {
				return true, "A5.L3.unban" // D4
			}
			return false, "A5.L3.unban"
		}
		if st.pl(sender) >= st.threshold("kick") && st.pl(target) < st.pl(sender) {
			return true, "A5.L4.kick"
		}
		return false, "A5.L4.kick"
	case "ban":
		if st.mem(sender) != "join" {
			return false, "A5.B1.sender-not-joined"
		}
		if sender == target {
			return false, "A5.B2.self-ban"
		}
		if st.pl(sender) >= st.threshold("ban") && st.pl(target) < st.pl(sender) {
			return true, "A5.B3.ban"
		}
		return false, "A5.B3.ban"
	case "knock":
		if !tr.Knock {
			return false, "A5.K0.unsupported"
		}
		if sender != target {
			return false, "A5.K2.sender-not-target"
		}
		if st.JoinRule != "knock" && st.JoinRule != "knock_restricted" { // D7
			return false, "A5.K1.join-rule"
		}
		switch st.mem(sender) {
		case "ban", "invite", "join":
			return false, "A5.K3.membership"
		}
		return true, "A5.K3.knock"
	}
	return false, "A5.U.unknown-membership"
}

func rauthPowerLevels(version string, st raState, sender string, content jv) (bool, string) {
	tr := vtraits[version]
	np, ok := raParsePL(version, content)
	if !ok {
		return false, "A10.P1.invalid-level"
	}
	for u := range np.Users {
		if !raValidUserID(u) {
			return false, "A10.P2.user-id"
		}
	}
	if tr.Creators {
		for u := range np.Users {
			if st.isCreator(u) {
				return false, "A10.P3.creator-in-users"
			}
		}
	}
	L := st.pl(sender)
	// old effective content (D2/D3/D13)
	old := &raPL{Named: map[string]int64{}, Users: map[string]int64{}, Events: map[string]int64{}, Notif: map[string]int64{}}
	if st.HasPL {
		old = st.PL
	} else {
		old.Users[st.CreateSender] = raInf - 1
	}
	for _, k := range raNamed {
		o, n := old.named(k), np.named(k)
		if o != n && (o > L || n > L) {
			return false, "A10.P4." + k
		}
	}
	eff := func(p *raPL, m map[string]int64, k string, def int64) int64 {
		if v, ok := m[k]; ok {
			return v
		}
		return def
	}
	keys := map[string]bool{}
	for k := range old.Events {
		keys[k] = true
	}
	for k := range np.Events {
		keys[k] = true
	}
	for k := range keys {
		o, n := eff(old, old.Events, k, old.named("events_default")), eff(np, np.Events, k, np.named("events_default"))
		if o != n && (o > L || n > L) {
			return false, "A10.P5.events"
		}
	}
	if tr.NotifLevels {
		keys = map[string]bool{}
		for k := range old.Notif {
			keys[k] = true
		}
		for k := range np.Notif {
			keys[k] = true
		}
		for k := range keys {
			o, n := eff(old, old.Notif, k, 50), eff(np, np.Notif, k, 50)
			if o != n && (o > L || n > L) {
				return false, "A10.P5.notifications"
			}
		}
	}
	keys = map[string]bool{}
	for k := range old.Users {
		keys[k] = true
	}
	for k := range np.Users {
		keys[k] = true
	}
	for u := range keys {
		o, n := eff(old, old.Users, u, old.named("users_default")), eff(np, np.Users, u, np.named("users_default"))
		if o == n {
			continue
		}
		if n > L {
			return false, "A10.P6.user-new-level"
		}
		if u != sender && o >= L {
			return false, "A10.P6.user-old-level"
		}
	}
	return true, "A10.P8.ok"
}

// ---------------------------------------------------------------------------------------------
// Builders: event JSON trees in the version's wire format (unsigned; hashes added).

type raEv struct {
	Type, Sender, Room string
	StateKey           *string
	Content            jv
	Prev, Auth         []string
	Depth, TS          int64
	Redacts            string
	ID                 string // v1/v2 only
}

func raSK(s string) *string { return &s }

// raTS writes a timestamp; a negative TS stands for the unsigned value beyond 2^63 with the same bits
// (origin_server_ts is an unsigned 64-bit number on the wire; room versions before 6 accept such values)
func raTS(ts int64) jv {
	if ts < 0 {
		return jv{K: '#', S: strconv.FormatUint(uint64(ts), 10)}
	}
	return jnum(ts)
}

func raJSON(version string, e raEv) jv {
	tr := vtraits[version]
	ev := jv{K: 'o'}
	ev = ev.with("type", jstr(e.Type)).with("sender", jstr(e.Sender))
	if e.Room != "" {
		ev = ev.with("room_id", jstr(e.Room))
	}
	if e.StateKey != nil {
		ev = ev.with("state_key", jstr(*e.StateKey))
	}
	ct := e.Content
	if ct.K != 'o' {
		ct = jv{K: 'o'}
	}
	ev = ev.with("content", ct).with("depth", jnum(e.Depth)).with("origin_server_ts", raTS(e.TS))
	ids := func(l []string) jv {
		a := jv{K: 'a', A: []jv{}}
		for _, id := range l {
			if tr.Format == 1 {
				a.A = append(a.A, jarr(jstr(id), jobj("sha256", jstr("47DEQpj8HBSa+/TImW+5JCeuQeRkm5NMpJWZG3hSuFU"))))
			} else {
				a.A = append(a.A, jstr(id))
			}
		}
		return a
	}
	ev = ev.with("prev_events", ids(e.Prev)).with("auth_events", ids(e.Auth))
	if tr.Format == 1 {
		id := e.ID
		if id == "" {
			id = fmt.Sprintf("$%s%d:%s", strings.ReplaceAll(e.Type, ".", ""), e.Depth, "a.example")
		}
		ev = ev.with("event_id", jstr(id))
	}
	if e.Redacts != "" {
		ev = ev.with("redacts", jstr(e.Redacts))
	}
	ev = ev.with("hashes", jobj("sha256", jstr(rcontentHash(ev))))
	return ev
}

func raParsePDU(version string, ev jv) (PDU, error) {
	impl, err := GetRoomVersion(RoomVersion(version))
	if err != nil {
		return nil, err
	}
	return impl.NewEventFromTrustedJSON([]byte(jplain(ev)), false)
}

// raFailingProvider answers like inner, except that its failAt-th lookup fails (a database-backed
// provider whose query fails). With membersOnly set only the member / third-party-invite lookups are
// counted and can fail (the lookups whose failure Allowed reports to its caller; a failed create /
// power-levels / join-rules lookup is read as "no such event" by the checker, by design).
type raFailingProvider struct {
	inner       *AuthEvents
	failAt      int
	membersOnly bool
	n           int
	failed      bool
}

func (p *raFailingProvider) tick(member bool) error {
	if p.membersOnly && !member {
		return nil
	}
	p.n++
	if p.n == p.failAt {
		p.failed = true
		return fmt.Errorf("rauth: provider lookup %d failed", p.n)
	}
	return nil
}
func (p *raFailingProvider) Create() (PDU, error) {
	if err := p.tick(false); err != nil {
		return nil, err
	}
	return p.inner.Create()
}
func (p *raFailingProvider) JoinRules() (PDU, error) {
	if err := p.tick(false); err != nil {
		return nil, err
	}
	return p.inner.JoinRules()
}
func (p *raFailingProvider) PowerLevels() (PDU, error) {
	if err := p.tick(false); err != nil {
		return nil, err
	}
	return p.inner.PowerLevels()
}
func (p *raFailingProvider) Member(k spec.SenderID) (PDU, error) {
	if err := p.tick(true); err != nil {
		return nil, err
	}
	return p.inner.Member(k)
}
func (p *raFailingProvider) ThirdPartyInvite(k string) (PDU, error) {
	if err := p.tick(true); err != nil {
		return nil, err
	}
	return p.inner.ThirdPartyInvite(k)
}
func (p *raFailingProvider) Valid() bool { return p.inner.Valid() }
