//go:build verif

package gomatrixserverlib

// C19/keys — k goroutines use ONE KeyRing (one DirectKeyFetcher, one key database) at once:
// VerifyJSONs batches and direct FetchKeys calls over overlapping servers. The KeyClient is a stub
// that parks every GetServerKeys / LookupServerKeys call on the scheduler (vf_c19_sched_test.go);
// the fetcher is wrapped so that the harness sees each FetchKeys call begin (with its request map)
// and end (with its result map) and can park there too. Each server has ONE fault class for the
// whole case (direct answer good / failing / not passing the checks; notary answer good / failing /
// without the server), so what a call must return does not depend on the order of the calls.
//
// Oracles: no race report / runtime abort / reproducible hang (engine); every FetchKeys result
// (direct calls and the ones VerifyJSONs makes) is exactly the union of the complete per-server
// results of the servers that succeeded plus the local key for requests naming the local server;
// the key client is asked once per distinct requested non-local server; every VerifyJSONs result is
// the one expected by construction (nil exactly when the server's keys are obtainable and the
// message carries a good signature under a key valid at the time) and textually the one a single
// goroutine gets from a fresh ring for the same batch.

import (
	"context"
	"crypto/ed25519"
	"encoding/json"
	"errors"
	"fmt"
	"sort"
	"strings"
	"sync"
	"time"

	"github.com/matrix-org/gomatrixserverlib/spec"
	"pgregory.net/rapid"
)

type c19KeySrv struct {
	Fault string `json:"fault"` // ok | err+notary-ok | bad+notary-ok | err+notary-err | bad+notary-missing | err+notary-other
	NKeys int    `json:"nkeys"`
	Old   bool   `json:"old"`
	Local bool   `json:"local"`
}

type c19KeyItem struct {
	Srv int    `json:"srv"`
	Key int    `json:"key"`
	Sig string `json:"sig"` // good | wrong-key | none
}

type c19KeyOp struct {
	Kind  string       `json:"kind"` // verify | fetch
	Items []c19KeyItem `json:"items"`
}

type c19KeysCase struct {
	Servers []c19KeySrv  `json:"servers"`
	Progs   [][]c19KeyOp `json:"progs"`
	DB      bool         `json:"db"` // the key database returns what was stored (otherwise it only accepts writes)
	// Free: the key client answers at once instead of parking (used by C19/keys-wide, where one
	// batch names more servers than the fetcher has workers, so that not every request can be
	// in flight at the same time); FetchKeys begin / end and operation starts still park.
	Free  bool      `json:"free,omitempty"`
	Sched []c19Step `json:"sched"`
}

var c19KeyFaults = []string{"ok", "ok", "ok", "err+notary-ok", "bad+notary-ok", "err+notary-err", "bad+notary-missing", "err+notary-other"}

func c19KeysGen(t *rapid.T) c19KeysCase {
	var c c19KeysCase
	ns := rapid.IntRange(2, 5).Draw(t, "nservers")
	for i := 0; i < ns; i++ {
		c.Servers = append(c.Servers, c19KeySrv{
			Fault: rapid.SampledFrom(c19KeyFaults).Draw(t, "fault"),
			NKeys: rapid.IntRange(1, 2).Draw(t, "nkeys"),
			Old:   rapid.IntRange(0, 3).Draw(t, "old") == 0,
			Local: i == 0 && rapid.IntRange(0, 2).Draw(t, "local") == 0,
		})
	}
	k := rapid.SampledFrom([]int{2, 2, 3, 3, 4, 5, 6}).Draw(t, "k")
	for g := 0; g < k; g++ {
		nops := rapid.IntRange(1, 3).Draw(t, "nops")
		var prog []c19KeyOp
		for o := 0; o < nops; o++ {
			op := c19KeyOp{Kind: rapid.SampledFrom([]string{"verify", "verify", "fetch"}).Draw(t, "kind")}
			ni := rapid.IntRange(1, 5).Draw(t, "nitems")
			for i := 0; i < ni; i++ {
				op.Items = append(op.Items, c19KeyItem{
					Srv: rapid.IntRange(0, ns-1).Draw(t, "srv"),
					Key: rapid.IntRange(0, 2).Draw(t, "key"),
					Sig: rapid.SampledFrom([]string{"good", "good", "good", "good", "wrong-key", "none"}).Draw(t, "sig"),
				})
			}
			prog = append(prog, op)
		}
		c.Progs = append(c.Progs, prog)
	}
	c.DB = rapid.Bool().Draw(t, "db")
	c.Sched = c19GenSched(t, 30)
	return c
}

// ---- fixtures ----

func c19SrvName(i int) string { return fmt.Sprintf("s%d.c19.example", i) }

func c19KeyPriv(srv, key int) ed25519.PrivateKey {
	seed := make([]byte, ed25519.SeedSize)
	for i := range seed {
		seed[i] = byte(srv*31 + key*7 + i*3 + 1)
	}
	return ed25519.NewKeyFromSeed(seed)
}

func c19KeyPub(srv, key int) []byte {
	return append([]byte(nil), c19KeyPriv(srv, key).Public().(ed25519.PublicKey)...)
}

const c19OldKey = 9 // key index of a server's old_verify_key

func c19KeyIDOf(j int) KeyID {
	if j == c19OldKey {
		return "ed25519:old"
	}
	return KeyID(fmt.Sprintf("ed25519:k%d", j))
}

type c19KeysWorld struct {
	c       c19KeysCase
	nowMs   int64
	validMs int64
	expMs   int64
	local   ed25519.PrivateKey
}

func c19NewKeysWorld(c c19KeysCase) *c19KeysWorld {
	now := time.Now().UnixMilli()
	return &c19KeysWorld{c: c, nowMs: now, validMs: now + 3600_000, expMs: now - 86400_000, local: c19KeyPriv(77, 0)}
}

// response builds the signed key response of server i; corrupt = signed with keys nobody published.
func (w *c19KeysWorld) response(i int, corrupt bool) ServerKeys {
	s := w.c.Servers[i]
	name := c19SrvName(i)
	verify := map[string]any{}
	for j := 0; j < s.NKeys; j++ {
		verify[string(c19KeyIDOf(j))] = map[string]any{"key": spec.Base64Bytes(c19KeyPub(i, j))}
	}
	old := map[string]any{}
	if s.Old {
		old[string(c19KeyIDOf(c19OldKey))] = map[string]any{"key": spec.Base64Bytes(c19KeyPub(i, c19OldKey)), "expired_ts": w.expMs}
	}
	raw, err := json.Marshal(map[string]any{"server_name": name, "valid_until_ts": w.validMs, "verify_keys": verify, "old_verify_keys": old})
	if err != nil {
		panic(err)
	}
	for j := 0; j < s.NKeys; j++ {
		priv := c19KeyPriv(i, j)
		if corrupt {
			priv = c19KeyPriv(i+50, j)
		}
		if raw, err = SignJSON(name, c19KeyIDOf(j), priv, raw); err != nil {
			panic(err)
		}
	}
	var sk ServerKeys
	if err := json.Unmarshal(raw, &sk); err != nil {
		panic(err)
	}
	return sk
}

func (w *c19KeysWorld) obtainable(i int) bool {
	switch w.c.Servers[i].Fault {
	case "ok", "err+notary-ok", "bad+notary-ok":
		return true
	}
	return false
}

type c19PK struct{ Server, KeyID string }
type c19PR struct {
	Key        string
	ValidUntil int64
	Expired    int64
}

// expectedFor is the complete per-server result of a server whose keys are obtainable.
func (w *c19KeysWorld) expectedFor(i int) map[c19PK]c19PR {
	out := map[c19PK]c19PR{}
	s := w.c.Servers[i]
	for j := 0; j < s.NKeys; j++ {
		out[c19PK{c19SrvName(i), string(c19KeyIDOf(j))}] = c19PR{Key: string(c19KeyPub(i, j)), ValidUntil: w.validMs}
	}
	if s.Old {
		out[c19PK{c19SrvName(i), string(c19KeyIDOf(c19OldKey))}] = c19PR{Key: string(c19KeyPub(i, c19OldKey)), Expired: w.expMs}
	}
	return out
}

func c19Flatten(m map[PublicKeyLookupRequest]PublicKeyLookupResult) map[c19PK]c19PR {
	out := map[c19PK]c19PR{}
	for k, v := range m {
		out[c19PK{string(k.ServerName), string(k.KeyID)}] = c19PR{Key: string(v.Key), ValidUntil: int64(v.ValidUntilTS), Expired: int64(v.ExpiredTS)}
	}
	return out
}

func (w *c19KeysWorld) keyIndex(it c19KeyItem) int {
	s := w.c.Servers[it.Srv%len(w.c.Servers)]
	if it.Key >= s.NKeys {
		if s.Old {
			return c19OldKey
		}
		return it.Key % s.NKeys
	}
	return it.Key
}

// request builds the VerifyJSONRequest of an item and says whether it must verify.
func (w *c19KeysWorld) request(n int, it c19KeyItem) (VerifyJSONRequest, bool) {
	i := it.Srv % len(w.c.Servers)
	s := w.c.Servers[i]
	name := c19SrvName(i)
	j := w.keyIndex(it)
	msg := []byte(fmt.Sprintf(`{"c19":"message","n":%d}`, n))
	at := w.nowMs
	if j == c19OldKey {
		at = w.expMs - 1000
	}
	priv := c19KeyPriv(i, j)
	if s.Local {
		priv = w.local
	}
	var err error
	switch it.Sig {
	case "good":
		msg, err = SignJSON(name, c19KeyIDOf(j), priv, msg)
	case "wrong-key":
		msg, err = SignJSON(name, c19KeyIDOf(j), c19KeyPriv(i+50, j), msg)
	}
	if err != nil {
		panic(err)
	}
	want := it.Sig == "good" && (s.Local || w.obtainable(i))
	return VerifyJSONRequest{ServerName: spec.ServerName(name), AtTS: spec.Timestamp(at), Message: msg, ValidityCheckingFunc: StrictValiditySignatureCheck}, want
}

func (w *c19KeysWorld) fetchRequest(items []c19KeyItem) map[PublicKeyLookupRequest]spec.Timestamp {
	out := map[PublicKeyLookupRequest]spec.Timestamp{}
	for _, it := range items {
		i := it.Srv % len(w.c.Servers)
		out[PublicKeyLookupRequest{ServerName: spec.ServerName(c19SrvName(i)), KeyID: c19KeyIDOf(w.keyIndex(it))}] = spec.Timestamp(w.nowMs)
	}
	return out
}

// ---- stubs ----

type c19KeyResp struct {
	keys ServerKeys
	list []ServerKeys
	err  error
}

// direct / notary answer of server name according to its fault class
func (w *c19KeysWorld) direct(name string) (c19KeyResp, bool) {
	var i int
	fmt.Sscanf(name, "s%d.", &i)
	switch strings.SplitN(w.c.Servers[i].Fault, "+", 2)[0] {
	case "ok":
		return c19KeyResp{keys: w.response(i, false)}, true
	case "bad":
		return c19KeyResp{keys: w.response(i, true)}, false
	}
	return c19KeyResp{err: errors.New("c19: scripted GetServerKeys failure")}, false
}

func (w *c19KeysWorld) notary(name string) c19KeyResp {
	var i int
	fmt.Sscanf(name, "s%d.", &i)
	f := w.c.Servers[i].Fault
	switch {
	case strings.HasSuffix(f, "notary-ok"):
		return c19KeyResp{list: []ServerKeys{w.response(i, false)}}
	case strings.HasSuffix(f, "notary-missing"):
		return c19KeyResp{list: []ServerKeys{}}
	case strings.HasSuffix(f, "notary-other"):
		return c19KeyResp{list: []ServerKeys{w.response((i+1)%len(w.c.Servers), false)}}
	}
	return c19KeyResp{err: errors.New("c19: scripted LookupServerKeys failure")}
}

// c19KeyClient parks on the scheduler when s != nil, answers at once otherwise (sequential reference).
type c19KeyClient struct {
	s    *c19Sched
	w    *c19KeysWorld
	free bool
	mu   sync.Mutex
	// free mode: goroutine id -> server -> GetServerKeys calls since the goroutine's FetchKeys began
	asked map[int]map[string]int
}

func (k *c19KeyClient) note(gid int, server string) {
	k.mu.Lock()
	defer k.mu.Unlock()
	if k.asked == nil {
		k.asked = map[int]map[string]int{}
	}
	if k.asked[gid] == nil {
		k.asked[gid] = map[string]int{}
	}
	k.asked[gid][server]++
}

func (k *c19KeyClient) takeAsked(gid int) map[string]int {
	k.mu.Lock()
	defer k.mu.Unlock()
	out := k.asked[gid]
	delete(k.asked, gid)
	return out
}

func (k *c19KeyClient) GetServerKeys(ctx context.Context, server spec.ServerName) (ServerKeys, error) {
	if k.s == nil || k.free {
		c19Beat()
		if k.free {
			k.note(c19Gid(ctx), string(server))
		}
		r, _ := k.w.direct(string(server))
		if ctx.Err() != nil {
			return ServerKeys{}, ctx.Err()
		}
		return r.keys, r.err
	}
	gid := c19Gid(ctx)
	v := k.s.park(gid, "getkeys", fmt.Sprintf("g%02d/getkeys/%s", gid, server), string(server)).(c19KeyResp)
	// like a real HTTP client, a request whose context has ended by the time the answer would
	// arrive fails with the context's error (the callers of this check never cancel)
	if ctx.Err() != nil {
		return ServerKeys{}, ctx.Err()
	}
	return v.keys, v.err
}

func (k *c19KeyClient) LookupServerKeys(ctx context.Context, server spec.ServerName, _ map[PublicKeyLookupRequest]spec.Timestamp) ([]ServerKeys, error) {
	if k.s == nil || k.free {
		c19Beat()
		r := k.w.notary(string(server))
		if ctx.Err() != nil {
			return nil, ctx.Err()
		}
		return r.list, r.err
	}
	gid := c19Gid(ctx)
	v := k.s.park(gid, "notary", fmt.Sprintf("g%02d/notary/%s", gid, server), string(server)).(c19KeyResp)
	if ctx.Err() != nil {
		return nil, ctx.Err()
	}
	return v.list, v.err
}

type c19FetchRec struct {
	Gid      int
	Requests map[c19PK]bool
	Servers  []string // distinct non-local servers requested
	Result   map[c19PK]c19PR
	Err      error
}

type c19Fetcher struct {
	s     *c19Sched
	inner *DirectKeyFetcher
}

func (f *c19Fetcher) FetcherName() string { return "c19-wrapped DirectKeyFetcher" }

func (f *c19Fetcher) FetchKeys(ctx context.Context, requests map[PublicKeyLookupRequest]spec.Timestamp) (map[PublicKeyLookupRequest]PublicKeyLookupResult, error) {
	if f.s == nil {
		return f.inner.FetchKeys(ctx, requests)
	}
	gid := c19Gid(ctx)
	rec := &c19FetchRec{Gid: gid, Requests: map[c19PK]bool{}}
	set := map[string]bool{}
	for r := range requests {
		rec.Requests[c19PK{string(r.ServerName), string(r.KeyID)}] = true
		if !f.inner.IsLocalServerName(r.ServerName) {
			set[string(r.ServerName)] = true
		}
	}
	for n := range set {
		rec.Servers = append(rec.Servers, n)
	}
	sort.Strings(rec.Servers)
	f.s.park(gid, "fetchbegin", fmt.Sprintf("g%02d/fetchbegin", gid), rec)
	res, err := f.inner.FetchKeys(ctx, requests)
	rec.Result, rec.Err = c19Flatten(res), err
	f.s.park(gid, "fetchend", fmt.Sprintf("g%02d/fetchend", gid), rec)
	return res, err
}

type c19KeyDB struct {
	mu       sync.Mutex
	m        map[PublicKeyLookupRequest]PublicKeyLookupResult
	readable bool
}

func (d *c19KeyDB) FetcherName() string { return "c19 key database" }

func (d *c19KeyDB) FetchKeys(_ context.Context, requests map[PublicKeyLookupRequest]spec.Timestamp) (map[PublicKeyLookupRequest]PublicKeyLookupResult, error) {
	d.mu.Lock()
	defer d.mu.Unlock()
	out := map[PublicKeyLookupRequest]PublicKeyLookupResult{}
	if d.readable {
		for r := range requests {
			if v, ok := d.m[r]; ok {
				out[r] = v
			}
		}
	}
	return out, nil
}

func (d *c19KeyDB) StoreKeys(_ context.Context, results map[PublicKeyLookupRequest]PublicKeyLookupResult) error {
	d.mu.Lock()
	defer d.mu.Unlock()
	for k, v := range results {
		d.m[k] = v
	}
	return nil
}

func (w *c19KeysWorld) ring(s *c19Sched) (*KeyRing, *c19Fetcher) {
	r, f, _ := w.ringAndClient(s)
	return r, f
}

func (w *c19KeysWorld) ringAndClient(s *c19Sched) (*KeyRing, *c19Fetcher, *c19KeyClient) {
	local := map[string]bool{}
	for i, sv := range w.c.Servers {
		if sv.Local {
			local[c19SrvName(i)] = true
		}
	}
	client := &c19KeyClient{s: s, w: w, free: s != nil && w.c.Free}
	inner := &DirectKeyFetcher{
		Client:            client,
		IsLocalServerName: func(n spec.ServerName) bool { return local[string(n)] },
		LocalPublicKey:    spec.Base64Bytes(w.local.Public().(ed25519.PublicKey)),
	}
	f := &c19Fetcher{s: s, inner: inner}
	return &KeyRing{KeyFetchers: []KeyFetcher{f}, KeyDatabase: &c19KeyDB{m: map[PublicKeyLookupRequest]PublicKeyLookupResult{}, readable: w.c.DB}}, f, client
}

type c19KeyOpRes struct {
	Errs   []string // verify: one per item ("" = verified)
	CallEr string
	Fetch  map[c19PK]c19PR
	// NotStored: a request verified, yet when VerifyJSONs returned the key database did not hold the
	// key it was verified with (the ring stores what it fetched before it answers)
	NotStored string
}

func (w *c19KeysWorld) runOp(ctx context.Context, ring *KeyRing, f *c19Fetcher, g, o int, op c19KeyOp) c19KeyOpRes {
	var r c19KeyOpRes
	switch op.Kind {
	case "fetch":
		res, err := f.FetchKeys(ctx, w.fetchRequest(op.Items))
		if err != nil {
			r.CallEr = err.Error()
		}
		r.Fetch = c19Flatten(res)
	default:
		var reqs []VerifyJSONRequest
		for i, it := range op.Items {
			rq, _ := w.request(g*10000+o*100+i, it)
			reqs = append(reqs, rq)
		}
		res, err := ring.VerifyJSONs(ctx, reqs)
		if err != nil {
			r.CallEr = err.Error()
		}
		for _, x := range res {
			if x.Error != nil {
				r.Errs = append(r.Errs, x.Error.Error())
			} else {
				r.Errs = append(r.Errs, "")
			}
		}
		if db, ok := ring.KeyDatabase.(*c19KeyDB); ok && len(res) == len(op.Items) {
			db.mu.Lock()
			for i, it := range op.Items {
				if res[i].Error != nil || w.c.Servers[it.Srv].Local {
					continue
				}
				pk := PublicKeyLookupRequest{ServerName: spec.ServerName(c19SrvName(it.Srv)), KeyID: c19KeyIDOf(w.keyIndex(it))}
				if _, held := db.m[pk]; !held && r.NotStored == "" {
					r.NotStored = fmt.Sprintf("%s/%s", pk.ServerName, pk.KeyID)
				}
			}
			db.mu.Unlock()
		}
	}
	return r
}

// checkFetch: result == union of the complete results of the obtainable requested servers
// + the local key for requests naming a local server.
func (w *c19KeysWorld) checkFetch(out *c19Out, who string, requested map[c19PK]bool, got map[c19PK]c19PR) {
	want := map[c19PK]c19PR{}
	localKey := string(w.local.Public().(ed25519.PublicKey))
	for pk := range requested {
		var i int
		fmt.Sscanf(pk.Server, "s%d.", &i)
		if w.c.Servers[i].Local {
			want[pk] = c19PR{Key: localKey, ValidUntil: int64(spec.AsTimestamp(time.Unix(1<<37, 0)))}
			continue
		}
		if w.obtainable(i) {
			for k, v := range w.expectedFor(i) {
				want[k] = v
			}
		}
	}
	for k, v := range want {
		g, ok := got[k]
		switch {
		case !ok:
			out.Fail("C19/keys/fetch-result-lacks-a-succeeded-servers-key", "%s: the result has no entry for %s/%s although that server's keys were fetched successfully (%d of %d entries present)", who, k.Server, k.KeyID, len(got), len(want))
			return
		case g != v:
			out.Fail("C19/keys/fetch-result-entry-differs", "%s: %s/%s = %x valid_until %d expired %d, the server published %x / %d / %d", who, k.Server, k.KeyID, g.Key, g.ValidUntil, g.Expired, v.Key, v.ValidUntil, v.Expired)
			return
		}
	}
	for k := range got {
		if _, ok := want[k]; !ok {
			out.Fail("C19/keys/fetch-result-has-an-entry-nobody-supplied", "%s: the result holds %s/%s, which no succeeded server of this call supplied", who, k.Server, k.KeyID)
			return
		}
	}
}

func c19KeysRun(out *c19Out, raw []byte) {
	var c c19KeysCase
	if err := json.Unmarshal(raw, &c); err != nil {
		out.Fail("C19/harness/bad-case", "%v", err)
		return
	}
	if len(c.Servers) == 0 {
		out.Unjudged("keys/outside-domain")
		return
	}
	w := c19NewKeysWorld(c)

	// ---- sequential reference: the same operations, one goroutine, a fresh ring per goroutine order
	refRing, refF := w.ring(nil)
	ref := make([][]c19KeyOpRes, len(c.Progs))
	for g, prog := range c.Progs {
		for o, op := range prog {
			c19Beat()
			ref[g] = append(ref[g], w.runOp(context.Background(), refRing, refF, g, o, op))
		}
	}

	// ---- concurrent run
	s := c19NewSched(out, c.Sched)
	ring, f, client := w.ringAndClient(s)
	k := len(c.Progs)
	results := make([][]c19KeyOpRes, k)
	for g := 0; g < k; g++ {
		g := g
		c19Go(out, s, g, func() {
			ctx := c19Ctx(g)
			for o, op := range c.Progs[g] {
				s.park(g, "gate", fmt.Sprintf("g%02d/gate/%02d", g, o), o)
				results[g] = append(results[g], w.runOp(ctx, ring, f, g, o, op))
			}
			s.notify(g, "fin")
		})
	}

	type fetchState struct {
		rec       *c19FetchRec
		remaining int
		asked     map[string]bool
	}
	fetches := map[int]*fetchState{}
	var allFetches []*c19FetchRec
	finished := 0
	sameFetchPair, crossOpWindow := false, false
	on := func(ev c19Event) {
		switch ev.Kind {
		case "fin":
			finished++
		case "getkeys":
			fs := fetches[ev.Gid]
			name := ev.Point.Info.(string)
			if fs == nil || fs.asked[name] || !strings.Contains("\x00"+strings.Join(fs.rec.Servers, "\x00")+"\x00", "\x00"+name+"\x00") {
				out.Fail("C19/keys/key-client-asked-outside-the-request", "goroutine %d: GetServerKeys(%s) although the running FetchKeys call does not (or no longer) need it", ev.Gid, name)
				return
			}
			fs.asked[name] = true
		}
	}
	first := map[int]int{}
	for g := 0; g < k; g++ {
		first[g] = 1
	}
	s.await(first, on)

	for finished < k || len(s.parked) > 0 {
		if out.Failed() {
			return
		}
		// classes: which calls are inside the unlocked window together
		perGid := map[int]int{}
		for _, p := range s.parked {
			if p.Kind == "getkeys" || p.Kind == "notary" {
				perGid[p.Gid]++
			}
		}
		if len(perGid) >= 2 {
			crossOpWindow = true
		}
		sel := s.pick()
		if len(sel) == 0 {
			s.await(map[int]int{-2: 1}, on)
			continue
		}
		want := map[int]int{}
		okWorkers := map[int]int{}
		type rel struct {
			p *c19Point
			v any
		}
		var rels []rel
		for _, p := range sel {
			switch p.Kind {
			case "gate":
				want[p.Gid]++
				rels = append(rels, rel{p, nil})
			case "fetchbegin":
				rec := p.Info.(*c19FetchRec)
				fetches[p.Gid] = &fetchState{rec: rec, remaining: len(rec.Servers), asked: map[string]bool{}}
				if len(rec.Servers) == 0 || c.Free {
					want[p.Gid]++ // the next event of this goroutine is the end of the FetchKeys call
				} else {
					want[p.Gid] += len(rec.Servers)
				}
				rels = append(rels, rel{p, nil})
			case "getkeys":
				resp, ok := w.direct(p.Info.(string))
				fs := fetches[p.Gid]
				if ok {
					okWorkers[p.Gid]++
					fs.remaining--
					if fs.remaining == 0 {
						want[p.Gid]++
					}
				} else {
					want[p.Gid]++ // the worker falls back to the notary request
				}
				rels = append(rels, rel{p, resp})
			case "notary":
				fs := fetches[p.Gid]
				fs.remaining--
				if fs.remaining == 0 {
					want[p.Gid]++
				}
				rels = append(rels, rel{p, w.notary(p.Info.(string))})
			case "fetchend":
				rec := p.Info.(*c19FetchRec)
				allFetches = append(allFetches, rec)
				delete(fetches, p.Gid)
				if c.Free {
					asked := client.takeAsked(p.Gid)
					for _, name := range rec.Servers {
						if asked[name] != 1 {
							out.Fail("C19/keys/server-not-asked-exactly-once", "goroutine %d: FetchKeys over %d servers asked %s %d times", p.Gid, len(rec.Servers), name, asked[name])
							break
						}
						delete(asked, name)
					}
					for name := range asked {
						out.Fail("C19/keys/key-client-asked-outside-the-request", "goroutine %d: GetServerKeys(%s) although the FetchKeys call did not name it", p.Gid, name)
						break
					}
				}
				want[p.Gid]++
				rels = append(rels, rel{p, nil})
			}
		}
		for _, n := range okWorkers {
			if n >= 2 {
				sameFetchPair = true
			}
		}
		for _, r := range rels {
			r.p.release(r.v)
		}
		s.await(want, on)
	}
	if out.Failed() {
		return
	}

	// ---- judgement
	for _, rec := range allFetches {
		if rec.Err != nil {
			out.Fail("C19/keys/fetch-keys-error", "goroutine %d: DirectKeyFetcher.FetchKeys returned the error %v", rec.Gid, rec.Err)
			continue
		}
		w.checkFetch(out, fmt.Sprintf("goroutine %d, FetchKeys over %v", rec.Gid, rec.Servers), rec.Requests, rec.Result)
	}
	nVerify := 0
	for g, prog := range c.Progs {
		for o, op := range prog {
			if o >= len(results[g]) {
				continue
			}
			got, seq := results[g][o], ref[g][o]
			if got.NotStored != "" {
				out.Fail("C19/keys/verified-with-a-key-not-yet-stored", "goroutine %d op %d: a request verified with the key %s, which the key database did not hold when VerifyJSONs returned (a later call may need it when the server is down)", g, o, got.NotStored)
			}
			if got.CallEr != "" {
				out.Fail("C19/keys/call-error", "goroutine %d op %d (%s): error %s", g, o, op.Kind, got.CallEr)
				continue
			}
			if op.Kind == "fetch" {
				continue // judged through allFetches
			}
			nVerify++
			if len(got.Errs) != len(op.Items) {
				out.Fail("C19/keys/verify-result-count", "goroutine %d op %d: %d results for %d requests", g, o, len(got.Errs), len(op.Items))
				continue
			}
			for i, it := range op.Items {
				_, want := w.request(g*10000+o*100+i, it)
				class := it.Sig + "/" + c.Servers[it.Srv%len(c.Servers)].Fault
				if c.Servers[it.Srv%len(c.Servers)].Local {
					class = it.Sig + "/local"
				}
				if (got.Errs[i] == "") != want {
					dir := "refused-a-good-signature"
					if !want {
						dir = "accepted"
					}
					out.Fail("C19/keys/verify-verdict/"+dir+"/"+class, "goroutine %d op %d request %d (%s): concurrent VerifyJSONs says %q, expected success=%v", g, o, i, class, got.Errs[i], want)
				} else if i < len(seq.Errs) && got.Errs[i] != seq.Errs[i] {
					out.Fail("C19/keys/verify-differs-from-single-goroutine-run/"+class, "goroutine %d op %d request %d: concurrent %q, single goroutine %q", g, o, i, got.Errs[i], seq.Errs[i])
				}
			}
		}
	}

	// ---- classes, non-triviality
	inflight := s.maxParked["getkeys"]
	if s.maxParked["notary"] > inflight {
		inflight = s.maxParked["notary"]
	}
	if c.Free {
		out.Class("window/free-running-key-client")
		if k >= 2 {
			out.NonTrivial()
		}
	} else if inflight >= 2 {
		out.Class("window/2+-key-requests-in-flight")
		out.NonTrivial()
	} else {
		out.Class("window/at-most-1-key-request-in-flight")
	}
	if crossOpWindow {
		out.Class("window/key-requests-of-2+-callers-in-flight")
	}
	if sameFetchPair {
		out.Class("step/2+-succeeding-workers-of-one-FetchKeys-released-together")
	}
	if s.parallelSteps > 0 {
		out.Class("step/parallel")
	}
	if c.DB {
		out.Class("db/cache")
	} else {
		out.Class("db/write-only")
	}
	faults := map[string]bool{}
	for _, sv := range c.Servers {
		if sv.Local {
			faults["local"] = true
		} else {
			faults[sv.Fault] = true
		}
	}
	for f := range faults {
		out.Class("server/" + f)
	}
	nothing := 0
	for _, sv := range c.Servers {
		if !sv.Local && (sv.Fault == "err+notary-err" || sv.Fault == "bad+notary-missing" || sv.Fault == "err+notary-other") {
			nothing++
		}
	}
	if nothing >= 64 {
		out.Class("servers-that-give-nothing/64-or-more (as many as the pool has workers)")
	}
	widest := 0
	for _, rec := range allFetches {
		if len(rec.Servers) > widest {
			widest = len(rec.Servers)
		}
	}
	switch {
	case widest > 64:
		out.Class("widest-fetch/more-than-64-servers (more servers than workers)")
	case widest == 64:
		out.Class("widest-fetch/64-servers")
	case widest > 5:
		out.Class("widest-fetch/6-63-servers")
	default:
		out.Class("widest-fetch/up-to-5-servers")
	}
	if nVerify > 0 {
		out.Class("op/verify")
	}
	if len(allFetches) > 0 {
		out.Class("op/fetch-keys-calls")
	}
}

func c19KeysCheck(ctx *vfCtx, c c19KeysCase) { c19Check(ctx, "keys", c) }

// C19/keys-wide — enumerated (the same cases at every seed): ONE batch that names many distinct
// servers, around and beyond the size of DirectKeyFetcher's worker pool (64), next to a second
// goroutine with a small batch on the same ring. Fault classes per server cycle through the whole
// list; the schedule is empty, i.e. everything parked is released together (no fine-grained
// interleaving here). Judged by the oracles of C19/keys: every FetchKeys result is exactly the
// union of the succeeded servers' results, every verdict as expected, and no reproducible hang.
var c19WideSizes = []int{63, 64, 65, 66, 100, 130}

// c19WideHeavy: sizes of the batches in which two servers of three give nothing at all (neither
// directly nor through the notary-style request): more failing servers than the pool has workers.
var c19WideHeavy = []int{110, 200}

func c19KeysWideCase(n int, kind string, db bool, heavy bool) c19KeysCase {
	c := c19KeysCase{DB: db, Free: true}
	faults := []string{"ok", "err+notary-ok", "ok", "bad+notary-ok", "ok", "err+notary-err", "ok", "bad+notary-missing", "ok", "err+notary-other"}
	if heavy {
		faults = []string{"ok", "err+notary-err", "bad+notary-missing", "ok", "err+notary-other", "err+notary-err"}
	}
	// server 0 is the local one: the batch names n distinct NON-local servers
	c.Servers = append(c.Servers, c19KeySrv{Fault: "ok", NKeys: 1, Local: true})
	for i := 1; i <= n; i++ {
		c.Servers = append(c.Servers, c19KeySrv{Fault: faults[i%len(faults)], NKeys: 1 + i%2, Old: i%7 == 0})
	}
	wide := c19KeyOp{Kind: kind}
	for i := 0; i <= n; i++ {
		sig := "good"
		if i%11 == 5 {
			sig = "wrong-key"
		}
		wide.Items = append(wide.Items, c19KeyItem{Srv: i, Key: i % 3, Sig: sig})
	}
	small := c19KeyOp{Kind: "verify", Items: []c19KeyItem{{Srv: 1, Key: 0, Sig: "good"}, {Srv: 2, Key: 0, Sig: "good"}, {Srv: n, Key: 0, Sig: "good"}}}
	c.Progs = [][]c19KeyOp{{wide}, {small}}
	return c
}

func c19KeysWideEnum(size, shard, nshards int, emit func(c19KeysCase)) {
	n := 0
	for i, servers := range c19WideSizes {
		var variants []c19KeysCase
		if size <= 1 {
			// quick: one case per size, alternating the kind of the wide batch (4 of the 6 sizes are above 64)
			variants = append(variants, c19KeysWideCase(servers, []string{"fetch", "verify"}[i%2], i%2 == 0, false))
		} else {
			for _, kind := range []string{"fetch", "verify"} {
				for _, db := range []bool{false, true} {
					variants = append(variants, c19KeysWideCase(servers, kind, db, false))
				}
			}
		}
		for _, v := range variants {
			if n%nshards == shard {
				emit(v)
			}
			n++
		}
	}
	for i, servers := range c19WideHeavy {
		var variants []c19KeysCase
		if size <= 1 {
			variants = append(variants, c19KeysWideCase(servers, []string{"fetch", "verify"}[i%2], i%2 == 1, true))
		} else {
			for _, kind := range []string{"fetch", "verify"} {
				for _, db := range []bool{false, true} {
					variants = append(variants, c19KeysWideCase(servers, kind, db, true))
				}
			}
		}
		for _, v := range variants {
			if n%nshards == shard {
				emit(v)
			}
			n++
		}
	}
}

func init() {
	c19Scenarios["keys"] = c19KeysRun
	vfEnum("C19/keys-wide",
		"one FetchKeys / VerifyJSONs batch names 63-200 distinct non-local servers (around and beyond the 64 workers of the pool; in the two largest, more than 64 servers give nothing) while a second goroutine uses the same ring",
		1, 2, 4, c19KeysWideEnum, c19KeysCheck)
	vfRapid("C19/keys",
		"at least two key requests of the one DirectKeyFetcher are in flight (parked in the key client) at the same time",
		200, 5000, 8, c19KeysGen, c19KeysCheck)
}
