//go:build verif

package gomatrixserverlib

import (
	"bytes"
	"encoding/json"
	"fmt"
	"hash/fnv"
	"reflect"
	"regexp"
	"strings"
	"time"

	"github.com/matrix-org/gomatrixserverlib/spec"
	"pgregory.net/rapid"
)

// C03 — events round-trip; identity is a function of the redacted content.

type c03Edit struct {
	Op    string  `json:"op"` // set_unsigned | set_unsigned_field | sign | redact | raw_unsigned | raw_signatures
	Path  string  `json:"path,omitempty"`
	Value vfBytes `json:"value,omitempty"`
	Name  string  `json:"name,omitempty"`
}

type c03Case struct {
	P     evProto   `json:"proto"`
	Edits []c03Edit `json:"edits"`
	Alt   *evProto  `json:"alt,omitempty"` // differs from P in exactly one field (Diff)
	Diff  string    `json:"diff,omitempty"`
}

// c03Template is the variable request bodies are decoded into: twice per case, the second time while
// the builder made after the first is still in use.
var c03Template ProtoEvent

type c03View struct {
	EventID, Type, Sender, RoomID string
	StateKey                      *string
	Content                       string // canonical
	Depth, TS                     int64
	Prev, Auth                    []string
	Redacted                      bool
}

func c03ViewOf(ctx *vfCtx, label string, ev PDU) (v c03View, ok bool) {
	ok = !vfCatch(ctx, "C03/"+label, func() {
		v.EventID = ev.EventID()
		v.Type = ev.Type()
		v.Sender = string(ev.SenderID())
		v.RoomID = ev.RoomID().String()
		v.StateKey = ev.StateKey()
		if ct, _, err := jparse(ev.Content()); err == nil {
			v.Content = jcanon(ct)
		} else {
			v.Content = "unparseable:" + string(ev.Content())
		}
		v.Depth = ev.Depth()
		v.TS = int64(ev.OriginServerTS())
		v.Prev = append([]string{}, ev.PrevEventIDs()...)
		v.Auth = append([]string{}, ev.AuthEventIDs()...)
		v.Redacted = ev.Redacted()
	})
	return
}

func c03SK(p *string) string {
	if p == nil {
		return "<nil>"
	}
	return fmt.Sprintf("%q", *p)
}

func (v c03View) String() string {
	return fmt.Sprintf("{id=%s type=%q sender=%q room=%q sk=%s content=%s depth=%d ts=%d prev=%v auth=%v redacted=%v}",
		v.EventID, v.Type, v.Sender, v.RoomID, c03SK(v.StateKey), v.Content, v.Depth, v.TS, v.Prev, v.Auth, v.Redacted)
}

func c03Same(a, b c03View) bool {
	if c03SK(a.StateKey) != c03SK(b.StateKey) {
		return false
	}
	a.StateKey, b.StateKey = nil, nil
	return reflect.DeepEqual(a, b)
}

var (
	c03IDv3 = regexp.MustCompile(`^\$[A-Za-z0-9+/]{43}$`)
	c03IDv4 = regexp.MustCompile(`^\$[A-Za-z0-9_-]{43}$`)
)

func c03Check(ctx *vfCtx, c c03Case) {
	p := c.P
	tr := vtraits[p.Version]
	impl, err := GetRoomVersion(RoomVersion(p.Version))
	if err != nil {
		ctx.Fail("C03/unknown-version", "version %q not registered", p.Version)
		return
	}
	var ev PDU
	if vfCatch(ctx, "C03/build", func() { ev, err = evBuild(p) }) {
		return
	}
	if err != nil {
		if tr.Creators && p.Type == "m.room.create" && p.StateKey != nil && *p.StateKey != "" {
			ctx.Class("v12-create-type-with-other-state-key(refused)")
			ctx.Unjudged("v12: an m.room.create-typed event with a non-empty state key and a room ID is refused by Build")
			return
		}
		if cv, _, perr := jparse(p.Content); perr == nil && evLookAlikeContentKey(p.Type, cv) {
			ctx.Class("look-alike-content-key(refused)")
			ctx.Unjudged("content with a key that case-folds to one of the keys the rules read for this event type: refused by Build (and by the untrusted parsers)")
			return
		}
		if tr.Canonical && (p.Depth > 1<<53-1 || p.Depth < -(1<<53-1)) {
			ctx.Class("depth-outside-the-canonical-integer-range(refused)")
			ctx.Unjudged("a depth outside +/-(2^53-1) cannot be written in the canonical JSON of this room version: refused by Build")
			return
		}
		ctx.Fail("C03/build-error", "EventBuilder.Build failed for a well-formed proto-event: %v", err)
		return
	}
	ctx.Class("built/v" + p.Version)
	ctx.Class("type/" + p.Type)
	cv, _, _ := jparse(p.Content)
	if (len(cv.O) > 0 && (len(p.Prev) > 0 || len(p.Auth) > 0)) || p.isV12Create() {
		ctx.NonTrivial()
	}
	orig, ok := c03ViewOf(ctx, "accessors/built", ev)
	if !ok {
		return
	}
	tree, terr := evTree(ev.JSON())
	if terr != nil {
		ctx.Fail("C03/built-json-malformed", "built event JSON is malformed: %v: %q", terr, ev.JSON())
		return
	}
	// --- the built event reflects the proto-event
	wantRoom := p.RoomID
	wantAuth := append([]string{}, p.Auth...)
	if tr.Creators {
		if p.isV12Create() {
			wantRoom = "!" + orig.EventID[1:]
			wantAuth = []string{}
			ctx.Class("v12-create")
		} else {
			wantAuth = append([]string{"$" + p.RoomID[1:]}, p.Auth...)
			for _, a := range p.Auth {
				if a == "$"+p.RoomID[1:] {
					// the proto-event names the create event itself (at any position): the statement
					// still demands that it is REPORTED first; the rest of the list is not judged
					ctx.Class("v12-proto-names-create-event")
					if len(orig.Auth) == 0 || orig.Auth[0] != "$"+p.RoomID[1:] {
						ctx.Fail("C03/v12-first-auth-event", "v12 event whose auth_events name the create event at another position does not report it first: %v", orig.Auth)
					}
					for label, parsed := range c03Reparse(impl, ev) {
						if parsed == nil {
							continue
						}
						var ids []string
						if vfCatch(ctx, "C03/"+label, func() { ids = parsed.AuthEventIDs() }) {
							return
						}
						if len(ids) == 0 || ids[0] != "$"+p.RoomID[1:] {
							ctx.Fail("C03/v12-first-auth-event/"+label, "re-parsed (%s) v12 event does not report the create event first: %v", label, ids)
						}
					}
					return
				}
			}
			if ae, ok := tree.get("auth_events"); ok {
				for _, x := range ae.A {
					if x.S == "$"+p.RoomID[1:] {
						ctx.Fail("C03/v12-create-listed-in-auth-events", "built v12 event JSON lists the create event in auth_events: %q", ev.JSON())
					}
				}
			}
		}
	}
	want := c03View{EventID: orig.EventID, Type: p.Type, Sender: p.Sender, RoomID: wantRoom, StateKey: p.StateKey,
		Content: jcanon(cv), Depth: p.Depth, TS: p.TS, Prev: append([]string{}, p.Prev...), Auth: wantAuth}
	if !c03Same(orig, want) {
		ctx.Fail("C03/built-differs-from-proto", "built event %v does not reflect the proto-event %v", orig, want)
		return
	}
	if tr.Creators && !p.isV12Create() && (len(orig.Auth) == 0 || orig.Auth[0] != "$"+p.RoomID[1:]) {
		ctx.Fail("C03/v12-first-auth-event", "v12 event does not report the create event as first auth event: %v", orig.Auth)
	}
	// --- identity (v3+): independent computation and alphabet
	kc := evKnownClass(p.Version, tree)
	if kc != "" {
		ctx.Class("known-class" + kc)
	}
	if tr.Format == 2 {
		if ref := reventID(p.Version, tree); ref != orig.EventID {
			ctx.Fail("C03/event-id-not-reference-hash"+kc, "EventID() = %s, independent computation over the redacted event gives %s; json=%q", orig.EventID, ref, ev.JSON())
		}
		re := c03IDv4
		if tr.IDFormat == 2 {
			re = c03IDv3
		}
		if !re.MatchString(orig.EventID) {
			ctx.Fail("C03/event-id-alphabet", "EventID %q does not use the alphabet of room version %s", orig.EventID, p.Version)
		}
	}
	// --- re-parse through the three paths
	check := func(label string, parsed PDU, perr error) {
		if perr != nil {
			ctx.Fail("C03/reparse-error/"+label, "re-parsing a built event (%s) failed: %v; json=%q", label, perr, ev.JSON())
			return
		}
		pv, ok := c03ViewOf(ctx, "accessors/"+label, parsed)
		if !ok {
			return
		}
		if !c03Same(pv, orig) {
			ctx.Fail("C03/reparse-differs/"+label, "re-parsed (%s) %v != built %v", label, pv, orig)
		}
		var cerr error
		if vfCatch(ctx, "C03/"+label, func() { cerr = CheckFields(parsed) }) {
			return
		}
		if cerr != nil {
			ctx.Fail("C03/checkfields/"+label, "CheckFields fails on re-parsed (%s) built event: %v", label, cerr)
		}
	}
	js := append([]byte(nil), ev.JSON()...)
	var pu, pt, ph PDU
	var eu, et, eh error
	vfCatch(ctx, "C03/untrusted", func() { pu, eu = impl.NewEventFromUntrustedJSON(append([]byte(nil), js...)) })
	vfCatch(ctx, "C03/trusted", func() { pt, et = impl.NewEventFromTrustedJSON(append([]byte(nil), js...), false) })
	vfCatch(ctx, "C03/headered", func() {
		var hj []byte
		hj, eh = ev.ToHeaderedJSON()
		if eh == nil {
			ph, eh = NewEventFromHeaderedJSON(hj, false)
		}
	})
	if ctx.Failed() {
		return
	}
	check("untrusted", pu, eu)
	check("trusted", pt, et)
	check("headered", ph, eh)
	if ctx.Failed() {
		return
	}
	// --- the bulk parsers (lists of events out of a response or a database), fed the event in another JSON
	// spelling of the same value (what a re-encoding hop - encoding/json, another implementation - makes
	// of it): the same event, not marked redacted
	if jt, jerr := evTree(js); jerr == nil {
		h := fnv.New64a()
		h.Write(js)
		respelled := []byte(jspellSeed(h.Sum64()|1, jt))
		for _, bulk := range []string{"trusted-bulk", "untrusted-bulk", "trusted-respelled"} {
			if bytes.Contains(respelled, []byte("-0")) {
				// a zero depth / timestamp spelled -0: every parser decodes the envelope from the text as it
				// arrived and refuses -0 for an unsigned field (a clean refusal). The statement is about the
				// event's own JSON; this one re-spelling is not demanded.
				ctx.Class("reparse/" + bulk + "/minus-zero-not-judged")
				continue
			}
			var got PDU
			var gerr error
			if vfCatch(ctx, "C03/"+bulk, func() {
				switch bulk {
				case "trusted-bulk":
					list := EventJSONs{append([]byte(nil), respelled...)}.TrustedEvents(RoomVersion(p.Version), false)
					if len(list) == 1 {
						got = list[0]
					} else {
						_, single := impl.NewEventFromTrustedJSON(append([]byte(nil), respelled...), false)
						gerr = fmt.Errorf("TrustedEvents returned %d events for 1 (the single-event parser says: %v) text=%q", len(list), single, respelled)
					}
				case "untrusted-bulk":
					list := EventJSONs{append([]byte(nil), respelled...)}.UntrustedEvents(RoomVersion(p.Version))
					if len(list) == 1 {
						got = list[0]
					} else {
						_, single := impl.NewEventFromUntrustedJSON(append([]byte(nil), respelled...))
						gerr = fmt.Errorf("UntrustedEvents returned %d events for 1 (the single-event parser says: %v)", len(list), single)
					}
				default:
					got, gerr = impl.NewEventFromTrustedJSON(append([]byte(nil), respelled...), false)
				}
			}) {
				return
			}
			ctx.Class("reparse/" + bulk)
			check(bulk, got, gerr)
			if ctx.Failed() {
				return
			}
		}
	}
	// --- the same proto-event as a handler gets it: decoded from JSON into a template variable that is
	// reused for the next request while the builder made from it is still in use
	if tr.Format == 2 && len(p.Content) >= 2 {
		mk := func(q evProto) ([]byte, error) {
			pe := ProtoEvent{SenderID: q.Sender, RoomID: q.RoomID, Type: q.Type, StateKey: q.StateKey, Redacts: q.Redacts, Depth: q.Depth, Content: spec.RawJSON(q.Content)}
			if len(q.Unsigned) > 0 {
				pe.Unsigned = spec.RawJSON(q.Unsigned)
			}
			pe.PrevEvents = append([]string{}, q.Prev...)
			pe.AuthEvents = append([]string{}, q.Auth...)
			return json.Marshal(pe)
		}
		next := p
		next.Content = vfBytes(`"` + strings.Repeat("x", len(p.Content)-2) + `"`) // another request, a body of the same size (never built)
		t1, e1 := mk(p)
		t2, e2 := mk(next)
		if e1 == nil && e2 == nil {
			var dev PDU
			var derr error
			if vfCatch(ctx, "C03/decoded-template", func() {
				c03Template = ProtoEvent{} // (fields a body leaves out keep their old value when decoding into a used struct)
				if derr = json.Unmarshal(t1, &c03Template); derr != nil {
					return
				}
				eb := impl.NewEventBuilderFromProtoEvent(&c03Template)
				if derr = json.Unmarshal(t2, &c03Template); derr != nil {
					return
				}
				_, priv := vfKeyFor(p.Key)
				dev, derr = eb.Build(time.UnixMilli(p.TS), spec.ServerName(p.Origin), KeyID(p.KeyID), priv)
			}) {
				return
			}
			if derr != nil || dev == nil {
				ctx.Fail("C03/built-from-decoded-template-fails", "the proto-event builds directly; a builder made from its decoded form, built after the template variable was decoded into again, fails: %v", derr)
				return
			}
			if derr == nil && dev != nil {
				ctx.Class("built-from-a-decoded-template")
				if dv, ok := c03ViewOf(ctx, "accessors/decoded-template", dev); ok && !c03Same(dv, orig) {
					ctx.Fail("C03/built-from-decoded-template-differs", "a builder made from the decoded proto-event, built after the template variable was decoded into again, gives %v; the proto-event built directly gives %v", dv, orig)
					return
				}
			}
			// the builder itself carries JSON tags: a template decoded straight into a fresh builder (its
			// prev / auth lists then are what encoding/json makes of a JSON array) builds the same event
			var bev PDU
			var berr error
			if vfCatch(ctx, "C03/decoded-builder", func() {
				eb := impl.NewEventBuilder()
				if berr = json.Unmarshal(t1, eb); berr != nil {
					return
				}
				_, priv := vfKeyFor(p.Key)
				bev, berr = eb.Build(time.UnixMilli(p.TS), spec.ServerName(p.Origin), KeyID(p.KeyID), priv)
			}) {
				return
			}
			if berr != nil || bev == nil {
				ctx.Fail("C03/built-from-decoded-builder-fails", "the proto-event builds directly; decoded into a fresh EventBuilder it fails: %v", berr)
				return
			}
			ctx.Class("built-from-a-decoded-builder")
			if bv, ok := c03ViewOf(ctx, "accessors/decoded-builder", bev); ok && !c03Same(bv, orig) {
				ctx.Fail("C03/built-from-decoded-builder-differs", "the template decoded straight into a fresh EventBuilder builds %v; the proto-event built directly gives %v", bv, orig)
				return
			}
		}
	}
	// --- siblings: the built event with ONE protected field changed and `hashes` left as it was (what a
	// relaying server could hand over). Their identity is that of their own redacted form, whatever was
	// parsed before them in this process (the built event, a moment ago).
	if tr.Format == 2 {
		for _, sib := range []struct {
			name string
			tree jv
		}{
			{"depth", tree.with("depth", jnum(p.Depth%1000+1))},
			{"origin_server_ts", tree.with("origin_server_ts", jnum(p.TS%100000+1))},
			{"type", tree.with("type", jstr(p.Type+".sibling"))},
			{"prev_events", tree.with("prev_events", jv{K: 'a', A: []jv{jstr("$" + strings.Repeat("S", 43))}})},
		} {
			if jequal(sib.tree, tree) || (sib.name == "type" && strings.HasPrefix(p.Type, "m.room.")) {
				continue
			}
			wantID := reventID(p.Version, sib.tree)
			if wantID == orig.EventID {
				continue
			}
			for _, path := range []string{"trusted", "untrusted"} {
				var sp PDU
				var serr error
				if vfCatch(ctx, "C03/sibling/"+path, func() {
					if path == "trusted" {
						sp, serr = impl.NewEventFromTrustedJSON([]byte(jplain(sib.tree)), false)
					} else {
						sp, serr = impl.NewEventFromUntrustedJSON([]byte(jplain(sib.tree)))
					}
				}) {
					return
				}
				if serr != nil || sp == nil {
					ctx.Class("sibling-refused/" + path)
					continue
				}
				ctx.Class("sibling-parsed/" + path)
				var sid string
				if vfCatch(ctx, "C03/sibling/"+path, func() { sid = sp.EventID() }) {
					return
				}
				if sid != wantID {
					tag := ""
					if sid == orig.EventID {
						tag = "/id-of-the-event-parsed-before"
					}
					ctx.Fail("C03/sibling-event-id"+tag, "the built event has ID %s; a copy with another %s and the same hashes, parsed %s, reports ID %s, the reference hash of its redacted form is %s", orig.EventID, sib.name, path, sid, wantID)
					return
				}
			}
		}
	}
	// --- the headered form of a parsed event can be taken again (and again): it is the same text each
	// time, and taking it leaves the event's own JSON alone (an event parsed from a larger buffer — the
	// headered form, a slice with spare capacity — has room behind its JSON that nothing may write to)
	roomy := append(make([]byte, 0, len(js)+64), js...)
	var pr PDU
	if vfCatch(ctx, "C03/trusted-roomy", func() { pr, _ = impl.NewEventFromTrustedJSON(roomy, false) }) {
		return
	}
	for label, e := range map[string]PDU{"headered": ph, "trusted-with-spare-capacity": pr, "built": ev} {
		if e == nil {
			continue
		}
		before := string(e.JSON())
		var h1, h2 []byte
		var e1, e2 error
		if vfCatch(ctx, "C03/headered-again/"+label, func() {
			h1, e1 = e.ToHeaderedJSON()
			h1 = append([]byte(nil), h1...)
			h2, e2 = e.ToHeaderedJSON()
		}) {
			return
		}
		if e1 != nil || e2 != nil || string(h1) != string(h2) {
			ctx.Fail("C03/headered-form-not-repeatable/"+label, "two ToHeaderedJSON calls on one event (%s) give %q (%v) and %q (%v)", label, h1, e1, h2, e2)
			return
		}
		if after := string(e.JSON()); after != before {
			ctx.Fail("C03/headered-form-modifies-event/"+label, "ToHeaderedJSON changed the JSON of the event it was called on (%s): %q -> %q", label, before, after)
			return
		}
		var again PDU
		var aerr error
		if vfCatch(ctx, "C03/headered-again/"+label, func() { again, aerr = NewEventFromHeaderedJSON(h2, false) }) {
			return
		}
		if aerr != nil || again == nil || again.EventID() != orig.EventID {
			ctx.Fail("C03/headered-form-not-repeatable/"+label, "the second headered form of the event (%s) does not parse back to it: %v; %q", label, aerr, h2)
			return
		}
	}

	// --- edits to unsigned / signatures / redaction never change the identity
	cur := ev
	// ... nor anybody else's event: copies parsed from the event's own JSON (they may share its bytes)
	// and the bytes JSON() handed out - taken before the edits and again after each of them - read at
	// the end as they did when they were taken
	type c03Held struct {
		when  string
		bytes []byte
		text  string
		twin  PDU
	}
	var held []c03Held
	hold := func(when string, e PDU) {
		h := c03Held{when: when, bytes: e.JSON()}
		h.text = string(h.bytes)
		vfCatch(ctx, "C03/twin", func() { h.twin, _ = impl.NewEventFromTrustedJSON(e.JSON(), e.Redacted()) })
		held = append(held, h)
	}
	hold("before the edits", ev)
	defer func() {
		if ctx.Failed() || len(c.Edits) == 0 {
			return
		}
		for _, h := range held {
			if string(h.bytes) != h.text {
				ctx.Fail("C03/edit-writes-into-bytes-handed-out-earlier", "the bytes JSON() returned %s read %q then, and %q after the later edits", h.when, h.text, h.bytes)
				return
			}
			if h.twin != nil && string(h.twin.JSON()) != h.text {
				ctx.Fail("C03/edit-changes-another-event", "an event parsed %s from the event's JSON read %q then, and reads %q after the later edits", h.when, h.text, h.twin.JSON())
				return
			}
		}
	}()
	fresh := func(label string, e PDU) {
		// the ID of a freshly parsed copy (no cached ID) must equal the original
		var id string
		var perr error
		if vfCatch(ctx, "C03/edit/"+label, func() {
			var f PDU
			f, perr = impl.NewEventFromTrustedJSON(append([]byte(nil), e.JSON()...), e.Redacted())
			if perr == nil {
				id = f.EventID()
			}
		}) {
			return
		}
		if perr != nil {
			ctx.Fail("C03/edit-breaks-json/"+label, "after %s the event JSON no longer parses: %v: %q", label, perr, e.JSON())
			return
		}
		if id != orig.EventID {
			ctx.Fail("C03/event-id-changed-by/"+label, "event ID changed by %s: %s -> %s; json=%q", label, orig.EventID, id, e.JSON())
		}
		var cid string
		if !vfCatch(ctx, "C03/edit/"+label, func() { cid = e.EventID() }) && cid != orig.EventID {
			ctx.Fail("C03/event-id-changed-by/"+label+"/cached", "cached event ID changed by %s: %s -> %s", label, orig.EventID, cid)
		}
		// ... and the edited event still travels through the headered form (what a server stores and
		// reloads) as the event it is
		var hj []byte
		var herr, hperr error
		var hid string
		var hflag bool
		var hredacted []byte
		if vfCatch(ctx, "C03/edit/"+label+"/headered", func() {
			if hj, herr = e.ToHeaderedJSON(); herr == nil {
				var back PDU
				if back, hperr = NewEventFromHeaderedJSON(append([]byte(nil), hj...), e.Redacted()); hperr == nil {
					hid = back.EventID()
					hflag = back.Redacted()
					if !e.Redacted() {
						// reloaded as an unredacted event it can still be redacted: nothing but the kept content is left
						back.Redact()
						hredacted = back.JSON()
					}
				}
			}
		}) {
			return
		}
		if herr != nil || hperr != nil || hid != orig.EventID {
			ctx.Fail("C03/headered-form-lost-by/"+label, "after %s the event's headered form does not parse back to it (ToHeaderedJSON: %v, NewEventFromHeaderedJSON: %v, event ID %q, want %q): %q", label, herr, hperr, hid, orig.EventID, hj)
		} else if hflag != e.Redacted() {
			ctx.Fail("C03/headered-form-changes-redacted-flag/"+label, "after %s the event (Redacted() = %v) reloaded from its headered form with redacted = %v reports Redacted() = %v: %q", label, e.Redacted(), e.Redacted(), hflag, hj)
		} else if hredacted != nil {
			if bt, berr := evTree(hredacted); berr == nil {
				if et, eerr := evTree(e.JSON()); eerr == nil {
					bc, _ := bt.get("content")
					wc, _ := rredact(p.Version, et).get("content")
					if !jequal(bc, wc) {
						ctx.Fail("C03/reloaded-event-not-redactable/"+label, "after %s the event reloaded from its headered form keeps content %s after Redact(), the version's algorithm keeps %s", label, jcanon(bc), jcanon(wc))
					}
				}
			}
		}
	}
	for i, ed := range c.Edits {
		if ctx.Failed() {
			return
		}
		if i > 0 {
			hold(fmt.Sprintf("after edit %d", i), cur)
		}
		ctx.Class("edit/" + ed.Op)
		switch ed.Op {
		case "set_unsigned":
			val, _, verr := jparse(ed.Value)
			if verr != nil {
				continue
			}
			var next PDU
			if vfCatch(ctx, "C03/edit", func() { next, err = cur.SetUnsigned(jsonRaw(ed.Value)) }) {
				return
			}
			if err != nil {
				ctx.Fail("C03/set-unsigned-error", "SetUnsigned(%s) failed: %v", ed.Value, err)
				return
			}
			if got, _, gerr := jparse(next.Unsigned()); gerr != nil || !jequal(got, val) {
				ctx.Fail("C03/set-unsigned-not-applied", "Unsigned() = %q after SetUnsigned(%s)", next.Unsigned(), ed.Value)
			}
			cur = next
			fresh("set_unsigned", cur)
		case "set_unsigned_field":
			val, _, verr := jparse(ed.Value)
			if verr != nil {
				continue
			}
			if u, _, uerr := jparse(cur.Unsigned()); len(cur.Unsigned()) > 0 && (uerr != nil || u.K != 'o') {
				continue // unsigned is not an object: path insertion undefined
			}
			if vfCatch(ctx, "C03/edit", func() { err = cur.SetUnsignedField(ed.Path, jsonRaw(ed.Value)) }) {
				return
			}
			if err != nil {
				// a path whose parent exists with a non-object value cannot be set: a clean error
				if uo, _, e2 := jparse(cur.Unsigned()); e2 == nil && c03ParentNotObject(uo, ed.Path) {
					ctx.Class("edit/set_unsigned_field/parent-not-object(refused)")
					continue
				}
				ctx.Fail("C03/set-unsigned-field-error", "SetUnsignedField(%q) failed: %v", ed.Path, err)
				return
			}
			u, _, uerr := jparse(cur.Unsigned())
			if uerr != nil {
				ctx.Fail("C03/set-unsigned-field-corrupts", "Unsigned() = %q after SetUnsignedField(%q, %s)", cur.Unsigned(), ed.Path, ed.Value)
				return
			}
			got, found := c03Lookup(u, ed.Path)
			if !found || !jequal(got, val) {
				ctx.Fail("C03/set-unsigned-field-not-applied", "unsigned = %q after SetUnsignedField(%q, %s)", cur.Unsigned(), ed.Path, ed.Value)
			}
			fresh("set_unsigned_field", cur)
		case "sign":
			_, priv := vfKeyFor("extra:" + ed.Name)
			if vfCatch(ctx, "C03/edit", func() { cur = cur.Sign(ed.Name, "ed25519:x", priv) }) {
				return
			}
			t2, _ := evTree(cur.JSON())
			pub, _ := vfKeyFor("extra:" + ed.Name)
			if !rverify(p.Version, t2, ed.Name, "ed25519:x", pub) {
				ctx.Fail("C03/added-signature-invalid"+kc, "signature added by Sign(%q) does not verify over the reference redaction: %q", ed.Name, cur.JSON())
			}
			opub, _ := vfKeyFor(p.Key)
			if !rverify(p.Version, t2, p.Origin, p.KeyID, opub) {
				ctx.Fail("C03/origin-signature-lost"+kc, "origin signature no longer valid after Sign(%q): %q", ed.Name, cur.JSON())
			}
			fresh("sign", cur)
		case "redact":
			if vfCatch(ctx, "C03/edit", func() { cur.Redact() }) {
				return
			}
			if !cur.Redacted() {
				ctx.Fail("C03/redact-flag", "Redacted() false after Redact()")
			}
			fresh("redact", cur)
			// the redacted OBJECT still reports its envelope as before (in v12 the create event first
			// among the auth events): redaction removes content, it does not re-derive who the event is
			var aids, pids []string
			if vfCatch(ctx, "C03/edit/redact", func() { aids, pids = cur.AuthEventIDs(), cur.PrevEventIDs() }) {
				return
			}
			if fmt.Sprint(aids) != fmt.Sprint(orig.Auth) || fmt.Sprint(pids) != fmt.Sprint(orig.Prev) {
				ctx.Fail("C03/envelope-changed-by-redaction", "after Redact() the event reports auth events %v / prev events %v; before: %v / %v", aids, pids, orig.Auth, orig.Prev)
			}
		case "raw_unsigned", "raw_signatures":
			t2, terr := evTree(cur.JSON())
			if terr != nil {
				continue
			}
			val, _, verr := jparse(ed.Value)
			if verr != nil {
				continue
			}
			key := "unsigned"
			if ed.Op == "raw_signatures" {
				key = "signatures"
				if val.K != 'o' {
					continue
				}
			}
			raw := []byte(jcanon(t2.with(key, val)))
			var f PDU
			if vfCatch(ctx, "C03/edit", func() { f, err = impl.NewEventFromTrustedJSON(raw, cur.Redacted()) }) {
				return
			}
			if err != nil {
				continue
			}
			var id string
			if vfCatch(ctx, "C03/edit", func() { id = f.EventID() }) {
				return
			}
			if id != orig.EventID {
				ctx.Fail("C03/event-id-changed-by/"+ed.Op, "event ID changed by editing %s in the JSON: %s -> %s", key, orig.EventID, id)
			}
		}
	}

	// --- single-field differences give different IDs (v3+)
	if c.Alt != nil && tr.Format == 2 {
		var ev2 PDU
		if vfCatch(ctx, "C03/build", func() { ev2, err = evBuild(*c.Alt) }) {
			return
		}
		if err != nil {
			ctx.Unjudged("alt proto-event does not build")
			return
		}
		ctx.Class("pair/" + c.Diff)
		var id2 string
		if vfCatch(ctx, "C03/pair", func() { id2 = ev2.EventID() }) {
			return
		}
		if id2 == orig.EventID {
			ctx.Fail("C03/id-collision/"+c.Diff, "proto-events differing in %s built events with the same ID %s: %q vs %q", c.Diff, id2, ev.JSON(), ev2.JSON())
		}
	}
}

// c03Reparse re-parses a built event through the three paths (nil where parsing fails).
func c03Reparse(impl IRoomVersion, ev PDU) map[string]PDU {
	out := map[string]PDU{}
	js := append([]byte(nil), ev.JSON()...)
	if p, err := impl.NewEventFromUntrustedJSON(append([]byte(nil), js...)); err == nil {
		out["untrusted"] = p
	}
	if p, err := impl.NewEventFromTrustedJSON(append([]byte(nil), js...), false); err == nil {
		out["trusted"] = p
	}
	if hj, err := ev.ToHeaderedJSON(); err == nil {
		if p, err := NewEventFromHeaderedJSON(hj, false); err == nil {
			out["headered"] = p
		}
	}
	return out
}

type jsonRaw []byte

func (r jsonRaw) MarshalJSON() ([]byte, error) { return r, nil }

// c03ParentNotObject reports whether some proper prefix of the dotted path exists with a non-object value.
func c03ParentNotObject(v jv, path string) bool {
	parts := strings.Split(strings.ReplaceAll(strings.ReplaceAll(path, `\.`, "\x00"), `\*`, "*"), ".")
	for _, k := range parts[:len(parts)-1] {
		next, ok := v.get(strings.ReplaceAll(k, "\x00", "."))
		if !ok {
			return false
		}
		if next.K != 'o' {
			return true
		}
		v = next
	}
	return false
}

// c03Lookup follows a gjson-style dotted path (with \. and \* escapes) in an object tree.
func c03Lookup(v jv, path string) (jv, bool) {
	var parts []string
	var cur strings.Builder
	for i := 0; i < len(path); i++ {
		switch {
		case path[i] == '\\' && i+1 < len(path):
			cur.WriteByte(path[i+1])
			i++
		case path[i] == '.':
			parts = append(parts, cur.String())
			cur.Reset()
		default:
			cur.WriteByte(path[i])
		}
	}
	parts = append(parts, cur.String())
	for _, k := range parts {
		next, ok := v.get(k)
		if !ok {
			return jv{}, false
		}
		v = next
	}
	return v, true
}

var c03Paths = []string{"age", "prev_content", "prev_content.membership", `m\.relations`, `x\*y`, "transaction_id", `a\.b.c`, "redacted_because"}

func c03Gen(t *rapid.T) c03Case {
	version := evGenVersion(t)
	c := c03Case{P: evGenProto(t, version)}
	if rapid.IntRange(0, 11).Draw(t, "depthBoundary") == 0 {
		// the largest depth every version can write, and (where the room version's canonical JSON
		// forbids them) the first ones it cannot: Build must refuse those, not hand out an event
		// that does not re-parse
		ds := []int64{1<<53 - 1, 1<<53 - 2}
		if vtraits[version].Canonical {
			ds = append(ds, 1<<53, 1<<53+1, 1<<62, 1<<63-1)
		}
		c.P.Depth = rapid.SampledFrom(ds).Draw(t, "bigDepth")
	}
	o := jgenOpts{MaxDepth: 2, MaxWidth: 3, IntsOnly: true}
	n := rapid.IntRange(0, 4).Draw(t, "nedits")
	for i := 0; i < n; i++ {
		ed := c03Edit{Op: rapid.SampledFrom([]string{"set_unsigned", "set_unsigned_field", "set_unsigned_field", "sign", "redact", "raw_unsigned", "raw_signatures"}).Draw(t, "op")}
		switch ed.Op {
		case "set_unsigned", "raw_unsigned":
			ed.Value = vfBytes(jplain(jgenObject(t, o, 0, "uns")))
		case "set_unsigned_field":
			ed.Path = rapid.SampledFrom(c03Paths).Draw(t, "path")
			ed.Value = vfBytes(jplain(jgenValue(t, o, 1, "unsv")))
		case "sign":
			ed.Name = vfGenServerName(t, "signer")
		case "raw_signatures":
			ed.Value = vfBytes(jplain(jobj(vfGenServerName(t, "rsigner"), jobj("ed25519:zz", jstr("c2ln")))))
		}
		c.Edits = append(c.Edits, ed)
		if ed.Op == "set_unsigned_field" && rapid.Bool().Draw(t, "againShorter") {
			// the same field once more, with a value that is no longer than the one just written
			c.Edits = append(c.Edits, c03Edit{Op: "set_unsigned_field", Path: ed.Path, Value: vfBytes("0")})
		}
	}
	if rapid.Bool().Draw(t, "pair") {
		alt := c.P
		alt.Prev = append([]string{}, c.P.Prev...)
		alt.Auth = append([]string{}, c.P.Auth...)
		diff := rapid.SampledFrom([]string{"type", "sender", "room", "state_key", "content", "depth", "prev", "auth", "ts", "redacts"}).Draw(t, "diff")
		okDiff := true
		switch diff {
		case "type":
			alt.Type = c.P.Type + "x"
		case "sender":
			alt.Sender = "@zed:" + c.P.Origin
		case "room":
			if alt.isV12Create() {
				okDiff = false
			} else if vtraits[version].Creators {
				alt.RoomID = "!" + strings.Repeat("A", 43)
			} else {
				alt.RoomID = "!other:a.example"
			}
		case "state_key":
			switch {
			case alt.isV12Create():
				okDiff = false
			case c.P.StateKey == nil:
				s := ""
				alt.StateKey = &s
			case *c.P.StateKey == "":
				if rapid.Bool().Draw(t, "skNil") {
					alt.StateKey = nil
				} else {
					s := "x"
					alt.StateKey = &s
				}
			default:
				s := *c.P.StateKey + "x"
				alt.StateKey = &s
			}
		case "content":
			cv, _, _ := jparse(c.P.Content)
			k := rapid.SampledFrom(append([]string{"zz_extra"}, evInterestingContentKeys...)).Draw(t, "ckey")
			nv := jnum(int64(rapid.IntRange(1000, 2000).Draw(t, "cnew")))
			alt.Content = vfBytes(jplain(cv.with(k, nv)))
		case "depth":
			alt.Depth++
		case "prev":
			alt.Prev = append(alt.Prev, evFakeID(t, version, "extraPrev")+"")
			if len(c.P.Prev) > 0 && rapid.Bool().Draw(t, "dropPrev") {
				alt.Prev = c.P.Prev[1:]
			}
		case "auth":
			alt.Auth = append(alt.Auth, evFakeID(t, version, "extraAuth"))
			if len(c.P.Auth) > 0 && rapid.Bool().Draw(t, "dropAuth") {
				alt.Auth = c.P.Auth[1:]
			}
		case "ts":
			alt.TS++
		case "redacts":
			alt.Redacts = evFakeID(t, version, "altRedacts")
			if alt.Redacts == c.P.Redacts {
				okDiff = false
			}
		}
		if okDiff {
			c.Alt, c.Diff = &alt, diff
		}
	}
	return c
}

func init() {
	vfRapid("C03/roundtrip",
		"non-trivial = the event has a non-empty content object and at least one prev or auth event, or is a v12 create event; distinct = distinct Case JSON",
		1500, 160000, 16, c03Gen, c03Check)
}

// ---------------------------------------------------------------------------------------------
// C03/near-size-limit: proto-events whose built, signed JSON lands around the 65536-byte limit.
// A built event passes its own field checks and re-parses as untrusted input; an event that cannot
// (it is too large once signed) must be refused by Build, and one within the limit must be built.

type c03SizeCase struct {
	Version string `json:"version"`
	Target  int    `json:"target"` // wanted length of the final event JSON
	Multi   bool   `json:"multi"`  // pad with multi-byte characters
}

func c03EnumSize(size, shard, nshards int, emit func(c03SizeCase)) {
	idx := 0
	for _, v := range vfVersions {
		for d := -3; d <= 260; d++ {
			if size <= 1 && d > 3 && d%8 != 0 {
				continue // quick tier: every byte around the limit, then every 8th up to a signature block beyond it
			}
			for _, multi := range []bool{false, true} {
				if idx%nshards == shard {
					emit(c03SizeCase{Version: v, Target: 65536 + d, Multi: multi})
				}
				idx++
			}
		}
	}
}

func c03CheckSize(ctx *vfCtx, c c03SizeCase) {
	impl, err := GetRoomVersion(RoomVersion(c.Version))
	if err != nil {
		ctx.Fail("C03/unknown-version", "version %q not registered", c.Version)
		return
	}
	sk := (*string)(nil)
	p := evProto{Version: c.Version, Type: "m.room.message", Sender: "@alice:a.example", RoomID: "!room:a.example", StateKey: sk,
		Prev: []string{}, Auth: []string{}, Depth: 5, TS: 1700000000000, Origin: "a.example", KeyID: "ed25519:1", Key: "origin:a.example"}
	if vtraits[c.Version].Creators {
		p.RoomID = "!" + strings.Repeat("A", 43)
	}
	if vtraits[c.Version].IDFormat == 1 {
		p.Prev, p.Auth = nil, nil
	}
	unit := "p"
	if c.Multi {
		unit = "é"
	}
	body := func(n int) vfBytes {
		s := strings.Repeat(unit, n/len(unit)) + strings.Repeat("p", n%len(unit))
		return vfBytes(`{"body":"` + s + `"}`)
	}
	// measure with a small body, then pad to the target
	p.Content = body(100)
	var probe PDU
	if vfCatch(ctx, "C03/near-size-limit", func() { probe, err = evBuild(p) }) {
		return
	}
	if err != nil || probe == nil {
		ctx.Unjudged("generator: the small event does not build: " + fmt.Sprint(err))
		return
	}
	pad := 100 + c.Target - len(probe.JSON())
	if pad < 0 {
		ctx.Unjudged("generator: target below the envelope size")
		return
	}
	p.Content = body(pad)
	var ev PDU
	if vfCatch(ctx, "C03/near-size-limit", func() { ev, err = evBuild(p) }) {
		return
	}
	ctx.NonTrivial()
	within := c.Target <= 65536
	ctx.Class(fmt.Sprintf("target-within-limit=%v", within))
	if err != nil {
		ctx.Class("build-refused")
		if within {
			ctx.Fail("C03/near-size-limit/build-refuses-event-within-limit", "Build refused a proto-event whose event would be %d bytes: %v", c.Target, err)
		}
		return
	}
	ctx.Class("built")
	n := len(ev.JSON())
	if n != c.Target {
		ctx.Class("size-miss")
		ctx.Unjudged("generator: built event has another size than aimed for")
		within = n <= 65536
	}
	var cerr error
	if vfCatch(ctx, "C03/near-size-limit", func() { cerr = CheckFields(ev) }) {
		return
	}
	if cerr != nil {
		ctx.Fail("C03/near-size-limit/built-event-fails-own-checks", "Build returned an event of %d bytes without error, but CheckFields says: %v", n, cerr)
		return
	}
	var re PDU
	var rerr error
	if vfCatch(ctx, "C03/near-size-limit", func() { re, rerr = impl.NewEventFromUntrustedJSON(append([]byte(nil), ev.JSON()...)) }) {
		return
	}
	if rerr != nil || re == nil {
		ctx.Fail("C03/near-size-limit/reparse-error/untrusted", "Build returned an event of %d bytes without error, but it does not re-parse as untrusted input: %v", n, rerr)
		return
	}
	if !within {
		ctx.Fail("C03/near-size-limit/oversize-event-built", "Build returned an event of %d bytes (limit 65536) and every check accepts it", n)
	}
}

func init() {
	vfEnum("C03/near-size-limit",
		"non-trivial = every case: a message event padded so that its built and signed JSON is 65533..65796 bytes long (around the limit and up to more than one signature block beyond it), ASCII or two-byte padding, every room version. distinct = distinct Case JSON",
		1, 2, 8, c03EnumSize, c03CheckSize)
}
