//go:build verif

package gomatrixserverlib

import (
	"fmt"
	"strconv"
	"strings"
	"sync"
	"time"

	"github.com/matrix-org/gomatrixserverlib/spec"
	"pgregory.net/rapid"
)

// C09 — an auth verdict depends only on the event and the state it needs.

type c09Step struct {
	Room  int     `json:"room"`
	Event vfBytes `json:"event"`
}

type c09Case struct {
	Version string      `json:"version"`
	Rooms   [][]vfBytes `json:"rooms"` // auth state of each variant of the room
	Steps   []c09Step   `json:"steps"` // events checked first through the shared checker
	Final   c09Step     `json:"final"`
	Pad     []vfBytes   `json:"pad"` // unrelated state events (not needed by Final)
	Seed    uint64      `json:"seed"`
	Build   bool        `json:"build"` // also build Final with AddAuthEvents and check it against only those
}

func c09Verdict(err error) string {
	if err == nil {
		return "allow"
	}
	return "reject"
}

func c09Check(ctx *vfCtx, c c09Case) {
	c09PanelInit(ctx)
	var rooms [][]PDU
	var roomTrees [][]jv
	for _, r := range c.Rooms {
		var pdus []PDU
		var trees []jv
		for _, raw := range r {
			t, err := evTree(raw)
			if err != nil {
				ctx.Unjudged("generator: malformed event")
				return
			}
			p, err := raParsePDU(c.Version, t)
			if err != nil {
				ctx.Unjudged("generator: " + err.Error())
				return
			}
			pdus = append(pdus, p)
			trees = append(trees, t)
		}
		if why := raUnjudged(raBuildState(c.Version, trees)); why != "" {
			// a state the reference rules do not judge (an undecodable power-levels / join-rules / create
			// event): WHICH verdict is right is not judged, that it is one verdict is
			ctx.Class("state-not-judged-by-the-reference")
		}
		rooms = append(rooms, pdus)
		roomTrees = append(roomTrees, trees)
	}
	parse := func(raw vfBytes) (PDU, jv, bool) {
		t, err := evTree(raw)
		if err != nil {
			return nil, t, false
		}
		p, err := raParsePDU(c.Version, t)
		return p, t, err == nil
	}
	final, finalTree, ok := parse(c.Final.Event)
	if !ok || c.Final.Room >= len(rooms) {
		ctx.Unjudged("generator: final event does not parse")
		return
	}
	full := rooms[c.Final.Room]
	// the state the event needs
	var needed []StateKeyTuple
	if vfCatch(ctx, "C09", func() { needed = StateNeededForAuth([]PDU{final}).Tuples() }) {
		return
	}
	// the bulk form (state resolution hands over whole batches): the state needed for a batch is the
	// union of what each of its events needs, whatever the order and however alike the events are
	{
		batch := []PDU{final}
		for _, st := range c.Steps {
			if e, _, ok := parse(st.Event); ok {
				batch = append(batch, e)
			}
		}
		if len(batch) > 1 {
			tupSet := func(list []PDU) (map[StateKeyTuple]bool, bool) {
				out := map[StateKeyTuple]bool{}
				var tl []StateKeyTuple
				if vfCatch(ctx, "C09/state-needed-batch", func() { tl = StateNeededForAuth(list).Tuples() }) {
					return nil, false
				}
				for _, k := range tl {
					out[k] = true
				}
				return out, true
			}
			union := map[StateKeyTuple]bool{}
			for _, e := range batch {
				one, ok := tupSet([]PDU{e})
				if !ok {
					return
				}
				for k := range one {
					union[k] = true
				}
			}
			rev := make([]PDU, len(batch))
			for i, e := range batch {
				rev[len(batch)-1-i] = e
			}
			ctx.Class("state-needed/batch")
			for _, order := range [][]PDU{batch, rev} {
				got, ok := tupSet(order)
				if !ok {
					return
				}
				for k := range union {
					if !got[k] {
						ctx.Fail("C09/state-needed-for-a-batch-is-not-the-union", "StateNeededForAuth over %d events does not name (%s, %q), which one of them needs on its own", len(order), k.EventType, k.StateKey)
						return
					}
				}
				for k := range got {
					if !union[k] {
						ctx.Fail("C09/state-needed-for-a-batch-is-not-the-union/extra", "StateNeededForAuth over %d events names (%s, %q), which none of them needs on its own", len(order), k.EventType, k.StateKey)
						return
					}
				}
			}
		}
	}
	isNeeded := func(e PDU) bool {
		for _, k := range needed {
			if e.Type() == k.EventType && e.StateKeyEquals(k.StateKey) {
				return true
			}
		}
		return false
	}
	// A list may name one (type, state_key) twice; the provider keeps the later event (AddEvent's
	// documented replacement), so the STATE is the list with earlier duplicates removed. The legs below
	// work on that state; the list as drawn is evaluated once more at the end (replaced entries must
	// not change the verdict).
	lastOnly := func(list []PDU) []PDU {
		last := map[StateKeyTuple]int{}
		for i, e := range list {
			last[StateKeyTuple{e.Type(), *e.StateKey()}] = i
		}
		var out []PDU
		for i, e := range list {
			if last[StateKeyTuple{e.Type(), *e.StateKey()}] == i {
				out = append(out, e)
			}
		}
		return out
	}
	for i := range rooms {
		for _, e := range rooms[i] {
			if e.StateKey() == nil {
				ctx.Unjudged("generator: state list holds a non-state event")
				return
			}
		}
	}
	asDrawn := full
	// An event of ANOTHER room in a slot the event does not need is left out of the state: Allowed
	// refuses a provider holding events of several rooms as malformed input before it looks at the
	// event, which is its documented entry condition and not a dependence on un-needed state of the
	// room. A foreign event in a NEEDED slot stays, in every leg.
	{
		var kept []PDU
		for _, e := range lastOnly(full) {
			if e.RoomID().String() != final.RoomID().String() && !isNeeded(e) {
				ctx.Class("foreign-room-event-in-unneeded-slot/left-out")
				var rest []PDU
				for _, d := range asDrawn {
					if d != e {
						rest = append(rest, d)
					}
				}
				asDrawn = rest
				continue
			}
			kept = append(kept, e)
		}
		full = kept
		rooms[c.Final.Room] = kept
	}
	for i := range rooms {
		if i != c.Final.Room {
			rooms[i] = lastOnly(rooms[i])
		}
	}
	var neededOnly []PDU
	for _, e := range full {
		if isNeeded(e) {
			neededOnly = append(neededOnly, e)
		}
	}
	eval := func(label string, state []PDU) (string, bool) {
		var err error
		if vfCatch(ctx, "C09/"+label, func() {
			var prov *AuthEvents
			prov, err = NewAuthEvents(state)
			if err == nil {
				err = Allowed(final, prov, vfUserIDForSender)
			}
		}) {
			return "", false
		}
		return c09Verdict(err), true
	}
	base, ok := eval("fresh", neededOnly)
	if !ok {
		return
	}
	if len(asDrawn) != len(full) {
		ctx.Class("state-list-with-replaced-entries")
		if v, ok := eval("replaced", asDrawn); !ok {
			return
		} else if vf, ok := eval("full", full); !ok {
			return
		} else if v != vf {
			ctx.Fail("C09/replaced-entries-change-verdict", "a provider fed %d events of which %d were replaced by later events for the same (type, state_key) gives %s; a provider fed only the %d events it holds gives %s", len(asDrawn), len(asDrawn)-len(full), v, len(full), vf)
			return
		}
	}
	ctx.Class("verdict/" + base)
	rule := "state not judged by the reference"
	if st := raBuildState(c.Version, roomTrees[c.Final.Room]); raUnjudged(st) == "" {
		_, rule = rauth(c.Version, st, finalTree) // (only for the messages: which rule decided)
	}
	ch := &jseedChooser{c.Seed}
	// repeated evaluation
	repeats := 1
	if final.Type() == "m.room.power_levels" || strings.Contains(string(final.Content()), "third_party_invite") {
		repeats = 8 // rules that range over maps (levels; signatures of a third-party invite)
	}
	for i := 0; i < repeats; i++ {
		if v, ok := eval("repeat", neededOnly); ok && v != base {
			ctx.Fail("C09/not-repeatable", "two evaluations of the same (event, state) differ: %s then %s; event=%s", base, v, c.Final.Event)
			break
		}
	}
	// other evaluations in between: events whose contents are refused or undecodable (power levels
	// with null / string / fractional levels, a join rule that is not a string, unknown create
	// content) are judged against the same state, then the event once more - the verdict is a
	// function of the event and its state, not of what the process looked at before
	if c09Perturb(ctx, c.Version, finalTree, full) {
		ctx.Class("perturbed-between-evaluations")
		if v, ok := eval("after-other-evaluations", neededOnly); ok && v != base {
			ctx.Fail("C09/verdict-changed-by-other-evaluations", "the verdict was %s; after power-levels / join-rules events with odd contents were judged against the same state it is %s; event=%s", base, v, c.Final.Event)
			return
		}
	}
	// the sentinel panel: fixed (event, state) pairs of every room version whose verdicts were taken
	// when this process had judged nothing yet; judged again now, they must still be the same
	if sig, msg := c09PanelRecheck(ctx, c.Version); sig != "" {
		ctx.Fail(sig, "%s", msg)
		return
	}
	// insertion order
	for i := 0; i < 3; i++ {
		if v, ok := eval("permuted", c11Shuffle(ch, full)); ok && v != base {
			ctx.Fail("C09/insertion-order-or-unrelated-state", "verdict with the full state in another insertion order is %s, with exactly the needed state %s; rule %s", v, base, rule)
			return
		}
	}
	// unrelated state added
	var pad []PDU
	for _, raw := range c.Pad {
		if p, _, ok := parse(raw); ok && p.StateKey() != nil && !isNeeded(p) {
			pad = append(pad, p)
		}
	}
	if len(pad) > 0 {
		ctx.Class("padded")
		if v, ok := eval("padded", c11Shuffle(ch, append(append([]PDU(nil), full...), pad...))); ok && v != base {
			ctx.Fail("C09/unrelated-state-changes-verdict", "verdict with unrelated state added is %s, with exactly the needed state %s; rule %s", v, base, rule)
			return
		}
	}
	// shared checker, as state resolution uses it: one provider object, one allowerContext
	changed := false
	restricted := false
	var shared string
	if vfCatch(ctx, "C09/shared", func() {
		prov, _ := NewAuthEvents(nil)
		var actx *allowerContext
		last := -1
		run := func(room int, e PDU) error {
			prov.Clear()
			for _, s := range rooms[room] {
				_ = prov.AddEvent(s)
			}
			if actx == nil {
				actx = newAllowerContext(prov, vfUserIDForSender, e.RoomID())
			} else {
				actx.update(prov)
			}
			if last >= 0 && last != room {
				changed = true
			}
			last = room
			// Allowed refuses a provider holding events of several rooms before it looks at the event;
			// state resolution never builds such a provider. The reused checker is held to the same
			// entry condition, or it would be compared outside what either caller does.
			if !prov.Valid() {
				return errorf("authEvents contains events from different rooms")
			}
			return actx.allowed(e)
		}
		for _, st := range c.Steps {
			e, t, ok := parse(st.Event)
			if !ok || st.Room >= len(rooms) {
				continue
			}
			if evStr(t, "type") == "m.room.member" {
				jr := raBuildState(c.Version, roomTrees[st.Room]).JoinRule
				if jr == "restricted" || jr == "knock_restricted" {
					restricted = true
				}
			}
			_ = run(st.Room, e)
		}
		shared = c09Verdict(run(c.Final.Room, final))
	}) {
		return
	}
	if len(c.Steps) > 0 {
		ctx.Class(fmt.Sprintf("shared-checker/steps=%d", len(c.Steps)))
	}
	if (restricted || changed) && rule != "A6.sender-not-joined" {
		ctx.NonTrivial()
	}
	if restricted {
		ctx.Class("history/restricted-join-checked-before")
	}
	if changed {
		ctx.Class("history/auth-state-changed-between-checks")
	}
	if shared != base {
		tag := "same-state"
		if changed {
			tag = "state-changed"
		}
		ctx.Fail("C09/shared-checker-differs/"+tag, "through a checker reused after %d other events the verdict is %s; a fresh check on the needed state gives %s (rule %s); final=%s", len(c.Steps), shared, base, rule, c.Final.Event)
		return
	}
	// AddAuthEvents selects a sufficient set
	if c.Build {
		impl, _ := GetRoomVersion(RoomVersion(c.Version))
		var sk *string
		if s, ok := finalTree.get("state_key"); ok && s.K == 's' {
			sk = &s.S
		}
		ct, _ := finalTree.get("content")
		room := evStr(finalTree, "room_id")
		pe := &ProtoEvent{SenderID: evStr(finalTree, "sender"), RoomID: room, Type: evStr(finalTree, "type"), StateKey: sk,
			Content: spec.RawJSON(jplain(ct)), Depth: 60, PrevEvents: final.PrevEventIDs()}
		if pe.Type == "m.room.create" {
			return
		}
		eb := impl.NewEventBuilderFromProtoEvent(pe)
		var built PDU
		var berr error
		if vfCatch(ctx, "C09/build", func() {
			prov, _ := NewAuthEvents(full)
			if berr = eb.AddAuthEvents(prov); berr != nil {
				return
			}
			_, priv := vfKeyFor("origin:x")
			built, berr = eb.Build(time.UnixMilli(5000), "a.example", "ed25519:1", priv)
		}) {
			return
		}
		if berr != nil {
			ctx.Class("build-refused")
			return
		}
		ctx.Class("built-with-AddAuthEvents")
		refs := map[string]bool{}
		for _, id := range built.AuthEventIDs() {
			refs[id] = true
		}
		var selected []PDU
		for _, e := range full {
			if refs[e.EventID()] {
				selected = append(selected, e)
			}
		}
		evalB := func(state []PDU) (string, bool) {
			var err error
			if vfCatch(ctx, "C09/built", func() {
				prov, _ := NewAuthEvents(state)
				err = Allowed(built, prov, vfUserIDForSender)
			}) {
				return "", false
			}
			return c09Verdict(err), true
		}
		vFull, ok1 := evalB(full)
		vSel, ok2 := evalB(selected)
		if ok1 && ok2 && vFull != vSel {
			ctx.Fail("C09/add-auth-events-insufficient", "event built with AddAuthEvents is %s against the full state but %s against exactly its auth_events %v; event=%s", vFull, vSel, built.AuthEventIDs(), built.JSON())
		}
		// the same event prepared in a room that has nothing but its create event yet: what is built has
		// the version's event format - auth_events and prev_events are lists, however few they name
		{
			var onlyCreate []PDU
			for _, e := range full {
				if e.Type() == spec.MRoomCreate && e.StateKeyEquals("") {
					onlyCreate = append(onlyCreate, e)
				}
			}
			if len(onlyCreate) == 1 {
				eb5 := impl.NewEventBuilderFromProtoEvent(pe)
				var built5 PDU
				var err5 error
				if vfCatch(ctx, "C09/build-in-new-room", func() {
					p5, _ := NewAuthEvents(onlyCreate)
					if err5 = eb5.AddAuthEvents(p5); err5 != nil {
						return
					}
					_, priv := vfKeyFor("origin:x")
					built5, err5 = eb5.Build(time.UnixMilli(5000), "a.example", "ed25519:1", priv)
				}) {
					return
				}
				if err5 == nil && built5 != nil {
					ctx.Class("built-with-AddAuthEvents/room-with-create-event-only")
					if bt, terr := evTree(built5.JSON()); terr == nil {
						for _, k := range []string{"auth_events", "prev_events"} {
							if v, ok := bt.get(k); !ok || v.K != 'a' {
								ctx.Fail("C09/built-event-format/"+k, "an event built through AddAuthEvents in a room that has only its create event has %s = %s (a list is the format of every room version); JSON=%s", k, jplain(v), built5.JSON())
								return
							}
						}
					}
				}
			}
		}
		// a builder that has been through AddAuthEvents before (the event was prepared against an earlier
		// state, then prepared again): the selection is made from the provider given NOW
		{
			var earlier []PDU
			for i, e := range full {
				if i%2 == 0 || (e.Type() == spec.MRoomCreate && e.StateKeyEquals("")) {
					earlier = append(earlier, e) // an earlier state: every other event is not there yet
				}
			}
			eb4 := impl.NewEventBuilderFromProtoEvent(pe)
			var built4 PDU
			var err4 error
			if vfCatch(ctx, "C09/build-twice", func() {
				p1, _ := NewAuthEvents(earlier)
				if err4 = eb4.AddAuthEvents(p1); err4 != nil {
					return
				}
				p2, _ := NewAuthEvents(full)
				if err4 = eb4.AddAuthEvents(p2); err4 != nil {
					return
				}
				_, priv := vfKeyFor("origin:x")
				built4, err4 = eb4.Build(time.UnixMilli(5000), "a.example", "ed25519:1", priv)
			}) {
				return
			}
			if err4 == nil && built4 != nil {
				ctx.Class("built-with-AddAuthEvents/second-time")
				got4 := map[string]bool{}
				for _, id := range built4.AuthEventIDs() {
					got4[id] = true
				}
				if len(got4) != len(refs) {
					ctx.Fail("C09/add-auth-events-insufficient/builder-used-before", "a builder prepared against an earlier state and then against the current one names %v; a fresh builder names %v", built4.AuthEventIDs(), built.AuthEventIDs())
					return
				}
				for id := range refs {
					if !got4[id] {
						ctx.Fail("C09/add-auth-events-insufficient/builder-used-before", "a builder prepared against an earlier state and then against the current one names %v; a fresh builder names %v", built4.AuthEventIDs(), built.AuthEventIDs())
						return
					}
				}
			}
		}
		// the same selection from a provider one of whose lookups fails (a database-backed provider):
		// either the failure is reported or the selection is the complete one
		for failAt := 1; failAt <= 6; failAt++ {
			fp := &raFailingProvider{failAt: failAt}
			eb3 := impl.NewEventBuilderFromProtoEvent(pe)
			var ferr error
			var built3 PDU
			if vfCatch(ctx, "C09/build-failing-provider", func() {
				fp.inner, _ = NewAuthEvents(full)
				if ferr = eb3.AddAuthEvents(fp); ferr != nil {
					return
				}
				_, priv := vfKeyFor("origin:x")
				built3, ferr = eb3.Build(time.UnixMilli(5000), "a.example", "ed25519:1", priv)
			}) {
				return
			}
			if !fp.failed {
				break // fewer lookups than failAt
			}
			if ferr != nil || built3 == nil {
				ctx.Class("failing-provider/reported")
				continue
			}
			ctx.Class("failing-provider/not-reported")
			got := map[string]bool{}
			for _, id := range built3.AuthEventIDs() {
				got[id] = true
			}
			for id := range refs {
				if !got[id] {
					ctx.Fail("C09/add-auth-events-insufficient/failed-lookup-not-reported", "lookup number %d of the provider failed; AddAuthEvents reported nothing and selected %v, without %s which the working provider yields", failAt, built3.AuthEventIDs(), id)
					return
				}
			}
		}
		// the same selection from a provider that does NOT hold the create event (a caller that knows
		// the create event by the room ID, as in the room versions whose room ID IS that event's ID):
		// every needed event the provider holds is still named
		var noCreate []PDU
		for _, e := range full {
			if !(e.Type() == spec.MRoomCreate && e.StateKeyEquals("")) {
				noCreate = append(noCreate, e)
			}
		}
		if len(noCreate) == len(full) {
			return
		}
		var built2 PDU
		eb2 := impl.NewEventBuilderFromProtoEvent(pe)
		if vfCatch(ctx, "C09/build-without-create", func() {
			prov, _ := NewAuthEvents(noCreate)
			if berr = eb2.AddAuthEvents(prov); berr != nil {
				return
			}
			_, priv := vfKeyFor("origin:x")
			built2, berr = eb2.Build(time.UnixMilli(5000), "a.example", "ed25519:1", priv)
		}) {
			return
		}
		if berr != nil || built2 == nil {
			ctx.Class("build-without-create-refused")
			return
		}
		ctx.Class("built-with-AddAuthEvents/provider-without-create-event")
		refs2 := map[string]bool{}
		for _, id := range built2.AuthEventIDs() {
			refs2[id] = true
		}
		for _, e := range selected {
			if e.Type() == spec.MRoomCreate && e.StateKeyEquals("") {
				continue
			}
			if !refs2[e.EventID()] {
				ctx.Fail("C09/add-auth-events-insufficient/provider-without-create-event", "with the create event the selection names %s (%s, %q); from a provider that holds everything but the create event it is missing: %v", e.EventID(), e.Type(), *e.StateKey(), built2.AuthEventIDs())
				return
			}
		}
	}
}

// The sentinel panel: for every room version a few (event, state) pairs whose verdict hangs on the
// power levels, the join rules and the memberships. Their verdicts are taken once, before this
// process has judged any generated case, and taken again after every case (for the case's version):
// a verdict is a function of the event and its state, whatever the process has looked at since.
type c09PanelEntry struct {
	version string
	what    string
	ev      PDU
	state   []PDU
	verdict string
}

var (
	c09PanelOnce sync.Once
	c09Panel     []*c09PanelEntry
)

func c09PanelEval(ctx *vfCtx, e *c09PanelEntry) (string, bool) {
	var err error
	if vfCatch(ctx, "C09/panel", func() {
		var prov *AuthEvents
		prov, err = NewAuthEvents(e.state)
		if err == nil {
			err = Allowed(e.ev, prov, vfUserIDForSender)
		}
	}) {
		return "", false
	}
	return c09Verdict(err), true
}

func c09PanelInit(ctx *vfCtx) {
	c09PanelOnce.Do(func() {
		for _, version := range vfVersions {
			var cases []c07Case
			var what []string
			for _, kind := range []string{"topic", "message", "join_rules", "custom-at-self"} {
				for _, lvl := range []int64{49, 50} {
					cases = append(cases, c07GenericCase(version, kind, "join", lvl, "", c07Alice, true, 50))
					what = append(what, fmt.Sprintf("%s by a member at level %d of 50", kind, lvl))
				}
			}
			cases = append(cases, c07GenericCase(version, "topic", "leave", 50, "", c07Alice, true, 50))
			what = append(what, "topic by a user who left")
			for i, c := range cases {
				ev, err := evTree(c.Event)
				if err != nil {
					continue
				}
				p, err := raParsePDU(version, ev)
				if err != nil {
					continue
				}
				var state []PDU
				ok := true
				for _, a := range c.Auth {
					t, err := evTree(a)
					if err != nil {
						ok = false
						break
					}
					sp, err := raParsePDU(version, t)
					if err != nil {
						ok = false
						break
					}
					state = append(state, sp)
				}
				if !ok {
					continue
				}
				e := &c09PanelEntry{version: version, what: what[i], ev: p, state: state}
				if v, ok := c09PanelEval(ctx, e); ok {
					e.verdict = v
					c09Panel = append(c09Panel, e)
				}
			}
		}
	})
}

func c09PanelRecheck(ctx *vfCtx, version string) (string, string) {
	n := 0
	for _, e := range c09Panel {
		if e.version != version {
			continue
		}
		n++
		if v, ok := c09PanelEval(ctx, e); ok && v != e.verdict {
			return "C09/verdict-depends-on-earlier-evaluations", fmt.Sprintf("room version %s, %s: the verdict was %s when the process started and is %s now, for the same event and the same state; event=%s",
				version, e.what, e.verdict, v, e.ev.JSON())
		}
	}
	if n > 0 {
		ctx.Class("sentinel-panel-rechecked")
	}
	return "", ""
}

// c09Perturb judges a few events with odd contents (refused or undecodable for the rules) against
// the state; the verdicts are ignored. It reports whether anything was evaluated.
func c09Perturb(ctx *vfCtx, version string, like jv, state []PDU) bool {
	did := false
	for _, odd := range []struct{ typ, content string }{
		// one oddity per content, so that each is what the parser stops at
		{"m.room.power_levels", `{"users":{"@odd:a.example":null}}`},
		{"m.room.power_levels", `{"events":{"org.example.odd":null}}`},
		{"m.room.power_levels", `{"notifications":{"room":null}}`},
		{"m.room.power_levels", `{"ban":null}`},
		{"m.room.power_levels", `{"users":{"@odd:a.example":1.5}}`},
		{"m.room.power_levels", `{"users_default":"abc"}`},
		{"m.room.power_levels", `{"users":{"@odd:a.example":"100"},"events":{"org.example.odd":"7"},"users_default":"50","invite":1.5}`},
		{"m.room.power_levels", `{"users":[],"events":7}`},
		{"m.room.join_rules", `{"join_rule":7,"allow":"x"}`},
		{"m.room.member", `{"membership":null}`},
	} {
		ct, _, err := jparse([]byte(odd.content))
		if err != nil {
			continue
		}
		ev := like.without("event_id", "hashes", "signatures", "unsigned", "redacts").with("type", jstr(odd.typ)).with("content", ct)
		if odd.typ == "m.room.member" {
			ev = ev.with("state_key", jstr(evStr(like, "sender")))
		} else {
			ev = ev.with("state_key", jstr(""))
		}
		if vtraits[version].IDFormat == 1 {
			ev = ev.with("event_id", jstr("$c09odd:a.example"))
		}
		p, err := raParsePDU(version, ev)
		if err != nil {
			continue
		}
		if vfCatch(ctx, "C09/perturb", func() {
			prov, perr := NewAuthEvents(state)
			if perr == nil {
				_ = Allowed(p, prov, vfUserIDForSender)
			}
			_, _ = NewPowerLevelContentFromEvent(p)
		}) {
			return did
		}
		did = true
	}
	return did
}

// c09GenEvent draws an event for the room (JSON tree), mostly membership events.
func c09GenEvent(t *rapid.T, version string, r c07Room, b c07Built, label string) vfBytes {
	sender := rapid.SampledFrom(c07Users).Draw(t, label+"sender")
	e := raEv{Sender: sender, Content: jv{K: 'o'}, Room: b.RoomID, Depth: 50, TS: 5000}
	switch rapid.IntRange(0, 13).Draw(t, label+"kind") {
	case 10:
		// event types with rules of their own in some room versions: what they are judged by must be
		// what StateNeededForAuth names for them
		dom := sender[strings.IndexByte(sender, ':')+1:]
		if rapid.IntRange(0, 3).Draw(t, label+"aliasOtherDomain") == 0 {
			dom = "elsewhere.example"
		}
		e.Type, e.StateKey, e.Content = "m.room.aliases", raSK(dom), jobj("aliases", jarr(jstr("#a:"+dom)))
	case 11:
		e.Type, e.Content = "m.room.redaction", jobj("redacts", jstr(evFakeID(t, version, label+"redacts")))
		if !vtraits[version].Creators && vtraits[version].Redaction != "v11" {
			e.Redacts = evFakeID(t, version, label+"redacts2")
		}
	case 12:
		e.Type, e.StateKey = "m.room.third_party_invite", raSK("tok2")
		e.Content = jobj("display_name", jstr("y"), "key_validity_url", jstr("https://id.example/v"), "public_key", jstr(c07PubB64("idkey1")))
	case 0, 1, 2, 3:
		e.Type, e.StateKey = "m.room.member", raSK(sender)
		e.Content = jobj("membership", jstr("join"))
		if rapid.IntRange(0, 2).Draw(t, label+"via") > 0 {
			e.Content = e.Content.with("join_authorised_via_users_server", jstr(rapid.SampledFrom([]string{c07Creator, c07Alice, c07Bob}).Draw(t, label+"viaWho")))
		}
	case 4:
		target := rapid.SampledFrom(c07Users).Draw(t, label+"target")
		e.Type, e.StateKey = "m.room.member", raSK(target)
		e.Content = jobj("membership", jstr(rapid.SampledFrom([]string{"invite", "leave", "ban", "knock"}).Draw(t, label+"mem")))
	case 5, 13:
		e.Type, e.StateKey = "m.room.member", raSK(sender)
		e.Content = jobj("membership", jstr(rapid.SampledFrom([]string{"leave", "knock"}).Draw(t, label+"mem2")))
		if m := r.Members[sender]; (m == "knock" || m == "invite") && rapid.IntRange(0, 2).Draw(t, label+"withdraw") > 0 {
			// somebody who knocked (or was invited) withdraws: a leave judged by the sender's own membership
			e.Content = jobj("membership", jstr("leave"))
		}
	case 6:
		e.Type = "m.room.message"
	case 7:
		e.Type, e.StateKey = "m.room.topic", raSK("")
	case 8:
		e.Type, e.StateKey = "m.room.power_levels", raSK("")
		if raUnjudged(raBuildState(version, b.Auth)) != "" {
			// (the edit generator works from decodable current levels)
			e.Content = jobj("users", jobj(sender, jnum(100)), "users_default", jnum(0))
		} else {
			e.Content = c08GenNewPL(t, version, r, sender)
		}
	default:
		e.Type, e.StateKey, e.Content = "m.room.join_rules", raSK(""), jobj("join_rule", jstr("public"))
	}
	if e.Type == "m.room.member" && rapid.IntRange(0, 3).Draw(t, label+"tpiBlock") == 0 {
		// a third_party_invite block on a member event of ANY membership (a join that keeps the block of
		// the invitation it accepts, a leave, an invite), with signatures of several algorithms
		target := sender
		if e.StateKey != nil {
			target = *e.StateKey
		}
		e.Content = e.Content.with("third_party_invite", jobj("display_name", jstr("x"),
			"signed", c07Signed(target, "tok", "idkey1", rapid.Bool().Draw(t, label+"tpiOtherAlgs"))))
	}
	if rapid.IntRange(0, 5).Draw(t, label+"firstJoinShape") == 0 {
		e.Prev = []string{b.CreateID}
	} else {
		e.Prev = []string{evFakeID(t, version, label+"prev")}
	}
	e.ID = "$c09" + label + ":a.example"
	return vfBytes(jplain(raJSON(version, e)))
}

// c09Resend rewrites an event so that it is sent by `sender`; member events become messages unless
// keepMember (then a self-membership event of that sender).
func c09Resend(version string, raw vfBytes, sender string, keepMember bool) vfBytes {
	t, err := evTree(raw)
	if err != nil {
		return raw
	}
	t = t.with("sender", jstr(sender))
	if evStr(t, "type") == "m.room.member" {
		if keepMember {
			t = t.with("state_key", jstr(sender))
		} else {
			t = t.with("type", jstr("m.room.message")).without("state_key")
		}
	}
	t = t.without("hashes")
	t = t.with("hashes", jobj("sha256", jstr(rcontentHash(t))))
	return vfBytes(jplain(t))
}

func c09Gen(t *rapid.T) c09Case {
	version := evGenVersion(t)
	c := c09Case{Version: version, Seed: rapid.Uint64().Draw(t, "seed"), Build: rapid.IntRange(0, 2).Draw(t, "build") == 0}
	base := c07GenRoom(t, version)
	if rapid.IntRange(0, 2).Draw(t, "forceRestricted") == 0 && vtraits[version].Restricted {
		base.JoinRule = rapid.SampledFrom([]string{"restricted", "knock_restricted"}).Draw(t, "restrictedRule")
	}
	if rapid.IntRange(0, 2).Draw(t, "roomTPI") == 0 {
		tc := jobj("display_name", jstr("x"), "key_validity_url", jstr("https://id.example/v"), "public_key", jstr(c07PubB64("idkey1")),
			"public_keys", jarr(jobj("public_key", jstr(c07PubB64("idkey1")), "key_validity_url", jstr("https://id.example/v"))))
		base.TPI = &tc
		base.TPISender = rapid.SampledFrom(c07Users).Draw(t, "roomTPISender")
	}
	if base.HasPL && rapid.Bool().Draw(t, "plEvents") {
		base.PL = base.PL.with("events", jobj("m.room.topic", jnum(int64(rapid.SampledFrom([]int{0, 50, 100}).Draw(t, "plTopic"))), "m.room.message", jnum(int64(rapid.SampledFrom([]int{0, 50, 100}).Draw(t, "plMsg")))))
	}
	variants := []c07Room{base}
	nv := rapid.IntRange(0, 2).Draw(t, "nvariants")
	for i := 0; i < nv; i++ {
		v := base
		v.Members = map[string]string{}
		for k, m := range base.Members {
			v.Members[k] = m
		}
		switch rapid.IntRange(0, 6).Draw(t, "variantKind") {
		case 5, 6:
			// power levels that do not decode (a checker that cannot refresh its cached levels must not
			// go on using parts of the old ones)
			v.HasPL = true
			v.PL = rapid.SampledFrom([]jv{
				jobj("users", jv{K: 'a'}, "events", jobj("m.room.topic", jnum(0))),
				jobj("users_default", jstr("fifty"), "events", jobj("m.room.topic", jnum(0), "m.room.message", jnum(100))),
				jobj("events", jstr("x")),
				jobj("ban", jv{K: 'o'}),
			}).Draw(t, "brokenPL")
		case 0:
			v.JoinRule = rapid.SampledFrom(c07JoinRules).Draw(t, "vjr")
		case 1:
			v.HasPL = !base.HasPL
			if v.HasPL {
				v.PL = c07PLContent(map[string]int64{c07Alice: 100, c07Bob: 50}, map[string]int64{"invite": 50, "ban": 75}, nil, nil)
			}
		case 2:
			if base.HasPL {
				v.PL = base.PL.with("users_default", jnum(int64(rapid.SampledFrom([]int{0, 50, 100}).Draw(t, "vud")))).with("invite", jnum(int64(rapid.SampledFrom([]int{0, 50, 100}).Draw(t, "vinv"))))
			}
		case 3:
			u := rapid.SampledFrom(c07Users).Draw(t, "vuser")
			v.Members[u] = rapid.SampledFrom([]string{"join", "leave", "ban", "invite", "-"}).Draw(t, "vmem")
		default:
			v.Federate = rapid.SampledFrom([]string{"", "true", "false"}).Draw(t, "vfed")
		}
		variants = append(variants, v)
	}
	if len(variants) > 1 && rapid.Bool().Draw(t, "memberFlip") {
		// a variant that differs ONLY in one user's membership
		v := base
		v.Members = map[string]string{}
		for k, m := range base.Members {
			v.Members[k] = m
		}
		u := rapid.SampledFrom(c07Users).Draw(t, "flipUser")
		if base.Members[u] == "join" {
			v.Members[u] = rapid.SampledFrom([]string{"ban", "leave"}).Draw(t, "flipTo")
		} else {
			v.Members[u] = "join"
		}
		variants = append(variants, v)
	}
	// targeted: a state whose power levels name a low requirement for one event type, and the same
	// state with power levels that do not decode (a reused checker must fall back to the defaults as
	// a whole, not keep pieces of the levels it held before)
	brokenIdx := -1
	if rapid.IntRange(0, 5).Draw(t, "decodableThenBroken") == 0 {
		if !base.HasPL {
			base.HasPL = true
			base.PL = c07PLContent(map[string]int64{c07Alice: 100}, map[string]int64{"state_default": 50}, nil, nil)
		}
		ev0, _ := base.PL.get("events")
		if ev0.K != 'o' {
			ev0 = jv{K: 'o'}
		}
		base.PL = base.PL.with("events", ev0.with("m.room.topic", jnum(0)).with("m.room.name", jnum(0)))
		variants[0] = base
		v := base
		v.Members = map[string]string{}
		for k, m := range base.Members {
			v.Members[k] = m
		}
		v.PL = rapid.SampledFrom([]jv{
			jobj("users", jv{K: 'a'}),
			jobj("users_default", jstr("fifty")),
			jobj("events", jstr("x")),
			jobj("ban", jv{K: 'o'}),
			jobj("state_default", jstr(" 50 "), "users", jobj(c07Alice, jstr("100"))),
		}).Draw(t, "dtbBroken")
		variants = append(variants, v)
		brokenIdx = len(variants) - 1
	}
	var built []c07Built
	for i, v := range variants {
		b := c07Build(v)
		built = append(built, b)
		var js []vfBytes
		dropCreate := i > 0 && rapid.IntRange(0, 5).Draw(t, "dropCreate") == 0
		for j, a := range b.Auth {
			if j == 0 && dropCreate {
				continue // a variant of the state without any create event
			}
			js = append(js, vfBytes(jplain(a)))
		}
		c.Rooms = append(c.Rooms, js)
	}
	if rapid.IntRange(0, 3).Draw(t, "redactedCopy") == 0 {
		// a variant of the base state in which one of the cached events (create / power levels / join
		// rules) is replaced by its REDACTED copy: same event ID, other content
		which := rapid.SampledFrom([]string{"m.room.power_levels", "m.room.power_levels", "m.room.join_rules", "m.room.create"}).Draw(t, "redactWhich")
		var js []vfBytes
		replaced := false
		for _, a := range built[0].Auth {
			if evStr(a, "type") == which && !replaced {
				red := rredact(version, a)
				if vtraits[version].Format == 1 {
					red = red.with("event_id", jstr(evStr(a, "event_id")))
				}
				replaced = !jequal(red, a)
				a = red
			}
			js = append(js, vfBytes(jplain(a)))
		}
		if replaced {
			variants = append(variants, base)
			built = append(built, built[0])
			c.Rooms = append(c.Rooms, js)
		}
	}
	if rapid.IntRange(0, 7).Draw(t, "foreignAuth") == 0 {
		// one of the states also holds an event of ANOTHER room (under a tuple of its own or one that is
		// already there): whatever the order of insertion, the verdict is the same
		i := rapid.IntRange(0, len(c.Rooms)-1).Draw(t, "foreignRoom")
		tmp := c07Case{Version: version, Auth: c.Rooms[i]}
		c07InjectForeign(t, version, &tmp)
		c.Rooms[i] = tmp.Auth
	}
	ns := rapid.IntRange(0, 6).Draw(t, "nsteps")
	// focused mode: one sender's events only, so that anything a checker remembers about "the last
	// sender" (membership, level) is exercised across state changes
	focus := ""
	if len(variants) > 1 && rapid.IntRange(0, 2).Draw(t, "focused") == 0 {
		focus = rapid.SampledFrom(c07Users).Draw(t, "focusSender")
	}
	for i := 0; i < ns; i++ {
		ri := rapid.IntRange(0, len(variants)-1).Draw(t, "stepRoom")
		ev := c09GenEvent(t, version, variants[ri], built[ri], fmt.Sprint("s", i))
		if focus != "" {
			ev = c09Resend(version, ev, focus, rapid.IntRange(0, 3).Draw(t, "focusKeepMember") == 0)
		}
		c.Steps = append(c.Steps, c09Step{Room: ri, Event: ev})
	}
	fr := rapid.IntRange(0, len(variants)-1).Draw(t, "finalRoom")
	c.Final = c09Step{Room: fr, Event: c09GenEvent(t, version, variants[fr], built[fr], "final")}
	if focus != "" {
		c.Final.Event = c09Resend(version, c.Final.Event, focus, false)
	}
	if brokenIdx >= 0 {
		mk := func(room int, e raEv, id string) vfBytes {
			e.Room, e.Depth, e.TS, e.Prev, e.ID = built[room].RoomID, 50, 5000, []string{evFakeID(t, version, id+"prev")}, "$c09"+id+":a.example"
			return vfBytes(jplain(raJSON(version, e)))
		}
		typ := rapid.SampledFrom([]string{"m.room.topic", "m.room.name"}).Draw(t, "dtbType")
		who := rapid.SampledFrom(c07Users).Draw(t, "dtbWho")
		c.Steps = append(c.Steps, c09Step{Room: 0, Event: mk(0, raEv{Type: typ, Sender: rapid.SampledFrom(c07Users).Draw(t, "dtbFirst"), StateKey: raSK(""), Content: jobj("x", jnum(1))}, "dtbstep")})
		c.Final = c09Step{Room: brokenIdx, Event: mk(brokenIdx, raEv{Type: typ, Sender: who, StateKey: raSK(""), Content: jobj("x", jnum(2))}, "dtbfinal")}
		fr = brokenIdx
	} else if base.HasPL && rapid.IntRange(0, 5).Draw(t, "typedThenState") == 0 {
		// a power-levels event that NAMES an event type the current levels do not list goes through the
		// checker (allowed or not — it is not applied: the state stays the same), then a state event of
		// that type is checked against the same state: its requirement is still state_default
		typ := rapid.SampledFrom([]string{"m.room.name", "org.example.widget"}).Draw(t, "ttsType")
		cur := built[0]
		var plSender, low string
		users, _ := base.PL.get("users")
		for _, u := range c07Users {
			if base.Members[u] != "join" {
				continue
			}
			lv := int64(0)
			if x, ok := users.get(u); ok && x.K == '#' {
				lv, _ = strconv.ParseInt(x.S, 10, 64)
			} else if ud, ok := base.PL.get("users_default"); ok && ud.K == '#' {
				lv, _ = strconv.ParseInt(ud.S, 10, 64)
			}
			if lv >= 50 && plSender == "" {
				plSender = u
			}
			if lv < 50 && low == "" {
				low = u
			}
		}
		if plSender == "" {
			plSender = rapid.SampledFrom(c07Users).Draw(t, "ttsPLSender")
		}
		if low == "" {
			low = rapid.SampledFrom(c07Users).Draw(t, "ttsLow")
		}
		ev0, _ := base.PL.get("events")
		if ev0.K != 'o' {
			ev0 = jobj("m.room.topic", jnum(50))
		}
		npl := base.PL.with("events", ev0.with(typ, jnum(int64(rapid.SampledFrom([]int{0, 0, 25}).Draw(t, "ttsLevel")))))
		if rapid.Bool().Draw(t, "ttsAlsoPromote") {
			// ... and is refused, because it also raises its sender above his level
			us := users
			if us.K != 'o' {
				us = jv{K: 'o'}
			}
			npl = npl.with("users", us.with(plSender, jnum(1000)))
		}
		mk := func(e raEv, id string) vfBytes {
			e.Room, e.Depth, e.TS, e.Prev, e.ID = cur.RoomID, 50, 5000, []string{evFakeID(t, version, id+"prev")}, "$c09"+id+":a.example"
			return vfBytes(jplain(raJSON(version, e)))
		}
		c.Steps = append(c.Steps, c09Step{Room: 0, Event: mk(raEv{Type: "m.room.power_levels", Sender: plSender, StateKey: raSK(""), Content: npl}, "ttspl")})
		c.Final = c09Step{Room: 0, Event: mk(raEv{Type: typ, Sender: low, StateKey: raSK(""), Content: jobj("name", jstr("n"))}, "ttsfinal")}
		fr = 0
	}
	np := rapid.IntRange(0, 3).Draw(t, "npad")
	for i := 0; i < np; i++ {
		var e raEv
		switch rapid.IntRange(0, 8).Draw(t, "padKind") {
		case 6:
			// the auth-relevant event TYPES under another state key are ordinary, un-needed state
			e = raEv{Type: "m.room.power_levels", Sender: c07Creator, StateKey: raSK("backup"), Content: jobj("users_default", jnum(100), "events_default", jnum(100), "state_default", jnum(0), "invite", jnum(100), "users", jv{K: 'o'})}
		case 7:
			e = raEv{Type: "m.room.join_rules", Sender: c07Creator, StateKey: raSK("backup"), Content: jobj("join_rule", jstr(rapid.SampledFrom([]string{"public", "invite", "knock"}).Draw(t, "padJRK")))}
		case 8:
			e = raEv{Type: "m.room.create", Sender: c07Alice, StateKey: raSK("backup"), Content: jobj("creator", jstr(c07Alice), "m.federate", jv{K: 'f'}, "room_version", jstr(version))}
		case 3:
			// a join-rules event whose content does not decode: un-needed by every non-member event
			e = raEv{Type: "m.room.join_rules", Sender: c07Creator, StateKey: raSK(""), Content: rapid.SampledFrom([]jv{jobj("join_rule", jnum(5)), jobj("join_rule", jstr("restricted"), "allow", jstr("x")), jobj("join_rule", jv{K: 'o'})}).Draw(t, "padJR")}
		case 4:
			e = raEv{Type: "m.room.third_party_invite", Sender: c07Creator, StateKey: raSK("padtok"), Content: jobj("public_keys", jstr("x"), "public_key", jnum(1))}
		case 5:
			e = raEv{Type: "m.room.member", Sender: "@zed:z.example", StateKey: raSK("@zed:z.example"), Content: jobj("membership", jnum(5))}
		case 0:
			e = raEv{Type: "m.room.topic", Sender: c07Creator, StateKey: raSK(""), Content: jobj("topic", jstr("x"))}
		case 1:
			e = raEv{Type: "m.room.member", Sender: "@zed:z.example", StateKey: raSK("@zed:z.example"), Content: jobj("membership", jstr(rapid.SampledFrom([]string{"join", "ban"}).Draw(t, "padMem")))}
		default:
			e = raEv{Type: "org.example.custom", Sender: c07Creator, StateKey: raSK(strings.Repeat("k", 1+i)), Content: jobj("a", jnum(1))}
		}
		e.Room, e.Depth, e.TS, e.Prev, e.ID = built[fr].RoomID, 40, 4000, []string{built[fr].CreateID}, fmt.Sprintf("$pad%d:a.example", i)
		c.Pad = append(c.Pad, vfBytes(jplain(raJSON(version, e))))
	}
	return c
}

// c09PLCase: one power-levels event that edits several entries of one map at once; the verdict must
// be the same on every evaluation (the rules range over maps, whose iteration order is random).
type c09PLCase struct {
	Version string    `json:"version"`
	Room    []vfBytes `json:"room"`
	Event   vfBytes   `json:"event"`
	Edits   int       `json:"edits"`
}

func c09GenPL(t *rapid.T) c09PLCase {
	version := evGenVersion(t)
	sender := rapid.SampledFrom([]string{c07Alice, c07Bob}).Draw(t, "sender")
	L := int64(rapid.SampledFrom([]int{50, 75, 100}).Draw(t, "L"))
	users := map[string]int64{sender: L}
	others := []string{c07Alice, c07Bob, c07Carol, "@dave:d.example", "@erin:e.example"}
	for _, u := range others {
		if u != sender && rapid.Bool().Draw(t, "has"+u) {
			users[u] = int64(rapid.SampledFrom([]int{0, 25, 50, 75, 100}).Draw(t, "lvl"+u))
		}
	}
	events := map[string]int64{"m.room.power_levels": rapid.SampledFrom([]int64{0, 50, L}).Draw(t, "plLevel"), "m.room.topic": 50, "a": 10, "b": 60}
	notif := map[string]int64{"room": 50, "x": 10}
	r := c07Room{Version: version, Members: map[string]string{c07Creator: "join", sender: "join"}, JoinRule: "public", HasPL: true}
	r.PL = c07PLContent(users, map[string]int64{"users_default": 0, "state_default": 50, "events_default": 0}, events, notif)
	b := c07Build(r)
	c := c09PLCase{Version: version}
	for _, a := range b.Auth {
		c.Room = append(c.Room, vfBytes(jplain(a)))
	}
	// the edit: per map, each entry keeps its value, or moves to a level around L (legal or not)
	move := func(label string, old int64) int64 {
		switch rapid.IntRange(0, 5).Draw(t, label) {
		case 0:
			return L - 1
		case 1:
			return L + 1
		case 2:
			return 0
		case 3:
			return L
		}
		return old
	}
	nu, ne, nn := map[string]int64{}, map[string]int64{}, map[string]int64{}
	for _, u := range append([]string{sender}, others...) {
		if old, ok := users[u]; ok {
			nu[u] = move("mu"+u, old)
			if nu[u] != old {
				c.Edits++
			}
		} else if u != sender && rapid.IntRange(0, 3).Draw(t, "add"+u) == 0 {
			nu[u] = move("au"+u, 0)
			c.Edits++
		}
	}
	for _, k := range []string{"m.room.power_levels", "m.room.topic", "a", "b"} {
		ne[k] = move("me"+k, events[k])
		if ne[k] != events[k] {
			c.Edits++
		}
	}
	for _, k := range []string{"room", "x"} {
		nn[k] = move("mn"+k, notif[k])
		if nn[k] != notif[k] {
			c.Edits++
		}
	}
	e := raEv{Type: "m.room.power_levels", Sender: sender, StateKey: raSK(""), Room: b.RoomID, Depth: 50, TS: 5000, Prev: []string{b.CreateID}, ID: "$c09pl:a.example"}
	e.Content = c07PLContent(nu, map[string]int64{"users_default": 0, "state_default": 50, "events_default": 0}, ne, nn)
	c.Event = vfBytes(jplain(raJSON(version, e)))
	return c
}

func c09CheckPL(ctx *vfCtx, c c09PLCase) {
	var state []PDU
	for _, raw := range c.Room {
		t, err := evTree(raw)
		if err != nil {
			ctx.Unjudged("generator: malformed event")
			return
		}
		p, err := raParsePDU(c.Version, t)
		if err != nil {
			ctx.Unjudged("generator: " + err.Error())
			return
		}
		state = append(state, p)
	}
	t, err := evTree(c.Event)
	if err != nil {
		ctx.Unjudged("generator: malformed event")
		return
	}
	final, err := raParsePDU(c.Version, t)
	if err != nil {
		ctx.Unjudged("generator: " + err.Error())
		return
	}
	if c.Edits >= 2 {
		ctx.NonTrivial()
	}
	ctx.Class(fmt.Sprintf("edits=%d", min(c.Edits, 6)))
	first := ""
	for i := 0; i < 12; i++ {
		var verr error
		if vfCatch(ctx, "C09/pl-repeat", func() {
			var prov *AuthEvents
			prov, verr = NewAuthEvents(state)
			if verr == nil {
				verr = Allowed(final, prov, vfUserIDForSender)
			}
		}) {
			return
		}
		v := c09Verdict(verr)
		if i == 0 {
			first = v
			ctx.Class("verdict/" + v)
		} else if v != first {
			ctx.Fail("C09/not-repeatable/power-levels", "evaluation %d of the same power-levels event against the same state is %s, the first was %s; event=%s", i+1, v, first, c.Event)
			return
		}
	}
}

// c09EnumTPI / c09CheckRepeat: third-party invites whose signed block carries signatures under several
// key IDs and servers (only one of which can verify): the rule ranges over maps, the verdict must not.
func c09EnumTPI(size, shard, nshards int, emit func(c07Case)) {
	idx := 0
	for _, version := range vfVersions {
		for _, tMem := range []string{"-", "leave"} {
			for _, keys := range []string{"public_key", "public_keys", "both", "both-single-valid"} {
				for _, sig := range []string{"valid+other-algorithms", "valid", "other-key"} {
					if idx%nshards == shard {
						emit(c07TPICase(version, tMem, "same", keys, sig, "", "join"))
					}
					idx++
				}
			}
		}
	}
}

func c09CheckRepeat(ctx *vfCtx, c c07Case) {
	var state []PDU
	for _, raw := range c.Auth {
		t, err := evTree(raw)
		if err != nil {
			ctx.Unjudged("generator: malformed event")
			return
		}
		p, err := raParsePDU(c.Version, t)
		if err != nil {
			ctx.Unjudged("generator: " + err.Error())
			return
		}
		state = append(state, p)
	}
	t, err := evTree(c.Event)
	if err != nil {
		ctx.Unjudged("generator: malformed event")
		return
	}
	final, err := raParsePDU(c.Version, t)
	if err != nil {
		ctx.Unjudged("generator: " + err.Error())
		return
	}
	ctx.NonTrivial()
	first := ""
	for i := 0; i < 24; i++ {
		var verr error
		if vfCatch(ctx, "C09/repeat", func() {
			var prov *AuthEvents
			prov, verr = NewAuthEvents(state)
			if verr == nil {
				verr = Allowed(final, prov, vfUserIDForSender)
			}
		}) {
			return
		}
		v := c09Verdict(verr)
		if i == 0 {
			first = v
			ctx.Class("verdict/" + v)
		} else if v != first {
			ctx.Fail("C09/not-repeatable/third-party-invite", "evaluation %d of the same third-party invite against the same state is %s, the first was %s; event=%s", i+1, v, first, c.Event)
			return
		}
	}
}

func init() {
	vfEnum("C09/third-party-invite-verdict-repeatable",
		"non-trivial = every case: a third-party invite (valid, or signed with another key) whose signed block has one or several signatures, evaluated 24 times against the same state. distinct = distinct Case JSON",
		1, 1, 4, c09EnumTPI, c09CheckRepeat)
	vfRapid("C09/power-levels-verdict-repeatable",
		"non-trivial = the power-levels event changes at least two entries across its users / events / notifications maps (so that the order in which the rules visit them could matter). distinct = distinct Case JSON",
		1500, 100000, 8, c09GenPL, c09CheckPL)
	vfRapid("C09/verdict-is-a-function-of-needed-state",
		"non-trivial = the history checked through the shared checker contains a membership event under a restricted / knock_restricted join rule, or the create / power-levels / join-rules / member state changes between two checks, and the final verdict is not decided by 'sender not in room'. distinct = distinct Case JSON",
		2000, 200000, 16, c09Gen, c09Check)
}
