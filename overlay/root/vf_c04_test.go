//go:build verif

package gomatrixserverlib

import (
	"context"
	"fmt"
	"strconv"
	"strings"
	"time"
	"unicode/utf16"

	"github.com/matrix-org/gomatrixserverlib/spec"
	"pgregory.net/rapid"
)

// C04 — a failed content hash surfaces only the redacted form.

type c04Tamper struct {
	Kind  string  `json:"kind"` // none | content_set | content_del | top_set | top_del | hash_set | hash_del | hashes_del
	Key   string  `json:"key,omitempty"`
	Value vfBytes `json:"value,omitempty"`
}

type c04Case struct {
	Version string      `json:"version"`
	Event   vfBytes     `json:"event"` // original wire JSON (reference hashed + signed by Origin)
	Origin  string      `json:"origin"`
	Tampers []c04Tamper `json:"tampers"`
	// GenuineFirst: the untampered event goes through the untrusted parser before the tampered copy
	GenuineFirst bool `json:"genuine_first,omitempty"`
	// Respell != 0: the event is sent in another JSON spelling of the same value (escapes in keys and
	// strings, white space, key order); what the receiver makes of it must not depend on the spelling
	Respell uint64 `json:"respell,omitempty"`
	// EscapeKey / EscapeMode: every occurrence of this member name on the wire is written with \uXXXX
	// escapes (first | last | all | upper); the name denotes the same key
	EscapeKey  string `json:"escape_key,omitempty"`
	EscapeMode string `json:"escape_mode,omitempty"`
	// DupKey: the wire text repeats this top-level member (name spelled as DupMode says, value null or
	// another value) after the original one. Two members with one name have no defined meaning: the
	// decoders in use pick different ones, so such an event must be refused.
	DupKey  string `json:"dup_key,omitempty"`
	DupMode string `json:"dup_mode,omitempty"` // "" | first | last | all | upper
	DupNull bool   `json:"dup_null,omitempty"`
}

func c04EscapeName(name, mode string) string {
	var sb strings.Builder
	if strings.Contains(mode, "lone-") {
		// every U+FFFD of the name is written as an escape of an unpaired surrogate, which is how any
		// JSON decoder reads such an escape; "esc+" / "+esc": the character before / after it is
		// written as an ordinary \uXXXX escape as well, so that the two escapes touch
		esc := `\udead`
		if strings.Contains(mode, "lone-high") {
			esc = `\ud83d`
		}
		rs := []rune(name)
		for i, r := range rs {
			switch {
			case r == '\ufffd':
				sb.WriteString(esc)
			case strings.HasPrefix(mode, "esc+") && i+1 < len(rs) && rs[i+1] == '\ufffd',
				strings.HasSuffix(mode, "+esc") && i > 0 && rs[i-1] == '\ufffd':
				fmt.Fprintf(&sb, "\\u%04x", r)
			default:
				sb.WriteRune(r)
			}
		}
		return sb.String()
	}
	for i, r := range name {
		esc := mode == "all" || mode == "upper" || (mode == "first" && i == 0) || (mode == "last" && i == len(name)-1)
		switch {
		case esc && r >= 0x10000:
			// an astral character is escaped as a surrogate PAIR (valid, and must be read as that character)
			r1, r2 := utf16.EncodeRune(r)
			if mode == "upper" {
				fmt.Fprintf(&sb, "\\u%04X\\u%04X", r1, r2)
			} else {
				fmt.Fprintf(&sb, "\\u%04x\\u%04x", r1, r2)
			}
		case esc && mode == "upper":
			fmt.Fprintf(&sb, "\\u%04X", r)
		case esc:
			fmt.Fprintf(&sb, "\\u%04x", r)
		default:
			sb.WriteRune(r)
		}
	}
	return sb.String()
}

// c04LoneSurrogates: key names spelled with escapes of unpaired surrogates (see c04EscapeName)
const c04LoneSurrogates = true

var c04Stripped = []string{"outlier", "destinations", "age_ts", "unsigned"}

func c04StrippedKeys(version string) []string {
	if vtraits[version].Format == 2 {
		return append(append([]string{}, c04Stripped...), "event_id")
	}
	return c04Stripped
}

// c04StateResp is a /state answer holding the given lists.
type c04StateResp struct{ state, auth EventJSONs }

func (r c04StateResp) GetStateEvents() EventJSONs { return r.state }
func (r c04StateResp) GetAuthEvents() EventJSONs  { return r.auth }

func c04Check(ctx *vfCtx, c c04Case) {
	impl, err := GetRoomVersion(RoomVersion(c.Version))
	if err != nil {
		ctx.Fail("C04/unknown-version", "version %q", c.Version)
		return
	}
	orig, terr := evTree(c.Event)
	if terr != nil {
		ctx.Unjudged("generator: malformed event")
		return
	}
	// apply the tamperings
	sent := orig
	touchedStripped := false
	for _, tm := range c.Tampers {
		val, _, verr := jparse(tm.Value)
		switch tm.Kind {
		case "content_set":
			if verr != nil {
				continue
			}
			ct, _ := sent.get("content")
			sent = sent.with("content", ct.with(tm.Key, val))
		case "content_del":
			ct, _ := sent.get("content")
			sent = sent.with("content", ct.without(tm.Key))
		case "top_set":
			if verr != nil {
				continue
			}
			sent = sent.with(tm.Key, val)
		case "top_del":
			sent = sent.without(tm.Key)
		case "hash_set":
			sent = sent.with("hashes", jobj("sha256", jstr(string(tm.Value))))
		case "hash_del":
			sent = sent.with("hashes", jv{K: 'o'})
		case "hashes_del":
			sent = sent.without("hashes")
		}
		for _, k := range c04StrippedKeys(c.Version) {
			if tm.Key == k && (tm.Kind == "top_set" || tm.Kind == "top_del") {
				touchedStripped = true
			}
		}
		ctx.Class("tamper/" + tm.Kind)
	}
	if len(c.Tampers) == 0 {
		ctx.Class("tamper/none")
	}
	wire := []byte(jplain(sent))
	if c.Respell != 0 {
		wire = []byte(jspellSeed(c.Respell, sent))
		ctx.Class("wire/respelt")
	}
	if _, present := sent.get(c.DupKey); c.DupKey != "" && !present {
		ctx.Unjudged("generator: the member to repeat is not in the event")
		return
	}
	if c.DupKey != "" && len(wire) > 2 {
		val := `"@evil:evil.example"`
		switch {
		case c.DupNull:
			val = "null"
		case c.DupKey == "depth" || c.DupKey == "origin_server_ts":
			val = "7"
		case c.DupKey == "content" || c.DupKey == "hashes" || c.DupKey == "signatures":
			val = "{}"
		}
		wire = []byte(string(wire[:len(wire)-1]) + `,"` + c04EscapeName(c.DupKey, c.DupMode) + `":` + val + `}`)
		ctx.Class("wire/duplicate-key/" + c.DupMode)
		ctx.NonTrivial()
		var dev PDU
		var derr error
		if vfCatch(ctx, "C04/duplicate-key", func() { dev, derr = impl.NewEventFromUntrustedJSON(append([]byte(nil), wire...)) }) {
			return
		}
		if derr == nil && dev != nil {
			ctx.Fail("C04/duplicate-top-level-key-accepted", "an event that repeats the top-level member %q (second spelling %q) was accepted: %q", c.DupKey, c04EscapeName(c.DupKey, c.DupMode), wire)
		}
		return
	}
	if c.EscapeKey != "" {
		wire = []byte(strings.ReplaceAll(string(wire), `"`+c.EscapeKey+`":`, `"`+c04EscapeName(c.EscapeKey, c.EscapeMode)+`":`))
		ctx.Class("wire/escaped-key/" + c.EscapeMode)
	}
	received := sent.without(c04StrippedKeys(c.Version)...)
	sentHash := ""
	if h, ok := received.get("hashes"); ok && h.K == 'o' {
		sentHash = evStr(h, "sha256")
	}
	match := sentHash != "" && sentHash == rcontentHash(received)
	if !jequal(received.without("signatures", "unsigned", "hashes"), orig.without(append([]string{"signatures", "unsigned", "hashes"}, c04StrippedKeys(c.Version)...)...)) ||
		sentHash != evStr(mustGet(orig, "hashes"), "sha256") || touchedStripped {
		ctx.NonTrivial()
	}

	var ev PDU
	// history: the genuine event is received first (as it would be from an honest server), then the
	// tampered copy - the outcome for the copy must not depend on anything remembered from the original
	if c.GenuineFirst && len(c.Tampers) > 0 {
		ctx.Class("history/genuine-event-parsed-first")
		if vfCatch(ctx, "C04/genuine-first", func() {
			if ge, gerr := impl.NewEventFromUntrustedJSON([]byte(jplain(orig))); gerr == nil && ge != nil {
				// ... and used: its typed accessors have been called
				if ge.Type() == "m.room.power_levels" {
					_, _ = ge.PowerLevels()
				}
				_, _ = ge.Membership()
				_ = ge.EventID()
			}
		}) {
			return
		}
	}
	// (events of another kind come first: one the parser refuses, one whose hash does not match - what
	// is handed out for THIS event does not depend on them)
	if len(wire)%2 == 0 {
		ctx.Class("after-other-events-were-parsed")
		for _, other := range []string{`{"type":7}`, `{"type":"m.room.member","content":[],"state_key":"x","sender":"@x:y","room_id":"!r:y"`,
			`{"type":"m.room.message","sender":"@left:behind.example","room_id":"!left:behind.example","content":{"body":"left behind"},"depth":1,"origin_server_ts":1,"prev_events":[],"auth_events":[],"hashes":{"sha256":"AAAA"},"signatures":{},"unsigned":{"left":"behind"}}`} {
			if vfCatch(ctx, "C04/other-event", func() { _, _ = impl.NewEventFromUntrustedJSON([]byte(other)) }) {
				return
			}
		}
	}
	given := append([]byte(nil), wire...)
	if vfCatch(ctx, "C04", func() { ev, err = impl.NewEventFromUntrustedJSON(given) }) {
		return
	}
	if string(given) != string(wire) {
		ctx.Fail("C04/input-overwritten", "NewEventFromUntrustedJSON changed the bytes it was given: %q now reads %q", wire, given)
		return
	}
	if verr, ok := err.(EventValidationError); ok && verr.Persistable && ev != nil {
		// "too large but persistable": the event is handed out NEXT TO the error (a field within 255
		// code points but over 255 bytes); what is handed out is judged like any other result
		ctx.Class("handed-out-with-a-persistable-size-error")
		err = nil
	}
	if err != nil {
		// the tampering may make the event unparseable (e.g. type no longer a string): that is a
		// clean rejection, outside this property
		ctx.Class("rejected")
		// ... unless the tampering is of the plainest kind - another hash value, an ordinary extra
		// content key, an unknown or stripped-on-receipt top-level key, written plainly - and the
		// genuine event itself is accepted: then the statement promises the redacted form, not a refusal
		plain := len(c.Tampers) > 0 && c.Respell == 0 && c.EscapeKey == "" && c.DupKey == ""
		for _, tm := range c.Tampers {
			switch {
			case tm.Kind == "hash_set":
			case tm.Kind == "content_set" && (tm.Key == "zz_evil" || tm.Key == "body"):
			case tm.Kind == "top_set" && (tm.Key == "foo" || tm.Key == "age_ts" || tm.Key == "outlier" || tm.Key == "destinations"):
			default:
				plain = false
			}
		}
		if plain {
			var gerr error
			if vfCatch(ctx, "C04/genuine", func() { _, gerr = impl.NewEventFromUntrustedJSON([]byte(jplain(orig))) }) {
				return
			}
			if gerr == nil {
				ctx.Fail("C04/refused-instead-of-redacted"+evKnownClass(c.Version, received), "the genuine event is accepted; with only plain redactable material altered (%d tamperings) the parser refuses it instead of returning its redacted form: %v; wire=%q", len(c.Tampers), err, wire)
				return
			}
		}
		ctx.Unjudged("tampered event rejected by the parser")
		return
	}
	view, ok := c03ViewOf(ctx, "accessors", ev)
	if !ok {
		return
	}
	// the bulk entry points for events off the wire hand out the same thing as the single-event parser
	for _, bulk := range []string{"EventJSONs.UntrustedEvents", "LineariseStateResponse"} {
		var list []PDU
		if vfCatch(ctx, "C04/"+bulk, func() {
			raw := EventJSONs{spec.RawJSON(append([]byte(nil), wire...))}
			if bulk == "LineariseStateResponse" {
				list = LineariseStateResponse(RoomVersion(c.Version), c04StateResp{state: raw})
			} else {
				list = raw.UntrustedEvents(RoomVersion(c.Version))
			}
		}) {
			return
		}
		if len(list) != 1 || list[0] == nil {
			ctx.Fail("C04/bulk-path-differs/"+bulk, "the single-event parser accepts the event, %s returns %d events; wire=%q", bulk, len(list), wire)
			continue
		}
		if string(list[0].JSON()) != string(ev.JSON()) || list[0].Redacted() != ev.Redacted() {
			ctx.Fail("C04/bulk-path-differs/"+bulk, "%s hands out %q (redacted=%v), the single-event parser %q (redacted=%v)", bulk, list[0].JSON(), list[0].Redacted(), ev.JSON(), ev.Redacted())
		}
	}
	got, gerr := evTree(ev.JSON())
	if gerr != nil {
		ctx.Fail("C04/json-malformed", "JSON() malformed: %v", gerr)
		return
	}
	// the typed accessor of power-levels events speaks for THIS object's content (whatever copy of the
	// event, redacted or not, was parsed before it)
	if view.Type == "m.room.power_levels" {
		if gc, ok := got.get("content"); ok && gc.K == 'o' {
			var pl *PowerLevelContent
			var plErr error
			if vfCatch(ctx, "C04/power-levels-accessor", func() { pl, plErr = ev.PowerLevels() }) {
				return
			}
			if plErr == nil && pl != nil {
				ctx.Class("power-levels-accessor-compared")
				for name, have := range map[string]int64{"ban": pl.Ban, "kick": pl.Kick, "redact": pl.Redact, "invite": pl.Invite,
					"events_default": pl.EventsDefault, "state_default": pl.StateDefault, "users_default": pl.UsersDefault} {
					if v, ok := gc.get(name); ok && v.K == '#' {
						if want, perr := strconv.ParseInt(v.S, 10, 64); perr == nil && want != have {
							ctx.Fail("C04/accessor-differs-from-own-content/power-levels", "PowerLevels().%s = %d, the event's own content says %d; JSON=%q", name, have, want, ev.JSON())
							return
						}
					} else if !ok {
						// left out (or redacted away): the documented default
						def := map[string]int64{"ban": 50, "kick": 50, "redact": 50, "state_default": 50}[name]
						if have != def {
							ctx.Fail("C04/accessor-differs-from-own-content/power-levels", "the event's own content has no %s, PowerLevels().%s = %d (default %d); JSON=%q", name, name, have, def, ev.JSON())
							return
						}
					}
				}
				if nv, ok := gc.get("notifications"); ok && nv.K == 'o' {
					for _, m := range nv.O {
						if m.Val.K == '#' {
							if want, perr := strconv.ParseInt(m.Val.S, 10, 64); perr == nil && pl.Notifications[m.Key] != want {
								ctx.Fail("C04/accessor-differs-from-own-content/power-levels", "PowerLevels().Notifications[%q] = %d, the event's own content says %d", m.Key, pl.Notifications[m.Key], want)
								return
							}
						}
					}
				} else if !ok {
					for k, v := range pl.Notifications {
						if k != "room" || v != 50 {
							ctx.Fail("C04/accessor-differs-from-own-content/power-levels", "the content has no notifications section, PowerLevels().Notifications = %v (default: room 50)", pl.Notifications)
							return
						}
					}
				}
			}
		}
	}
	kc := evKnownClass(c.Version, received)
	if match {
		ctx.Class("hash-match")
		if view.Redacted {
			ctx.Fail("C04/redacted-despite-matching-hash", "hash matches but event is flagged redacted; wire=%q", wire)
		}
		if !jequal(got, received) {
			ctx.Fail("C04/fields-lost-on-match", "hash matches but JSON() = %q differs from the transmitted event minus stripped keys %s", ev.JSON(), jcanon(received))
		}
		ct, _ := received.get("content")
		if !c04SameValue(view.Content, ct) {
			ctx.Fail("C04/content-lost-on-match", "Content() = %s, want %s", view.Content, jcanon(ct))
		}
	} else {
		ctx.Class("hash-mismatch")
		want := rredact(c.Version, received)
		if !view.Redacted {
			ctx.Fail("C04/not-flagged-redacted", "content hash does not match but Redacted() is false; wire=%q", wire)
		}
		if !jequal(got, want) {
			ctx.Fail("C04/unredacted-material-observable"+kc+c05DiffTag(got, want), "content hash mismatch: JSON() = %q, want exactly the redacted form %s", ev.JSON(), jcanon(want))
		}
		wc, _ := want.get("content")
		if !c04SameValue(view.Content, wc) {
			ctx.Fail("C04/unredacted-content-observable"+kc, "content hash mismatch: Content() = %s, want %s", view.Content, jcanon(wc))
		}
		if len(ev.Unsigned()) != 0 {
			ctx.Fail("C04/unsigned-observable", "content hash mismatch: Unsigned() = %q", ev.Unsigned())
		}
		// every other accessor must reflect the redacted form too
		var redacts string
		var sticky bool
		var stickyEnd time.Time
		now := time.UnixMilli(int64(ev.OriginServerTS()) + 1000)
		if vfCatch(ctx, "C04", func() {
			redacts = ev.Redacts()
			sticky = ev.IsSticky(now, now)
			stickyEnd = ev.StickyEndTime(now)
		}) {
			return
		}
		if _, kept := want.get("redacts"); !kept && redacts != "" {
			ctx.Fail("C04/stripped-key-observable/redacts", "content hash mismatch: Redacts() = %q although the top-level redacts key is not in the redacted form %q", redacts, ev.JSON())
		}
		if sticky || !stickyEnd.IsZero() {
			ctx.Fail("C04/stripped-key-observable/sticky", "content hash mismatch: IsSticky() = %v, StickyEndTime() = %v although no sticky key is in the redacted form", sticky, stickyEnd)
		}
		// the receiving server's own annotations (what PerformJoin and the invite handlers do next) leave
		// it what it is: still flagged, still only the redacted form
		var annotated [3]PDU
		var aerr [2]error
		if vfCatch(ctx, "C04/annotate", func() {
			annotated[0], aerr[0] = ev.SetUnsigned(map[string]any{"age": 1})
			if cp, perr := impl.NewEventFromUntrustedJSON(append([]byte(nil), wire...)); perr == nil && cp != nil {
				if aerr[1] = cp.SetUnsignedField("transaction_id", "c04"); aerr[1] == nil {
					annotated[1] = cp
				}
			}
			_, priv := vfKeyFor("c04:local")
			if cp, perr := impl.NewEventFromUntrustedJSON(append([]byte(nil), wire...)); perr == nil && cp != nil {
				annotated[2] = cp.Sign("local.example", "ed25519:c04", priv)
			}
		}) {
			return
		}
		for i, a := range annotated {
			label := []string{"SetUnsigned", "SetUnsignedField", "Sign"}[i]
			if a == nil || (i < 2 && aerr[i] != nil) {
				continue
			}
			if !a.Redacted() {
				ctx.Fail("C04/not-flagged-redacted/after-"+label, "content hash does not match; after %s on the parsed event Redacted() is false; wire=%q", label, wire)
			}
			at, terr := evTree(a.JSON())
			if terr != nil {
				continue
			}
			if !jequal(at.without("unsigned", "signatures"), want.without("unsigned", "signatures")) {
				ctx.Fail("C04/unredacted-material-observable/after-"+label, "content hash mismatch: after %s JSON() = %q, want the redacted form %s", label, a.JSON(), jcanon(want))
			}
		}
	}
	if len(ev.Unsigned()) != 0 {
		ctx.Fail("C04/unsigned-not-stripped", "Unsigned() = %q on an untrusted event (unsigned is stripped on receipt)", ev.Unsigned())
	}
	// identity and signature verdict
	sameRedaction := jequal(rredact(c.Version, received).without("unsigned"), rredact(c.Version, orig.without(c04StrippedKeys(c.Version)...)).without("unsigned"))
	if vtraits[c.Version].Format == 2 {
		wantID := reventID(c.Version, received)
		if view.EventID != wantID {
			ctx.Fail("C04/event-id"+kc, "EventID() = %s, reference over the received event gives %s; wire=%q", view.EventID, wantID, wire)
		}
		if sameRedaction && view.EventID != reventID(c.Version, orig) {
			ctx.Fail("C04/event-id-changed-by-redactable-tampering"+kc, "only redactable material was altered but the event ID changed")
		}
	}
	if sameRedaction {
		ctx.Class("only-redactable-material-altered")
	}
	pub, _ := vfKeyFor("origin:" + c.Origin)
	wantSig := rverify(c.Version, received, c.Origin, "ed25519:1", pub)
	stub := &vfStubVerifier{Keys: map[string]map[string]vfStubKey{c.Origin: {"ed25519:1": {Label: "origin:" + c.Origin}}}}
	var serr error
	if vfCatch(ctx, "C04", func() { serr = VerifyEventSignatures(context.Background(), ev, stub, vfUserIDForSender) }) {
		return
	}
	// ... and, whoever has to sign this kind of event (the invited user's server, the authorising
	// user's server): if only redactable material was altered, the verdict is the original event's
	viaLost := false
	if oc, ok := orig.get("content"); ok {
		if _, has := oc.get("join_authorised_via_users_server"); has {
			rc, _ := rredact(c.Version, orig).get("content")
			_, kept := rc.get("join_authorised_via_users_server")
			viaLost = !kept
		}
	}
	if viaLost {
		// room version 8 redacts the very key that names a required signer (the reason version 9
		// exists): the redacted form cannot need what it no longer says - not judged
		ctx.Class("authorising-user-is-redactable-in-this-version(signature verdict not compared)")
	}
	if sameRedaction && len(c.Tampers) > 0 && !viaLost {
		var oev PDU
		var oerr, serr0 error
		if vfCatch(ctx, "C04/original", func() {
			oev, oerr = impl.NewEventFromUntrustedJSON([]byte(jplain(orig)))
			if oerr == nil && oev != nil {
				serr0 = VerifyEventSignatures(context.Background(), oev, stub, vfUserIDForSender)
			}
		}) {
			return
		}
		if oerr == nil && oev != nil {
			ctx.Class(fmt.Sprintf("signature-verdict-compared-with-the-original/original-verifies=%v", serr0 == nil))
			if (serr0 == nil) != (serr == nil) {
				ctx.Fail("C04/signature-verdict-changed-by-redactable-tampering"+kc, "only redactable material was altered; the original event's signatures give %v, the tampered copy's %v; wire=%q", serr0, serr, wire)
			}
		}
	}
	senderDomain := ""
	if _, d, e := SplitID('@', view.Sender); e == nil {
		senderDomain = string(d)
	}
	if senderDomain == c.Origin && view.Type != "m.room.member" && vtraits[c.Version].IDFormat != 1 && c.Version != "org.matrix.msc4014" {
		// only the sender's server is required: verdict must equal the reference verdict
		if (serr == nil) != wantSig {
			ctx.Fail("C04/signature-verdict"+kc, "VerifyEventSignatures = %v but the reference verdict for the origin signature is %v; wire=%q", serr, wantSig, wire)
		}
		if sameRedaction && serr != nil {
			ctx.Fail("C04/signature-lost-by-redactable-tampering"+kc, "only redactable material was altered but the signature no longer verifies: %v", serr)
		}
	}
}

// c04SameValue compares a canonical JSON text with a value, numbers numerically (redaction below
// v6 re-encodes floats: 1.0 -> 1).
func c04SameValue(text string, want jv) bool {
	got, _, err := jparse([]byte(text))
	return err == nil && jequal(got, want)
}

func mustGet(v jv, k string) jv { r, _ := v.get(k); return r }

func c04Gen(t *rapid.T) c04Case {
	version := evGenVersion(t)
	p := evGenProto(t, version)
	if p.Type == "m.room.member" && rapid.Bool().Draw(t, "lessMember") {
		p.Type = "m.room.message"
		p.StateKey = nil
	}
	if p.StateKey != nil && p.Type != "m.room.member" && p.Type != "m.room.create" && rapid.IntRange(0, 11).Draw(t, "wideStateKey") == 0 {
		// a state key within 255 code points but over 255 bytes: "too large but persistable" on receipt
		wide := strings.Repeat(rapid.SampledFrom([]string{"é", "€", "😀"}).Draw(t, "wideChar"), rapid.SampledFrom([]int{130, 200, 255}).Draw(t, "wideLen"))
		p.StateKey = &wide
	}
	c := c04Case{Version: version, Origin: p.Origin, GenuineFirst: rapid.Bool().Draw(t, "genuineFirst")}
	if rapid.IntRange(0, 2).Draw(t, "respelt") == 0 {
		c.Respell = rapid.Uint64Min(1).Draw(t, "respell")
	}
	c.Event = c05Wire(p, jv{K: 'o'}, p.Origin, "")
	o := jgenOpts{MaxDepth: 2, MaxWidth: 3, IntsOnly: true}
	n := rapid.SampledFrom([]int{0, 1, 1, 1, 2}).Draw(t, "ntamper")
	for i := 0; i < n; i++ {
		tm := c04Tamper{Kind: rapid.SampledFrom([]string{"content_set", "content_set", "content_del", "top_set", "top_set", "top_del", "hash_set", "hash_del", "hashes_del"}).Draw(t, "kind")}
		switch tm.Kind {
		case "content_set":
			tm.Key = rapid.SampledFrom(append([]string{"zz_evil", "body"}, evInterestingContentKeys...)).Draw(t, "ckey")
			tm.Value = vfBytes(jplain(evGenContentValue(t, version, tm.Key)))
		case "content_del":
			ct, _, _ := jparse(p.Content)
			if len(ct.O) == 0 {
				continue
			}
			tm.Key = ct.O[rapid.IntRange(0, len(ct.O)-1).Draw(t, "cdel")].Key
		case "top_set":
			tm.Key = rapid.SampledFrom([]string{"unsigned", "age_ts", "outlier", "destinations", "event_id", "foo", "origin", "membership", "prev_state", "redacts", "redacts", "sticky", "msc4354_sticky", "depth", "origin_server_ts",
				// look-alikes of event fields: other letter case, or letters that fold to ASCII (U+017F, U+212A)
				"\u017fender", "Sender", "state_Key", "state_\u212aey", "Type", "room_ID", "Content", "Redacts", "Depth", "Hashes",
				// ... of EVERY top-level name some version's keep-list or parser knows
				"Origin", "ORIGIN", "Membership", "Prev_State", "Auth_Events", "Prev_Events", "Origin_Server_TS", "origin_\u017ferver_ts", "Signatures",
				"Unsigned", "Event_ID", "Sticky", "MSC4354_sticky", "\u017ftate_key", "\u017fignatures", "un\u017figned"}).Draw(t, "tkey")
			switch tm.Key {
			case "\u017fender", "Sender":
				tm.Value = vfBytes(`"@evil:evil.example"`)
			case "state_Key", "state_\u212aey":
				tm.Value = vfBytes(`"forged"`)
			case "Type":
				tm.Value = vfBytes(`"m.room.create"`)
			case "room_ID":
				tm.Value = vfBytes(`"!elsewhere:evil.example"`)
			case "Content", "Hashes":
				tm.Value = vfBytes(`{"zz_evil":1}`)
			case "Redacts":
				tm.Value = vfBytes(`"$x:y"`)
			case "Depth":
				tm.Value = vfBytes(`7`)
			case "Origin", "ORIGIN":
				tm.Value = vfBytes(`"evil.example"`)
			case "Membership":
				tm.Value = vfBytes(`"ban"`)
			case "Prev_State", "Auth_Events", "Prev_Events":
				tm.Value = vfBytes(`[]`)
			case "Origin_Server_TS", "origin_\u017ferver_ts":
				tm.Value = vfBytes(`12345`)
			case "Signatures", "\u017fignatures", "Unsigned", "un\u017figned":
				tm.Value = vfBytes(`{"evil.example":{"ed25519:1":"AAAA"}}`)
			case "Event_ID":
				tm.Value = vfBytes(`"$evil:evil.example"`)
			case "Sticky", "MSC4354_sticky":
				tm.Value = vfBytes(`{"duration_ms":600000}`)
			case "\u017ftate_key":
				tm.Value = vfBytes(`"forged"`)
			case "sticky", "msc4354_sticky":
				tm.Value = vfBytes(`{"duration_ms":600000}`)
			case "redacts":
				tm.Value = vfBytes(`"$x:y"`)
			case "depth", "origin_server_ts", "age_ts":
				tm.Value = vfBytes(fmt.Sprint(rapid.IntRange(0, 99999).Draw(t, "num")))
			case "event_id":
				tm.Value = vfBytes(`"$evil:evil.example"`)
			case "unsigned":
				tm.Value = vfBytes(jplain(jgenObject(t, o, 0, "uns")))
			default:
				tm.Value = vfBytes(jplain(jgenValue(t, o, 1, "tv")))
			}
		case "top_del":
			tm.Key = rapid.SampledFrom([]string{"unsigned", "origin", "prev_state", "redacts", "hashes", "depth"}).Draw(t, "tdel")
		case "hash_set":
			tm.Value = vfBytes(rapid.SampledFrom([]string{"AAAA", "", "!!notbase64!!", "47DEQpj8HBSa+/TImW+5JCeuQeRkm5NMpJWZG3hSuFU", "47DEQpj8HBSa-_TImW-5JCeuQeRkm5NMpJWZG3hSuFU"}).Draw(t, "hv"))
		}
		c.Tampers = append(c.Tampers, tm)
	}
	return c
}

// c04EnumEscapedKeys: a genuine event with one top-level key added - a key that is stripped on receipt,
// an envelope field, or an unknown key - whose name is written with escapes on the wire.
func c04EnumEscapedKeys(size, shard, nshards int, emit func(c04Case)) {
	idx := 0
	sk := ""
	for _, v := range vfVersions {
		for _, typ := range []string{"m.room.message", "m.room.topic"} {
			p := evProto{Version: v, Type: typ, Sender: "@alice:a.example", RoomID: "!room:a.example", Content: vfBytes(`{"body":"hello","topic":"t"}`),
				Prev: []string{"$p1:a.example"}, Auth: []string{"$a1:a.example"}, Depth: 7, TS: 1700000000000, Origin: "a.example", KeyID: "ed25519:1", Key: "origin:a.example"}
			if typ == "m.room.topic" {
				p.StateKey = &sk
			}
			if vtraits[v].Creators {
				p.RoomID = "!" + strings.Repeat("A", 43)
			}
			if vtraits[v].IDFormat != 1 {
				p.Prev, p.Auth = []string{"$" + strings.Repeat("B", 43)}, []string{"$" + strings.Repeat("C", 43)}
			}
			ev := c05Wire(p, jv{K: 'o'}, p.Origin, "")
			for _, key := range []string{"unsigned", "age_ts", "outlier", "destinations", "event_id", "zz_unknown", "origin", "redacts", "prev_state"} {
				val := vfBytes(`{"age":1,"prev_content":{"body":"old"}}`)
				switch key {
				case "age_ts":
					val = vfBytes(`1700000000123`)
				case "outlier":
					val = vfBytes(`true`)
				case "destinations":
					val = vfBytes(`["evil.example"]`)
				case "event_id", "redacts":
					val = vfBytes(`"$evil:evil.example"`)
				case "origin":
					val = vfBytes(`"evil.example"`)
				}
				if key == "unsigned" {
					// look-alikes of every envelope / keep-list name (other letter case, letters folding to ASCII)
					for _, base := range []string{"auth_events", "content", "depth", "event_id", "hashes", "membership", "msc4354_sticky", "origin",
						"origin_server_ts", "prev_events", "prev_state", "redacts", "room_id", "sender", "signatures", "state_key", "sticky", "type", "unsigned"} {
						alikes := []string{strings.ToUpper(base[:1]) + base[1:], strings.ToUpper(base)}
						if i := strings.IndexByte(base, 's'); i >= 0 {
							alikes = append(alikes, base[:i]+"\u017f"+base[i+1:])
						}
						if i := strings.IndexByte(base, 'k'); i >= 0 {
							alikes = append(alikes, base[:i]+"\u212a"+base[i+1:])
						}
						for _, ak := range alikes {
							lv := vfBytes(`"@evil:evil.example"`)
							switch base {
							case "depth", "origin_server_ts":
								lv = vfBytes(`7`)
							case "content", "hashes", "signatures", "unsigned", "sticky", "msc4354_sticky":
								lv = vfBytes(`{"duration_ms":600000}`)
							case "auth_events", "prev_events", "prev_state":
								lv = vfBytes(`[]`)
							}
							if idx%nshards == shard {
								emit(c04Case{Version: v, Event: ev, Origin: p.Origin, Tampers: []c04Tamper{{Kind: "top_set", Key: ak, Value: lv}}})
							}
							idx++
						}
					}
					// unknown keys holding an astral character, spelled literally or as an escaped surrogate
					// pair: the same key in every spelling (covered by the hash like any unknown key)
					for _, name := range []string{"smile\U0001F600", "\U0001F600", "a\U00010000b\U0010FFFF"} {
						for _, mode := range []string{"", "first", "last", "all", "upper"} {
							for _, gf := range []bool{false, true} {
								if idx%nshards == shard {
									emit(c04Case{Version: v, Event: ev, Origin: p.Origin, Tampers: []c04Tamper{{Kind: "top_set", Key: name, Value: vfBytes(`{"evil":1}`)}}, GenuineFirst: gf, EscapeKey: name, EscapeMode: mode})
								}
								idx++
							}
						}
					}
					// names that become an envelope / stripped name when an unpaired-surrogate escape is
					// DROPPED instead of being read as U+FFFD: "unsigned\udead" is an unknown key
					for _, base := range []string{"auth_events", "content", "depth", "event_id", "hashes", "membership", "origin",
						"origin_server_ts", "prev_events", "redacts", "room_id", "sender", "signatures", "state_key", "type", "unsigned",
						"outlier", "destinations", "age_ts"} {
						if !c04LoneSurrogates {
							break
						}
						for _, name := range []string{base + "\ufffd", "\ufffd" + base, base[:2] + "\ufffd" + base[2:]} {
							for _, mode := range []string{"lone-low", "lone-high", "esc+lone-low", "lone-high+esc"} {
								if idx%nshards == shard {
									emit(c04Case{Version: v, Event: ev, Origin: p.Origin, Tampers: []c04Tamper{{Kind: "top_set", Key: name, Value: vfBytes(`{"evil":1}`)}}, EscapeKey: name, EscapeMode: mode})
								}
								idx++
							}
						}
					}
					// duplicates of the envelope fields, in every spelling, with a null or another value
					for _, dk := range []string{"sender", "type", "room_id", "state_key", "content", "depth", "origin_server_ts", "hashes", "signatures", "redacts"} {
						for _, mode := range []string{"", "first", "last", "all", "upper"} {
							for _, isNull := range []bool{true, false} {
								if idx%nshards == shard {
									emit(c04Case{Version: v, Event: ev, Origin: p.Origin, DupKey: dk, DupMode: mode, DupNull: isNull})
								}
								idx++
							}
						}
					}
				}
				for _, mode := range []string{"", "first", "last", "all", "upper"} {
					for _, gf := range []bool{false, true} {
						if idx%nshards == shard {
							emit(c04Case{Version: v, Event: ev, Origin: p.Origin, Tampers: []c04Tamper{{Kind: "top_set", Key: key, Value: val}}, GenuineFirst: gf, EscapeKey: key, EscapeMode: mode})
						}
						idx++
					}
				}
			}
		}
	}
}

func init() {
	vfEnum("C04/escaped-key-names", "non-trivial = every case: a genuine event with one added top-level key (stripped on receipt, an envelope field outside the keep-list, or unknown) whose NAME is written plainly or with \\uXXXX escapes (first / last / every character, upper-case hex) on the wire. distinct = distinct Case JSON",
		1, 1, 4, c04EnumEscapedKeys, c04Check)
	vfRapid("C04/content-hash",
		"non-trivial = a tampering was applied that changed the hashed bytes, the hash itself, or a key stripped on receipt; distinct = distinct Case JSON",
		1500, 160000, 16, c04Gen, c04Check)
}
