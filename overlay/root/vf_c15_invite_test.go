//go:build verif

package gomatrixserverlib

import (
	"bytes"
	"context"
	"crypto/ed25519"
	"encoding/base64"
	"fmt"

	"github.com/matrix-org/gomatrixserverlib/spec"
	"pgregory.net/rapid"
)

// C15/invite (HandleInvite) and C15/invite-v3 (HandleInviteV3).
//
// HandleInvite accepts an event only if it is an invite (m.room.member, membership invite), its room
// matches the request, the sender's server has validly signed it (strict rule) and the invited user
// is not already joined to a room the server knows; what it returns carries a valid signature of the
// local (= invited user's) server over the unmodified event. The API has no request origin and no
// event ID, so those guards of the statement do not apply. An event whose state key is not the
// invited user the caller named is outside the statement (class target-differs, "already joined"
// not judged there).
//
// HandleInviteV3 (pseudo-ID rooms) receives an unsigned proto event: the guards are room, invite,
// not already joined; the returned event must be the proto event with the invited user's pseudo ID
// as state key, validly signed by that pseudo ID.

type c15InviteCase struct {
	Version     string   `json:"version"`
	ReqRoom     string   `json:"req_room"`
	Invited     string   `json:"invited"`
	Event       vfBytes  `json:"event"`
	Keys        []c15Key `json:"keys"`
	Known       bool     `json:"known_room"`
	KnownErr    bool     `json:"known_err,omitempty"`
	Existing    string   `json:"existing_membership"`
	ExistingErr bool     `json:"existing_err,omitempty"`
	Stripped    int      `json:"stripped_given"` // stripped-state entries supplied with the request
	StateMode   string   `json:"state_mode"`     // answer of StateQuerier.GetState: events | nil | empty | err
	Faults      []string `json:"faults"`
	// LocalEntry: the incoming event already lists signatures[invited user's server][the local key
	// ID] — junk | stale (the local key over other content) | other-key. It is not a signature of
	// the local server over this event; what comes back must still carry one.
	LocalEntry string `json:"local_entry,omitempty"`
	// VerifierErr: the key verifier itself fails; UnknownVersion: the request names a room version the
	// library does not know. Nothing may be accepted then.
	VerifierErr    bool `json:"verifier_err,omitempty"`
	UnknownVersion bool `json:"unknown_version,omitempty"`
}

type c15RoomQuerier struct {
	known bool
	err   bool
}

func (q *c15RoomQuerier) IsKnownRoom(ctx context.Context, roomID spec.RoomID) (bool, error) {
	if q.err {
		return false, fmt.Errorf("c15 scripted room querier error")
	}
	return q.known, nil
}

type c15StateQuerier struct {
	mode   string
	events []PDU
}

func (q *c15StateQuerier) GetAuthEvents(ctx context.Context, event PDU) (AuthEventProvider, error) {
	return nil, fmt.Errorf("c15: GetAuthEvents is not expected to be called")
}

func (q *c15StateQuerier) GetState(ctx context.Context, roomID spec.RoomID, stateWanted []StateKeyTuple) ([]PDU, error) {
	switch q.mode {
	case "err":
		return nil, fmt.Errorf("c15 scripted state querier error")
	case "nil":
		return nil, nil
	case "empty":
		return []PDU{}, nil
	}
	return q.events, nil
}

// c15InviteEnv prepares the queriers shared by both invite APIs.
func c15InviteEnv(version string, known, knownErr bool, existing string, existingErr bool, stripped int, stateMode string) (*c15RoomQuerier, *c15Membership, *c15StateQuerier, []InviteStrippedState, error) {
	b := c15NewRoom(version, nil, "=")
	b.add(raEv{Type: "m.room.join_rules", Sender: c15Creator, StateKey: raSK(""), Content: jobj("join_rule", jstr("invite"))})
	pdus, err := c15ParseAll(version, b.stateEvents())
	if err != nil {
		return nil, nil, nil, nil, err
	}
	var ss []InviteStrippedState
	for i := 0; i < stripped && i < len(pdus); i++ {
		ss = append(ss, NewInviteStrippedState(pdus[i]))
	}
	return &c15RoomQuerier{known: known, err: knownErr}, &c15Membership{answer: existing, err: existingErr}, &c15StateQuerier{mode: stateMode, events: pdus}, ss, nil
}

// available: nothing but the guards stands between the request and success
func c15InviteAvailable(known, knownErr, existingErr bool, stripped int, stateMode string) bool {
	if knownErr || (known && existingErr) {
		return false
	}
	if stripped > 0 {
		return true
	}
	switch stateMode {
	case "events":
		return true
	case "err":
		return false
	}
	return !known
}

func c15InviteCheck(ctx *vfCtx, c c15InviteCase) {
	ev, err := evTree(c.Event)
	if err != nil {
		ctx.Unjudged("generator: malformed event")
		return
	}
	roomID, err1 := spec.NewRoomID(c.ReqRoom)
	invited, err2 := spec.NewUserID(c.Invited, true)
	impl, err3 := GetRoomVersion(RoomVersion(c.Version))
	if err1 != nil || err2 != nil || err3 != nil {
		ctx.Unjudged("generator: request parameters do not parse")
		return
	}
	pdu, err := impl.NewEventFromUntrustedJSON(c.Event)
	if err != nil {
		ctx.Class("event-refused-by-parser")
		ctx.Unjudged("the caller could not have parsed the event: " + err.Error())
		return
	}
	content, _ := ev.get("content")
	typ := evStr(ev, "type")
	sender := evStr(ev, "sender")
	membership, _ := raStr(content, "membership")
	sk, hasSK := ev.get("state_key")
	targetMatches := hasSK && sk.K == 's' && sk.S == c.Invited

	gMember := typ == "m.room.member"
	gInvite := membership == "invite"
	gRoom := evStr(ev, "room_id") == c.ReqRoom
	gSigned := c15UserOK(sender) && c15SignedBy(c.Version, ev, c15Domain(sender), c.Keys)
	gNotJoined := !(c.Known && c.Existing == "join")
	guards := []struct {
		ok   bool
		name string
	}{
		{gMember, "not-a-member-event"}, {gInvite, "membership-not-invite"}, {gRoom, "room-mismatch"},
		{gSigned, "not-validly-signed-by-senders-server"}, {gNotJoined || !targetMatches, "already-joined"},
	}
	violated := 0
	for _, g := range guards {
		if !g.ok {
			violated++
			ctx.Class("violated/" + g.name)
		}
	}
	if !targetMatches {
		ctx.Class("target-differs-from-invited-user")
		ctx.Unjudged("state key is not the invited user named by the caller: 'already joined' not judged")
	}
	available := c15InviteAvailable(c.Known, c.KnownErr, c.ExistingErr, c.Stripped, c.StateMode)
	allGood := violated == 0 && targetMatches && available && !c.VerifierErr && !c.UnknownVersion
	if allGood {
		ctx.Class("all-guards-hold")
	}
	if c.VerifierErr {
		ctx.Class("verifier-fails")
	}
	if c.UnknownVersion {
		ctx.Class("unknown-room-version")
	}
	ctx.Class(fmt.Sprintf("known=%v/existing=%s", c.Known, c.Existing))
	switch c15Domain(sender) {
	case c15Domain(c.Invited):
		ctx.Class(fmt.Sprintf("sender-server/local(=invited user's)/validly-signed=%v", gSigned))
	case c15Remote:
		ctx.Class(fmt.Sprintf("sender-server/remote/validly-signed=%v", gSigned))
	default:
		ctx.Class(fmt.Sprintf("sender-server/other/validly-signed=%v", gSigned))
	}
	for _, f := range c.Faults {
		ctx.Class("gen/" + f)
	}
	if c.LocalEntry != "" {
		ctx.Class("incoming-event-lists-a-local-signature-entry/" + c.LocalEntry)
	}
	if violated <= 1 {
		ctx.NonTrivial()
	}

	rq, mq, sq, ss, err := c15InviteEnv(c.Version, c.Known, c.KnownErr, c.Existing, c.ExistingErr, c.Stripped, c.StateMode)
	if err != nil {
		ctx.Unjudged("generator: room state does not parse: " + err.Error())
		return
	}
	_, priv := vfKeyFor(c15KeyLabel(c15Domain(c.Invited)))
	var out PDU
	var herr error
	var verifier JSONVerifier = c15Ring(c.Keys)
	if c.VerifierErr {
		verifier = c15FailingVerifier{}
	}
	reqVersion := RoomVersion(c.Version)
	if c.UnknownVersion {
		reqVersion = "org.example.c15.unknown"
	}
	if vfCatch(ctx, "C15/invite", func() {
		out, herr = HandleInvite(c15Quiet(), HandleInviteInput{
			RoomID: *roomID, RoomVersion: reqVersion, InvitedUser: *invited, InvitedSenderID: spec.SenderID(c.Invited),
			InviteEvent: pdu, StrippedState: ss, KeyID: c15KeyID, PrivateKey: priv, Verifier: verifier,
			RoomQuerier: rq, MembershipQuerier: mq, StateQuerier: sq, UserIDQuerier: vfUserIDForSender,
		})
	}) {
		return
	}
	accepted := herr == nil && out != nil
	if accepted {
		ctx.Class("outcome/accepted")
	} else {
		ctx.Class("outcome/refused")
	}
	if herr == nil && !accepted {
		ctx.Fail("C15/invite/no-error-no-event", "HandleInvite returned neither an error nor an event")
		return
	}
	if accepted && c.VerifierErr {
		ctx.Fail("C15/invite/accepted-despite/verifier-failure", "HandleInvite accepted and counter-signed an event although the key verifier failed (no signature was checked): %s", c.Event)
	}
	if accepted && c.UnknownVersion {
		ctx.Fail("C15/invite/accepted-despite/unknown-room-version", "HandleInvite accepted an event for a room version it does not know")
	}
	if accepted {
		for _, g := range guards {
			if !g.ok {
				ctx.Fail("C15/invite/accepted-despite/"+g.name, "HandleInvite accepted and counter-signed an event although guard %q is violated: room=%s invited=%s known=%v existing=%q event=%s",
					g.name, c.ReqRoom, c.Invited, c.Known, c.Existing, c.Event)
			}
		}
		c15CheckCountersigned(ctx, "invite", c.Version, ev, out.JSON(), c15Domain(c.Invited), c15KeyID, c15KeyLabel(c15Domain(c.Invited)))
	}
	if allGood && !accepted {
		ctx.Fail("C15/invite/refused-although-all-guards-hold", "HandleInvite refused (%v) an invite for which every guard holds: %s", herr, c.Event)
	}
}

func c15GenInviteEnv(t *rapid.T, faults *[]string) (known, knownErr bool, existing string, existingErr bool, stripped int, stateMode string) {
	known = rapid.Bool().Draw(t, "known")
	existing = rapid.SampledFrom([]string{"", "leave", "invite", "ban", "knock"}).Draw(t, "existing")
	stripped = rapid.SampledFrom([]int{0, 0, 1, 2}).Draw(t, "stripped")
	stateMode = "events"
	if !known && rapid.Bool().Draw(t, "noState") {
		stateMode = rapid.SampledFrom([]string{"nil", "empty"}).Draw(t, "stateMode")
	}
	return
}

func c15InviteGen(t *rapid.T) c15InviteCase {
	c := c15InviteCase{}
	c.Version = rapid.SampledFrom(c15Versions).Draw(t, "version")
	room := c15PlainRoomID(c.Version, "room")
	c.ReqRoom = room
	c.Invited = rapid.SampledFrom([]string{c15Lara, c15Leo}).Draw(t, "invited")
	c.Known, c.KnownErr, c.Existing, c.ExistingErr, c.Stripped, c.StateMode = c15GenInviteEnv(t, &c.Faults)
	// the inviting user's server: the usual remote, another remote, or the LOCAL (= invited user's) server;
	// in the last case the handler's own counter-signature must not be able to stand in for the sender's
	localSender := c15Creator
	if c.Invited == c15Lara && rapid.Bool().Draw(t, "localSenderWho") {
		localSender = c15Leo
	}
	typ, membership := "m.room.member", "invite"
	sender := rapid.SampledFrom([]string{c15Rita, c15Rita, c15Otto, localSender, localSender}).Draw(t, "sender")
	stateKey := raSK(c.Invited)
	evRoom := room
	sigFault := ""
	if sender != c15Rita && rapid.IntRange(0, 2).Draw(t, "senderSigFaulty") > 0 {
		sigFault = rapid.SampledFrom(c15SigFaults).Draw(t, "senderSigFault")
		c.Faults = append(c.Faults, "sig")
	}
	nf := rapid.SampledFrom([]int{0, 0, 1, 1, 1, 1, 2}).Draw(t, "nFaults")
	for i := 0; i < nf; i++ {
		f := rapid.SampledFrom([]string{"type", "type", "membership", "state-key", "room", "sig", "sig", "sender-malformed", "joined", "querier", "no-state"}).Draw(t, "fault")
		c.Faults = append(c.Faults, f)
		switch f {
		case "type":
			typ = rapid.SampledFrom([]string{"m.room.message", "m.room.topic", "org.example.custom", "m.room.power_levels", "m.room.create"}).Draw(t, "otherType")
			switch typ {
			case "m.room.message":
				stateKey = nil
			case "m.room.topic", "m.room.power_levels", "m.room.create":
				if rapid.Bool().Draw(t, "emptySK") {
					stateKey = raSK("")
				}
			}
		case "membership":
			membership = rapid.SampledFrom([]string{"join", "leave", "ban", "knock", "-", "INVITE"}).Draw(t, "otherMembership")
		case "state-key":
			stateKey = raSK(rapid.SampledFrom([]string{c15Otto, c15Rita, c15Creator}).Draw(t, "otherTarget"))
		case "room":
			if rapid.Bool().Draw(t, "roomWhich") {
				evRoom = c15OtherRoom(t, c.Version)
			} else {
				c.ReqRoom = c15OtherRoom(t, c.Version)
			}
		case "sig":
			sigFault = rapid.SampledFrom(c15SigFaults).Draw(t, "sigFault")
		case "sender-malformed":
			sender = rapid.SampledFrom([]string{"rita:remote.example", "@rita", "remote.example"}).Draw(t, "badSender")
		case "joined":
			c.Known, c.Existing = true, "join"
		case "querier":
			switch rapid.IntRange(0, 2).Draw(t, "querierFault") {
			case 0:
				c.KnownErr = true
			case 1:
				c.Known, c.ExistingErr = true, true
			default:
				c.Stripped, c.StateMode = 0, "err"
			}
		case "no-state":
			c.Known, c.Stripped = true, 0
			c.StateMode = rapid.SampledFrom([]string{"nil", "empty"}).Draw(t, "stateMode2")
		}
	}
	content := jv{K: 'o'}
	if membership != "-" {
		content = content.with("membership", jstr(membership))
	}
	if typ == "m.room.message" {
		content = content.with("msgtype", jstr("m.text")).with("body", jstr("please countersign"))
	}
	e := raEv{Type: typ, Sender: sender, Room: evRoom, StateKey: stateKey, Content: content,
		Prev: []string{c15FakeEventID(c.Version, "prev")}, Auth: []string{c15FakeEventID(c.Version, "auth1"), c15FakeEventID(c.Version, "auth2")},
		Depth: 9, TS: c15TS, ID: "$c15invite:" + c15Remote}
	ev := raJSON(c.Version, e)
	signer := c15Domain(sender)
	if signer == "" {
		signer = c15Remote
	}
	ev, c.Keys = c15ApplySigFault(c.Version, ev, signer, sigFault)
	if local := c15Domain(c.Invited); local != "" && local != signer && rapid.IntRange(0, 5).Draw(t, "localEntry") == 0 {
		c.LocalEntry = rapid.SampledFrom([]string{"junk", "stale", "other-key"}).Draw(t, "localEntryKind")
		ev = c15WithLocalEntry(c.Version, ev, local, c.LocalEntry)
	}
	c.Event = vfBytes(jplain(ev))
	switch rapid.IntRange(0, 19).Draw(t, "infraFault") {
	case 0:
		c.VerifierErr = true
	case 1:
		c.UnknownVersion = true
	}
	return c
}

// c15WithLocalEntry puts a value that is NOT the local server's signature over the event under
// signatures[local][c15KeyID].
func c15WithLocalEntry(version string, ev jv, local, kind string) jv {
	var val string
	switch kind {
	case "junk":
		val = base64.RawStdEncoding.EncodeToString(bytes.Repeat([]byte{0x5a}, 64))
	case "stale":
		_, priv := vfKeyFor(c15KeyLabel(local))
		other := rsign(version, ev.with("depth", jnum(8)), local, c15KeyID, priv)
		val, _ = c02SigOfTree(other, local, c15KeyID)
	default:
		_, priv := vfKeyFor("c15:impostor")
		other := rsign(version, ev, local, c15KeyID, priv)
		val, _ = c02SigOfTree(other, local, c15KeyID)
	}
	sigs, ok := ev.get("signatures")
	if !ok || sigs.K != 'o' {
		sigs = jv{K: 'o'}
	}
	return ev.with("signatures", sigs.with(local, jobj(c15KeyID, jstr(val))))
}

// ---------------------------------------------------------------------------------------------
// HandleInviteV3

type c15InviteV3Case struct {
	Version     string  `json:"version"`
	ReqRoom     string  `json:"req_room"`
	Invited     string  `json:"invited"`
	Type        string  `json:"type"`
	Room        string  `json:"room"`
	Content     vfBytes `json:"content"`
	PresetSK    *string `json:"preset_state_key"`
	SenderIDErr bool    `json:"sender_id_err,omitempty"`
	Known       bool    `json:"known_room"`
	KnownErr    bool    `json:"known_err,omitempty"`
	Existing    string  `json:"existing_membership"`
	ExistingErr bool    `json:"existing_err,omitempty"`
	Stripped    int     `json:"stripped_given"`
	StateMode   string  `json:"state_mode"`
}

func c15PseudoID(label string) (string, ed25519.PrivateKey) {
	pub, priv := vfKeyFor("c15:pseudo:" + label)
	return base64.RawStdEncoding.EncodeToString(pub), priv
}

func c15InviteV3Check(ctx *vfCtx, c c15InviteV3Case) {
	roomID, err1 := spec.NewRoomID(c.ReqRoom)
	invited, err2 := spec.NewUserID(c.Invited, true)
	content, fl, err3 := jparse(c.Content)
	if err1 != nil || err2 != nil || err3 != nil || content.K != 'o' || fl.DupKeys {
		ctx.Unjudged("generator: request parameters do not parse")
		return
	}
	inviter, _ := c15PseudoID("inviter")
	invitee, inviteePriv := c15PseudoID(c.Invited)
	membership, _ := raStr(content, "membership")
	gMember := c.Type == "m.room.member"
	gInvite := membership == "invite"
	gRoom := c.Room == c.ReqRoom
	gNotJoined := !(c.Known && c.Existing == "join")
	guards := []struct {
		ok   bool
		name string
	}{{gMember, "not-a-member-event"}, {gInvite, "membership-not-invite"}, {gRoom, "room-mismatch"}, {gNotJoined, "already-joined"}}
	violated := 0
	for _, g := range guards {
		if !g.ok {
			violated++
			ctx.Class("violated/" + g.name)
		}
	}
	allGood := violated == 0 && !c.SenderIDErr && c15InviteAvailable(c.Known, c.KnownErr, c.ExistingErr, c.Stripped, c.StateMode)
	if allGood {
		ctx.Class("all-guards-hold")
	}
	if violated <= 1 {
		ctx.NonTrivial()
	}
	rq, mq, sq, ss, err := c15InviteEnv(c.Version, c.Known, c.KnownErr, c.Existing, c.ExistingErr, c.Stripped, c.StateMode)
	if err != nil {
		ctx.Unjudged("generator: room state does not parse: " + err.Error())
		return
	}
	proto := ProtoEvent{SenderID: inviter, RoomID: c.Room, Type: c.Type, StateKey: c.PresetSK, Depth: 9, Content: spec.RawJSON(c.Content),
		PrevEvents: []string{c15FakeEventID(c.Version, "prev")}, AuthEvents: []string{c15FakeEventID(c.Version, "auth1")}}
	_, localPriv := vfKeyFor(c15KeyLabel(c15Local))
	var out PDU
	var herr error
	if vfCatch(ctx, "C15/invite-v3", func() {
		out, herr = HandleInviteV3(c15Quiet(), HandleInviteV3Input{
			HandleInviteInput: HandleInviteInput{
				RoomID: *roomID, RoomVersion: RoomVersion(c.Version), InvitedUser: *invited, InvitedSenderID: spec.SenderID(invitee),
				StrippedState: ss, KeyID: c15KeyID, PrivateKey: localPriv, Verifier: c15Ring(c15GoodKeys()),
				RoomQuerier: rq, MembershipQuerier: mq, StateQuerier: sq, UserIDQuerier: vfUserIDForSender,
			},
			InviteProtoEvent: proto,
			GetOrCreateSenderID: func(ctx context.Context, userID spec.UserID, roomID spec.RoomID, roomVersion string) (spec.SenderID, ed25519.PrivateKey, error) {
				if c.SenderIDErr {
					return "", nil, fmt.Errorf("c15 scripted sender ID error")
				}
				return spec.SenderID(invitee), inviteePriv, nil
			},
		})
	}) {
		return
	}
	accepted := herr == nil && out != nil
	if accepted {
		ctx.Class("outcome/accepted")
	} else {
		ctx.Class("outcome/refused")
	}
	if herr == nil && !accepted {
		ctx.Fail("C15/invite-v3/no-error-no-event", "HandleInviteV3 returned neither an error nor an event")
		return
	}
	if accepted {
		for _, g := range guards {
			if !g.ok {
				ctx.Fail("C15/invite-v3/accepted-despite/"+g.name, "HandleInviteV3 built and signed an event although guard %q is violated: case=%+v content=%s", g.name, c, c.Content)
			}
		}
		ot, err := evTree(out.JSON())
		if err != nil {
			ctx.Fail("C15/invite-v3/returned-event-malformed", "returned event is not a well-formed JSON object: %v", err)
			return
		}
		pub := inviteePriv.Public().(ed25519.PublicKey)
		if !rverify(c.Version, ot, invitee, "ed25519:1", pub) {
			ctx.Fail("C15/invite-v3/local-signature-invalid", "returned event carries no valid signature of the invited user's pseudo ID: %s", out.JSON())
		}
		oc, _ := ot.get("content")
		if evStr(ot, "type") != c.Type || evStr(ot, "room_id") != c.Room || evStr(ot, "sender") != inviter || evStr(ot, "state_key") != invitee || !jequal(oc, content) {
			ctx.Fail("C15/invite-v3/event-modified", "returned event is not the proto event with the invited pseudo ID as state key: %s", out.JSON())
		}
	}
	if allGood && !accepted {
		ctx.Fail("C15/invite-v3/refused-although-all-guards-hold", "HandleInviteV3 refused (%v) although every guard holds: case=%+v", herr, c)
	}
}

func c15InviteV3Gen(t *rapid.T) c15InviteV3Case {
	c := c15InviteV3Case{Version: "org.matrix.msc4014", Type: "m.room.member"}
	c.ReqRoom = c15PlainRoomID(c.Version, "room")
	c.Room = c.ReqRoom
	c.Invited = rapid.SampledFrom([]string{c15Lara, c15Leo}).Draw(t, "invited")
	var faults []string
	c.Known, c.KnownErr, c.Existing, c.ExistingErr, c.Stripped, c.StateMode = c15GenInviteEnv(t, &faults)
	membership := "invite"
	if rapid.Bool().Draw(t, "presetSK") {
		c.PresetSK = raSK(c.Invited)
	}
	nf := rapid.SampledFrom([]int{0, 0, 1, 1, 1, 2}).Draw(t, "nFaults")
	for i := 0; i < nf; i++ {
		switch rapid.SampledFrom([]string{"type", "membership", "room", "joined", "querier", "sender-id"}).Draw(t, "fault") {
		case "type":
			c.Type = rapid.SampledFrom([]string{"m.room.message", "m.room.topic", "org.example.custom"}).Draw(t, "otherType")
		case "membership":
			membership = rapid.SampledFrom([]string{"join", "leave", "ban", "knock", "-"}).Draw(t, "otherMembership")
		case "room":
			if rapid.Bool().Draw(t, "roomWhich") {
				c.Room = c15OtherRoom(t, c.Version)
			} else {
				c.ReqRoom = c15OtherRoom(t, c.Version)
			}
		case "joined":
			c.Known, c.Existing = true, "join"
		case "querier":
			switch rapid.IntRange(0, 2).Draw(t, "querierFault") {
			case 0:
				c.KnownErr = true
			case 1:
				c.Known, c.ExistingErr = true, true
			default:
				c.Stripped, c.StateMode = 0, "err"
			}
		case "sender-id":
			c.SenderIDErr = true
		}
	}
	content := jv{K: 'o'}
	if membership != "-" {
		content = content.with("membership", jstr(membership))
	}
	c.Content = vfBytes(jplain(content))
	return c
}

func init() {
	vfRapid("C15/invite",
		"non-trivial = at most one of the guards (member event, membership invite, room matches, validly signed by the sender's server, not already joined) is violated; distinct = distinct Case JSON",
		2000, 60000, 8, c15InviteGen, c15InviteCheck)
	vfRapid("C15/invite-v3",
		"non-trivial = at most one of the guards (member event, membership invite, room matches, not already joined) is violated; distinct = distinct Case JSON",
		400, 8000, 2, c15InviteV3Gen, c15InviteV3Check)
}
