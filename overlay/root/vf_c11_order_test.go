//go:build verif

package gomatrixserverlib

// C11/ordering-comparators — state resolution v2 / v2.1 and the reverse topological orderings are
// order-independent only because the two tie-breaks they sort with are strict total orders:
// (greater sender power level, earlier origin_server_ts (unsigned, as spec.Timestamp is), lexicographically smaller event ID) for
// the control events and (mainline position, steps, origin_server_ts, event ID) for the rest. The
// whole-room histories of C11/order-independence are made of hashed and signed events, whose
// power levels stop at ±(2^53−1) (beyond that the event ID changes under redaction before room
// version 6 and the event is refused from version 6 on); room versions 1-9 nevertheless let a
// power_levels event in the AUTH events carry any int64, so the comparators are judged here
// directly over the full int64 range: against an oracle computed with math/big, for antisymmetry,
// (mainline positions and step counts are indices and counts, so they are drawn from 0..MaxInt only),
// and by sorting every rotation and the reversal of the generated slice with the library's own
// sort call, which must give one sequence.

import (
	"math"
	"math/big"
	"slices"
	"strings"

	"github.com/matrix-org/gomatrixserverlib/spec"
	"pgregory.net/rapid"
)

type c11OrdEntry struct {
	Power int64  `json:"power"`
	Pos   int    `json:"pos"`
	Steps int    `json:"steps"`
	TS    uint64 `json:"ts"`
	ID    string `json:"id"`
}

type c11OrdCase struct {
	Entries []c11OrdEntry `json:"entries"`
}

func c11GenOrd(t *rapid.T) c11OrdCase {
	edges := []int64{math.MinInt64, math.MinInt64 + 1, -(1 << 53), -101, -1, 0, 1, 50, 100, 1 << 31, 1 << 32, 1 << 53, math.MaxInt64 - 1, math.MaxInt64}
	power := rapid.OneOf(rapid.SampledFrom(edges), rapid.Int64Range(-3, 3), rapid.Int64())
	// mainline positions and step counts are list indices and counts: never negative
	ints := rapid.OneOf(rapid.SampledFrom([]int{0, 1, 2, 1 << 20, math.MaxInt}), rapid.IntRange(0, 3))
	ts := rapid.OneOf(rapid.SampledFrom([]uint64{0, 1, 2, math.MaxInt64, math.MaxInt64 + 1, math.MaxUint64}), rapid.Uint64Range(0, 3))
	n := rapid.IntRange(2, 9).Draw(t, "n")
	var c c11OrdCase
	for i := 0; i < n; i++ {
		c.Entries = append(c.Entries, c11OrdEntry{
			Power: power.Draw(t, "power"),
			Pos:   ints.Draw(t, "pos"),
			Steps: ints.Draw(t, "steps"),
			TS:    ts.Draw(t, "ts"),
			ID:    "$" + rapid.StringMatching("[ab]{0,2}").Draw(t, "id"),
		})
	}
	return c
}

func c11Sign(i int) int {
	switch {
	case i < 0:
		return -1
	case i > 0:
		return 1
	}
	return 0
}

func c11BigCmp(a, b int64) int { return big.NewInt(a).Cmp(big.NewInt(b)) }

func c11BigU(a uint64) *big.Int { return new(big.Int).SetUint64(a) }

// c11OraclePower is the tie-break of the specification's reverse topological power ordering.
func c11OraclePower(a, b c11OrdEntry) int {
	if d := c11BigCmp(b.Power, a.Power); d != 0 { // greater power level first
		return d
	}
	if d := c11BigU(a.TS).Cmp(c11BigU(b.TS)); d != 0 {
		return d
	}
	return strings.Compare(a.ID, b.ID)
}

// c11OracleOther is the tie-break of the specification's mainline ordering, with the library's
// step count between the position and the timestamp.
func c11OracleOther(a, b c11OrdEntry) int {
	if d := c11BigCmp(int64(a.Pos), int64(b.Pos)); d != 0 {
		return d
	}
	if d := c11BigCmp(int64(a.Steps), int64(b.Steps)); d != 0 {
		return d
	}
	if d := c11BigU(a.TS).Cmp(c11BigU(b.TS)); d != 0 {
		return d
	}
	return strings.Compare(a.ID, b.ID)
}

func c11CheckOrd(ctx *vfCtx, c c11OrdCase) {
	n := len(c.Entries)
	if n < 2 {
		return
	}
	pl := make([]*stateResV2ConflictedPowerLevel, n)
	ot := make([]*stateResV2ConflictedOther, n)
	for i, e := range c.Entries {
		pl[i] = &stateResV2ConflictedPowerLevel{powerLevel: e.Power, originServerTS: spec.Timestamp(e.TS), eventID: e.ID}
		ot[i] = &stateResV2ConflictedOther{mainlinePosition: e.Pos, mainlineSteps: e.Steps, originServerTS: spec.Timestamp(e.TS), eventID: e.ID}
	}
	for _, e := range c.Entries {
		if e.Pos < 0 || e.Steps < 0 {
			ctx.Unjudged("negative mainline position or step count: not something the resolver computes")
			return
		}
	}
	far := false
	for i := 0; i < n; i++ {
		for j := 0; j < n; j++ {
			a, b := c.Entries[i], c.Entries[j]
			d := new(big.Int).Sub(big.NewInt(a.Power), big.NewInt(b.Power))
			if d.CmpAbs(big.NewInt(math.MaxInt64)) > 0 {
				far = true
			}
			var gp, go_ int
			if vfCatch(ctx, "C11/ordering-comparators/power", func() { gp = c11Sign(sortStateResV2ConflictedPowerLevelHeap(pl[i], pl[j])) }) {
				return
			}
			if vfCatch(ctx, "C11/ordering-comparators/other", func() { go_ = c11Sign(sortStateResV2ConflictedOtherHeap(ot[i], ot[j])) }) {
				return
			}
			if want := c11Sign(c11OraclePower(a, b)); gp != want {
				ctx.Fail("C11/ordering-comparators/power-tie-break", "power ordering of %+v against %+v is %d, the specification's tie-break gives %d", a, b, gp, want)
				return
			}
			if want := c11Sign(c11OracleOther(a, b)); go_ != want {
				ctx.Fail("C11/ordering-comparators/mainline-tie-break", "mainline ordering of %+v against %+v is %d, the tie-break gives %d", a, b, go_, want)
				return
			}
		}
	}
	if far {
		ctx.Class("levels-further-apart-than-2^63")
		ctx.NonTrivial()
	}
	// the library's own sort call over every rotation and the reversal: one sequence
	key := func(e c11OrdEntry) string {
		return strings.Join([]string{big.NewInt(e.Power).String(), big.NewInt(int64(e.Pos)).String(), big.NewInt(int64(e.Steps)).String(), c11BigU(e.TS).String(), e.ID}, "/")
	}
	idx := make([]int, n)
	for i := range idx {
		idx[i] = i
	}
	orders := [][]int{}
	for r := 0; r < n; r++ {
		orders = append(orders, append(append([]int{}, idx[r:]...), idx[:r]...))
	}
	rev := append([]int{}, idx...)
	slices.Reverse(rev)
	orders = append(orders, rev)
	firstP, firstO := "", ""
	for k, o := range orders {
		ps := make(stateResV2ConflictedPowerLevelHeap, 0, n)
		os := make(stateResV2ConflictedOtherHeap, 0, n)
		for _, i := range o {
			ps = append(ps, pl[i])
			os = append(os, ot[i])
		}
		slices.SortStableFunc(ps, sortStateResV2ConflictedPowerLevelHeap)
		slices.SortStableFunc(os, sortStateResV2ConflictedOtherHeap)
		var kp, ko []string
		for _, p := range ps {
			kp = append(kp, big.NewInt(p.powerLevel).String()+"/"+c11BigU(uint64(p.originServerTS)).String()+"/"+p.eventID)
		}
		for _, p := range os {
			ko = append(ko, key(c11OrdEntry{Pos: p.mainlinePosition, Steps: p.mainlineSteps, TS: uint64(p.originServerTS), ID: p.eventID}))
		}
		sp, so := strings.Join(kp, " "), strings.Join(ko, " ")
		if k == 0 {
			firstP, firstO = sp, so
			continue
		}
		if sp != firstP {
			ctx.Fail("C11/ordering-comparators/power-sort-order-dependent", "input order %v sorts to %s, the first order sorted to %s", o, sp, firstP)
			return
		}
		if so != firstO {
			ctx.Fail("C11/ordering-comparators/mainline-sort-order-dependent", "input order %v sorts to %s, the first order sorted to %s", o, so, firstO)
			return
		}
	}
}

func init() {
	vfRapid("C11/ordering-comparators",
		"non-trivial = two of the generated power levels are further apart than MaxInt64 (every case compares all pairs against the math/big oracle and sorts n+1 input orders). distinct = distinct Case JSON",
		4000, 200000, 4, c11GenOrd, c11CheckOrd)
}
