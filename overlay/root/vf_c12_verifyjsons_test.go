//go:build verif

package gomatrixserverlib

// C12/verifyjsons — KeyRing.VerifyJSONs against a scripted key database and scripted fetchers.
//
// A Case is a small history: the initial contents of the key database, and 1–3 rounds. Each round
// is one call of VerifyJSONs with a batch of requests and, for every fetcher, the behaviour it
// shows in that round (error / empty / answer from a table with requested keys left out and
// unrequested keys added). The database stub is stateful: what StoreKeys receives is what later
// rounds find.
//
// Judged per round (see DESIGN.md C12):
//   soundness   one result per request in order; success only if some ed25519 signature of the
//               named server verifies (crypto/ed25519 over the reference canonical form) under a
//               key that the database or a fetcher supplied for that (server, key ID) in this call
//               and that key was valid at AtTS by c12ValidAt;
//   completeness (unambiguous classes only) the database supplies a valid verifying key and no
//               fetcher answer contradicts it; or the database lacks the key / holds it past its
//               valid_until_ts and the first fetcher that answers for it supplies a valid verifying
//               key (and no later answer contradicts it);
//   discipline  no fetcher is asked for a key the database holds inside its validity; every key a
//               fetcher returned is passed to StoreKeys.

import (
	"bytes"
	"context"
	"errors"
	"fmt"
	"io"
	"sort"
	"strings"
	"time"

	"github.com/matrix-org/gomatrixserverlib/spec"
	"github.com/matrix-org/util"
	"github.com/sirupsen/logrus"
	"pgregory.net/rapid"
)

// ---- Case ----

type c12Key struct {
	Server     string  `json:"server"`
	KeyID      string  `json:"key_id"`
	Key        vfBytes `json:"key"`
	ValidUntil c12TS   `json:"valid_until"` // zero = PublicKeyNotValid
	Expired    c12TS   `json:"expired"`     // zero = PublicKeyNotExpired
	Tag        string  `json:"tag,omitempty"`
}

type c12Req struct {
	Server  string  `json:"server"`
	Message vfBytes `json:"message"`
	At      c12TS   `json:"at"`
	Strict  bool    `json:"strict"`
	Tag     string  `json:"tag,omitempty"`
}

type c12Script struct {
	Mode  string   `json:"mode"`            // "error" | "empty" | "answer"
	Known []c12Key `json:"known,omitempty"` // answers for requested keys
	Skip  uint32   `json:"skip,omitempty"`  // bit i: leave out the i-th requested key (sorted) — "partial"
	Extra []c12Key `json:"extra,omitempty"` // returned whether requested or not
}

type c12Round struct {
	Requests   []c12Req    `json:"requests"`
	Fetchers   []c12Script `json:"fetchers"`
	DBFetchErr bool        `json:"db_fetch_err,omitempty"`
	DBStoreErr bool        `json:"db_store_err,omitempty"`
}

type c12Case struct {
	DB           []c12Key   `json:"db"`
	DBReturnsAll bool       `json:"db_returns_all,omitempty"` // FetchKeys returns everything it holds
	NFetchers    int        `json:"n_fetchers"`
	Rounds       []c12Round `json:"rounds"`
}

// ---- stubs ----

type c12PK = PublicKeyLookupRequest
type c12PR = PublicKeyLookupResult

func (k c12Key) entry(now int64) (c12PK, c12PR) {
	return c12PK{ServerName: spec.ServerName(k.Server), KeyID: KeyID(k.KeyID)},
		c12PR{
			VerifyKey:    VerifyKey{Key: append(spec.Base64Bytes(nil), k.Key...)},
			ValidUntilTS: spec.Timestamp(k.ValidUntil.ms(now)),
			ExpiredTS:    spec.Timestamp(k.Expired.ms(now)),
		}
}

func c12Same(a, b c12PR) bool {
	return bytes.Equal(a.Key, b.Key) && a.ValidUntilTS == b.ValidUntilTS && a.ExpiredTS == b.ExpiredTS
}

func c12CopyMap(m map[c12PK]c12PR) map[c12PK]c12PR {
	out := make(map[c12PK]c12PR, len(m))
	for k, v := range m {
		out[k] = v
	}
	return out
}

func c12SortPK(ks []c12PK) {
	sort.Slice(ks, func(i, j int) bool {
		if ks[i].ServerName != ks[j].ServerName {
			return ks[i].ServerName < ks[j].ServerName
		}
		return ks[i].KeyID < ks[j].KeyID
	})
}

func c12Keys[V any](m map[c12PK]V) []c12PK {
	out := make([]c12PK, 0, len(m))
	for k := range m {
		out = append(out, k)
	}
	c12SortPK(out)
	return out
}

type c12DBStub struct {
	content              map[c12PK]c12PR
	all                  bool
	failFetch, failStore bool
	asked                [][]c12PK
	returned             []map[c12PK]c12PR
	stored               []map[c12PK]c12PR
}

func (d *c12DBStub) FetcherName() string { return "c12-database" }

func (d *c12DBStub) FetchKeys(_ context.Context, reqs map[c12PK]spec.Timestamp) (map[c12PK]c12PR, error) {
	d.asked = append(d.asked, c12Keys(reqs))
	if d.failFetch {
		return nil, errors.New("c12: scripted database read failure")
	}
	out := map[c12PK]c12PR{}
	if d.all {
		out = c12CopyMap(d.content)
	} else {
		for r := range reqs {
			if v, ok := d.content[r]; ok {
				out[r] = v
			}
		}
	}
	d.returned = append(d.returned, c12CopyMap(out))
	return out, nil
}

func (d *c12DBStub) StoreKeys(_ context.Context, res map[c12PK]c12PR) error {
	d.stored = append(d.stored, c12CopyMap(res))
	if d.failStore {
		return errors.New("c12: scripted database write failure")
	}
	for k, v := range res {
		d.content[k] = v
	}
	return nil
}

type c12FetchCall struct {
	asked []c12PK
	resp  map[c12PK]c12PR
	err   bool
}

type c12FetchStub struct {
	idx    int
	script c12Script
	now    int64
	calls  []c12FetchCall
}

func (f *c12FetchStub) FetcherName() string { return fmt.Sprintf("c12-fetcher-%d", f.idx) }

// c12Answer is the scripted behaviour as a function of the (sorted) request set. It is used by the
// stub and by the flow model.
func c12Answer(s c12Script, asked []c12PK, now int64) (map[c12PK]c12PR, bool) {
	switch s.Mode {
	case "error":
		return nil, true
	case "empty":
		return map[c12PK]c12PR{}, false
	}
	out := map[c12PK]c12PR{}
	for i, r := range asked {
		if i < 32 && s.Skip>>uint(i)&1 == 1 {
			continue
		}
		for _, k := range s.Known {
			pk, pr := k.entry(now)
			if pk == r {
				out[pk] = pr
				break
			}
		}
	}
	for _, k := range s.Extra {
		pk, pr := k.entry(now)
		out[pk] = pr
	}
	return out, false
}

func (f *c12FetchStub) FetchKeys(_ context.Context, reqs map[c12PK]spec.Timestamp) (map[c12PK]c12PR, error) {
	asked := c12Keys(reqs)
	resp, bad := c12Answer(f.script, asked, f.now)
	f.calls = append(f.calls, c12FetchCall{asked: asked, resp: c12CopyMap(resp), err: bad})
	if bad {
		return nil, errors.New("c12: scripted fetcher failure")
	}
	return resp, nil
}

var c12QuietCtx = func() context.Context {
	l := logrus.New()
	l.SetOutput(io.Discard)
	return util.ContextWithLogger(context.Background(), logrus.NewEntry(l))
}()

// ---- check ----

func c12Check(ctx *vfCtx, c c12Case) {
	now0 := time.Now().UnixMilli()
	db := &c12DBStub{content: map[c12PK]c12PR{}, all: c.DBReturnsAll}
	seenTag := map[string]bool{}
	tag := func(full string) {
		for _, s := range c12TagClasses("", full) {
			if !seenTag[s] {
				seenTag[s] = true
				ctx.Class(s)
			}
		}
	}
	for _, k := range c.DB {
		pk, pr := k.entry(now0)
		db.content[pk] = pr
		tag(k.Tag)
	}
	nf := c.NFetchers
	if nf < 0 {
		nf = 0
	}
	if nf > 4 {
		nf = 4
	}
	stubs := make([]*c12FetchStub, nf)
	kr := KeyRing{KeyDatabase: db}
	for j := range stubs {
		stubs[j] = &c12FetchStub{idx: j, now: now0}
		kr.KeyFetchers = append(kr.KeyFetchers, stubs[j])
	}
	tag(fmt.Sprintf("fetchers/%d", nf))
	tag(fmt.Sprintf("rounds/%d", len(c.Rounds)))
	for ri := range c.Rounds {
		for j := range stubs {
			s := c12Script{Mode: "error"}
			if j < len(c.Rounds[ri].Fetchers) {
				s = c.Rounds[ri].Fetchers[j]
			}
			stubs[j].script = s
			stubs[j].calls = nil
			tag("script/" + s.Mode)
			for _, k := range s.Known {
				tag(k.Tag)
			}
			for _, k := range s.Extra {
				tag(k.Tag)
			}
			if s.Mode == "answer" && s.Skip != 0 {
				tag("script/partial")
			}
		}
		if !c12JudgeRound(ctx, c.Rounds[ri], ri, db, stubs, kr, now0, tag) {
			return
		}
	}
}

type c12Supplied struct {
	from string // "db" or "fetcher"
	v    c12PR
}

func c12JudgeRound(ctx *vfCtx, round c12Round, ri int, db *c12DBStub, stubs []*c12FetchStub, kr KeyRing, now0 int64, tag func(string)) bool {
	db.failFetch, db.failStore = round.DBFetchErr, round.DBStoreErr
	db.asked, db.returned, db.stored = nil, nil, nil
	dbBefore := c12CopyMap(db.content)

	n := len(round.Requests)
	reqs := make([]VerifyJSONRequest, n)
	an := make([]c12Signed, n)
	ats := make([]uint64, n)
	for i, r := range round.Requests {
		ats[i] = r.At.ms(now0)
		reqs[i] = VerifyJSONRequest{
			ServerName:           spec.ServerName(r.Server),
			AtTS:                 spec.Timestamp(ats[i]),
			Message:              append([]byte(nil), r.Message...),
			ValidityCheckingFunc: NoStrictValidityCheck,
		}
		if r.Strict {
			reqs[i].ValidityCheckingFunc = StrictValiditySignatureCheck
		}
		an[i] = c12Analyse(r.Message)
		tag(r.Tag)
	}

	// the same call for a caller whose context has already ended, on a copy of the same world (database
	// and fetcher scripts as they are now): whatever such a call reports, it cannot verify MORE than the
	// call with a live context - a request comes out verified there only if it does here
	var dead []VerifyJSONResult
	var deadErr error
	{
		db2 := &c12DBStub{content: c12CopyMap(db.content), all: db.all, failFetch: db.failFetch, failStore: db.failStore}
		kr2 := KeyRing{KeyDatabase: db2}
		for _, st := range stubs {
			kr2.KeyFetchers = append(kr2.KeyFetchers, &c12FetchStub{idx: st.idx, script: st.script, now: st.now})
		}
		reqs2 := make([]VerifyJSONRequest, len(reqs))
		for i := range reqs {
			reqs2[i] = reqs[i]
			reqs2[i].Message = append([]byte(nil), reqs[i].Message...)
		}
		ended, cancel := context.WithCancel(c12QuietCtx)
		cancel()
		if vfCatch(ctx, "C12/ended-context", func() { dead, deadErr = kr2.VerifyJSONs(ended, reqs2) }) {
			return false
		}
	}
	var results []VerifyJSONResult
	var err error
	nowLo := time.Now().UnixMilli() - c12Slack
	if vfCatch(ctx, "C12", func() { results, err = kr.VerifyJSONs(c12QuietCtx, reqs) }) {
		ctx.Class("outcome/panic")
		return false
	}
	nowHi := time.Now().UnixMilli() + c12Slack
	if deadErr == nil && err == nil && len(dead) == len(results) {
		for i := range results {
			if dead[i].Error == nil && results[i].Error != nil {
				ctx.Fail("C12/sound/verified-under-an-ended-context", "round %d request %d (%s): with an ended context the request comes out verified; with a live context, on the same database and fetchers, it fails: %v", ri, i, round.Requests[i].Server, results[i].Error)
				return false
			}
		}
		tag("ended-context-compared")
	}
	// the messages handed over are the caller's: they read as before
	for i, r := range round.Requests {
		if string(reqs[i].Message) != string(r.Message) {
			ctx.Fail("C12/message-overwritten", "round %d request %d: VerifyJSONs changed the message it was given: %q now reads %q", ri, i, r.Message, reqs[i].Message)
			return false
		}
	}

	// ---- what was supplied during this call (transcript) ----
	supplied := map[c12PK][]c12Supplied{}
	dbRet := map[c12PK]c12PR{}
	for _, m := range db.returned {
		for _, k := range c12Keys(m) {
			supplied[k] = append(supplied[k], c12Supplied{"db", m[k]})
			dbRet[k] = m[k]
		}
	}
	fetchedVals := map[c12PK][]c12PR{}
	consulted := map[c12PK]bool{}
	for _, st := range stubs {
		for _, call := range st.calls {
			for _, k := range call.asked {
				consulted[k] = true
			}
			if call.err {
				continue
			}
			for _, k := range c12Keys(call.resp) {
				supplied[k] = append(supplied[k], c12Supplied{"fetcher", call.resp[k]})
				fetchedVals[k] = append(fetchedVals[k], call.resp[k])
			}
		}
	}

	// ---- call discipline: which keys fetchers were asked for ----
	need := map[c12PK]bool{}
	for i, r := range round.Requests {
		if an[i].Err != "" {
			continue
		}
		for _, id := range an[i].supported(r.Server) {
			need[c12PK{ServerName: spec.ServerName(r.Server), KeyID: KeyID(id)}] = true
		}
	}
	for _, st := range stubs {
		for _, call := range st.calls {
			ctx.Class("discipline/fetcher-consulted")
			for _, k := range call.asked {
				held, ok := dbRet[k]
				switch {
				case !ok:
					if !need[k] {
						ctx.Class("discipline/unneeded-key-asked(unjudged)")
						ctx.Unjudged("a fetcher was asked for a key no request needs: statement is silent")
					}
				case held.ExpiredTS != 0:
					ctx.Class("discipline/expired-key-refetched(unjudged)")
					ctx.Unjudged("a fetcher was asked for a key the database holds as expired: 'past its validity' is arguable")
				case int64(held.ValidUntilTS) > nowHi:
					ctx.Fail("C12/discipline/fetcher-asked-for-current-key",
						"round %d: fetcher %d was asked for %s/%s which the database returned with valid_until_ts %d > now %d (not expired)",
						ri, st.idx, k.ServerName, k.KeyID, held.ValidUntilTS, nowHi)
				case int64(held.ValidUntilTS) >= nowLo:
					ctx.Unjudged("database valid_until_ts within clock slack of now")
				}
			}
		}
	}

	// ---- store discipline ----
	if len(fetchedVals) > 0 {
		ctx.Class("discipline/something-fetched")
		stored := map[c12PK]c12PR{}
		for _, m := range db.stored {
			for k, v := range m {
				stored[k] = v
			}
		}
		for _, k := range c12Keys(fetchedVals) {
			sv, ok := stored[k]
			if !ok {
				ctx.Fail("C12/store/fetched-key-not-stored", "round %d: %s/%s was returned by a fetcher but never passed to StoreKeys (%d StoreKeys calls)",
					ri, k.ServerName, k.KeyID, len(db.stored))
				continue
			}
			match := false
			for _, fv := range fetchedVals[k] {
				if c12Same(fv, sv) {
					match = true
				}
			}
			if !match {
				ctx.Fail("C12/store/stored-differs-from-fetched", "round %d: StoreKeys got %s/%s = %x/%d/%d which no fetcher returned",
					ri, k.ServerName, k.KeyID, []byte(sv.Key), sv.ValidUntilTS, sv.ExpiredTS)
			}
		}
	}

	// ---- call-level error ----
	if err != nil {
		ctx.Class("outcome/call-error")
		if !round.DBFetchErr && !round.DBStoreErr {
			ctx.Fail("C12/call-error-without-database-fault", "round %d: VerifyJSONs returned error %v although the database did not fail", ri, err)
		}
		for i := range results {
			if results[i].Error == nil {
				ctx.Unjudged("results accompanying a call-level error")
			}
		}
		return true
	}
	if len(results) != n {
		ctx.Fail("C12/result-count", "round %d: %d requests, %d results", ri, n, len(results))
		return true
	}

	// ---- flow model (prediction) for completeness ----
	needKeys := c12Keys(need)
	modelDB := map[c12PK]c12PR{}
	if db.all {
		modelDB = dbBefore
	} else {
		for _, k := range needKeys {
			if v, ok := dbBefore[k]; ok {
				modelDB[k] = v
			}
		}
	}
	ambiguousNow := false
	remaining := map[c12PK]bool{}
	stale := map[c12PK]bool{}
	for _, k := range needKeys {
		remaining[k] = true
	}
	for _, k := range c12Keys(modelDB) {
		v := modelDB[k]
		switch {
		case v.ExpiredTS != 0:
			delete(remaining, k)
		case int64(v.ValidUntilTS) > nowHi:
			delete(remaining, k)
		case int64(v.ValidUntilTS) >= nowLo:
			ambiguousNow = true
		default:
			if need[k] {
				stale[k] = true
			}
		}
	}
	var answers []map[c12PK]c12PR // predicted non-empty, non-error answers in fetcher order
	if len(needKeys) > 0 && !round.DBFetchErr {
		for _, st := range stubs {
			if len(remaining) == 0 {
				break
			}
			var asked []c12PK
			for k := range remaining {
				asked = append(asked, k)
			}
			c12SortPK(asked)
			resp, bad := c12Answer(st.script, asked, now0)
			if bad || len(resp) == 0 {
				continue
			}
			answers = append(answers, resp)
			for k := range resp {
				delete(remaining, k)
			}
		}
	}

	// ---- per request ----
	for i, r := range round.Requests {
		a := an[i]
		ok := results[i].Error == nil
		if ok {
			ctx.Class("outcome/success")
		} else {
			ctx.Class("outcome/failure")
		}
		if a.Dup {
			ctx.Class("req/duplicate-keys(unjudged)")
			ctx.Unjudged("message with duplicate keys or lone surrogates")
			continue
		}
		server := spec.ServerName(r.Server)
		var cands []string
		if a.Err == "" {
			cands = a.supported(r.Server)
		}
		switch {
		case a.Err != "":
			ctx.Class("req/" + a.Err)
		case len(a.IDs[r.Server]) == 0:
			ctx.Class("req/not-signed-by-server")
		case len(cands) == 0:
			ctx.Class("req/unsupported-algorithms-only")
		default:
			ctx.Class(fmt.Sprintf("req/supported-key-ids=%d", len(cands)))
		}
		validU := func(v c12PR) (lo, hi bool) {
			return c12ValidAt(uint64(v.ExpiredTS), uint64(v.ValidUntilTS), ats[i], r.Strict, nowLo),
				c12ValidAt(uint64(v.ExpiredTS), uint64(v.ValidUntilTS), ats[i], r.Strict, nowHi)
		}
		good := func(id string, v c12PR) bool { // certainly a valid verifying key
			lo, hi := validU(v)
			return lo && hi && a.verifies(r.Server, id, v.Key)
		}

		// boundary classes + non-triviality
		for _, id := range cands {
			pk := c12PK{ServerName: server, KeyID: KeyID(id)}
			if consulted[pk] {
				ctx.NonTrivial()
				ctx.Class("req/depends-on-fetcher")
			}
			for _, s := range supplied[pk] {
				if !a.verifies(r.Server, id, s.v.Key) {
					continue
				}
				ctx.NonTrivial()
				if s.v.ExpiredTS != 0 {
					if d := int64(ats[i]) - int64(s.v.ExpiredTS); d >= -1 && d <= 1 {
						ctx.Class(fmt.Sprintf("boundary/expired_ts%+d", d))
					}
				} else if r.Strict && s.v.ValidUntilTS != 0 {
					limit := nowLo + c12Slack + c12Week
					if int64(s.v.ValidUntilTS) > limit+c12Minute/2 {
						if d := int64(ats[i]) - limit; d > -5*c12Minute && d < 5*c12Minute {
							if d < 0 {
								ctx.Class("boundary/seven-day-cap-below")
							} else {
								ctx.Class("boundary/seven-day-cap-above")
							}
						}
					} else if d := int64(ats[i]) - int64(s.v.ValidUntilTS); d >= -1 && d <= 1 {
						ctx.Class(fmt.Sprintf("boundary/valid_until_ts%+d", d))
					}
				} else if !r.Strict && ats[i] > uint64(s.v.ValidUntilTS) {
					ctx.Class("lenient/at-after-valid-until")
				}
			}
		}

		// soundness
		if ok {
			found, from := false, ""
			anySupplied, anyVerifies, why := false, false, ""
			for _, id := range cands {
				for _, s := range supplied[c12PK{ServerName: server, KeyID: KeyID(id)}] {
					anySupplied = true
					if !a.verifies(r.Server, id, s.v.Key) {
						continue
					}
					anyVerifies = true
					lo, hi := validU(s.v)
					if lo || hi {
						found, from = true, s.from
						break
					}
					if why == "" {
						why = c12WhyInvalid(uint64(s.v.ExpiredTS), uint64(s.v.ValidUntilTS), ats[i], nowHi)
					}
				}
				if found {
					break
				}
			}
			rule := "lenient"
			if r.Strict {
				rule = "strict"
			}
			switch {
			case found:
				ctx.Class("success/key-from-" + from)
			case len(cands) == 0:
				ctx.Fail("C12/sound/no-supported-signature", "round %d request %d (%s): success although the message carries no ed25519 signature of that server (%s)", ri, i, r.Server, a.Err)
			case !anySupplied:
				ctx.Fail("C12/sound/no-key-supplied", "round %d request %d (%s): success although neither the database nor a fetcher supplied a key for any of %v", ri, i, r.Server, cands)
			case !anyVerifies:
				other := ""
				for pk, ss := range supplied {
					for _, s := range ss {
						for _, id := range cands {
							if a.verifies(r.Server, id, s.v.Key) {
								other = fmt.Sprintf("; the signature under %s verifies under the key supplied for %s/%s", id, pk.ServerName, pk.KeyID)
							}
						}
					}
				}
				sig := "C12/sound/no-verifying-key"
				if other != "" {
					sig += "/key-of-another-id"
				}
				ctx.Fail(sig, "round %d request %d (%s): success although no key supplied for %v verifies the message%s", ri, i, r.Server, cands, other)
			default:
				ctx.Fail("C12/sound/key-not-valid-at-ts/"+rule+"/"+why, "round %d request %d (%s): success at AtTS %d (%s rule, now %d) although every verifying key supplied was outside its validity (%s)",
					ri, i, r.Server, ats[i], rule, nowHi-c12Slack, why)
			}
		}

		// completeness, unambiguous classes only
		if a.Err != "" || len(cands) == 0 {
			continue
		}
		if a.OddHard {
			ctx.Class("req/odd-signatures-member(completeness unjudged)")
			ctx.Unjudged("signatures member with non-string / non-base64 entries: library refuses the whole message")
			continue
		}
		if ambiguousNow || round.DBFetchErr {
			ctx.Unjudged("flow prediction ambiguous (database valid_until_ts within clock slack)")
			continue
		}
		expect := ""
		for _, id := range cands {
			pk := c12PK{ServerName: server, KeyID: KeyID(id)}
			dbv, hasDB := modelDB[pk]
			var fvs []c12PR
			first := -1
			for j, ans := range answers {
				if v, ok := ans[pk]; ok {
					fvs = append(fvs, v)
					if first < 0 {
						first = j
					}
				}
			}
			allGood := true
			for _, v := range fvs {
				if !good(id, v) {
					allGood = false
				}
			}
			switch {
			case hasDB && good(id, dbv) && allGood:
				expect = "db-key"
			case (!hasDB || stale[pk]) && len(fvs) > 0 && allGood:
				if first == 0 {
					expect = "fetched-key"
				} else {
					expect = "fetched-key/later-fetcher"
				}
			}
			if expect != "" {
				break
			}
		}
		if expect == "" {
			ctx.Class("complete/not-in-a-judged-class")
			continue
		}
		ctx.Class("complete/expect-success/" + expect)
		if !ok {
			ctx.Fail("C12/complete/"+expect, "round %d request %d (%s, AtTS %d, strict=%v): a valid verifying key was available (%s) but the request failed: %v",
				ri, i, r.Server, ats[i], r.Strict, expect, results[i].Error)
		}
	}
	return true
}

// ---- generator ----

var c12Servers = []string{"a.example", "b.example:8448", "c"}
var c12KeyIDs = []string{"ed25519:a", "ed25519:b", "ed25519:1"}
var c12OtherIDs = []string{"rsa:1", "ed25519", "ED25519:a", "curve25519:x", "", "ed25519:zz"}

type c12World struct {
	servers []string
	ids     map[string][]string
	keyIdx  map[[2]string]int
	pairs   [][2]string
}

func c12GenWorld(t *rapid.T) c12World {
	w := c12World{ids: map[string][]string{}, keyIdx: map[[2]string]int{}}
	ns := rapid.IntRange(1, 3).Draw(t, "nservers")
	for si := 0; si < ns; si++ {
		s := c12Servers[si]
		w.servers = append(w.servers, s)
		nk := rapid.IntRange(1, 3).Draw(t, "nkeys")
		for ki := 0; ki < nk; ki++ {
			id := c12KeyIDs[ki]
			w.ids[s] = append(w.ids[s], id)
			w.keyIdx[[2]string{s, id}] = si*3 + ki
			w.pairs = append(w.pairs, [2]string{s, id})
		}
	}
	return w
}

var c12FutureOffsets = []int64{c12Minute, c12Hour, 6 * c12Day, c12Week - 2*c12Minute, c12Week + 2*c12Minute, 30 * c12Day, 8300000000000 /* past the year 2262 */}
var c12PastOffsets = []int64{-c12Minute, -c12Hour, -30 * c12Day}

func c12GenExpired(t *rapid.T, label string) c12TS {
	return rapid.SampledFrom([]c12TS{c12Abs(1600000000000), c12Rel(-c12Day), c12Rel(c12Hour), c12Abs(1000), c12Abs(1)}).Draw(t, label)
}

// c12GenHeld draws the record that a holder (database or fetcher) has for (s, id); ok=false = none.
func c12GenHeld(t *rapid.T, w c12World, s, id, where string, weights []int) (c12Key, bool) {
	classes := []string{"absent", "current", "stale", "expired", "wrong-key", "wrong-length-key", "no-validity", "expired-with-valid-until", "sibling-key"}
	var pick []string
	for i, wgt := range weights {
		for j := 0; j < wgt; j++ {
			pick = append(pick, classes[i])
		}
	}
	cl := rapid.SampledFrom(pick).Draw(t, where+"_class")
	idx := w.keyIdx[[2]string{s, id}]
	k := c12Key{Server: s, KeyID: id, Key: c12Pub(idx), Tag: where + "/" + cl}
	switch cl {
	case "absent":
		return k, false
	case "current":
		k.ValidUntil = c12Rel(rapid.SampledFrom(c12FutureOffsets).Draw(t, where+"_vu"))
	case "stale":
		k.ValidUntil = c12Rel(rapid.SampledFrom(c12PastOffsets).Draw(t, where+"_vu"))
	case "expired":
		k.Expired = c12GenExpired(t, where+"_exp")
	case "wrong-key":
		k.Key = c12Pub(9 + rapid.IntRange(0, 2).Draw(t, where+"_intruder"))
		k.ValidUntil = c12Rel(rapid.SampledFrom(c12FutureOffsets).Draw(t, where+"_vu"))
	case "sibling-key":
		// the (correct) key of another (server, key ID) of the world, filed under this ID
		other := rapid.SampledFrom(w.pairs).Draw(t, where+"_sibling")
		k.Key = c12Pub(w.keyIdx[other])
		k.ValidUntil = c12Rel(rapid.SampledFrom(c12FutureOffsets).Draw(t, where+"_vu"))
	case "wrong-length-key":
		full := c12Pub(idx)
		switch rapid.IntRange(0, 3).Draw(t, where+"_len") {
		case 0:
			k.Key = full[:31]
		case 1:
			k.Key = append(full, 0)
		case 2:
			k.Key = []byte{}
		default:
			k.Key = append(full, full...)
		}
		k.ValidUntil = c12Rel(rapid.SampledFrom(c12FutureOffsets).Draw(t, where+"_vu"))
	case "no-validity":
	case "expired-with-valid-until":
		k.Expired = c12GenExpired(t, where+"_exp")
		k.ValidUntil = c12Rel(rapid.SampledFrom(c12FutureOffsets).Draw(t, where+"_vu"))
	}
	return k, true
}

// absent cur stale exp wrong wlen noval exp+vu sibling
var c12DBWeights = []int{30, 26, 12, 10, 7, 3, 4, 3, 5}
var c12FetchWeights = []int{22, 44, 8, 8, 7, 2, 3, 2, 4}

func c12GenScript(t *rapid.T, w c12World, label string) c12Script {
	mode := rapid.SampledFrom([]string{"error", "error", "empty", "answer", "answer", "answer", "answer", "answer"}).Draw(t, label+"_mode")
	s := c12Script{Mode: mode}
	if mode != "answer" {
		return s
	}
	for _, p := range w.pairs {
		if k, ok := c12GenHeld(t, w, p[0], p[1], "fetcher", c12FetchWeights); ok {
			s.Known = append(s.Known, k)
		}
	}
	if rapid.IntRange(0, 3).Draw(t, label+"_partial") == 0 {
		s.Skip = uint32(rapid.IntRange(1, 63).Draw(t, label+"_skip"))
	}
	ne := rapid.SampledFrom([]int{0, 0, 0, 1, 1, 2}).Draw(t, label+"_nextra")
	for i := 0; i < ne; i++ {
		if rapid.IntRange(0, 3).Draw(t, label+"_extraOutside") == 0 {
			s.Extra = append(s.Extra, c12Key{Server: "z.example", KeyID: "ed25519:zz", Key: c12Pub(12), ValidUntil: c12Rel(c12Hour), Tag: "fetcher-extra/outside-world"})
			continue
		}
		p := rapid.SampledFrom(w.pairs).Draw(t, label+"_extraPair")
		if k, ok := c12GenHeld(t, w, p[0], p[1], "fetcher-extra", c12FetchWeights); ok {
			s.Extra = append(s.Extra, k)
		}
	}
	return s
}

// c12GenMessage builds the signed message for one request and returns it with a tag.
func c12GenMessage(t *rapid.T, w c12World, server string) ([]byte, string, []string) {
	content := jgenObject(t, jgenOpts{IntsOnly: true, MaxDepth: 2, MaxWidth: 3}, 0, "content")
	content = content.without("signatures", "unsigned")
	kind := rapid.SampledFrom([]string{"signed", "signed", "signed", "signed", "signed", "signed", "signed", "signed", "signed", "signed", "signed", "signed",
		"signed", "signed", "signed", "signed", "signed", "signed", "signed", "signed", "signed", "signed", "signed", "signed",
		"unsigned", "other-signer-only", "truncated", "array", "string", "signatures-number", "signer-number", "signature-number", "signatures-null"}).Draw(t, "msgKind")
	canon := []byte(jcanon(content))
	sigFor := func(idx int) jv { return jstr(c12B64Enc(c12SignWith(idx, canon))) }
	switch kind {
	case "unsigned":
		return []byte(jspell(t, content, "sp")), "req/unsigned", nil
	case "other-signer-only":
		m := content.with("signatures", jobj("x.example", jobj("ed25519:a", sigFor(0))))
		return []byte(jspell(t, m, "sp")), "req/other-signer-only", nil
	case "truncated":
		m := content.with("signatures", jobj(server, jobj("ed25519:a", sigFor(w.keyIdx[[2]string{server, "ed25519:a"}]))))
		txt := jplain(m)
		cut := rapid.IntRange(1, len(txt)-1).Draw(t, "cut")
		return []byte(txt[:cut]), "req/truncated", []string{"ed25519:a"}
	case "array":
		return []byte(`[{"signatures":{"` + server + `":{"ed25519:a":"` + sigFor(0).S + `"}}}]`), "req/array", nil
	case "string":
		return []byte(`"signatures"`), "req/string", nil
	case "signatures-number":
		return []byte(jplain(content.with("signatures", jnum(5)))), "req/signatures-number", nil
	case "signer-number":
		return []byte(jplain(content.with("signatures", jobj(server, jnum(5))))), "req/signer-number", nil
	case "signatures-null":
		return []byte(jplain(content.with("signatures", jv{K: 'n'}))), "req/signatures-null", nil
	}
	// signed (possibly with junk among the signatures)
	mine := jv{K: 'o'}
	var ids []string
	used := map[string]bool{}
	nsig := rapid.SampledFrom([]int{1, 1, 1, 2, 2, 3}).Draw(t, "nsig")
	tagBits := map[string]bool{}
	for i := 0; i < nsig; i++ {
		var id string
		if rapid.IntRange(0, 5).Draw(t, "idOutside") == 0 {
			id = rapid.SampledFrom(c12OtherIDs).Draw(t, "otherID")
		} else {
			id = rapid.SampledFrom(w.ids[server]).Draw(t, "id")
		}
		if used[id] {
			continue
		}
		used[id] = true
		idx, inWorld := w.keyIdx[[2]string{server, id}]
		if !inWorld {
			idx = 13
		}
		sk := rapid.SampledFrom([]string{"good", "good", "good", "good", "good", "good", "good", "corrupt", "other-key", "short", "sibling", "junk-string", "number"}).Draw(t, "sigKind")
		if kind == "signature-number" && i == 0 {
			sk = "number"
		}
		var val jv
		switch sk {
		case "good":
			val = sigFor(idx)
		case "corrupt":
			val = jstr(c12B64Enc(c12Flip(c12SignWith(idx, canon))))
		case "other-key":
			val = sigFor(9 + rapid.IntRange(0, 2).Draw(t, "intruderSig"))
		case "sibling":
			val = sigFor(w.keyIdx[rapid.SampledFrom(w.pairs).Draw(t, "siblingSig")])
		case "short":
			val = jstr(c12B64Enc(c12SignWith(idx, canon)[:63]))
		case "number":
			val = jnum(5)
		case "junk-string":
			val = jstr(rapid.SampledFrom([]string{"***", "!!not base64!!", "", "AAA=", "A", "é"}).Draw(t, "junk"))
		}
		tagBits[sk] = true
		mine.O = append(mine.O, jkv{id, val})
		ids = append(ids, id)
	}
	sigs := jobj(server, mine)
	switch rapid.SampledFrom([]int{2, 2, 2, 2, 2, 2, 2, 0, 2, 2, 2, 1, 2, 2, 2, 2}).Draw(t, "foreign") {
	case 0:
		sigs.O = append(sigs.O, jkv{"x.example", jobj("ed25519:a", sigFor(9))})
	case 1:
		sigs.O = append(sigs.O, jkv{"x.example", jobj("ed25519:a", jstr("!!not base64!!"))})
		tagBits["foreign-junk"] = true
	}
	m := content.with("signatures", sigs)
	if rapid.IntRange(0, 3).Draw(t, "unsignedMember") == 0 {
		m = m.with("unsigned", jobj("age", jnum(int64(rapid.IntRange(0, 1000).Draw(t, "age")))))
	}
	var bits []string
	for b := range tagBits {
		bits = append(bits, b)
	}
	sort.Strings(bits)
	return []byte(jspell(t, m, "sp")), "req/signed/" + strings.Join(bits, "+"), ids
}

func c12GenRequests(t *rapid.T, w c12World, held []c12Key) []c12Req {
	n := rapid.IntRange(1, 6).Draw(t, "nreq")
	if rapid.IntRange(0, 39).Draw(t, "bigBatch") == 0 {
		n = rapid.SampledFrom([]int{63, 64, 65, 70, 130}).Draw(t, "nreqBig") // around the sizes of worker pools and small fixed tables
	}
	var out []c12Req
	for i := 0; i < n; i++ {
		server := rapid.SampledFrom(w.servers).Draw(t, "reqServer")
		msg, tg, ids := c12GenMessage(t, w, server)
		// AtTS: around the boundaries of the records held anywhere for this message's keys
		cands := []c12TS{c12Rel(0), c12Abs(0), c12Abs(1), c12Rel(-c12Day), c12Rel(c12Week - c12Minute), c12Rel(c12Week + c12Minute),
			c12Rel(c12Week - 3*c12Minute), c12Rel(c12Week + 3*c12Minute), c12Rel(40 * c12Day),
			// (centuries ahead: beyond what a time.Duration / UnixNano can hold)
			c12Abs(9223372036854), c12Abs(9223372036855), c12Abs(9300000000000), c12Abs(18446744073709)}
		for _, h := range held {
			if h.Server != server {
				continue
			}
			mineID := false
			for _, id := range ids {
				if id == h.KeyID {
					mineID = true
				}
			}
			if !mineID {
				continue
			}
			for rep := 0; rep < 2; rep++ { // weight boundaries above the generic choices
				if !h.Expired.isZero() {
					cands = append(cands, h.Expired.plus(-1), h.Expired, h.Expired.plus(1))
				}
				if !h.ValidUntil.isZero() {
					cands = append(cands, h.ValidUntil.plus(-1), h.ValidUntil, h.ValidUntil.plus(1))
				}
			}
		}
		at := rapid.SampledFrom(cands).Draw(t, "at")
		if at.Rel && at.V > c12Week-c12Minute && at.V < c12Week+c12Minute {
			// inside the margin around now+7d: push out of it (the verdict would depend on the clock)
			if at.V < c12Week {
				at.V -= c12Minute
			} else {
				at.V += c12Minute
			}
		}
		out = append(out, c12Req{Server: server, Message: msg, At: at, Strict: rapid.IntRange(0, 3).Draw(t, "strict") > 0, Tag: tg})
	}
	return out
}

func c12Gen(t *rapid.T) c12Case {
	w := c12GenWorld(t)
	c := c12Case{NFetchers: rapid.IntRange(0, 3).Draw(t, "nfetchers")}
	c.DBReturnsAll = rapid.IntRange(0, 7).Draw(t, "dbAll") == 0
	var held []c12Key
	for _, p := range w.pairs {
		if k, ok := c12GenHeld(t, w, p[0], p[1], "db", c12DBWeights); ok {
			c.DB = append(c.DB, k)
			held = append(held, k)
		}
	}
	if rapid.SampledFrom([]int{0, 0, 0, 1, 0, 0}).Draw(t, "dbOddID") == 1 {
		// a record filed under a key ID of an unsupported algorithm (holding the very key that
		// c12GenMessage signs such IDs with): must never make a request succeed
		c.DB = append(c.DB, c12Key{Server: rapid.SampledFrom(w.servers).Draw(t, "oddServer"), KeyID: rapid.SampledFrom(c12OtherIDs[:4]).Draw(t, "oddID"),
			Key: c12Pub(13), ValidUntil: c12Rel(c12Hour), Tag: "db/unsupported-algorithm-id"})
	}
	nr := rapid.SampledFrom([]int{1, 1, 1, 2, 2, 3}).Draw(t, "nrounds")
	scripts := make([][]c12Script, nr)
	for ri := 0; ri < nr; ri++ {
		for j := 0; j < c.NFetchers; j++ {
			s := c12GenScript(t, w, "script")
			scripts[ri] = append(scripts[ri], s)
			held = append(held, s.Known...)
			held = append(held, s.Extra...)
		}
	}
	for ri := 0; ri < nr; ri++ {
		r := c12Round{Fetchers: scripts[ri], Requests: c12GenRequests(t, w, held)}
		if rapid.IntRange(0, 99).Draw(t, "dbFault") == 57 { // (rapid favours the ends of a range: a middle value keeps database faults rare)
			if rapid.Bool().Draw(t, "dbFaultKind") {
				r.DBFetchErr = true
			} else {
				r.DBStoreErr = true
			}
		}
		c.Rounds = append(c.Rounds, r)
	}
	return c
}

func init() {
	rule := "non-trivial = some request carries a supported (ed25519) signature of the named server AND (a fetcher was asked for one of its keys OR a key supplied for one of its key IDs verifies the message, so that the validity rule or the flow decides) — i.e. the outcome is not decided by 'no supported signature'. distinct = distinct Case JSON."
	vfRapid("C12/verifyjsons", rule, 6000, 400000, 16, c12Gen, c12Check)
}
