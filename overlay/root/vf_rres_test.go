//go:build verif

// R-res: reference state resolvers v1, v2 and v2.1 (DESIGN Appendix B, refinements R1-R5 of section
// 5.2). Plain maps and slices; the auth oracle is the public Allowed with a fresh checker per
// event and a map-backed provider of its own. Shares no code with stateresolution*.go.
package gomatrixserverlib

import (
	"bytes"
	"crypto/sha1"
	"sort"

	"github.com/matrix-org/gomatrixserverlib/spec"
)

// rrProvider is an AuthEventProvider backed by a map (independent of AuthEvents).
type rrProvider struct {
	m map[StateKeyTuple]PDU
}

func (p *rrProvider) get(t, k string) (PDU, error) {
	if e, ok := p.m[StateKeyTuple{t, k}]; ok && e != nil {
		return e, nil
	}
	return nil, nil
}
func (p *rrProvider) Create() (PDU, error)      { return p.get(spec.MRoomCreate, "") }
func (p *rrProvider) JoinRules() (PDU, error)   { return p.get(spec.MRoomJoinRules, "") }
func (p *rrProvider) PowerLevels() (PDU, error) { return p.get(spec.MRoomPowerLevels, "") }
func (p *rrProvider) Member(k spec.SenderID) (PDU, error) {
	return p.get(spec.MRoomMember, string(k))
}
func (p *rrProvider) ThirdPartyInvite(k string) (PDU, error) {
	return p.get(spec.MRoomThirdPartyInvite, k)
}
func (p *rrProvider) Valid() bool { return true }

func rrAllowed(e PDU, state map[StateKeyTuple]PDU) bool {
	return Allowed(e, &rrProvider{m: state}, vfUserIDForSender) == nil
}

func rrKeyOf(e PDU) (StateKeyTuple, bool) {
	if e.StateKey() == nil {
		return StateKeyTuple{}, false
	}
	return StateKeyTuple{e.Type(), *e.StateKey()}, true
}

type rrStages struct {
	Conflicted   []string
	Unconflicted []string
	AuthDiff     []string
	Subgraph     []string
	Full         []string
	Power        []string // ordered
	Others       []string // ordered
	AfterPower   []string
}

func rrIDSet(m map[string]PDU) []string {
	var out []string
	for id := range m {
		out = append(out, id)
	}
	sort.Strings(out)
	return out
}

// ---- v1 ------------------------------------------------------------------------------------

func rrSortV1(block []PDU) []PDU {
	out := append([]PDU(nil), block...)
	sort.SliceStable(out, func(i, j int) bool {
		if out[i].Depth() != out[j].Depth() {
			return out[i].Depth() < out[j].Depth()
		}
		a, b := sha1.Sum([]byte(out[i].EventID())), sha1.Sum([]byte(out[j].EventID()))
		return bytes.Compare(a[:], b[:]) > 0
	})
	return out
}

func rresV1(sets [][]PDU, unconflictedAuth []PDU) []PDU {
	byKey := map[StateKeyTuple]map[string]PDU{}
	var keyOrder []StateKeyTuple
	for _, s := range sets {
		for _, e := range s {
			k, ok := rrKeyOf(e)
			if !ok {
				continue
			}
			if byKey[k] == nil {
				byKey[k] = map[string]PDU{}
				keyOrder = append(keyOrder, k)
			}
			byKey[k][e.EventID()] = e
		}
	}
	sort.Slice(keyOrder, func(i, j int) bool {
		if keyOrder[i].EventType != keyOrder[j].EventType {
			return keyOrder[i].EventType < keyOrder[j].EventType
		}
		return keyOrder[i].StateKey < keyOrder[j].StateKey
	})
	state := map[StateKeyTuple]PDU{}
	var result []PDU
	for _, a := range unconflictedAuth {
		if k, ok := rrKeyOf(a); ok {
			state[k] = a
		}
	}
	blocks := func(typ string) [][]PDU {
		var out [][]PDU
		for _, k := range keyOrder {
			if k.EventType != typ || len(byKey[k]) < 2 {
				continue
			}
			if (typ == spec.MRoomCreate || typ == spec.MRoomPowerLevels || typ == spec.MRoomJoinRules) && k.StateKey != "" {
				continue
			}
			var b []PDU
			for _, e := range byKey[k] {
				b = append(b, e)
			}
			out = append(out, b)
		}
		return out
	}
	isAuthType := func(k StateKeyTuple) bool {
		switch k.EventType {
		case spec.MRoomCreate, spec.MRoomPowerLevels, spec.MRoomJoinRules:
			return k.StateKey == ""
		case spec.MRoomMember, spec.MRoomThirdPartyInvite:
			return true
		}
		return false
	}
	for _, typ := range []string{spec.MRoomCreate, spec.MRoomPowerLevels, spec.MRoomJoinRules, spec.MRoomThirdPartyInvite, spec.MRoomMember} {
		var picked []PDU
		for _, block := range blocks(typ) {
			sorted := rrSortV1(block)
			k, _ := rrKeyOf(sorted[0])
			res := sorted[0]
			state[k] = res
			for _, e := range sorted[1:] {
				if rrAllowed(e, state) {
					res = e
					state[k] = e
				} else {
					break
				}
			}
			delete(state, k)
			picked = append(picked, res)
		}
		for _, e := range picked {
			k, _ := rrKeyOf(e)
			state[k] = e
			result = append(result, e)
		}
	}
	for _, k := range keyOrder {
		if len(byKey[k]) < 2 {
			for _, e := range byKey[k] {
				result = append(result, e) // not conflicted
			}
			continue
		}
		if isAuthType(k) {
			continue
		}
		var b []PDU
		for _, e := range byKey[k] {
			b = append(b, e)
		}
		sorted := rrSortV1(b)
		pick := sorted[0]
		for i := len(sorted) - 1; i > 0; i-- {
			if rrAllowed(sorted[i], state) {
				pick = sorted[i]
				break
			}
		}
		result = append(result, pick)
	}
	return result
}

// ---- v2 / v2.1 -------------------------------------------------------------------------------

type rrV2 struct {
	version  string
	v21      bool
	auth     map[string]PDU // supplied auth events by ID (R5)
	rejected map[string]bool
	create   PDU
}

func (r *rrV2) chain(e PDU, into map[string]PDU) {
	for _, id := range e.AuthEventIDs() {
		a, ok := r.auth[id]
		if !ok {
			continue
		}
		if _, seen := into[id]; seen {
			continue
		}
		into[id] = a
		r.chain(a, into)
	}
}

func rrIsPower(e PDU) bool {
	switch e.Type() {
	case spec.MRoomPowerLevels, spec.MRoomJoinRules:
		return e.StateKeyEquals("")
	case spec.MRoomMember:
		if e.StateKey() == nil || *e.StateKey() == "" || *e.StateKey() == string(e.SenderID()) {
			return false
		}
		ct, _, err := jparse(e.Content())
		if err != nil {
			return false
		}
		m := evStr(ct, "membership")
		return m == "leave" || m == "ban"
	}
	return false
}

func (r *rrV2) senderPower(e PDU) int64 {
	if vtraits[r.version].Creators && r.create != nil {
		ct, _, _ := jparse(r.create.Content())
		if string(r.create.SenderID()) == string(e.SenderID()) {
			return raInf
		}
		if ac, ok := ct.get("additional_creators"); ok {
			for _, x := range ac.A {
				if x.S == string(e.SenderID()) {
					return raInf
				}
			}
		}
	}
	for _, id := range e.AuthEventIDs() {
		a, ok := r.auth[id]
		if !ok || a.Type() != spec.MRoomPowerLevels || !a.StateKeyEquals("") {
			continue
		}
		ct, _, err := jparse(a.Content())
		if err != nil {
			return 0
		}
		pl, ok := raParsePL(r.version, ct)
		if !ok {
			return 0
		}
		if v, ok := pl.Users[string(e.SenderID())]; ok {
			return v
		}
		return pl.named("users_default")
	}
	return 0
}

// orderPower is refinement R1: Kahn from the events nobody in the set depends on; the greatest by
// (power desc, ts asc, id asc) is taken and prepended.
func (r *rrV2) orderPower(events map[string]PDU) []PDU {
	type item struct {
		e  PDU
		pl int64
	}
	less := func(a, b item) bool { // a sorts before b
		if a.pl != b.pl {
			return a.pl > b.pl
		}
		if a.e.OriginServerTS() != b.e.OriginServerTS() {
			return a.e.OriginServerTS() < b.e.OriginServerTS()
		}
		return a.e.EventID() < b.e.EventID()
	}
	in := map[string]int{}
	for id := range events {
		in[id] += 0
	}
	for _, e := range events {
		for _, a := range e.AuthEventIDs() {
			if _, ok := events[a]; ok {
				in[a]++
			}
		}
	}
	remaining := map[string]PDU{}
	for id, e := range events {
		remaining[id] = e
	}
	var avail []item
	for id, n := range in {
		if n == 0 {
			avail = append(avail, item{events[id], r.senderPower(events[id])})
			delete(remaining, id)
		}
	}
	var out []PDU
	for len(avail) > 0 {
		sort.Slice(avail, func(i, j int) bool { return less(avail[i], avail[j]) })
		it := avail[len(avail)-1]
		avail = avail[:len(avail)-1]
		out = append([]PDU{it.e}, out...)
		for _, a := range it.e.AuthEventIDs() {
			if _, ok := events[a]; !ok {
				continue
			}
			in[a]--
			if in[a] == 0 {
				if e, ok := remaining[a]; ok {
					avail = append(avail, item{e, r.senderPower(e)})
					delete(remaining, a)
				}
			}
		}
	}
	return out
}

func (r *rrV2) iterate(events []PDU, state map[StateKeyTuple]PDU) {
	for _, e := range events {
		needed := StateNeededForAuth([]PDU{e}).Tuples()
		s := map[StateKeyTuple]PDU{}
		for _, k := range needed {
			if cur, ok := state[k]; ok {
				s[k] = cur
				continue
			}
			for _, id := range e.AuthEventIDs() {
				if r.rejected[id] {
					continue
				}
				a, ok := r.auth[id]
				if !ok {
					continue
				}
				if ak, ok := rrKeyOf(a); ok && ak == k {
					s[k] = a
				}
			}
		}
		if rrAllowed(e, s) {
			if k, ok := rrKeyOf(e); ok {
				state[k] = e
			}
		}
	}
}

func (r *rrV2) plAuthOf(e PDU) PDU {
	for _, id := range e.AuthEventIDs() {
		if a, ok := r.auth[id]; ok && a.Type() == spec.MRoomPowerLevels && a.StateKeyEquals("") {
			return a
		}
	}
	return nil
}

func (r *rrV2) orderMainline(events []PDU, resolvedPL PDU) []PDU {
	// mainline, oldest first
	var mainline []PDU
	seen := map[string]bool{}
	for p := resolvedPL; p != nil && !seen[p.EventID()]; p = r.plAuthOf(p) {
		seen[p.EventID()] = true
		mainline = append([]PDU{p}, mainline...)
	}
	pos := map[string]int{}
	for i, p := range mainline {
		pos[p.EventID()] = i
	}
	type item struct {
		e          PDU
		pos, steps int
	}
	items := make([]item, 0, len(events))
	for _, e := range events {
		it := item{e: e}
		guard := map[string]bool{}
		for p := r.plAuthOf(e); p != nil && !guard[p.EventID()]; p = r.plAuthOf(p) {
			guard[p.EventID()] = true
			if i, ok := pos[p.EventID()]; ok {
				it.pos = i
				break
			}
			it.steps++
		}
		items = append(items, it)
	}
	sort.SliceStable(items, func(i, j int) bool {
		a, b := items[i], items[j]
		if a.pos != b.pos {
			return a.pos < b.pos
		}
		if a.steps != b.steps {
			return a.steps < b.steps
		}
		if a.e.OriginServerTS() != b.e.OriginServerTS() {
			return a.e.OriginServerTS() < b.e.OriginServerTS()
		}
		return a.e.EventID() < b.e.EventID()
	})
	out := make([]PDU, len(items))
	for i := range items {
		out[i] = items[i].e
	}
	return out
}

func rresV2(version string, v21 bool, sets [][]PDU, auth []PDU, rejected map[string]bool) ([]PDU, rrStages) {
	r := &rrV2{version: version, v21: v21, auth: map[string]PDU{}, rejected: rejected}
	for _, a := range auth {
		if _, ok := r.auth[a.EventID()]; !ok {
			r.auth[a.EventID()] = a
		}
		if a.Type() == spec.MRoomCreate && a.StateKeyEquals("") && r.create == nil {
			r.create = a
		}
	}
	var st rrStages
	// split
	type occ struct {
		events map[string]PDU
		count  map[string]int
	}
	byKey := map[StateKeyTuple]*occ{}
	for _, s := range sets {
		seenInSet := map[string]bool{}
		for _, e := range s {
			k, ok := rrKeyOf(e)
			if !ok || seenInSet[e.EventID()] {
				continue
			}
			seenInSet[e.EventID()] = true
			if byKey[k] == nil {
				byKey[k] = &occ{events: map[string]PDU{}, count: map[string]int{}}
			}
			byKey[k].events[e.EventID()] = e
			byKey[k].count[e.EventID()]++
		}
	}
	conflicted := map[string]PDU{}
	unconflicted := map[StateKeyTuple]PDU{}
	for k, o := range byKey {
		if len(o.events) == 1 {
			for id, e := range o.events {
				if o.count[id] == len(sets) {
					unconflicted[k] = e
				} else {
					conflicted[id] = e
				}
			}
			continue
		}
		for id, e := range o.events {
			conflicted[id] = e
		}
	}
	st.Conflicted = rrIDSet(conflicted)
	for _, e := range unconflicted {
		st.Unconflicted = append(st.Unconflicted, e.EventID())
	}
	sort.Strings(st.Unconflicted)
	// auth difference
	var chains []map[string]PDU
	for _, s := range sets {
		c := map[string]PDU{}
		for _, e := range s {
			r.chain(e, c)
		}
		chains = append(chains, c)
	}
	authDiff := map[string]PDU{}
	for _, c := range chains {
		for id, e := range c {
			inAll := true
			for _, c2 := range chains {
				if _, ok := c2[id]; !ok {
					inAll = false
				}
			}
			if !inAll {
				authDiff[id] = e
			}
		}
	}
	st.AuthDiff = rrIDSet(authDiff)
	full := map[string]PDU{}
	for id, e := range conflicted {
		full[id] = e
	}
	for id, e := range authDiff {
		full[id] = e
	}
	if v21 {
		// conflicted subgraph: n such that some conflicted event reaches n and n reaches some conflicted event
		anc := map[string]PDU{} // ancestors-or-self of conflicted events
		for id, e := range conflicted {
			anc[id] = e
			r.chain(e, anc)
		}
		reaches := map[string]bool{}
		var reach func(e PDU) bool
		visiting := map[string]bool{}
		reach = func(e PDU) bool {
			id := e.EventID()
			if v, ok := reaches[id]; ok {
				return v
			}
			if _, ok := conflicted[id]; ok {
				reaches[id] = true
				// still explore below so that deeper nodes get classified lazily when asked
				return true
			}
			if visiting[id] {
				return false
			}
			visiting[id] = true
			res := false
			for _, aid := range e.AuthEventIDs() {
				if a, ok := r.auth[aid]; ok && reach(a) {
					res = true
				}
			}
			visiting[id] = false
			reaches[id] = res
			return res
		}
		sub := map[string]PDU{}
		for id, e := range anc {
			if reach(e) {
				sub[id] = e
				full[id] = e
			}
		}
		st.Subgraph = rrIDSet(sub)
	}
	st.Full = rrIDSet(full)
	// power events and their auth chains within the full conflicted set
	power := map[string]PDU{}
	for id, e := range full {
		if rrIsPower(e) {
			power[id] = e
		}
	}
	for _, e := range append([]PDU(nil), mapValues(power)...) {
		c := map[string]PDU{}
		r.chain(e, c)
		for id, a := range c {
			if _, ok := full[id]; ok {
				power[id] = a
			}
		}
	}
	ordered := r.orderPower(power)
	for _, e := range ordered {
		st.Power = append(st.Power, e.EventID())
	}
	state := map[StateKeyTuple]PDU{}
	if !v21 {
		for k, e := range unconflicted {
			state[k] = e
		}
	}
	r.iterate(ordered, state)
	for _, e := range state {
		st.AfterPower = append(st.AfterPower, e.EventID())
	}
	sort.Strings(st.AfterPower)
	var others []PDU
	for id, e := range full {
		if _, ok := power[id]; !ok {
			others = append(others, e)
		}
	}
	sort.Slice(others, func(i, j int) bool { return others[i].EventID() < others[j].EventID() })
	others = r.orderMainline(others, state[StateKeyTuple{spec.MRoomPowerLevels, ""}])
	for _, e := range others {
		st.Others = append(st.Others, e.EventID())
	}
	r.iterate(others, state)
	for k, e := range unconflicted {
		state[k] = e
	}
	var result []PDU
	for _, e := range state {
		result = append(result, e)
	}
	return result, st
}

func mapValues(m map[string]PDU) []PDU {
	out := make([]PDU, 0, len(m))
	for _, e := range m {
		out = append(out, e)
	}
	return out
}

// rres resolves with the algorithm of the room version.
func rres(version string, sets [][]PDU, auth []PDU, rejected map[string]bool) ([]PDU, rrStages) {
	switch vtraits[version].StateRes {
	case 1:
		return rresV1(sets, rrUnconflictedAuthV1(sets)), rrStages{}
	case 2:
		return rresV2(version, false, sets, auth, rejected)
	default:
		return rresV2(version, true, sets, auth, rejected)
	}
}

// rrUnconflictedAuthV1: the auth events the v1 resolver documents: the unconflicted events of
// the auth types, one per state key (refinement R4).
func rrUnconflictedAuthV1(sets [][]PDU) []PDU {
	byKey := map[StateKeyTuple]map[string]PDU{}
	for _, s := range sets {
		for _, e := range s {
			if k, ok := rrKeyOf(e); ok {
				if byKey[k] == nil {
					byKey[k] = map[string]PDU{}
				}
				byKey[k][e.EventID()] = e
			}
		}
	}
	var keys []StateKeyTuple
	for k := range byKey {
		keys = append(keys, k)
	}
	sort.Slice(keys, func(i, j int) bool {
		if keys[i].EventType != keys[j].EventType {
			return keys[i].EventType < keys[j].EventType
		}
		return keys[i].StateKey < keys[j].StateKey
	})
	var out []PDU
	for _, k := range keys {
		if len(byKey[k]) != 1 {
			continue
		}
		switch k.EventType {
		case spec.MRoomCreate, spec.MRoomPowerLevels, spec.MRoomJoinRules, spec.MRoomMember, spec.MRoomThirdPartyInvite:
			for _, e := range byKey[k] {
				out = append(out, e)
			}
		}
	}
	return out
}
